package rules

import (
	"go/ast"
	"go/constant"
	"go/token"
	"go/types"
	"sort"
	"strings"

	"verif/internal/flow"
)

// c08fn is one method of CircuitBreaker prepared for the flow engine, together with the
// same-package helpers it calls (they are interpreted in place by the engine and searched by
// the role finders), except the transition function, which is summarised.
type c08fn struct {
	v      *c08env
	f      *flow.Func
	fd     *ast.FuncDecl
	cons   string
	recv   types.Object
	recvR  string
	bodies []*flow.Func          // f and the helpers it reaches (not through transitTo)
	recvs  map[types.Object]bool // receivers of the CircuitBreaker methods among bodies
	recvRs []string              // their renderings (recvR first)
	defs   c08defs
	// stateR: renderings that denote the breaker state — the field through every receiver
	// first (nField entries), then local aliases (st := cb.state) which keep denoting the
	// *entry* state after a transition.
	stateR    []string
	nField    int
	aliasDefs map[types.Object]bool
	inline    func(*ast.CallExpr, *types.Func) *flow.Func
	rels      []*c08relSet
}

// c08relSet is a named group of role comparisons whose knowledge is mirrored into event keys
// (see mirror); objs are the variables / fields its operands mention.
type c08relSet struct {
	name string
	cms  []c08cmp
	objs map[types.Object]bool
	// keepOnTransit: not about a field the transition function rewrites
	keepOnTransit bool
}

// register makes a group of comparisons readable through rel (facts + mirror).
func (m *c08fn) register(name string, cms []c08cmp, keepOnTransit bool) {
	rs := &c08relSet{name: name, cms: cms, objs: map[types.Object]bool{}, keepOnTransit: keepOnTransit}
	for _, cm := range cms {
		ast.Inspect(cm.node, func(n ast.Node) bool {
			switch x := n.(type) {
			case *ast.Ident:
				if o := c08obj(m.f, x); o != nil {
					if _, isVar := o.(*types.Var); isVar {
						rs.objs[o] = true
					}
				}
			}
			return true
		})
	}
	m.rels = append(m.rels, rs)
}

var c08relNames = []string{"lt", "le", "gt", "ge", "eq", "ne"}

func (r c08rel) bits() []bool { return []bool{r.lt, r.le, r.gt, r.ge, r.eq, r.ne} }

// rel: what the state knows about the named comparison group — the engine's facts or their mirror.
func (m *c08fn) rel(st *flow.State, name string) c08rel {
	for _, rs := range m.rels {
		if rs.name != name {
			continue
		}
		r := c08relOf(m.f, st, rs.cms)
		var e c08rel
		p := []*bool{&e.lt, &e.le, &e.gt, &e.ge, &e.eq, &e.ne}
		for i, n := range c08relNames {
			*p[i] = st.Is("ev:rel:"+name+":"+n, flow.True)
		}
		return r.or(e)
	}
	return c08rel{}
}

func (m *c08fn) dropRel(st *flow.State, name string) {
	for _, n := range c08relNames {
		st.Set("ev:rel:"+name+":"+n, flow.Unknown)
	}
}

func (m *c08fn) mirrorRels(st *flow.State) {
	for _, rs := range m.rels {
		r := c08relOf(m.f, st, rs.cms)
		for i, b := range r.bits() {
			if k := "ev:rel:" + rs.name + ":" + c08relNames[i]; b && !st.Is(k, flow.True) {
				st.Set(k, flow.True)
			}
		}
	}
}

// dropWritten forgets the mirrored comparisons that mention a variable or field node n assigns.
func (m *c08fn) dropWritten(st *flow.State, n ast.Node) {
	var lhs []ast.Expr
	switch s := n.(type) {
	case *ast.AssignStmt:
		lhs = s.Lhs
	case *ast.IncDecStmt:
		lhs = []ast.Expr{s.X}
	case *ast.RangeStmt:
		lhs = []ast.Expr{s.Key, s.Value}
	default:
		return
	}
	for _, l := range lhs {
		if l == nil {
			continue
		}
		var o types.Object
		switch x := ast.Unparen(l).(type) {
		case *ast.Ident:
			o = c08obj(m.f, x)
		case *ast.SelectorExpr:
			if fv, _ := c08sel(m.f, x); fv != nil {
				o = fv
			}
		}
		if o == nil {
			continue
		}
		for _, rs := range m.rels {
			if rs.objs[o] {
				m.dropRel(st, rs.name)
			}
		}
	}
}

// c08reach is reach() that does not follow the calls to stop (the summarised transition function).
func c08reach(f *flow.Func, depth int, stop types.Object) []*flow.Func {
	out := []*flow.Func{f}
	seen := map[*ast.BlockStmt]bool{f.Body: true}
	frontier := []*flow.Func{f}
	for d := 0; d < depth && len(frontier) > 0; d++ {
		var next []*flow.Func
		for _, g := range frontier {
			ast.Inspect(g.Body, func(n ast.Node) bool {
				call, ok := n.(*ast.CallExpr)
				if !ok {
					return true
				}
				fo, ok := g.Callee(call).(*types.Func)
				if !ok || fo.Pkg() != g.Pkg.Types || (stop != nil && fo == stop) {
					return true
				}
				fd := declOf(g.Pkg, fo)
				if fd == nil || seen[fd.Body] {
					return true
				}
				seen[fd.Body] = true
				h := flow.NewFunc(g.Pkg, fd)
				out = append(out, h)
				next = append(next, h)
				return true
			})
		}
		frontier = next
	}
	return out
}

func (v *c08env) isCBMethod(fo *types.Func) bool {
	if fo == nil {
		return false
	}
	recv := fo.Type().(*types.Signature).Recv()
	if recv == nil {
		return false
	}
	t := recv.Type()
	if p, ok := t.(*types.Pointer); ok {
		t = p.Elem()
	}
	return types.Identical(t, v.cbT)
}

func (v *c08env) method(name string) *c08fn {
	fo := v.meth[name]
	if fo == nil {
		v.c.Errorf("anchor: role %s of CircuitBreaker not resolved", name)
		return nil
	}
	return v.methodFor(fo, name)
}

// subject finds the function that does the work of the exported method shell: shell itself if
// pred holds for its body, else the first same-package function it reaches (calls inside
// function literals — withLock(func(){..}) — included) for which pred holds.
func (v *c08env) subject(shell string, pred func(g *flow.Func) bool) *types.Func {
	fo := v.meth[shell]
	if fo == nil {
		return nil
	}
	fd := declOf(v.pkg, fo)
	if fd == nil {
		return fo
	}
	for _, g := range reach(flow.NewFunc(v.pkg, fd), 3) {
		gd, ok := g.Node.(*ast.FuncDecl)
		if !ok || !pred(g) {
			continue
		}
		if o, ok := v.pkg.TypesInfo.Defs[gd.Name].(*types.Func); ok && v.isCBMethod(o) {
			return o
		}
	}
	return fo
}

func (v *c08env) methodFor(fo *types.Func, name string) *c08fn {
	f := fn(v.c, c08cb, "CircuitBreaker", fo.Name())
	if f == nil {
		return nil
	}
	fd := f.Node.(*ast.FuncDecl)
	if fd.Recv == nil || len(fd.Recv.List) != 1 || len(fd.Recv.List[0].Names) != 1 {
		v.c.Errorf("anchor: %s has no named receiver", fname(c08cb, "CircuitBreaker", fo.Name()))
		return nil
	}
	id := fd.Recv.List[0].Names[0]
	m := &c08fn{v: v, f: f, fd: fd, cons: fname(c08cb, "CircuitBreaker", fo.Name()), recv: f.Info.Defs[id], recvR: f.Render(id),
		aliasDefs: map[types.Object]bool{}, recvs: map[types.Object]bool{}, defs: c08defs{}}
	var stop types.Object
	if name != "transitTo" {
		stop = v.meth["transitTo"]
		m.inline = inlineSamePkg(f, stop)
	} else {
		m.inline = inlineSamePkg(f)
	}
	m.bodies = c08reach(f, 3, stop)
	for _, g := range m.bodies {
		gd, ok := g.Node.(*ast.FuncDecl)
		if !ok {
			continue
		}
		for o, ds := range c08collectDefs(g, gd.Body) {
			m.defs[o] = append(m.defs[o], ds...)
		}
		if gd.Recv != nil && len(gd.Recv.List) == 1 && len(gd.Recv.List[0].Names) == 1 {
			rid := gd.Recv.List[0].Names[0]
			if go1, _ := f.Info.Defs[gd.Name].(*types.Func); v.isCBMethod(go1) {
				m.recvs[f.Info.Defs[rid]] = true
				m.recvRs = append(m.recvRs, f.Render(rid))
			}
		}
	}
	for _, r := range m.recvRs {
		m.stateR = append(m.stateR, r+"."+v.fld["state"].Name())
	}
	m.nField = len(m.stateR)
	m.eachNode(func(n ast.Node) bool {
		id, ok := n.(*ast.Ident)
		if !ok {
			return true
		}
		o := f.Info.Defs[id]
		if o == nil || m.aliasDefs[o] {
			return true
		}
		if ds := m.defs[o]; len(ds) == 1 && ds[0] != nil && m.isRecvField(ds[0], v.fld["state"]) {
			m.aliasDefs[o] = true
			m.stateR = append(m.stateR, f.Render(id))
		}
		return true
	})
	return m
}

// eachNode walks the bodies of the method and of its helpers.
func (m *c08fn) eachNode(visit func(ast.Node) bool) {
	for _, g := range m.bodies {
		ast.Inspect(g.Body, func(n ast.Node) bool {
			if n == nil {
				return true
			}
			return visit(n)
		})
	}
}

func (m *c08fn) nodes() []ast.Node {
	var out []ast.Node
	for _, g := range m.bodies {
		out = append(out, g.Body)
	}
	return out
}

// allCalls lists the call expressions of the method and its helpers (function literals included).
func (m *c08fn) allCalls() []*ast.CallExpr {
	var out []*ast.CallExpr
	for _, g := range m.bodies {
		out = append(out, calls(g.Body, true)...)
	}
	return out
}

func (m *c08fn) findCmps(withEq bool, a, b func(ast.Expr) bool) []c08cmp {
	return c08findCmpsIn(m.nodes(), withEq, a, b)
}

// notInlined names the CircuitBreaker helpers called from the bodies which the engine did not
// interpret in place (a call form it keeps opaque): the analysis cannot see through them.
func (m *c08fn) notInlined(res *flow.Result) []string {
	inl := map[string]bool{}
	for _, n := range res.Inlined {
		inl[n] = true
	}
	var out []string
	seen := map[*types.Func]bool{}
	for _, call := range m.allCalls() {
		fo, ok := m.f.Callee(call).(*types.Func)
		if !ok || seen[fo] || fo == m.v.meth["transitTo"] || !m.v.isCBMethod(fo) || fo.Pkg() != m.v.pkg.Types {
			continue
		}
		seen[fo] = true
		fd := declOf(m.v.pkg, fo)
		if fd == nil {
			continue
		}
		if !inl[flow.NewFunc(m.v.pkg, fd).Name] {
			out = append(out, fo.Name())
		}
	}
	sort.Strings(out)
	return out
}

func (m *c08fn) isRecvField(e ast.Expr, fv *types.Var) bool {
	got, base := c08sel(m.f, e)
	if got == nil || got != fv {
		return false
	}
	id, ok := ast.Unparen(base).(*ast.Ident)
	return ok && m.recvs[c08obj(m.f, id)]
}

// denotes: e is the receiver's field fv, directly or through a single-assignment alias.
func (m *c08fn) denotes(e ast.Expr, fv *types.Var) bool {
	return m.isRecvField(m.defs.resolve(m.f, e), fv)
}

func (m *c08fn) polSel(e ast.Expr, name string) bool {
	got, _ := c08sel(m.f, e)
	return got != nil && got == m.v.pol[name]
}

func (m *c08fn) denotesPol(e ast.Expr, name string) bool {
	return m.polSel(m.defs.resolve(m.f, e), name)
}

func (m *c08fn) mentionsPol(e ast.Expr, name string) bool {
	return m.defs.mentions(m.f, e, func(x ast.Expr) bool { return m.polSel(x, name) })
}

func (m *c08fn) mentionsFld(e ast.Expr, fv *types.Var) bool {
	return m.defs.mentions(m.f, e, func(x ast.Expr) bool { return m.isRecvField(x, fv) })
}

// isWin: call invokes method name of the Window interface on the receiver's window.
func (m *c08fn) isWin(call *ast.CallExpr, name string) bool {
	fo, ok := m.f.Callee(call).(*types.Func)
	if !ok || fo.Name() != name {
		return false
	}
	recv := fo.Type().(*types.Signature).Recv()
	if recv == nil {
		return false
	}
	if !types.Identical(recv.Type(), m.v.winT) && !types.Identical(recv.Type().Underlying(), m.v.winT.Underlying()) {
		return false
	}
	sel, ok := ast.Unparen(call.Fun).(*ast.SelectorExpr)
	return ok && m.denotes(sel.X, m.v.fld["window"])
}

func (m *c08fn) isWinExpr(e ast.Expr, name string) bool {
	call, ok := ast.Unparen(e).(*ast.CallExpr)
	return ok && m.isWin(call, name)
}

// isTransit: call is recv.transitTo(...).
func (m *c08fn) isTransit(call *ast.CallExpr, callee types.Object) bool {
	if callee != m.v.meth["transitTo"] {
		return false
	}
	sel, ok := ast.Unparen(call.Fun).(*ast.SelectorExpr)
	if !ok {
		return false
	}
	id, ok := ast.Unparen(sel.X).(*ast.Ident)
	return ok && m.recvs[c08obj(m.f, id)]
}

func (m *c08fn) target(call *ast.CallExpr) string {
	if len(call.Args) > 0 {
		if cv := c08constOf(m.f, call.Args[0]); cv != nil {
			for n, val := range m.v.stateVal {
				if val == cv.ExactString() {
					return n
				}
			}
		}
	}
	return "?"
}

// pure: under the breaker lock only the breaker's own methods change its fields; transitTo is
// summarised by onTransit (and the summary is checked by R-C08-5), other methods havoc.
func (m *c08fn) pure(call *ast.CallExpr, callee types.Object) bool {
	fo, ok := callee.(*types.Func)
	if !ok {
		return true
	}
	if fo == m.v.meth["transitTo"] {
		return true
	}
	return !m.v.isCBMethod(fo)
}

// c08transits lists the targets of the transitTo calls executed so far.
func c08transits(st *flow.State) []string {
	var out []string
	facts := st.Facts()
	for i := 1; i <= 3; i++ {
		prefix := sprintf("ev:tr:%d:", i)
		found := ""
		for _, kv := range facts {
			if k := c08factKey(kv); strings.HasPrefix(k, prefix) {
				found = k[len(prefix):]
			}
		}
		if found == "" {
			break
		}
		out = append(out, found)
	}
	return out
}

// onTransit is the summary of recv.transitTo(S): remember the entry state at the first
// transition, forget what was known about the fields transitTo rewrites, state == S afterwards.
func (m *c08fn) onTransit(st *flow.State, call *ast.CallExpr) {
	target := m.target(call)
	n := len(c08transits(st))
	if n == 0 {
		for name, val := range m.curVals(st) {
			st.Set("ev:entry:"+name, val)
		}
	}
	if n < 3 {
		st.Set(sprintf("ev:tr:%d:%s", n+1, target), flow.True)
	}
	mut := []string{"state", "transitTime", "window", "stateID"}
	if target == c08HalfOpen || target == "?" {
		mut = append(mut, "numberOfCallsInHalfOpen")
	}
	for _, kv := range st.Facts() {
		k := c08factKey(kv)
		if strings.HasPrefix(k, "ev:") || strings.HasPrefix(k, "engine:") {
			continue
		}
	kill:
		for _, name := range mut {
			for _, r := range m.recvRs {
				if strings.Contains(k, r+"."+m.v.fld[name].Name()) {
					st.Set(k, flow.Unknown)
					break kill
				}
			}
		}
	}
	m.clearMirror(st)
	st.Set("ev:current", flow.Unknown)
	for _, rs := range m.rels {
		if !rs.keepOnTransit {
			m.dropRel(st, rs.name)
		}
	}
	if target != "?" {
		for _, r := range m.stateR[:m.nField] {
			st.Set("eq:"+r+"=="+m.v.stateVal[target], flow.True)
		}
		m.mirror(st)
	}
}

func (m *c08fn) derive(out map[string]flow.Val) map[string]flow.Val {
	isTrue := ""
	falses := 0
	for n, x := range out {
		if x == flow.True {
			isTrue = n
		}
		if x == flow.False {
			falses++
		}
	}
	if isTrue != "" {
		for n := range m.v.stateVal {
			if n != isTrue {
				out[n] = flow.False
			}
		}
	} else if falses == len(m.v.stateVal)-1 {
		for n := range m.v.stateVal {
			if out[n] != flow.False {
				out[n] = flow.True
			}
		}
	}
	return out
}

func (m *c08fn) valsOf(st *flow.State, renders []string) map[string]flow.Val {
	out := map[string]flow.Val{}
	for n, cv := range m.v.stateVal {
		for _, r := range renders {
			if x := st.Get("eq:" + r + "==" + cv); x != flow.Unknown {
				out[n] = x
			}
		}
	}
	return out
}

// curVals: what is known about the breaker's state now — the engine's facts plus their mirror
// in event keys (see mirror).
func (m *c08fn) curVals(st *flow.State) map[string]flow.Val {
	rs := m.stateR[:m.nField]
	if len(c08transits(st)) == 0 {
		rs = m.stateR
	}
	out := m.valsOf(st, rs)
	for n := range m.v.stateVal {
		if x := st.Get("ev:cur:" + n); x != flow.Unknown {
			out[n] = x
		}
	}
	return m.derive(out)
}

// mirror copies what the state knows about the breaker's state into event keys, which the
// engine never kills. Needed because inlining a helper twice from the same state (the two
// outcomes of `if cb.helper()`) makes the engine forget the caller's facts about the receiver's
// fields in the second run (the first run's copy-back adds the helper's receiver to their
// dependencies and the next bind kills them). Sound under the rule's standing assumption that
// under the lock only transitTo (summarised by onTransit) and direct stores (clearMirror)
// change the state.
func (m *c08fn) mirror(st *flow.State) {
	m.mirrorRels(st)
	for n, x := range m.curVals(st) {
		if x != flow.Unknown && st.Get("ev:cur:"+n) != x {
			st.Set("ev:cur:"+n, x)
		}
	}
}

func (m *c08fn) clearMirror(st *flow.State) {
	for n := range m.v.stateVal {
		st.Set("ev:cur:"+n, flow.Unknown)
	}
}

// hookNode is the part of OnNode common to the analyses of AcquirePermission and RecordResult.
func (m *c08fn) hookNode(st *flow.State, n ast.Node) {
	m.mirror(st) // what was known before this node ...
	m.dropWritten(st, n)
	if w, _, _ := m.writeKind(n, m.v.fld["state"]); w {
		m.clearMirror(st)
		return
	}
	m.mirror(st)
}

// entryVals: what is known about the state in which the function was entered.
func (m *c08fn) entryVals(st *flow.State) map[string]flow.Val {
	if len(c08transits(st)) == 0 {
		return m.curVals(st)
	}
	out := m.valsOf(st, m.stateR[m.nField:])
	for n := range m.v.stateVal {
		if x := st.Get("ev:entry:" + n); x != flow.Unknown {
			out[n] = x
		}
	}
	return m.derive(out)
}

func c08roles() []string {
	return []string{c08Disabled, c08Closed, c08HalfOpen, c08Open, c08ForceOpen}
}

// isIncrement classifies a write to field fv in node n: +1 (true,true), other write
// (true,false), no write (false,false).
func (m *c08fn) writeKind(n ast.Node, fv *types.Var) (writes, plusOne, zero bool) {
	isOne := func(e ast.Expr) bool {
		cv := c08constOf(m.f, e)
		return cv != nil && cv.ExactString() == "1"
	}
	switch s := n.(type) {
	case *ast.IncDecStmt:
		if m.isRecvField(s.X, fv) {
			return true, s.Tok == token.INC, false
		}
	case *ast.AssignStmt:
		for i, l := range s.Lhs {
			if !m.isRecvField(l, fv) {
				continue
			}
			if len(s.Lhs) != len(s.Rhs) {
				return true, false, false
			}
			r := ast.Unparen(s.Rhs[i])
			switch s.Tok {
			case token.ADD_ASSIGN:
				return true, isOne(r), false
			case token.ASSIGN:
				if be, ok := r.(*ast.BinaryExpr); ok && be.Op == token.ADD {
					if (m.isRecvField(be.X, fv) && isOne(be.Y)) || (m.isRecvField(be.Y, fv) && isOne(be.X)) {
						return true, true, false
					}
				}
				if cv := c08constOf(m.f, r); cv != nil && cv.ExactString() == "0" {
					return true, false, true
				}
				return true, false, false
			default:
				return true, false, false
			}
		}
	}
	return false, false, false
}

type c08verdicts struct {
	order []string
	n     map[string]int
	bad   map[string]string
	w     map[string][]string
}

func c08newVerdicts(names ...string) *c08verdicts {
	vd := &c08verdicts{n: map[string]int{}, bad: map[string]string{}, w: map[string][]string{}}
	vd.order = append(vd.order, names...)
	return vd
}

func (vd *c08verdicts) seen(name string) {
	if _, ok := vd.n[name]; !ok {
		found := false
		for _, o := range vd.order {
			found = found || o == name
		}
		if !found {
			vd.order = append(vd.order, name)
		}
	}
	vd.n[name]++
}

func (vd *c08verdicts) fail(name, why string, st *flow.State) {
	if vd.bad[name] == "" {
		vd.bad[name] = why
		vd.w[name] = witness(st)
	}
}

// ---------------------------------------------------------------------------------------
// R-C08-2 admission table

func c08Admission(v *c08env) {
	c := v.c
	// the function that decides: the exported method itself, or the helper it hands the work to
	// (acquire() called under withLock): the one whose own body tests the state field
	stateF0 := v.fld["state"]
	subj := v.subject("AcquirePermission", func(g *flow.Func) bool {
		found := false
		ast.Inspect(g.Body, func(n ast.Node) bool {
			switch x := n.(type) {
			case *ast.BinaryExpr:
				if x.Op == token.EQL || x.Op == token.NEQ {
					for _, side := range []ast.Expr{x.X, x.Y} {
						if fv, _ := c08sel(g, side); fv == stateF0 {
							found = true
						}
					}
				}
			case *ast.SwitchStmt:
				if x.Tag != nil {
					if fv, _ := c08sel(g, x.Tag); fv == stateF0 {
						found = true
					}
				}
			}
			return !found
		})
		return found
	})
	if subj == nil {
		return
	}
	m := v.methodFor(subj, "AcquirePermission")
	if m == nil {
		return
	}
	f := m.f
	body := m.fd.Body
	if subj != v.meth["AcquirePermission"] {
		c08Shell(v, "R-C08-2", v.meth["AcquirePermission"], subj, []string{"bool", "uint32"})
	}
	ctrF, ttF, idF := v.fld["numberOfCallsInHalfOpen"], v.fld["transitTime"], v.fld["stateID"]
	ctrCmps := m.findCmps(false,
		func(e ast.Expr) bool { return m.denotes(e, ctrF) },
		func(e ast.Expr) bool { return m.mentionsPol(e, "PermittedNumberOfCallsInHalfOpen") })
	waitCmps := m.findCmps(false,
		func(e ast.Expr) bool { return m.mentionsFld(e, ttF) },
		func(e ast.Expr) bool { return m.mentionsPol(e, "WaitDurationInOpen") })
	maxCmps := m.findCmps(false,
		func(e ast.Expr) bool { return m.mentionsFld(e, ttF) },
		func(e ast.Expr) bool { return m.mentionsPol(e, "MaxWaitDurationInHalfOpen") })
	maxSet := m.findCmps(true,
		func(e ast.Expr) bool { return m.denotesPol(e, "MaxWaitDurationInHalfOpen") },
		func(e ast.Expr) bool { return c08constOf(f, e) != nil })
	c.Count("R-C08-2:role comparisons resolved", len(ctrCmps)+len(waitCmps)+len(maxCmps)+len(maxSet))
	m.register("ctr", ctrCmps, false)
	m.register("wait", waitCmps, false)
	m.register("max", maxCmps, false)

	// "the timeout is set": the comparison with a constant separates 0 (unset) from a positive duration
	var maxIsSetFacts func(st *flow.State) bool
	maxIsSet := func(st *flow.State) bool { return st.Is("ev:maxset", flow.True) || maxIsSetFacts(st) }
	maxIsSetFacts = func(st *flow.State) bool {
		for _, cm := range maxSet {
			t := c08truth(f, st, cm.node)
			if t == flow.Unknown {
				continue
			}
			other := cm.node.Y
			op := cm.node.Op
			if !cm.aIsX {
				other = cm.node.X
				op = c08mirror(op)
			}
			cv := constant.ToInt(c08constOf(f, other))
			if cv.Kind() != constant.Int {
				continue
			}
			t1 := constant.Compare(constant.MakeInt64(1), op, cv)
			t0 := constant.Compare(constant.MakeInt64(0), op, cv)
			if t1 != t0 && (t == flow.True) == t1 {
				return true
			}
		}
		return false
	}

	var incNodes []ast.Node
	var transitCalls []*ast.CallExpr
	for _, call := range m.allCalls() {
		if m.isTransit(call, f.Callee(call)) {
			transitCalls = append(transitCalls, call)
		}
	}
	m.eachNode(func(n ast.Node) bool {
		if w, inc, _ := m.writeKind(n, ctrF); w && inc {
			incNodes = append(incNodes, n)
		}
		return true
	})

	res := analyze(c, f, flow.Config{
		Pure:     m.pure,
		Inline:   m.inline,
		OnInline: c08constParams(f),
		AfterAssume: func(st *flow.State, cond ast.Expr, outcome bool) {
			m.mirror(st)
			if maxIsSetFacts(st) {
				st.Set("ev:maxset", flow.True) // the policy is immutable: never dropped
			}
		},
		OnNode: func(st *flow.State, n ast.Node) {
			m.hookNode(st, n)
			if maxIsSetFacts(st) {
				st.Set("ev:maxset", flow.True)
			}
			if w, inc, _ := m.writeKind(n, ctrF); w {
				if inc {
					c08bump(st, "inc")
				} else {
					st.Set("ev:ctrOther", flow.True)
				}
			}
			if as, ok := n.(*ast.AssignStmt); ok && len(as.Lhs) == len(as.Rhs) {
				for i, l := range as.Lhs {
					id, ok := ast.Unparen(l).(*ast.Ident)
					if !ok {
						continue
					}
					if m.isRecvField(as.Rhs[i], idF) {
						st.Set("ev:idfresh:"+f.Render(id), flow.True)
					}
					if m.aliasDefs[c08obj(f, id)] && len(c08transits(st)) > 0 {
						st.Set("ev:aliasLate", flow.True)
					}
				}
			}
		},
		OnCall: func(st *flow.State, call *ast.CallExpr, callee types.Object, deferred bool) {
			m.mirror(st)
			if maxIsSetFacts(st) {
				st.Set("ev:maxset", flow.True)
			}
			if !m.isTransit(call, callee) {
				return
			}
			if len(c08transits(st)) == 0 {
				r := m.rel(st, "wait")
				switch {
				case r.ge || r.gt:
					st.Set("ev:waitElapsed", flow.True)
				case r.lt || r.le:
					st.Set("ev:waitElapsed", flow.False)
				}
			}
			m.onTransit(st, call)
			for _, kv := range st.Facts() {
				if k := c08factKey(kv); strings.HasPrefix(k, "ev:idfresh:") {
					st.Set(k, flow.False)
				}
			}
		},
	})
	if res == nil {
		return
	}
	c08dump("admission", f, res)
	if ni := m.notInlined(res); len(ni) > 0 {
		c.Undecide("R-C08-2", m.cons+"|helpers interpreted in place", pos(c, m.fd.Name), "the engine keeps the call(s) to "+strings.Join(ni, ", ")+" opaque; the admission table cannot be read through them")
		return
	}

	// the returned (permitted, stateID): two results, named results, or the fields of a struct
	// literal (permission{granted: .., stateID: ..}), possibly built by a helper the engine
	// interpreted in place (ex.Ret() is then the helper's return statement)
	resultExprs := func(ex *flow.Exit) (perm, id ast.Expr) {
		var rs []ast.Expr
		if r := ex.Ret(); r != nil {
			rs = r.Results
		}
		if len(rs) == 0 && f.Type.Results != nil {
			for _, fl := range f.Type.Results.List {
				for _, n := range fl.Names {
					rs = append(rs, n)
				}
			}
		}
		if len(rs) == 1 {
			e := ast.Unparen(rs[0])
			if u, ok := e.(*ast.UnaryExpr); ok && u.Op == token.AND {
				e = ast.Unparen(u.X)
			}
			if cl, ok := e.(*ast.CompositeLit); ok {
				if stT, ok := f.Info.TypeOf(cl).Underlying().(*types.Struct); ok {
					for i, el := range cl.Elts {
						var ft types.Type
						val := el
						if kv, ok := el.(*ast.KeyValueExpr); ok {
							val = kv.Value
							if kid, ok := kv.Key.(*ast.Ident); ok {
								if fo, ok := f.Info.Uses[kid].(*types.Var); ok {
									ft = fo.Type()
								}
							}
						} else if i < stT.NumFields() {
							ft = stT.Field(i).Type()
						}
						if ft == nil {
							continue
						}
						if b, ok := ft.Underlying().(*types.Basic); ok {
							switch b.Kind() {
							case types.Bool:
								perm = ast.Unparen(val)
							case types.Uint32:
								id = ast.Unparen(val)
							}
						}
					}
				}
			}
			return
		}
		if len(rs) >= 1 {
			perm = ast.Unparen(rs[0])
		}
		if len(rs) >= 2 {
			id = ast.Unparen(rs[1])
		}
		return
	}
	permOf := func(ex *flow.Exit) flow.Val {
		e, _ := resultExprs(ex)
		if e == nil {
			return flow.Unknown
		}
		if cv := c08constOf(f, e); cv != nil && cv.Kind() == constant.Bool {
			if constant.BoolVal(cv) {
				return flow.True
			}
			return flow.False
		}
		if id, ok := e.(*ast.Ident); ok {
			if x := ex.State.Get(f.VarKey(id)); x != flow.Unknown {
				return x
			}
			switch {
			case ex.State.Is("ev:pc:"+f.Render(id)+"==true", flow.True):
				return flow.True
			case ex.State.Is("ev:pc:"+f.Render(id)+"==false", flow.True):
				return flow.False
			}
			return flow.Unknown
		}
		return c08truth(f, ex.State, e)
	}
	idOf := func(ex *flow.Exit) ast.Expr {
		_, e := resultExprs(ex)
		return e
	}

	rows := c08newVerdicts(c08roles()...)
	idv := c08newVerdicts("id")
	exits := 0
	aliasLate, dynTarget := false, false
	for _, ex := range res.Exits {
		st := ex.State
		if ex.Kind != flow.ExitReturn {
			rows.fail(c08Closed, "AcquirePermission can panic", st)
			continue
		}
		exits++
		perm := permOf(ex)
		trs := c08transits(st)
		entry := m.entryVals(st)
		incs := c08count(st, "inc")
		other := st.Is("ev:ctrOther", flow.True)
		if st.Is("ev:aliasLate", flow.True) {
			aliasLate = true
		}
		dyn := false
		for _, t := range trs {
			dyn = dyn || t == "?"
		}
		if dyn {
			dynTarget = true
			continue
		}
		halfRow := func(row string, rest []string) {
			switch perm {
			case flow.True:
				if other {
					rows.fail(row, "a trial call is admitted in HalfOpen with the trial counter modified other than by +1: the number of trials admitted is no longer exactly permittedNumberOfCallsInHalfOpenState", st)
				} else if incs != 1 {
					rows.fail(row, sprintf("a trial call is admitted in HalfOpen with the trial counter incremented %d time(s) instead of exactly once: the number of trials is no longer bounded by permittedNumberOfCallsInHalfOpenState", incs), st)
				}
				if len(rest) > 0 {
					rows.fail(row, "a call is admitted although the same AcquirePermission moves the breaker on to "+strings.Join(rest, ","), st)
				}
			case flow.False:
				if incs != 0 || other {
					rows.fail(row, "a rejected call is counted as a half-open trial: rejected calls use up the permitted trials, fewer results than required arrive and the breaker stays HalfOpen", st)
				}
				switch {
				case len(rest) == 0:
					if r := m.rel(st, "ctr"); !r.ge {
						rows.fail(row, "a call is rejected in HalfOpen although calls < permitted is not excluded (known: counter vs permitted "+r.String()+"): the first permitted trials must be admitted", st)
					}
				case len(rest) == 1 && rest[0] == c08Open:
					// preconditions checked at the transition site
				default:
					rows.fail(row, "unexpected transition(s) "+strings.Join(rest, ",")+" on a rejected half-open call", st)
				}
			default:
				rows.fail(row, "the admission result is not determined by the path", st)
			}
		}
		for _, name := range c08roles() {
			if entry[name] == flow.False {
				continue
			}
			rows.seen(name)
			switch name {
			case c08Disabled, c08Closed:
				if perm != flow.True {
					rows.fail(name, "a call is not admitted while the breaker is "+name+" (every call must pass)", st)
				}
				if len(trs) > 0 {
					rows.fail(name, "AcquirePermission changes the state of a "+name+" breaker (to "+strings.Join(trs, ",")+")", st)
				}
				if incs != 0 || other {
					rows.fail(name, "the half-open trial counter is modified while "+name, st)
				}
			case c08ForceOpen:
				if perm != flow.False {
					rows.fail(name, "a call is admitted while the breaker is forced open", st)
				}
				if len(trs) > 0 || incs != 0 || other {
					rows.fail(name, "AcquirePermission changes state/counter of a forced-open breaker", st)
				}
			case c08Open:
				elapsed := flow.Unknown
				if len(trs) > 0 {
					elapsed = st.Get("ev:waitElapsed")
				} else if r := m.rel(st, "wait"); r.ge || r.gt {
					elapsed = flow.True
				} else if r.lt || r.le {
					elapsed = flow.False
				}
				switch elapsed {
				case flow.False:
					if perm != flow.False {
						rows.fail(name, "a call is admitted while Open before waitDurationInOpenState has elapsed (must be short-circuited)", st)
					}
					if len(trs) > 0 {
						rows.fail(name, "the breaker leaves Open before waitDurationInOpenState has elapsed", st)
					}
					if incs != 0 || other {
						rows.fail(name, "the half-open trial counter is modified while Open", st)
					}
				case flow.True:
					if len(trs) == 0 || trs[0] != c08HalfOpen {
						rows.fail(name, "an Open breaker whose wait duration has elapsed does not move to HalfOpen: it would never admit a trial and never recover", st)
					} else {
						halfRow(name, trs[1:])
					}
				default:
					rows.fail(name, "the Open row is decided without comparing the time since the transition with WaitDurationInOpen", st)
				}
			case c08HalfOpen:
				halfRow(name, trs)
			}
		}
		// the stateID handed out must be the one of the state in which the call was admitted
		if perm != flow.False {
			idv.seen("id")
			e := idOf(ex)
			switch {
			case e == nil:
				idv.fail("id", "no stateID is returned", st)
			case m.isRecvField(e, idF):
			default:
				if id, ok := e.(*ast.Ident); ok {
					if !st.Is("ev:idfresh:"+f.Render(id), flow.True) {
						idv.fail("id", "the stateID returned with an admission was read before the transition made in the same call (or is not the breaker's stateID): RecordResult discards the trial's result as stale and the breaker never leaves HalfOpen", st)
					}
				} else {
					idv.fail("id", "the stateID returned with an admission is not the breaker's current stateID", st)
				}
			}
		}
	}
	if !c.RequireCount("R-C08-2", "exits of AcquirePermission", exits, 4) {
		return
	}
	if aliasLate {
		c.Undecide("R-C08-2", m.cons+"|state alias", pos(c, body), "a local copy of the state is taken after a transition")
	}
	if dynTarget {
		c.Undecide("R-C08-2", m.cons+"|transition target", pos(c, body), "transitTo is called with a target that is not a State constant")
	}
	at := pos(c, m.fd.Name)
	for _, name := range c08roles() {
		if rows.n[name] == 0 && rows.bad[name] == "" {
			c.Undecide("R-C08-2", m.cons+"|row "+name, at, "no exit of AcquirePermission is compatible with entry state "+name)
			continue
		}
		c.Check(rows.bad[name] == "", "R-C08-2", m.cons+"|row "+name, at,
			sprintf("%d abstract exits compatible with entry state %s agree with the admission table", rows.n[name], name), rows.bad[name], rows.w[name]...)
	}
	c.Check(idv.bad["id"] == "", "R-C08-2", m.cons+"|returned stateID is current", at,
		sprintf("%d admitting exits return the breaker's stateID read after the last transition", idv.n["id"]), idv.bad["id"], idv.w["id"]...)

	// the trial counter is incremented only below the permitted number, in HalfOpen
	inc := c08newVerdicts("inc")
	for _, n := range incNodes {
		for _, st := range res.At[n] {
			inc.seen("inc")
			if r := m.rel(st, "ctr"); !r.lt {
				inc.fail("inc", "the trial counter is incremented without calls < permitted being established (known: counter vs permitted "+r.String()+"): more than permittedNumberOfCallsInHalfOpenState calls are admitted, or rejected calls are counted", st)
			}
			if m.curVals(st)[c08HalfOpen] != flow.True {
				inc.fail("inc", "the trial counter is incremented in a state other than HalfOpen", st)
			}
		}
	}
	if inc.n["inc"] == 0 {
		c.Violate("R-C08-2", m.cons+"|trial counter increment", at, "AcquirePermission never increments the half-open trial counter by one: the number of calls admitted in HalfOpen is not permittedNumberOfCallsInHalfOpenState")
	} else {
		c.Check(inc.bad["inc"] == "", "R-C08-2", m.cons+"|trial counter increment", pos(c, incNodes[0]),
			sprintf("%d states at the increment all have calls < permitted in HalfOpen", inc.n["inc"]), inc.bad["inc"], inc.w["inc"]...)
	}

	// HalfOpen -> Open timeout only on the rejected row, when set and elapsed
	tmo := c08newVerdicts("tmo")
	var tmoAt ast.Node
	for _, call := range transitCalls {
		if m.target(call) != c08Open {
			continue
		}
		tmoAt = call
		for _, st := range res.At[call] {
			tmo.seen("tmo")
			if m.curVals(st)[c08HalfOpen] != flow.True {
				tmo.fail("tmo", "AcquirePermission moves the breaker to Open from a state other than HalfOpen", st)
			}
			if r := m.rel(st, "ctr"); !r.ge {
				tmo.fail("tmo", "the half-open timeout reopens the breaker before the permitted trial calls have been admitted (known: counter vs permitted "+r.String()+"): with a short maxWaitDurationInHalfOpenState no trial ever gets through", st)
			}
			if !maxIsSet(st) {
				tmo.fail("tmo", "the half-open timeout fires although maxWaitDurationInHalfOpenState is not set (0): the breaker reopens while its trials are still in flight and their results are dropped as stale", st)
			}
			if r := m.rel(st, "max"); !(r.gt || r.ge) {
				tmo.fail("tmo", "the half-open timeout reopens the breaker without maxWaitDurationInHalfOpenState having elapsed since the transition", st)
			}
			if c08count(st, "inc") != 0 {
				tmo.fail("tmo", "the call that reopens the breaker was counted as a trial", st)
			}
		}
	}
	if tmo.n["tmo"] == 0 {
		c.Violate("R-C08-2", m.cons+"|half-open timeout", at, "AcquirePermission never reopens a stalled HalfOpen breaker: maxWaitDurationInHalfOpenState has no effect")
	} else {
		c.Check(tmo.bad["tmo"] == "", "R-C08-2", m.cons+"|half-open timeout", pos(c, tmoAt),
			sprintf("%d states at the HalfOpen->Open transition: HalfOpen, calls >= permitted, timeout set and elapsed", tmo.n["tmo"]), tmo.bad["tmo"], tmo.w["tmo"]...)
	}
}

// ---------------------------------------------------------------------------------------
// R-C08-3 stale results, R-C08-4 transition table

func c08Record(v *c08env) {
	c := v.c
	// the function that records: the exported method itself, or the helper it hands the work to
	// (record() called under withLock): the one whose own body pushes into the window
	winT := v.winT
	subj := v.subject("RecordResult", func(g *flow.Func) bool {
		for _, call := range calls(g.Body, true) {
			if fo, ok := g.Callee(call).(*types.Func); ok && fo.Name() == "Push" {
				if recv := fo.Type().(*types.Signature).Recv(); recv != nil &&
					(types.Identical(recv.Type(), winT) || types.Identical(recv.Type().Underlying(), winT.Underlying())) {
					return true
				}
			}
		}
		return false
	})
	if subj == nil {
		return
	}
	shell := v.meth["RecordResult"]
	m := v.methodFor(subj, "RecordResult")
	if m == nil {
		return
	}
	f := m.f
	idF := v.fld["stateID"]
	// parameters of the recording function and of its helpers (isStale(stateID))
	params := map[types.Object]bool{}
	for _, g := range m.bodies {
		if g.Type == nil || g.Type.Params == nil {
			continue
		}
		for _, fl := range g.Type.Params.List {
			for _, n := range fl.Names {
				params[f.Info.Defs[n]] = true
			}
		}
	}
	isParam := func(e ast.Expr) bool {
		id, ok := ast.Unparen(e).(*ast.Ident)
		return ok && params[c08obj(f, id)]
	}
	staleCmps := m.findCmps(true, isParam, func(e ast.Expr) bool { return m.denotes(e, idF) })
	isTotal := func(e ast.Expr) bool {
		return m.defs.mentions(f, e, func(x ast.Expr) bool { return m.isWinExpr(x, "Total") })
	}
	totalCmps := m.findCmps(false, isTotal, func(e ast.Expr) bool { return !isTotal(e) })
	// the threshold: the other side of the Total() comparison — a local variable, the policy
	// field itself, or the result of a same-package helper (then: the variables / policy fields
	// its return statements yield)
	thrObjs := map[types.Object]bool{}
	thrReturns := map[*ast.ReturnStmt]bool{}
	thrDirectMin := false
	helperDecl := func(e ast.Expr) *ast.FuncDecl {
		call, ok := ast.Unparen(e).(*ast.CallExpr)
		if !ok {
			return nil
		}
		fo, ok := f.Callee(call).(*types.Func)
		if !ok || fo.Pkg() != v.pkg.Types {
			return nil
		}
		return declOf(v.pkg, fo)
	}
	var addThr func(o ast.Expr, depth int)
	addThr = func(o ast.Expr, depth int) {
		o = ast.Unparen(o)
		if gd := helperDecl(o); gd != nil {
			ast.Inspect(gd.Body, func(n ast.Node) bool {
				if _, isLit := n.(*ast.FuncLit); isLit {
					return false
				}
				if rs, ok := n.(*ast.ReturnStmt); ok {
					thrReturns[rs] = true
					if len(rs.Results) == 1 {
						if id, ok := ast.Unparen(rs.Results[0]).(*ast.Ident); ok {
							thrObjs[c08obj(f, id)] = true
						}
					}
				}
				return true
			})
			if gd.Type.Results != nil {
				for _, fl := range gd.Type.Results.List {
					for _, n := range fl.Names {
						thrObjs[f.Info.Defs[n]] = true
					}
				}
			}
			return
		}
		if id, ok := o.(*ast.Ident); ok {
			obj := c08obj(f, id)
			thrObjs[obj] = true
			if depth < 2 {
				for _, d := range m.defs[obj] {
					if d != nil && helperDecl(d) != nil {
						addThr(d, depth+1)
					}
				}
			}
			return
		}
		if m.denotesPol(o, "MinimumNumberOfCalls") {
			thrDirectMin = true
		}
	}
	for _, cm := range totalCmps {
		o := cm.node.Y
		if !cm.aIsX {
			o = cm.node.X
		}
		addThr(o, 0)
	}
	isThr := func(e ast.Expr) bool {
		if id, ok := ast.Unparen(e).(*ast.Ident); ok && thrObjs[c08obj(f, id)] {
			return true
		}
		return m.polSel(e, "MinimumNumberOfCalls")
	}
	lowerCmps := m.findCmps(false, isThr, func(e ast.Expr) bool { return m.mentionsPol(e, "PermittedNumberOfCallsInHalfOpen") })
	failCmps := m.findCmps(false, func(e ast.Expr) bool { return !m.denotesPol(e, "FailureRateThreshold") },
		func(e ast.Expr) bool { return m.denotesPol(e, "FailureRateThreshold") })
	slowCmps := m.findCmps(false, func(e ast.Expr) bool { return !m.denotesPol(e, "SlowCallRateThreshold") },
		func(e ast.Expr) bool { return m.denotesPol(e, "SlowCallRateThreshold") })
	c.Count("R-C08-4:role comparisons resolved", len(staleCmps)+len(totalCmps)+len(lowerCmps)+len(failCmps)+len(slowCmps))
	m.register("stale", staleCmps, false)
	m.register("total", totalCmps, false)
	m.register("lower", lowerCmps, true)

	var pushCalls, transitCalls []*ast.CallExpr
	for _, call := range m.allCalls() {
		if m.isWin(call, "Push") {
			pushCalls = append(pushCalls, call)
		}
		if m.isTransit(call, f.Callee(call)) {
			transitCalls = append(transitCalls, call)
		}
	}
	if !c.RequireCount("R-C08-3", "transitTo call sites in RecordResult", len(transitCalls), 2) {
		return
	}

	// provenance of a rate expression in a state: "F" failure rate, "S" slow rate, read from the
	// window after the push
	prov := func(st *flow.State, e ast.Expr) string {
		e = ast.Unparen(e)
		if c08count(st, "push") == 0 {
			return ""
		}
		if m.isWinExpr(e, "FailureRate") {
			return "F"
		}
		if m.isWinExpr(e, "SlowRate") {
			return "S"
		}
		if id, ok := e.(*ast.Ident); ok {
			for _, k := range []string{"F", "S"} {
				if st.Is("ev:src:"+f.Render(id)+":"+k, flow.True) {
					return k
				}
			}
		}
		return ""
	}
	rateRel := func(st *flow.State, cms []c08cmp, kind string) c08rel {
		var out c08rel
		for _, cm := range cms {
			a := cm.node.X
			if !cm.aIsX {
				a = cm.node.Y
			}
			if prov(st, a) == kind {
				out = out.or(c08relOf(f, st, []c08cmp{cm}))
			}
		}
		return out
	}
	refresh := func(st *flow.State) {
		for kind, cms := range map[string][]c08cmp{"F": failCmps, "S": slowCmps} {
			r := rateRel(st, cms, kind)
			if r.ge {
				st.Set("ev:"+kind+":ge", flow.True)
			}
			if r.lt {
				st.Set("ev:"+kind+":lt", flow.True)
			}
		}
	}
	known := func(st *flow.State, kind string) (ge, lt bool) {
		cms := failCmps
		if kind == "S" {
			cms = slowCmps
		}
		r := rateRel(st, cms, kind)
		return r.ge || st.Is("ev:"+kind+":ge", flow.True), r.lt || st.Is("ev:"+kind+":lt", flow.True)
	}
	// thrVerdict: evaluated once Total() has been compared with the threshold
	thrVerdict := func(st *flow.State) string {
		switch {
		case st.Is("ev:thr:perm", flow.True):
		case st.Is("ev:thr:min", flow.True) || (len(thrObjs) == 0 && thrDirectMin):
			if m.curVals(st)[c08HalfOpen] != flow.False {
				if r := m.rel(st, "lower"); !r.le {
					return "unlowered"
				}
			}
		default:
			return "unknown"
		}
		return ""
	}
	totalKnown := func(st *flow.State) bool { return m.rel(st, "total") != (c08rel{}) }
	thrLazy := func(st *flow.State) {
		if st.Is("ev:thr:checked", flow.True) || !totalKnown(st) {
			return
		}
		st.Set("ev:thr:checked", flow.True)
		if vd := thrVerdict(st); vd != "" {
			st.Set("ev:thr:"+vd, flow.True)
		}
	}
	thrBad := func(st *flow.State, what string) bool {
		if st.Is("ev:thr:"+what, flow.True) {
			return true
		}
		return !st.Is("ev:thr:checked", flow.True) && totalKnown(st) && thrVerdict(st) == what
	}
	// setThr records where the threshold value comes from (r: the expression assigned / returned)
	setThr := func(st *flow.State, r ast.Expr, isReturn bool) {
		if r != nil && isReturn {
			if id, ok := ast.Unparen(r).(*ast.Ident); ok && thrObjs[c08obj(f, id)] {
				return // the variable's provenance was recorded at its assignments
			}
		}
		wasMin := st.Is("ev:thr:min", flow.True) || isReturn
		st.Set("ev:thr:min", flow.Unknown)
		st.Set("ev:thr:perm", flow.Unknown)
		switch {
		case r != nil && m.denotesPol(r, "MinimumNumberOfCalls"):
			st.Set("ev:thr:min", flow.True)
		case r != nil && m.denotesPol(r, "PermittedNumberOfCallsInHalfOpen"):
			st.Set("ev:thr:perm", flow.True)
			if m.curVals(st)[c08HalfOpen] != flow.True {
				st.Set("ev:thr:badlower", flow.True)
			}
			if rl := m.rel(st, "lower"); !wasMin || !rl.gt {
				st.Set("ev:thr:badlower", flow.True)
			}
		}
	}

	res := analyze(c, f, flow.Config{
		Pure:   m.pure,
		Inline: m.inline,
		OnNode: func(st *flow.State, n ast.Node) {
			m.hookNode(st, n)
			refresh(st)
			thrLazy(st)
			if rs, ok := n.(*ast.ReturnStmt); ok && thrReturns[rs] && len(rs.Results) == 1 {
				setThr(st, rs.Results[0], true)
			}
			as, ok := n.(*ast.AssignStmt)
			if !ok {
				return
			}
			for i, l := range as.Lhs {
				id, ok := ast.Unparen(l).(*ast.Ident)
				if !ok {
					continue
				}
				var r ast.Expr
				if len(as.Lhs) == len(as.Rhs) && (as.Tok == token.ASSIGN || as.Tok == token.DEFINE) {
					r = ast.Unparen(as.Rhs[i])
				}
				// rate provenance
				rk := "ev:src:" + f.Render(id)
				st.Set(rk+":F", flow.Unknown)
				st.Set(rk+":S", flow.Unknown)
				if r != nil && c08count(st, "push") > 0 {
					if m.isWinExpr(r, "FailureRate") {
						st.Set(rk+":F", flow.True)
					}
					if m.isWinExpr(r, "SlowRate") {
						st.Set(rk+":S", flow.True)
					}
				}
				// threshold provenance
				if thrObjs[c08obj(f, id)] && (r == nil || helperDecl(r) == nil) {
					// (a value taken from a helper gets its provenance from the helper's
					// own assignments / return statements, interpreted in place)
					setThr(st, r, false)
				}
			}
		},
		OnCall: func(st *flow.State, call *ast.CallExpr, callee types.Object, deferred bool) {
			m.mirror(st)
			refresh(st)
			thrLazy(st)
			if m.isWin(call, "Push") {
				m.dropRel(st, "total")
				if m.rel(st, "stale").eq {
					st.Set("ev:current", flow.True)
				}
				c08bump(st, "push")
			}
			if m.isTransit(call, callee) {
				m.onTransit(st, call)
			}
		},
		AfterAssume: func(st *flow.State, cond ast.Expr, outcome bool) { m.mirror(st); refresh(st); thrLazy(st) },
	})
	if res == nil {
		return
	}
	c08dump("record", f, res)
	if ni := m.notInlined(res); len(ni) > 0 {
		c.Undecide("R-C08-4", m.cons+"|helpers interpreted in place", pos(c, m.fd.Name), "the engine keeps the call(s) to "+strings.Join(ni, ", ")+" opaque; the transition table cannot be read through them")
		return
	}
	at := pos(c, m.fd.Name)

	// R-C08-3
	if len(pushCalls) == 0 {
		c.Violate("R-C08-4", m.cons+"|current result pushed once", at, "RecordResult never pushes the result into the window: the breaker can never open")
	}
	guard := func(rule, name string, call *ast.CallExpr) {
		states := res.At[call]
		var bad *flow.State
		for _, st := range states {
			// ev:current: the equality was established when the result was pushed and no
			// transition (the only writer of stateID) has happened since
			if !m.rel(st, "stale").eq && !st.Is("ev:current", flow.True) {
				bad = st
				break
			}
		}
		if len(states) == 0 {
			c.Discharge(rule, m.cons+"|"+name, pos(c, call), "unreachable")
			return
		}
		c.Check(bad == nil, rule, m.cons+"|"+name, pos(c, call),
			sprintf("%d states reach it, all with the caller's stateID equal to the breaker's", len(states)),
			"reachable without the caller's stateID having been found equal to the breaker's current stateID: the result of a call admitted in an earlier state (e.g. a slow Closed-state call finishing during HalfOpen) is counted in the current window or drives a transition", witness(bad)...)
	}
	for i, call := range pushCalls {
		guard("R-C08-3", sprintf("window.Push #%d only for current results", i+1), call)
	}
	for _, call := range transitCalls {
		guard("R-C08-3", "transitTo("+m.target(call)+") only for current results", call)
	}

	// R-C08-4 classification of the pushed result. Where: at the Push if the value is computed in
	// the recording function; at the call of the recording function in the exported shell if the
	// value is one of its parameters (RecordResult classifies, then record(stateID, result)).
	type classSite struct {
		states []*flow.State
		arg    ast.Expr
		at     ast.Node
	}
	cm := m // the function whose variables the classification talks about
	var sites []classSite
	classUndecided := ""
	for _, call := range pushCalls {
		if len(call.Args) == 1 {
			sites = append(sites, classSite{res.At[call], ast.Unparen(call.Args[0]), call})
		}
	}
	if subj != shell {
		// which parameter of the recording function is pushed?
		pidx := -1
		if len(sites) == 1 {
			if id, ok := sites[0].arg.(*ast.Ident); ok {
				idx := 0
				for _, fl := range m.fd.Type.Params.List {
					for _, n := range fl.Names {
						if f.Info.Defs[n] == c08obj(f, id) {
							pidx = idx
						}
						idx++
					}
				}
			}
		}
		if pidx >= 0 {
			sm := v.methodFor(shell, "RecordResult")
			if sm == nil {
				return
			}
			sres := analyze(c, sm.f, flow.Config{Pure: sm.pure, Inline: sm.inline, OnInline: c08constParams(sm.f)})
			if sres == nil {
				return
			}
			cm = sm
			sites = nil
			pm := parentMap(sm.fd.Body)
			for _, call := range calls(sm.fd.Body, true) {
				if sm.f.Callee(call) != types.Object(subj) || pidx >= len(call.Args) {
					continue
				}
				// the states in which the closure that makes the call is handed to the lock
				// wrapper: the outermost call expression of the shell's own body around it
				var site ast.Node = call
				for p := pm[call]; p != nil; p = pm[p] {
					if ce, ok := p.(*ast.CallExpr); ok {
						site = ce
					}
				}
				sites = append(sites, classSite{sres.At[site], ast.Unparen(call.Args[pidx]), call})
			}
			if len(sites) == 0 {
				classUndecided = "the call of " + subj.Name() + " in " + shell.Name() + " was not found"
			}
			// the stateID handed on must be the caller's
			sidx := -1
			idx := 0
			// a helper's parameter that receives a parameter of the recording function
			// (isStale(stateID)) stands for it
			rootOf := map[types.Object]types.Object{}
			for _, call := range calls(m.fd.Body, true) {
				fo, ok := f.Callee(call).(*types.Func)
				if !ok {
					continue
				}
				gd := declOf(v.pkg, fo)
				if gd == nil || gd.Type.Params == nil {
					continue
				}
				j := 0
				for _, fl := range gd.Type.Params.List {
					for _, n := range fl.Names {
						if j < len(call.Args) {
							if aid, ok := ast.Unparen(call.Args[j]).(*ast.Ident); ok {
								rootOf[f.Info.Defs[n]] = c08obj(f, aid)
							}
						}
						j++
					}
				}
			}
			for _, fl := range m.fd.Type.Params.List {
				for _, n := range fl.Names {
					for _, cmp := range staleCmps {
						a := cmp.node.X
						if !cmp.aIsX {
							a = cmp.node.Y
						}
						if id, ok := ast.Unparen(a).(*ast.Ident); ok {
							o := c08obj(f, id)
							if r, ok := rootOf[o]; ok {
								o = r
							}
							if o == f.Info.Defs[n] {
								sidx = idx
							}
						}
					}
					idx++
				}
			}
			shellParams := map[types.Object]bool{}
			for _, fl := range sm.fd.Type.Params.List {
				for _, n := range fl.Names {
					shellParams[f.Info.Defs[n]] = true
				}
			}
			for _, site := range sites {
				call := site.at.(*ast.CallExpr)
				if sidx < 0 || sidx >= len(call.Args) {
					continue
				}
				arg := ast.Unparen(call.Args[sidx])
				id, isID := arg.(*ast.Ident)
				switch {
				case isID && shellParams[c08obj(f, id)]:
					c.Discharge("R-C08-3", sm.cons+"|hands the caller's stateID on to "+subj.Name(), pos(c, call), "the stateID parameter is passed unchanged")
				case c08constOf(f, arg) != nil:
					c.Violate("R-C08-3", sm.cons+"|hands the caller's stateID on to "+subj.Name(), pos(c, call), "a constant is passed instead of the caller's stateID: results are compared with the wrong state id (all dropped as stale, or stale ones accepted)")
				default:
					c.Undecide("R-C08-3", sm.cons+"|hands the caller's stateID on to "+subj.Name(), pos(c, call), "the stateID argument is not the parameter of "+shell.Name())
				}
			}
		}
	}
	var errParam, durParam *ast.Ident
	for _, g := range cm.bodies {
		if g.Type == nil || g.Type.Params == nil || (errParam != nil && durParam != nil) {
			continue
		}
		for _, fl := range g.Type.Params.List {
			for _, n := range fl.Names {
				o := f.Info.Defs[n]
				if o == nil {
					continue
				}
				if b, ok := o.Type().Underlying().(*types.Basic); ok && b.Kind() == types.Bool && errParam == nil {
					errParam = n
				}
				if o.Type().String() == "time.Duration" && durParam == nil {
					durParam = n
				}
			}
		}
	}
	switch {
	case classUndecided != "":
		c.Undecide("R-C08-4", m.cons+"|result classification", pos(c, m.fd.Name), classUndecided)
	case errParam == nil || durParam == nil:
		c.Undecide("R-C08-4", m.cons+"|result classification", pos(c, m.fd.Name), "no (bool, time.Duration) parameters from which the pushed result is computed were found")
	case len(sites) > 0:
		// the flag and the duration may be handed on to a helper: its parameters of the same
		// types play the same roles (the engine aliases them to the caller's variables)
		durObjs := map[types.Object]bool{}
		var errIDs []*ast.Ident
		for _, g := range cm.bodies {
			if g.Type == nil || g.Type.Params == nil {
				continue
			}
			for _, fl := range g.Type.Params.List {
				for _, n := range fl.Names {
					o := f.Info.Defs[n]
					if o == nil {
						continue
					}
					if b, ok := o.Type().Underlying().(*types.Basic); ok && b.Kind() == types.Bool {
						errIDs = append(errIDs, n)
					}
					if o.Type().String() == "time.Duration" {
						durObjs[o] = true
					}
				}
			}
		}
		errVal := func(st *flow.State) flow.Val {
			for _, id := range errIDs {
				if x := st.Get(f.VarKey(id)); x != flow.Unknown {
					return x
				}
			}
			return flow.Unknown
		}
		slowDur := cm.findCmps(false,
			func(e ast.Expr) bool { id, ok := ast.Unparen(e).(*ast.Ident); return ok && durObjs[c08obj(f, id)] },
			func(e ast.Expr) bool { return cm.mentionsPol(e, "SlowCallDurationThreshold") })
		cl := c08newVerdicts("c")
		for _, site := range sites {
			arg := site.arg
			for _, st := range site.states {
				cl.seen("c")
				got := ""
				for name, val := range v.resKind {
					if cv := c08constOf(f, arg); cv != nil && cv.ExactString() == val {
						got = name
					}
					if id, ok := arg.(*ast.Ident); ok && st.Is("eq:"+f.Render(id)+"=="+val, flow.True) {
						got = name
					}
				}
				want := ""
				switch errVal(st) {
				case flow.True:
					want = "CallResultFailure"
				case flow.False:
					if r := c08relOf(f, st, slowDur); r.ge || r.gt {
						want = "CallResultSlow"
					} else if r.lt || r.le {
						want = "CallResultSuccess"
					} else {
						cl.fail("c", "a call without error is classified without comparing its duration with slowCallDurationThreshold: slow calls never (or always) count towards the slow-call rate", st)
						continue
					}
				default:
					// the error flag was not consulted on this path: whatever is recorded here is
					// also recorded for a FAILED call that takes this path
					switch got {
					case "CallResultSlow":
						cl.fail("c", "a call is recorded as CallResultSlow because of its duration before the error flag is looked at: a failed call that also reached slowCallDurationThreshold (a timeout) counts as slow, not as a failure — the failure must take precedence, else the failure rate misses exactly the calls that time out", st)
					case "CallResultSuccess":
						cl.fail("c", "a call is recorded as CallResultSuccess without the error flag having been looked at: failed calls on this path never reach the failure rate", st)
					case "CallResultFailure":
						cl.fail("c", "a call is recorded as CallResultFailure without the error flag having been looked at: successful calls on this path count as failures", st)
					default:
						cl.fail("c", "the result pushed does not depend on the error flag of the call", st)
					}
					continue
				}
				if got != want {
					if got == "" {
						got = "an undetermined value"
					}
					cl.fail("c", "the call should be recorded as "+want+" but "+got+" is pushed into the window: the failure / slow-call rates are computed from misclassified results", st)
				}
			}
		}
		if cl.n["c"] > 0 {
			c.Check(cl.bad["c"] == "", "R-C08-4", m.cons+"|result classification", pos(c, sites[0].at),
				sprintf("%d states where the result is handed to the window: failure iff hasErr, else slow iff duration reached the threshold, else success", cl.n["c"]), cl.bad["c"], cl.w["c"]...)
		} else {
			c.Undecide("R-C08-4", m.cons+"|result classification", pos(c, sites[0].at), "the place where the classified result is handed on is not reached by the analysis")
		}
	}

	// R-C08-4 transition sites
	thrUnknown := false
	for _, call := range transitCalls {
		tgt := m.target(call)
		if tgt == "?" {
			c.Undecide("R-C08-4", m.cons+"|transitTo(?) precondition", pos(c, call), "transitTo is called with a target that is not a State constant")
			continue
		}
		vd := c08newVerdicts("t")
		for _, st := range res.At[call] {
			vd.seen("t")
			if c08count(st, "push") == 0 {
				vd.fail("t", "a transition is decided before the result has been pushed into the window", st)
			}
			if len(c08transits(st)) > 0 {
				vd.fail("t", "a second transition follows "+strings.Join(c08transits(st), ",")+" in the same RecordResult", st)
			}
			if r := m.rel(st, "total"); !r.ge {
				vd.fail("t", "the breaker changes state although Total() >= required number of calls is not established (known: Total vs threshold "+r.String()+"): it may open/close on fewer than minimumNumberOfCalls results", st)
			}
			if st.Is("ev:thr:badlower", flow.True) {
				vd.fail("t", "the required number of calls is lowered to permittedNumberOfCallsInHalfOpenState outside HalfOpen or without permitted < minimum", st)
			}
			if thrBad(st, "unknown") {
				thrUnknown = true
			}
			fge, flt := known(st, "F")
			sge, slt := known(st, "S")
			switch tgt {
			case c08Open:
				if !fge && !sge {
					vd.fail("t", "the breaker opens without failure rate >= failureRateThreshold or slow rate >= slowCallRateThreshold having been established (each rate read from the window after the push and compared with its own threshold)", st)
				}
			case c08Closed:
				if m.curVals(st)[c08HalfOpen] != flow.True {
					vd.fail("t", "RecordResult closes a breaker that is not HalfOpen", st)
				}
				if !flt || !slt {
					vd.fail("t", "the half-open breaker closes although failure rate < threshold and slow rate < threshold are not both established: at a rate exactly equal to the threshold it must reopen", st)
				}
			default:
				vd.fail("t", "RecordResult moves the breaker to "+tgt+" (only Open and, from HalfOpen, Closed are allowed)", st)
			}
		}
		if vd.n["t"] == 0 {
			c.Discharge("R-C08-4", m.cons+"|transitTo("+tgt+") precondition", pos(c, call), "unreachable")
			continue
		}
		c.Check(vd.bad["t"] == "", "R-C08-4", m.cons+"|transitTo("+tgt+") precondition", pos(c, call),
			sprintf("%d states at the transition satisfy the table", vd.n["t"]), vd.bad["t"], vd.w["t"]...)
	}

	// R-C08-4 exits
	ex4 := c08newVerdicts("push", "complete", "thr")
	sawOpen, sawClosed := false, false
	for _, ex := range res.Exits {
		st := ex.State
		if ex.Kind != flow.ExitReturn {
			continue
		}
		pushes := c08count(st, "push")
		trs := c08transits(st)
		current := st.Is("ev:current", flow.True) || m.rel(st, "stale").eq
		ex4.seen("push")
		if current && pushes == 0 {
			ex4.fail("push", "a result whose stateID is current leaves RecordResult without being pushed into the window", st)
		}
		if pushes > 1 {
			ex4.fail("push", "one result is pushed into the window more than once", st)
		}
		for _, t := range trs {
			sawOpen = sawOpen || t == c08Open
			sawClosed = sawClosed || t == c08Closed
		}
		if pushes == 0 {
			continue
		}
		ex4.seen("thr")
		if thrBad(st, "unlowered") {
			ex4.fail("thr", "in HalfOpen the required number of calls stays at minimumNumberOfCalls although permittedNumberOfCallsInHalfOpenState may be smaller: only the permitted trials are ever recorded, so the breaker can neither close nor reopen", st)
		}
		if len(trs) > 0 {
			continue
		}
		ex4.seen("complete")
		if r := m.rel(st, "total"); r.lt {
			continue // not enough results yet
		}
		fge, flt := known(st, "F")
		sge, slt := known(st, "S")
		_, _ = fge, sge
		switch {
		case !flt:
			ex4.fail("complete", "with enough results in the window RecordResult returns without a transition although failure rate < failureRateThreshold is not established: a failure rate at (or above) the threshold must open the breaker", st)
		case !slt:
			ex4.fail("complete", "with enough results in the window RecordResult returns without a transition although slow rate < slowCallRateThreshold is not established: a slow-call rate at (or above) the threshold must open the breaker", st)
		case m.curVals(st)[c08HalfOpen] != flow.False:
			ex4.fail("complete", "a HalfOpen breaker whose trial results are below both thresholds is not closed", st)
		}
	}
	c.Check(ex4.bad["push"] == "", "R-C08-4", m.cons+"|current result pushed once", at,
		sprintf("%d exits: current results pushed exactly once", ex4.n["push"]), ex4.bad["push"], ex4.w["push"]...)
	if ex4.n["complete"] == 0 {
		c.Undecide("R-C08-4", m.cons+"|no-transition rows", at, "no exit without transition after a push was found")
	} else {
		c.Check(ex4.bad["complete"] == "", "R-C08-4", m.cons+"|no-transition rows", at,
			sprintf("%d exits without transition: too few results, or both rates below their thresholds and not HalfOpen", ex4.n["complete"]), ex4.bad["complete"], ex4.w["complete"]...)
	}
	if thrUnknown {
		c.Undecide("R-C08-4", m.cons+"|required calls = min(minimum, permitted in HalfOpen)", at, "Total() is compared with a value whose origin (minimumNumberOfCalls / permittedNumberOfCallsInHalfOpenState) the analysis cannot trace")
	}
	c.Check(ex4.bad["thr"] == "", "R-C08-4", m.cons+"|required calls = min(minimum, permitted in HalfOpen)", at,
		sprintf("%d exits after a push: threshold provenance ok", ex4.n["thr"]), ex4.bad["thr"], ex4.w["thr"]...)
	c.Check(sawOpen, "R-C08-4", m.cons+"|can open", at, "some path opens the breaker", "no path of RecordResult opens the breaker")
	c.Check(sawClosed, "R-C08-4", m.cons+"|can close", at, "some path closes a half-open breaker", "no path of RecordResult closes a half-open breaker: it can only reopen")
}

// ---------------------------------------------------------------------------------------
// R-C08-5 transitTo pairing

func c08Transit(v *c08env) {
	c := v.c
	m := v.method("transitTo")
	if m == nil {
		return
	}
	f := m.f
	stateF, ttF, idF, winF, ctrF := v.fld["state"], v.fld["transitTime"], v.fld["stateID"], v.fld["window"], v.fld["numberOfCallsInHalfOpen"]
	var param *ast.Ident
	stateT := v.pkg.Types.Scope().Lookup("State").Type()
	for _, fl := range m.fd.Type.Params.List {
		for _, n := range fl.Names {
			if o := f.Info.Defs[n]; o != nil && types.Identical(o.Type(), stateT) && param == nil {
				param = n
			}
		}
	}
	if param == nil {
		c.Errorf("R-C08-5: anchor: transitTo has no parameter of type State")
		return
	}
	// the target state may be handed on to helpers (resetWindow(state)): their State parameters
	// are aliases of the same value
	paramObjs := map[types.Object]bool{f.Info.Defs[param]: true}
	paramRs := []string{f.Render(param)}
	for _, g := range m.bodies[1:] {
		if g.Type == nil || g.Type.Params == nil {
			continue
		}
		for _, fl := range g.Type.Params.List {
			for _, n := range fl.Names {
				if o := f.Info.Defs[n]; o != nil && types.Identical(o.Type(), stateT) && n.Name != "_" {
					// only parameters that receive the target: bound to a target parameter at every call
					bound := true
					for _, call := range m.allCalls() {
						fo, _ := f.Callee(call).(*types.Func)
						if fo == nil || declOf(v.pkg, fo) != g.Node {
							continue
						}
						idx := 0
						found := false
						for _, fl2 := range g.Type.Params.List {
							for _, n2 := range fl2.Names {
								if n2 == n && idx < len(call.Args) {
									if aid, ok := ast.Unparen(call.Args[idx]).(*ast.Ident); ok && paramObjs[c08obj(f, aid)] {
										found = true
									}
								}
								idx++
							}
						}
						bound = bound && found
					}
					if bound {
						paramObjs[o] = true
						paramRs = append(paramRs, f.Render(n))
					}
				}
			}
		}
	}
	isParam := func(e ast.Expr) bool {
		id, ok := ast.Unparen(e).(*ast.Ident)
		return ok && paramObjs[c08obj(f, id)]
	}
	sameCmps := m.findCmps(true, isParam, func(e ast.Expr) bool { return m.denotes(e, stateF) })
	paramVals := func(st *flow.State) map[string]flow.Val { return m.derive(m.valsOf(st, paramRs)) }
	typeKnown := func(st *flow.State) string {
		// what is known about policy.SlidingWindowType: "count", "time" or ""
		var typeSel []string
		m.eachNode(func(n ast.Node) bool {
			if e, ok := n.(ast.Expr); ok && m.polSel(e, "SlidingWindowType") {
				typeSel = append(typeSel, f.Render(e))
			}
			return true
		})
		for _, r := range typeSel {
			cb := st.Get("eq:" + r + "==" + v.winKind["CountBased"])
			tb := st.Get("eq:" + r + "==" + v.winKind["TimeBased"])
			switch {
			case cb == flow.True || tb == flow.False:
				return "count" // the domain of SlidingWindowType is {CountBased, TimeBased}
			case tb == flow.True || cb == flow.False:
				return "time"
			}
		}
		return ""
	}
	clearWin := func(st *flow.State) {
		for _, kv := range st.Facts() {
			if k := c08factKey(kv); strings.HasPrefix(k, "ev:win:") {
				st.Set(k, flow.Unknown)
			}
		}
	}
	res := analyze(c, f, flow.Config{
		Pure:   func(call *ast.CallExpr, callee types.Object) bool { return true },
		Inline: m.inline,
		OnNode: func(st *flow.State, n ast.Node) {
			if w, inc, _ := m.writeKind(n, idF); w {
				if inc {
					c08bump(st, "idinc")
				} else {
					st.Set("ev:idOther", flow.True)
				}
			}
			if w, _, zero := m.writeKind(n, ctrF); w {
				if zero {
					st.Set("ev:ctr0", flow.True)
				} else {
					st.Set("ev:ctrOther", flow.True)
				}
				if paramVals(st)[c08HalfOpen] != flow.True {
					st.Set("ev:ctrBadState", flow.True)
				}
			}
			as, ok := n.(*ast.AssignStmt)
			if !ok {
				return
			}
			for i, l := range as.Lhs {
				var r ast.Expr
				if len(as.Lhs) == len(as.Rhs) && as.Tok == token.ASSIGN {
					r = ast.Unparen(as.Rhs[i])
				}
				switch {
				case m.isRecvField(l, stateF):
					c08bump(st, "store")
					if r == nil || !isParam(r) {
						st.Set("ev:storedOther", flow.True)
					}
				case m.isRecvField(l, ttF):
					if r != nil && len(calls(r, false)) > 0 {
						st.Set("ev:time", flow.True)
					} else {
						st.Set("ev:time", flow.False)
					}
				case m.isRecvField(l, winF):
					clearWin(st)
					kind := "other"
					if call, ok := r.(*ast.CallExpr); ok && len(call.Args) == 1 {
						ctor := ""
						switch f.Callee(call) {
						case v.ctor["NewCountBasedWindow"]:
							ctor = "count"
						case v.ctor["NewTimeBasedWindow"]:
							ctor = "time"
						}
						if ctor != "" {
							for name := range v.pol {
								if m.denotesPol(call.Args[0], name) {
									kind = ctor + ":" + name
								}
							}
						}
					}
					// the constructor inlined: &CountBasedWindow{bucket: make([]T, size)} /
					// &TimeBasedWindow{bucket: make([]T, size), ..} — the window type tells the
					// kind, the length handed to make the size
					if u, ok := r.(*ast.UnaryExpr); ok && u.Op == token.AND {
						if cl, ok := ast.Unparen(u.X).(*ast.CompositeLit); ok {
							ctor := ""
							lt := types.NewPointer(f.Info.TypeOf(cl))
							for cn, k := range map[string]string{"NewCountBasedWindow": "count", "NewTimeBasedWindow": "time"} {
								if sig, ok := v.ctor[cn].Type().(*types.Signature); ok && sig.Results().Len() == 1 && types.Identical(sig.Results().At(0).Type(), lt) {
									ctor = k
								}
							}
							var sizes []ast.Expr
							for _, el := range cl.Elts {
								val := el
								if kv, ok := el.(*ast.KeyValueExpr); ok {
									val = kv.Value
								}
								if mk, ok := ast.Unparen(val).(*ast.CallExpr); ok && len(mk.Args) >= 2 {
									if b, ok := f.Callee(mk).(*types.Builtin); ok && b.Name() == "make" {
										sizes = append(sizes, mk.Args[1])
									}
								}
							}
							if ctor != "" && len(sizes) == 1 {
								sz := ast.Unparen(sizes[0])
								if cv, ok := sz.(*ast.CallExpr); ok && len(cv.Args) == 1 {
									if tv, ok := f.Info.Types[cv.Fun]; ok && tv.IsType() {
										sz = ast.Unparen(cv.Args[0]) // int(size)
									}
								}
								for name := range v.pol {
									if m.denotesPol(sz, name) {
										kind = ctor + ":" + name
									}
								}
							}
						}
					}
					st.Set("ev:win:"+kind, flow.True)
					if strings.HasPrefix(kind, "count:") && typeKnown(st) == "count" || strings.HasPrefix(kind, "time:") && typeKnown(st) == "time" {
						st.Set("ev:win:typed", flow.True)
					}
				}
			}
		},
	})
	if res == nil {
		return
	}
	c08dump("transit", f, res)
	at := pos(c, m.fd.Name)
	vd := c08newVerdicts("header", "closed", "halfopen", "stores", "counter")
	stored := 0
	for _, ex := range res.Exits {
		st := ex.State
		if ex.Kind != flow.ExitReturn {
			vd.fail("header", "transitTo can panic while the lock is held", st)
			continue
		}
		vd.seen("stores")
		if st.Is("ev:ctrBadState", flow.True) || st.Is("ev:ctrOther", flow.True) {
			vd.fail("counter", "transitTo writes the half-open trial counter other than zeroing it on the transition to HalfOpen", st)
		}
		if c08count(st, "store") == 0 {
			if !c08relOf(f, st, sameCmps).eq {
				vd.fail("stores", "transitTo can return without storing the requested state although it is not known to equal the current one: callers (and R-C08-2/4) rely on state == requested afterwards", st)
			}
			if c08count(st, "idinc") > 0 || st.Is("ev:idOther", flow.True) {
				vd.fail("header", "stateID changes on a path that does not change the state: results of calls admitted in the current state are discarded", st)
			}
			continue
		}
		stored++
		vd.seen("header")
		switch {
		case st.Is("ev:storedOther", flow.True) || c08count(st, "store") > 1:
			vd.fail("header", "the state stored is not (only) the requested state", st)
		case c08count(st, "idinc") != 1 || st.Is("ev:idOther", flow.True):
			vd.fail("header", sprintf("a path stores the new state but increments stateID %d time(s) instead of exactly once: results of calls admitted in the previous state are counted in the new state's window", c08count(st, "idinc")), st)
		case !st.Is("ev:time", flow.True):
			vd.fail("header", "a path stores the new state without stamping transitTime with the current time: the Open wait / half-open timeout is measured from an older transition", st)
		}
		pv := paramVals(st)
		if pv[c08Closed] != flow.False {
			vd.seen("closed")
			ok := (st.Is("ev:win:count:SlidingWindowSize", flow.True) || st.Is("ev:win:time:SlidingWindowSize", flow.True)) && st.Is("ev:win:typed", flow.True)
			if !ok {
				vd.fail("closed", "on the transition to Closed the window is not re-created as the policy window (count-based iff SlidingWindowType == CountBased, size SlidingWindowSize): the closed breaker keeps evaluating the half-open trial window / old results", st)
			}
		}
		if pv[c08HalfOpen] != flow.False {
			vd.seen("halfopen")
			if !st.Is("ev:win:count:PermittedNumberOfCallsInHalfOpen", flow.True) {
				vd.fail("halfopen", "on the transition to HalfOpen the window is not re-created as a count window of permittedNumberOfCallsInHalfOpenState results: trial results are mixed with (or evicted like) earlier results", st)
			}
			if !st.Is("ev:ctr0", flow.True) {
				vd.fail("halfopen", "on the transition to HalfOpen the trial counter is not reset: after the first recovery attempt no trial call is ever admitted again", st)
			}
		}
	}
	if !c.RequireCount("R-C08-5", "exits of transitTo that store the state", stored, 1) {
		return
	}
	c.Check(vd.bad["header"] == "", "R-C08-5", m.cons+"|state, stateID++, transitTime together", at,
		sprintf("%d storing exits: requested state stored, stateID incremented once, transitTime stamped", vd.n["header"]), vd.bad["header"], vd.w["header"]...)
	c.Check(vd.bad["stores"] == "", "R-C08-5", m.cons+"|requested state stored unless already current", at,
		sprintf("%d exits", vd.n["stores"]), vd.bad["stores"], vd.w["stores"]...)
	if vd.n["closed"] == 0 || vd.n["halfopen"] == 0 {
		c.Undecide("R-C08-5", m.cons+"|window re-creation", at, "no storing exit is compatible with target Closed / HalfOpen")
	} else {
		c.Check(vd.bad["closed"] == "", "R-C08-5", m.cons+"|Closed re-creates the policy window", at,
			sprintf("%d exits compatible with target Closed", vd.n["closed"]), vd.bad["closed"], vd.w["closed"]...)
		c.Check(vd.bad["halfopen"] == "", "R-C08-5", m.cons+"|HalfOpen creates the trial window and zeroes the counter", at,
			sprintf("%d exits compatible with target HalfOpen", vd.n["halfopen"]), vd.bad["halfopen"], vd.w["halfopen"]...)
	}
	c.Check(vd.bad["counter"] == "", "R-C08-5", m.cons+"|trial counter only zeroed on HalfOpen", at,
		"the only write to the counter is the reset on target HalfOpen", vd.bad["counter"], vd.w["counter"]...)

	// the state field, stateID and the trial counter are written nowhere else (except the
	// increment in AcquirePermission checked by R-C08-2)
	var stray []string
	inTransit, acquireReach := map[*ast.FuncDecl]bool{}, map[*ast.FuncDecl]bool{}
	for _, g := range m.bodies {
		if gd, ok := g.Node.(*ast.FuncDecl); ok {
			inTransit[gd] = true
		}
	}
	if af := fnOpt(c, c08cb, "CircuitBreaker", v.meth["AcquirePermission"].Name()); af != nil {
		for _, g := range c08reach(af, 3, v.meth["transitTo"]) {
			if gd, ok := g.Node.(*ast.FuncDecl); ok {
				acquireReach[gd] = true
			}
		}
	}
	for _, file := range v.pkg.Syntax {
		for _, d := range file.Decls {
			fd, ok := d.(*ast.FuncDecl)
			if !ok || fd.Body == nil || inTransit[fd] {
				continue
			}
			g := flow.NewFunc(v.pkg, fd)
			inAcquire := acquireReach[fd]
			ast.Inspect(fd.Body, func(n ast.Node) bool {
				var lhs []ast.Expr
				switch s := n.(type) {
				case *ast.AssignStmt:
					lhs = s.Lhs
				case *ast.IncDecStmt:
					lhs = []ast.Expr{s.X}
				}
				for _, l := range lhs {
					fv, _ := c08sel(g, l)
					if fv == stateF || fv == idF || fv == ttF || (fv == ctrF && !inAcquire) {
						stray = append(stray, fv.Name()+" in "+declName(v.pkg, fd))
					}
				}
				return true
			})
		}
	}
	sort.Strings(stray)
	c.Check(len(stray) == 0, "R-C08-5", c08cb+".(CircuitBreaker)|state/stateID/transitTime written only by transitTo", at,
		"no other function of the package assigns them", "the breaker state is written outside transitTo, bypassing the stateID/transitTime/window pairing: "+strings.Join(stray, "; "))
}

// c08Shell: the exported method hands its work to subj (e.g. under a withLock helper); it must
// return what subj returned — results whose types are want, each taken from the variable(s)
// assigned from the call of subj (p.granted, p.stateID / ok, id). A shape the check cannot
// follow is undecided, never violated.
func c08Shell(v *c08env, rule string, shell, subj *types.Func, want []string) {
	c := v.c
	fd := declOf(v.pkg, shell)
	if fd == nil {
		return
	}
	f := flow.NewFunc(v.pkg, fd)
	cons := fname(c08cb, "CircuitBreaker", shell.Name()) + "|hands on to " + subj.Name() + " and returns its answer"
	at := pos(c, fd.Name)
	carriers := map[types.Object]bool{}
	nCalls := 0
	ast.Inspect(fd.Body, func(n ast.Node) bool {
		switch x := n.(type) {
		case *ast.AssignStmt:
			for _, r := range x.Rhs {
				if call, ok := ast.Unparen(r).(*ast.CallExpr); ok && f.Callee(call) == types.Object(subj) {
					nCalls++
					for _, l := range x.Lhs {
						if id, ok := ast.Unparen(l).(*ast.Ident); ok && id.Name != "_" {
							carriers[c08obj(f, id)] = true
						}
					}
				}
			}
		case *ast.ReturnStmt:
			for _, r := range x.Results {
				if call, ok := ast.Unparen(r).(*ast.CallExpr); ok && f.Callee(call) == types.Object(subj) {
					nCalls += 100 // returned directly
				}
			}
		}
		return true
	})
	if nCalls >= 100 {
		c.Discharge(rule, cons, at, "the result of "+subj.Name()+" is returned directly")
		return
	}
	if nCalls != 1 || len(carriers) == 0 {
		c.Undecide(rule, cons, at, sprintf("%s calls %s %d time(s) in a form the check cannot follow", shell.Name(), subj.Name(), nCalls))
		return
	}
	ok, why := true, ""
	nRet := 0
	ast.Inspect(fd.Body, func(n ast.Node) bool {
		if _, isLit := n.(*ast.FuncLit); isLit {
			return false
		}
		rs, isRet := n.(*ast.ReturnStmt)
		if !isRet {
			return true
		}
		nRet++
		if len(rs.Results) != len(want) {
			ok, why = false, "a return statement does not list the results explicitly"
			return true
		}
		for i, r := range rs.Results {
			from := false
			ast.Inspect(r, func(y ast.Node) bool {
				if id, isID := y.(*ast.Ident); isID && carriers[c08obj(f, id)] {
					from = true
				}
				return true
			})
			t := f.Info.TypeOf(r)
			if !from || t == nil || t.Underlying().String() != want[i] {
				ok, why = false, sprintf("result #%d is not the %s answered by %s", i+1, want[i], subj.Name())
			}
		}
		return true
	})
	if nRet == 0 {
		ok, why = false, "no return statement"
	}
	if !ok {
		c.Undecide(rule, cons, at, why)
		return
	}
	c.Discharge(rule, cons, at, sprintf("%d return statement(s) hand back the fields of the value answered by %s", nRet, subj.Name()))
}
