package rules

import (
	"go/ast"
	"go/token"
	"go/types"

	"golang.org/x/tools/go/packages"

	"verif/internal/core"
	"verif/internal/flow"
)

// c03Readers decides R-C03-9 on every io.Reader implementation of the module (methods
// `Read(p []byte) (int, error)`; request and response bodies are wrapped in them):
//
//   - cursor pairing: whenever the buffer parameter is re-sliced (p = p[k:]) to continue filling
//     it, k is the count returned by the most recent call that wrote into the current p — not a
//     running total, not a stale count, and p is not advanced twice for one write. Otherwise
//     the next write lands at the wrong offset: a gap of stale bytes, overwritten bytes, or a
//     slice-bounds panic once the total exceeds the remaining length.
//   - accounting: every count of bytes written into p reaches the returned total (it is added
//     to the returned variable, or is itself what is returned) before it is overwritten and
//     on every exit. Otherwise the caller (io.Copy, io.ReadFull) drops or duplicates bytes.
func c03Readers(c *core.Ctx) {
	methods := 0
	eachFunc(c, func(pkg *packages.Package, fd *ast.FuncDecl) {
		if fd.Recv == nil || fd.Name.Name != "Read" {
			return
		}
		fo, _ := pkg.TypesInfo.Defs[fd.Name].(*types.Func)
		if fo == nil {
			return
		}
		sig := fo.Type().(*types.Signature)
		if sig.Params().Len() != 1 || sig.Results().Len() != 2 {
			return
		}
		if sl, ok := sig.Params().At(0).Type().(*types.Slice); !ok || !types.Identical(sl.Elem(), types.Typ[types.Byte]) {
			return
		}
		if b, ok := sig.Results().At(0).Type().(*types.Basic); !ok || b.Kind() != types.Int || !types.Identical(sig.Results().At(1).Type(), types.Universe.Lookup("error").Type()) {
			return
		}
		if len(fd.Type.Params.List) != 1 || len(fd.Type.Params.List[0].Names) != 1 {
			return
		}
		methods++
		c.Count("functions_analysed", 1)
		f := flow.NewFunc(pkg, fd)
		name := declName(pkg, fd)
		p := pkg.TypesInfo.Defs[fd.Type.Params.List[0].Names[0]]
		var namedTotal types.Object
		if fd.Type.Results != nil && len(fd.Type.Results.List) > 0 && len(fd.Type.Results.List[0].Names) > 0 {
			namedTotal = pkg.TypesInfo.Defs[fd.Type.Results.List[0].Names[0]]
		}
		isVar := func(e ast.Expr, o types.Object) bool {
			id, ok := ast.Unparen(e).(*ast.Ident)
			return ok && o != nil && c03obj(f, id) == o
		}
		identObj := func(e ast.Expr) types.Object {
			e = ast.Unparen(e)
			// int(m) / int64(m) conversions of a count are still the count
			if call, ok := e.(*ast.CallExpr); ok && len(call.Args) == 1 {
				if tv, ok := f.Info.Types[call.Fun]; ok && tv.IsType() {
					e = ast.Unparen(call.Args[0])
				}
			}
			if id, ok := e.(*ast.Ident); ok && id.Name != "_" {
				return c03obj(f, id)
			}
			return nil
		}
		// a call that writes into the current p and returns the count as its first result
		writesP := func(e ast.Expr) bool {
			call, ok := ast.Unparen(e).(*ast.CallExpr)
			if !ok {
				return false
			}
			tv, ok := f.Info.Types[call]
			if !ok {
				return false
			}
			first := tv.Type
			if tup, ok := first.(*types.Tuple); ok {
				if tup.Len() == 0 {
					return false
				}
				first = tup.At(0).Type()
			}
			if b, ok := first.Underlying().(*types.Basic); !ok || b.Info()&types.IsInteger == 0 {
				return false
			}
			for i, a := range call.Args {
				if isVar(a, p) {
					if bi, ok := f.Callee(call).(*types.Builtin); ok {
						return bi.Name() == "copy" && i == 0 // len(p), cap(p), copy(dst, p) do not write into p
					}
					return true
				}
			}
			return false
		}
		// variables that may carry the returned total
		totals := map[types.Object]bool{}
		if namedTotal != nil {
			totals[namedTotal] = true
		}
		ast.Inspect(fd.Body, func(n ast.Node) bool {
			switch x := n.(type) {
			case *ast.FuncLit:
				return false
			case *ast.ReturnStmt:
				if len(x.Results) == 2 {
					if o := identObj(x.Results[0]); o != nil {
						totals[o] = true
					}
				}
			}
			return true
		})

		held := func(o types.Object) string { return "ev:tot:" + c03varID(f, o) } // total already holds counts
		cnt := func(o types.Object) string { return "ev:cnt:" + c03varID(f, o) }
		unacc := func(o types.Object) string { return "ev:unacc:" + c03varID(f, o) }
		var tracked []types.Object
		track := func(o types.Object) {
			for _, t := range tracked {
				if t == o {
					return
				}
			}
			tracked = append(tracked, o)
		}
		type finding struct {
			at  ast.Node
			st  *flow.State
			why string
		}
		var badCursor, badCount []finding
		var undecided []finding
		reslices := 0
		seenReslice := map[ast.Node]bool{}
		lose := func(st *flow.State, o types.Object, at ast.Node, how string) {
			if st.Is(unacc(o), flow.True) {
				badCount = append(badCount, finding{at, st, "the count of bytes just written into the buffer is " + how + " before it was added to the returned total: Read reports fewer bytes than it produced and the caller drops the rest of them"})
			}
			st.Set(unacc(o), flow.Unknown)
		}
		res := analyze(c, f, flow.Config{
			NoHavoc: true,
			Track:   func(string) bool { return false },
			OnNode: func(st *flow.State, n ast.Node) {
				as, ok := n.(*ast.AssignStmt)
				if !ok {
					return
				}
				// 1. a write into p defining the count
				if len(as.Rhs) == 1 && writesP(as.Rhs[0]) {
					for _, o := range tracked {
						st.Set(cnt(o), flow.Unknown)
					}
					if o := identObj(as.Lhs[0]); o != nil && (as.Tok == token.DEFINE || as.Tok == token.ASSIGN) {
						track(o)
						lose(st, o, as, "overwritten by the next write")
						if totals[o] && st.Is(held(o), flow.True) {
							badCount = append(badCount, finding{as, st, "the returned total is overwritten by the count of a later write instead of being increased by it: the bytes written before are not reported to the caller"})
						}
						st.Set(cnt(o), flow.True)
						st.Set(unacc(o), flow.True)
						if totals[o] {
							st.Set(held(o), flow.True)
						}
					}
					return
				}
				for i, l := range as.Lhs {
					// 2. the buffer is re-sliced
					if isVar(l, p) {
						if !seenReslice[as] {
							seenReslice[as] = true
							reslices++
						}
						ok, why := false, ""
						if len(as.Lhs) == len(as.Rhs) && as.Tok == token.ASSIGN {
							if se, isSlice := ast.Unparen(as.Rhs[i]).(*ast.SliceExpr); isSlice && isVar(se.X, p) && se.Max == nil {
								highOK := se.High == nil
								if call, isCall := ast.Unparen(se.High).(*ast.CallExpr); se.High != nil && isCall && len(call.Args) == 1 && isVar(call.Args[0], p) {
									if bi, isB := f.Callee(call).(*types.Builtin); isB && bi.Name() == "len" {
										highOK = true
									}
								}
								k := identObj(se.Low)
								switch {
								case !highOK:
									why = "the buffer is also cut at the top"
								case se.Low == nil:
									ok = true // p = p[:] leaves the cursor where it is
								case k == nil:
									why = "the buffer is advanced by an expression that is not the count of the last write (" + f.Render(se.Low) + ")"
								case !st.Is(cnt(k), flow.True):
									why = "the buffer is advanced by " + k.Name() + ", which is not the count returned by the most recent write into the current buffer (a running total, a stale count, or a second advance for one write)"
								default:
									ok = true
								}
							} else {
								undecided = append(undecided, finding{as, st, "the buffer parameter is assigned something other than a tail of itself"})
								ok = true
							}
						} else {
							undecided = append(undecided, finding{as, st, "unrecognised assignment to the buffer parameter"})
							ok = true
						}
						if !ok {
							badCursor = append(badCursor, finding{as, st, why + ": the next write lands at the wrong offset — the stream delivered has a gap of stale bytes or lost bytes, or Read panics with slice bounds out of range once a body needs more than one refill"})
						}
						for _, o := range tracked {
							st.Set(cnt(o), flow.Unknown)
						}
						continue
					}
					lo := identObj(l)
					if lo == nil || len(as.Lhs) != len(as.Rhs) {
						if lo != nil {
							for _, o := range tracked {
								if o == lo {
									st.Set(cnt(o), flow.Unknown)
									lose(st, o, as, "overwritten")
								}
							}
						}
						continue
					}
					r := ast.Unparen(as.Rhs[i])
					// 3. accumulation into a total: tot += m, tot = tot + m
					if totals[lo] {
						var add types.Object
						switch {
						case as.Tok == token.ADD_ASSIGN:
							add = identObj(r)
						case as.Tok == token.ASSIGN:
							if be, ok := r.(*ast.BinaryExpr); ok && be.Op == token.ADD {
								if isVar(be.X, lo) {
									add = identObj(be.Y)
								} else if isVar(be.Y, lo) {
									add = identObj(be.X)
								}
							}
						}
						if add != nil && st.Is(unacc(add), flow.True) {
							st.Set(unacc(add), flow.Unknown)
							st.Set(held(lo), flow.True)
							continue
						}
					}
					// 4. alias k := m
					if ro := identObj(r); ro != nil && (as.Tok == token.DEFINE || as.Tok == token.ASSIGN) {
						isTracked := false
						for _, o := range tracked {
							if o == ro {
								isTracked = true
							}
						}
						if isTracked && ro != lo {
							if totals[lo] && st.Is(held(lo), flow.True) && st.Is(unacc(ro), flow.True) {
								badCount = append(badCount, finding{as, st, "the returned total is overwritten by the count of a later write instead of being increased by it: the bytes written before are not reported to the caller"})
							}
							if totals[lo] && st.Is(unacc(ro), flow.True) {
								st.Set(held(lo), flow.True)
							}
							track(lo)
							st.Set(cnt(lo), st.Get(cnt(ro)))
							if st.Is(unacc(ro), flow.True) {
								st.Set(unacc(ro), flow.Unknown)
								st.Set(unacc(lo), flow.True)
							}
							continue
						}
					}
					// 5. any other assignment to a tracked count
					for _, o := range tracked {
						if o == lo {
							st.Set(cnt(o), flow.Unknown)
							lose(st, o, as, "overwritten")
						}
					}
				}
			},
		})
		if res == nil {
			return
		}
		// exits: a pending count must be what is returned
		for _, ex := range res.Exits {
			if ex.Kind != flow.ExitReturn {
				continue
			}
			for _, o := range tracked {
				if !ex.State.Is(unacc(o), flow.True) {
					continue
				}
				returned := false
				if ex.Return != nil && len(ex.Return.Results) == 2 && identObj(ex.Return.Results[0]) == o {
					returned = true
				}
				if (ex.Return == nil || len(ex.Return.Results) == 0) && o == namedTotal {
					returned = true
				}
				if !returned {
					var at ast.Node = fd
					if ex.Return != nil {
						at = ex.Return
					}
					badCount = append(badCount, finding{at, ex.State, "Read returns without the count of bytes it just wrote into the buffer being part of the returned total: the caller drops those bytes"})
				}
			}
		}
		for _, u := range undecided {
			c.Undecide("R-C03-9", name+"|buffer cursor advanced by the last write", pos(c, u.at), u.why)
		}
		if len(badCursor) > 0 {
			b := badCursor[0]
			c.Violate("R-C03-9", name+"|buffer cursor advanced by the last write", pos(c, b.at), b.why, witness(b.st)...)
		} else if len(undecided) == 0 {
			detail := "the buffer parameter is never re-sliced"
			if reslices > 0 {
				detail = sprintf("%d re-slice(s) of the buffer, each by the count of the most recent write into it", reslices)
			}
			c.Discharge("R-C03-9", name+"|buffer cursor advanced by the last write", pos(c, fd), detail)
		}
		if len(badCount) > 0 {
			b := badCount[0]
			c.Violate("R-C03-9", name+"|bytes written are counted", pos(c, b.at), b.why, witness(b.st)...)
		} else {
			c.Discharge("R-C03-9", name+"|bytes written are counted", pos(c, fd),
				sprintf("%d count variable(s); each reaches the returned total on every path", len(tracked)))
		}
	})
	c.RequireCount("R-C03-9", "io.Reader implementations (Read methods) in the module", methods, 4)
}
