package rules

import (
	"go/ast"
	"go/types"
	"strings"

	"golang.org/x/tools/go/packages"

	"verif/internal/core"
	"verif/internal/flow"
)

const c19kvPrefix = "(go.etcd.io/etcd/client/v3.KV)."

// c19reads computes, per function, how many etcd KV requests are issued on its successful
// paths (saturating 0/1/2).
type c19reads struct {
	c       *core.Ctx
	may     map[*types.Func]int // 0 unknown, 1 in progress / no, 2 yes
	sums    map[ast.Node]*c19sum
	decls   map[*types.Func]*c19decl
	problem []string
}

type c19decl struct {
	pkg *packages.Package
	fd  *ast.FuncDecl
}

type c19sum struct {
	counts map[int]*flow.State // count on a (possibly) successful exit → a witness
	sites  []*ast.CallExpr     // call sites that issue requests
	res    *flow.Result
	// error faithfulness: an exit on which the error of a request site is known non-nil but the
	// function's own error result is not known non-nil
	lostErr     *flow.State
	lostErrSite *ast.CallExpr
	lostErrRet  ast.Node
	errSites    int // request sites whose error is bound to a variable
}

const (
	c19evN1 = "ev:req1" // at least one KV request issued
	c19evN2 = "ev:req2" // at least two
)

func c19isKV(o types.Object) bool {
	fo, ok := o.(*types.Func)
	return ok && strings.HasPrefix(fo.FullName(), c19kvPrefix)
}

// declOf finds the declaration of a module function.
func (a *c19reads) declOf(fo *types.Func) *c19decl {
	fo = fo.Origin()
	if d, ok := a.decls[fo]; ok {
		return d
	}
	a.decls[fo] = nil
	if fo.Pkg() == nil || !strings.HasPrefix(fo.Pkg().Path(), Mod) {
		return nil
	}
	pkg := a.c.Prog.All[fo.Pkg().Path()]
	if pkg == nil {
		return nil
	}
	for _, file := range pkg.Syntax {
		for _, d := range file.Decls {
			if fd, ok := d.(*ast.FuncDecl); ok && fd.Body != nil && pkg.TypesInfo.Defs[fd.Name] == fo {
				a.decls[fo] = &c19decl{pkg, fd}
				return a.decls[fo]
			}
		}
	}
	return nil
}

// mayRead: does the body (function literals included) syntactically reach a KV request
// through static calls inside the module?
func (a *c19reads) mayReadNode(info *types.Info, n ast.Node) bool {
	found := false
	ast.Inspect(n, func(x ast.Node) bool {
		call, ok := x.(*ast.CallExpr)
		if !ok || found {
			return !found
		}
		switch o := calleeOf(info, call).(type) {
		case *types.Func:
			if c19isKV(o) || a.mayRead(o) {
				found = true
			}
		}
		return !found
	})
	return found
}

func (a *c19reads) mayRead(fo *types.Func) bool {
	fo = fo.Origin()
	switch a.may[fo] {
	case 1:
		return false
	case 2:
		return true
	}
	a.may[fo] = 1
	d := a.declOf(fo)
	if d == nil {
		return false
	}
	if a.mayReadNode(d.pkg.TypesInfo, d.fd.Body) {
		a.may[fo] = 2
		return true
	}
	return false
}

func calleeOf(info *types.Info, call *ast.CallExpr) types.Object {
	f := &flow.Func{Info: info}
	return c19concrete(f.Callee(call))
}

// c19concrete: a call of a method of an interface declared in the module is a call of the method
// of the single named type of the interface's package that implements it (an unexported
// interface put in front of a dependency: `kvReader` in front of *cluster). Several
// implementations, or none: the interface method itself (opaque).
func c19concrete(o types.Object) types.Object {
	fo, ok := o.(*types.Func)
	if !ok || fo.Pkg() == nil || !strings.HasPrefix(fo.Pkg().Path(), Mod) {
		return o
	}
	sig, ok := fo.Type().(*types.Signature)
	if !ok || sig.Recv() == nil {
		return o
	}
	it, ok := sig.Recv().Type().Underlying().(*types.Interface)
	if !ok {
		return o
	}
	var found *types.Func
	n := 0
	scope := fo.Pkg().Scope()
	for _, name := range scope.Names() {
		tn, ok := scope.Lookup(name).(*types.TypeName)
		if !ok || tn.IsAlias() {
			continue
		}
		named, ok := tn.Type().(*types.Named)
		if !ok {
			continue
		}
		if _, isIface := named.Underlying().(*types.Interface); isIface {
			continue
		}
		for _, t := range []types.Type{named, types.NewPointer(named)} {
			if !types.Implements(t, it) {
				continue
			}
			if m, _, _ := types.LookupFieldOrMethod(t, true, fo.Pkg(), fo.Name()); m != nil {
				if mf, ok := m.(*types.Func); ok {
					found = mf
					n++
				}
			}
			break
		}
	}
	if n == 1 {
		return found
	}
	return o
}

// callCount: number of KV requests a call issues on its callee's successful paths.
func (a *c19reads) callCount(f *flow.Func, call *ast.CallExpr, depth int) int {
	if lit, ok := ast.Unparen(call.Fun).(*ast.FuncLit); ok {
		if !a.mayReadNode(f.Info, lit.Body) {
			return 0
		}
		return a.uniform(a.summary(f.Lit(lit), depth+1), f.Name+" (function literal)", true)
	}
	fo, ok := c19concrete(f.Callee(call)).(*types.Func)
	if !ok {
		return 0
	}
	if c19isKV(fo) {
		return 1
	}
	if !a.mayRead(fo) {
		return 0
	}
	d := a.declOf(fo)
	if d == nil {
		return 0
	}
	return a.uniform(a.summary(flow.NewFunc(d.pkg, d.fd), depth+1), declName(d.pkg, d.fd), false)
}

// uniform returns the largest request count of the callee's successful paths. A declared
// callee whose paths disagree gets a violated obligation of its own; a function literal
// does not, so disagreement there cannot be attributed and is reported as undecided.
func (a *c19reads) uniform(s *c19sum, what string, isLit bool) int {
	if s == nil {
		return 0
	}
	max, n := 0, 0
	for k := range s.counts {
		n++
		if k > max {
			max = k
		}
	}
	if n > 1 && isLit {
		a.problem = append(a.problem, what+": successful paths issue different numbers of KV requests")
	}
	return max
}

// c19success classifies an exit by the nil-ness of the error result.
func c19success(f *flow.Func, ex *flow.Exit) flow.Val {
	if f.Type == nil || f.Type.Results == nil || len(f.Type.Results.List) == 0 {
		return flow.True
	}
	lastFld := f.Type.Results.List[len(f.Type.Results.List)-1]
	if !c19isErr(f.Info.TypeOf(lastFld.Type)) {
		// a single result struct carrying the error: look at the error field of the literal returned
		if f.Type.Results.NumFields() == 1 && ex.Return != nil && len(ex.Return.Results) == 1 {
			if ef := c19errField(f.Info.TypeOf(lastFld.Type)); ef != nil {
				x := ast.Unparen(ex.Return.Results[0])
				if u, ok := x.(*ast.UnaryExpr); ok {
					x = ast.Unparen(u.X)
				}
				cl, ok := x.(*ast.CompositeLit)
				if !ok {
					return flow.Unknown
				}
				st, _ := f.Info.TypeOf(cl).Underlying().(*types.Struct)
				for i, el := range cl.Elts {
					val := el
					var fld *types.Var
					if kv, ok := el.(*ast.KeyValueExpr); ok {
						if k, ok := kv.Key.(*ast.Ident); ok {
							fld, _ = f.Info.Uses[k].(*types.Var)
						}
						val = kv.Value
					} else if st != nil && i < st.NumFields() {
						fld = st.Field(i)
					}
					if fld == ef {
						return c19nilness(f, ex, val)
					}
				}
				return flow.True // the error field is left at its zero value
			}
		}
		return flow.True
	}
	var e ast.Expr
	switch {
	case ex.Return == nil:
		return flow.Unknown
	case len(ex.Return.Results) == 0:
		if len(lastFld.Names) == 0 {
			return flow.Unknown
		}
		e = lastFld.Names[len(lastFld.Names)-1]
	case len(ex.Return.Results) == 1 && f.Type.Results.NumFields() > 1:
		return flow.Unknown // return g() passing a tuple through
	default:
		e = ex.Return.Results[len(ex.Return.Results)-1]
	}
	return c19nilness(f, ex, e)
}

// c19errField: the single error-typed field of a struct type (nil if none or several).
func c19errField(t types.Type) *types.Var {
	if t == nil {
		return nil
	}
	if p, ok := t.Underlying().(*types.Pointer); ok {
		t = p.Elem()
	}
	st, ok := t.Underlying().(*types.Struct)
	if !ok {
		return nil
	}
	var out *types.Var
	for i := 0; i < st.NumFields(); i++ {
		if c19isErr(st.Field(i).Type()) {
			if out != nil {
				return nil
			}
			out = st.Field(i)
		}
	}
	return out
}

// c19nilness: True = the error expression is nil on this exit (success), False = non-nil.
func c19nilness(f *flow.Func, ex *flow.Exit, e ast.Expr) flow.Val {
	e = ast.Unparen(e)
	if tv, ok := f.Info.Types[e]; ok && tv.IsNil() {
		return flow.True
	}
	switch e.(type) {
	case *ast.CallExpr, *ast.CompositeLit, *ast.UnaryExpr:
		return flow.False // a constructed error
	}
	switch ex.State.Get(f.NilKey(e)) {
	case flow.True:
		return flow.True
	case flow.False:
		return flow.False
	}
	return flow.Unknown
}

func c19count(st *flow.State) int {
	switch {
	case st.Is(c19evN2, flow.True):
		return 2
	case st.Is(c19evN1, flow.True):
		return 1
	}
	return 0
}

func (a *c19reads) summary(f *flow.Func, depth int) *c19sum {
	if s, ok := a.sums[f.Node]; ok {
		return s
	}
	a.sums[f.Node] = nil
	if depth > 6 {
		a.problem = append(a.problem, f.Name+": call chain too deep")
		return nil
	}
	s := &c19sum{counts: map[int]*flow.State{}}
	seen := map[*ast.CallExpr]bool{}
	res := analyze(a.c, f, flow.Config{NoHavoc: true,
		// small predicates on an enum-like flag (`scope.isPrefix()`) are interpreted in place so
		// that the branch learns the comparison they make
		Inline: func(call *ast.CallExpr, callee *types.Func) *flow.Func {
			sig, ok := callee.Type().(*types.Signature)
			if !ok || sig.Recv() == nil || !c19isEnum(sig.Recv().Type()) || callee.Pkg() != f.Pkg.Types {
				return nil
			}
			if hfd := declOf(f.Pkg, callee); hfd != nil {
				return flow.NewFunc(f.Pkg, hfd)
			}
			return nil
		},
		OnCall: func(st *flow.State, call *ast.CallExpr, callee types.Object, deferred bool) {
			n := a.callCount(f, call, depth)
			if n > 0 && !seen[call] {
				seen[call] = true
				s.sites = append(s.sites, call)
			}
			for ; n > 0; n-- {
				if st.Is(c19evN1, flow.True) {
					st.Set(c19evN2, flow.True)
				}
				st.Set(c19evN1, flow.True)
			}
		}})
	if res == nil {
		return nil
	}
	s.res = res
	// the variable each request site binds its error to: `x, err := site(..)`
	pm := parentMap(f.Node)
	siteErr := map[*ast.CallExpr]ast.Expr{}
	for _, site := range s.sites {
		var p ast.Node = site
		for {
			if pe, ok := pm[p].(*ast.ParenExpr); ok {
				p = pe
				continue
			}
			break
		}
		if as, ok := pm[p].(*ast.AssignStmt); ok && len(as.Rhs) == 1 && len(as.Lhs) >= 1 {
			last := as.Lhs[len(as.Lhs)-1]
			if c19isErr(f.Info.TypeOf(last)) && c19obj(f, last) != nil {
				siteErr[site] = last
				s.errSites++
			}
		}
		// an immediately invoked literal that loses the error loses it for this function too
		if lit, ok := ast.Unparen(site.Fun).(*ast.FuncLit); ok {
			if ls := a.sums[lit]; ls != nil && ls.lostErr != nil && s.lostErr == nil {
				s.lostErr, s.lostErrSite, s.lostErrRet = ls.lostErr, ls.lostErrSite, ls.lostErrRet
			}
		}
	}
	for _, ex := range res.Exits {
		if ex.Kind != flow.ExitReturn || c19phantom(ex) {
			continue
		}
		succ := c19success(f, ex)
		if succ != flow.False && s.lostErr == nil {
			for site, e := range siteErr {
				if ex.State.Is(f.NilKey(e), flow.False) {
					s.lostErr, s.lostErrSite = ex.State, site
					s.lostErrRet = ex.At
					if ex.Return != nil {
						s.lostErrRet = ex.Return
					}
				}
			}
		}
		if succ == flow.False {
			continue
		}
		k := c19count(ex.State)
		if _, ok := s.counts[k]; !ok {
			s.counts[k] = ex.State
		}
	}
	a.sums[f.Node] = s
	return s
}

// withPrefix: the node issues a KV request with the WithPrefix option.
func (a *c19reads) withPrefix(info *types.Info, n ast.Node) bool {
	return c19hasOption(info, n, "WithPrefix")
}

// c19hasOption: a call of clientv3.<name> occurs in n.
func c19hasOption(info *types.Info, n ast.Node, name string) bool {
	found := false
	ast.Inspect(n, func(x ast.Node) bool {
		call, ok := x.(*ast.CallExpr)
		if !ok {
			return true
		}
		if fo, ok := calleeOf(info, call).(*types.Func); ok && fo.FullName() == "go.etcd.io/etcd/client/v3."+name {
			found = true
		}
		return true
	})
	return found
}

func c19Pull(c *core.Ctx, r *c19run) {
	if len(r.pulls) == 0 {
		return // R-C19-1 already reported the missing pull
	}
	a := &c19reads{c: c, may: map[*types.Func]int{}, sums: map[ast.Node]*c19sum{}, decls: map[*types.Func]*c19decl{}}
	doneFn := map[*types.Func]bool{}
	for _, ps := range r.pulls {
		uf := ps.f
		// pull is called with run's own key and flag
		okArgs := true
		for _, arg := range ps.call.Args {
			t := uf.Info.TypeOf(arg)
			switch {
			case c19isString(t):
				okArgs = okArgs && r.fromRunParam(uf, arg, r.keyObj, 0)
			case c19isBool(t) || (r.prefEnum && t != nil && types.Identical(t, r.prefObj.Type())):
				okArgs = okArgs && r.fromRunParam(uf, arg, r.prefObj, 0)
			case r.targetObj != nil && t != nil && types.Identical(t, r.targetObj.Type()):
				okArgs = okArgs && r.fromRunParam(uf, arg, r.targetObj, 0)
			}
		}
		c.Check(okArgs, "R-C19-2", ps.u.name+"|pull reads run's key with run's prefix flag", pos(c, ps.call),
			"the string and bool arguments of the pull are run's own parameters",
			"the pull does not read the key / prefix flag that run was asked to sync: the snapshots delivered are the content of something else than the watched key or prefix")

		fo, _ := uf.Callee(ps.call).(*types.Func)
		if fo == nil {
			c.Undecide("R-C19-2", ps.u.name+"|pull", pos(c, ps.call), "the pull is not a statically resolved function")
			continue
		}
		if doneFn[fo] {
			continue
		}
		doneFn[fo] = true
		d := a.declOf(fo)
		if d == nil {
			c.Undecide("R-C19-2", ps.u.name+"|pull", pos(c, ps.call), "the pull function has no body in the module")
			continue
		}
		pf := flow.NewFunc(d.pkg, d.fd)
		pname := declName(d.pkg, d.fd)
		c.Count("functions_analysed", 1)
		s := a.summary(pf, 0)
		if s == nil {
			c.Undecide("R-C19-2", pname+"|exactly one store request per successful pull", pos(c, d.fd), "analysis failed: "+strings.Join(a.problem, "; "))
			continue
		}
		c.RequireCount("R-C19-2", "store read call sites in pull", len(s.sites), 1)
		// per callee obligations
		for node, cs := range a.sums {
			fd, ok := node.(*ast.FuncDecl)
			if !ok || cs == nil || fd == d.fd || len(cs.sites) == 0 {
				continue
			}
			var pkg *packages.Package
			for _, dd := range a.decls {
				if dd != nil && dd.fd == fd {
					pkg = dd.pkg
				}
			}
			if pkg == nil {
				continue
			}
			_, one := cs.counts[1]
			bad := cs.counts[0]
			why := "a successful path returns without having asked the store: the result is not a store state"
			if b2 := cs.counts[2]; b2 != nil {
				bad, why = b2, "a successful path issues more than one KV request (e.g. paging, read-then-read): the result can combine two different store states — a content the store never had"
			}
			c.Check(one && len(cs.counts) == 1, "R-C19-2", declName(pkg, fd)+"|single KV request per successful call", pos(c, fd),
				sprintf("%d request site(s); every successful path issues exactly one", len(cs.sites)), why, witness(bad)...)
			c19lostErr(c, declName(pkg, fd), flow.NewFunc(pkg, fd), cs)
			c.Check(!c19hasOption(pkg.TypesInfo, fd.Body, "WithSerializable"), "R-C19-2", declName(pkg, fd)+"|linearizable read", pos(c, fd),
				"no WithSerializable option: the range request goes through the leader's consensus, successive pulls see non-decreasing store states",
				"the read is made serializable (answered locally by whichever member the client talks to): a lagging member returns an older state after a newer one was already delivered — snapshots go backwards in store order")
		}
		c19lostErr(c, pname, pf, s)
		_, one := s.counts[1]
		bad := s.counts[0]
		why := "pull can return success without having read the store: the snapshot is made up, not a content the store had"
		if b2 := s.counts[2]; b2 != nil {
			bad, why = b2, "a successful path of pull issues more than one store request: the snapshot can combine two different store states — a content the store never had"
		}
		c.Check(one && len(s.counts) == 1, "R-C19-2", pname+"|exactly one store request per successful pull", pos(c, d.fd),
			sprintf("%d read site(s); every successful path issues exactly one KV request", len(s.sites)), why, witness(bad)...)

		// prefix read iff flag
		var flag *types.Var
		nb := 0
		for _, v := range c19params(pf, pf.Type) {
			if c19isBool(v.Type()) {
				flag = v
				nb++
			}
		}
		flagKey := ""
		if nb == 0 && r.prefEnum {
			// an enum-like flag: find the comparison `flag == K` that separates the prefix reads
			// from the single-key reads, and remember what "prefix" means for the adapters
			var ep *types.Var
			for _, v := range c19params(pf, pf.Type) {
				if types.Identical(v.Type(), r.prefObj.Type()) {
					ep = v
				}
			}
			if ep == nil {
				c.Undecide("R-C19-2", pname+"|prefix read iff prefix flag", pos(c, d.fd), "pull does not take run's scope value")
				continue
			}
			pre := "eq:" + pf.Render(c19defIdent(pf, d.fd.Type, ep)) + "=="
			type obs struct{ pref, single map[flow.Val]bool }
			seenKeys := map[string]*obs{}
			nP, nS := 0, 0
			sitePrefE := func(site *ast.CallExpr) bool {
				isPref := a.withPrefix(pf.Info, site)
				if cfo, ok := c19concrete(pf.Callee(site)).(*types.Func); ok && !c19isKV(cfo) {
					if cd := a.declOf(cfo); cd != nil {
						for _, g := range reach(flow.NewFunc(cd.pkg, cd.fd), 3) {
							if a.withPrefix(g.Info, g.Body) {
								isPref = true
							}
						}
					}
				}
				return isPref
			}
			for _, site := range s.sites {
				isPref := sitePrefE(site)
				for _, st := range s.res.At[site] {
					if isPref {
						nP++
					} else {
						nS++
					}
					for _, kv := range st.Facts() {
						i := strings.LastIndex(kv, "=")
						k := kv[:i]
						if !strings.HasPrefix(k, pre) {
							continue
						}
						o := seenKeys[k]
						if o == nil {
							o = &obs{map[flow.Val]bool{}, map[flow.Val]bool{}}
							seenKeys[k] = o
						}
						if isPref {
							o.pref[st.Get(k)] = true
						} else {
							o.single[st.Get(k)] = true
						}
					}
				}
			}
			found := false
			for _, k := range sortedKeys(seenKeys) {
				o := seenKeys[k]
				if len(o.pref) == 1 && len(o.single) == 1 && nP > 0 && nS > 0 {
					var pv, sv flow.Val
					for v := range o.pref {
						pv = v
					}
					for v := range o.single {
						sv = v
					}
					// every state of either kind must carry the fact: count them
					cp, cs := 0, 0
					for _, site := range s.sites {
						for _, st := range s.res.At[site] {
							if st.Get(k) != flow.Unknown {
								if sitePrefE(site) {
									cp++
								} else {
									cs++
								}
							}
						}
					}
					if pv != sv && cp == nP && cs == nS && !found {
						found = true
						r.prefVal, r.prefIs, r.prefKnown = k[len(pre):], pv == flow.True, true
					}
				}
			}
			c.Check(found, "R-C19-2", pname+"|prefix read iff prefix flag", pos(c, d.fd),
				sprintf("%d read site(s): a comparison of the scope value separates the WithPrefix reads from the plain reads (prefix ⇔ (scope == %s) is %v)", len(s.sites), r.prefVal, r.prefIs),
				"no comparison of the scope value separates the prefix reads from the single-key reads: a prefix read is reachable for a single-key syncer or the other way round")
			continue
		}
		if nb == 1 {
			flagKey = pf.VarKey(c19defIdent(pf, d.fd.Type, flag))
		} else if nb == 0 {
			// the flag travels as the bool field of a parameter object: `t.prefix`
			for _, v := range c19params(pf, pf.Type) {
				tf := c19targetFields(v.Type())
				if tf == nil {
					continue
				}
				ast.Inspect(d.fd.Body, func(n ast.Node) bool {
					if sel, ok := n.(*ast.SelectorExpr); ok && flagKey == "" && c19obj(pf, sel.X) == types.Object(v) {
						if sl := pf.Info.Selections[sel]; sl != nil && sl.Obj() == types.Object(tf[1]) {
							flagKey = pf.VarKey(sel)
						}
					}
					return true
				})
				if flagKey == "" {
					flagKey = "v:<the prefix field is never consulted>"
				}
			}
		}
		sitePref := func(site *ast.CallExpr) bool {
			isPref := a.withPrefix(pf.Info, site)
			if cfo, ok := c19concrete(pf.Callee(site)).(*types.Func); ok && !c19isKV(cfo) {
				if cd := a.declOf(cfo); cd != nil {
					for _, g := range reach(flow.NewFunc(cd.pkg, cd.fd), 3) {
						if a.withPrefix(g.Info, g.Body) {
							isPref = true
						}
					}
				}
			}
			return isPref
		}
		if flagKey == "" && nb == 0 {
			// the boolean parameter was replaced by two functions: the caller chooses. This pull
			// function is a prefix read or a single-key read as a whole, and the CALL of it must be
			// reached with run's prefix flag set / not set.
			nPref := 0
			for _, site := range s.sites {
				if sitePref(site) {
					nPref++
				}
			}
			runFlag := ""
			if rfd, ok := r.f.Node.(*ast.FuncDecl); ok {
				if id := c19defIdent(r.f, rfd.Type, r.prefObj); id != nil {
					runFlag = r.f.VarKey(id)
				}
			}
			if runFlag == "" {
				ast.Inspect(ps.u.body, func(n ast.Node) bool {
					if sel, ok := n.(*ast.SelectorExpr); ok && runFlag == "" {
						if sl := ps.f.Info.Selections[sel]; sl != nil && sl.Obj() == types.Object(r.prefObj) {
							runFlag = ps.f.VarKey(sel)
						}
					}
					return true
				})
			}
			if (nPref != 0 && nPref != len(s.sites)) || runFlag == "" || len(ps.states) == 0 {
				c.Undecide("R-C19-2", pname+"|prefix read iff prefix flag", pos(c, d.fd), "the pull function has no prefix flag and the caller's choice cannot be followed")
				continue
			}
			isPref := nPref > 0
			okc := true
			var bst *flow.State
			whyc := ""
			for _, st := range ps.states {
				switch {
				case isPref && !st.Is(runFlag, flow.True):
					okc, bst, whyc = false, st, "the prefix pull is called without run's prefix flag being set: a single-key syncer reads (and compares) a whole prefix — spurious re-deliveries of an unchanged value"
				case !isPref && !st.Is(runFlag, flow.False):
					okc, bst, whyc = false, st, "the single-key pull is called with run's prefix flag set: a prefix syncer only ever sees the one key equal to the prefix — changes under the prefix are never delivered"
				}
			}
			c.Check(okc, "R-C19-2", pname+"|prefix read iff prefix flag", pos(c, ps.call),
				sprintf("a %s read as a whole, called in %d state(s) all with run's prefix flag %v", map[bool]string{true: "prefix", false: "single-key"}[isPref], len(ps.states), isPref), whyc, witness(bst)...)
			continue
		}
		if flagKey == "" {
			c.Undecide("R-C19-2", pname+"|prefix read iff prefix flag", pos(c, d.fd), "pull has neither exactly one bool parameter nor a (key, prefix) parameter object")
			continue
		}
		okFlag := true
		var badSt *flow.State
		why = ""
		for _, site := range s.sites {
			isPref := sitePref(site)
			for _, st := range s.res.At[site] {
				switch {
				case isPref && !st.Is(flagKey, flow.True):
					okFlag, badSt, why = false, st, "the prefix read is reachable without the prefix flag being set: a single-key syncer reads (and compares) a whole prefix — spurious re-deliveries of an unchanged value"
				case !isPref && !st.Is(flagKey, flow.False):
					okFlag, badSt, why = false, st, "the single-key read is reachable with the prefix flag set: a prefix syncer only ever sees the one key equal to the prefix — changes under the prefix are never delivered"
				}
			}
		}
		c.Check(okFlag, "R-C19-2", pname+"|prefix read iff prefix flag", pos(c, d.fd),
			sprintf("%d read site(s): WithPrefix reads only with the flag true, plain reads only with it false", len(s.sites)), why, witness(badSt)...)
	}
	if len(a.problem) > 0 {
		c.Undecide("R-C19-2", fname(c19pkg, "syncer", "pull")+"|request count", "?", strings.Join(a.problem, "; "))
	}
}

// c19lostErr: on every path on which a store request (or a read below) failed, the function
// itself returns a non-nil error — otherwise pull "succeeds" with an empty/partial result while
// etcd is down and an empty snapshot is delivered.
func c19lostErr(c *core.Ctx, name string, f *flow.Func, s *c19sum) {
	if s.errSites == 0 && s.lostErr == nil {
		return // the request's results are passed through unchanged (`return client.Get(..)`)
	}
	var w []string
	why := ""
	if s.lostErr != nil {
		w = append([]string{"failed request: " + pos(c, s.lostErrSite) + " (" + short(f.Render(s.lostErrSite)) + "), exit: " + pos(c, s.lostErrRet)}, witness(s.lostErr)...)
		why = "a path on which the store request failed (its error variable is non-nil) leaves the function with an error result that is not that error — nil, or another variable (e.g. a shadowed `err` inside an if statement): the failed read is reported as a successful empty read, pull delivers an EMPTY snapshot while etcd is down and the old content again afterwards — contents the store never had, in the wrong order"
	}
	c.Check(s.lostErr == nil, "R-C19-2", name+"|a failed store request is reported as an error", pos(c, f.Node),
		sprintf("%d request site(s) bind their error; on every exit where it is non-nil the function's error result is non-nil", s.errSites), why, w...)
}

func short(s string) string {
	if len(s) > 60 {
		return s[:57] + "..."
	}
	return s
}
