package rules

import (
	"go/ast"
	"go/types"

	"verif/internal/core"
	"verif/internal/flow"
)

// c10wrapKind classifies a call of resilience.Wrapper.Wrap in (the reach of) ServerPool.handle by
// the pool field its receiver comes from: "retry", "breaker" or "".
func c10wrapKind(f *flow.Func, call *ast.CallExpr, retryF, cbF *types.Var) string {
	if !ifaceMethodCall(f, call, c10rs, "Wrapper", "Wrap") {
		return ""
	}
	recv := c10alias(f, f.Body, c10recv(call))
	switch {
	case c10fieldSel(f, recv, retryF):
		return "retry"
	case c10fieldSel(f, recv, cbF):
		return "breaker"
	}
	if c10rangedSlice(f, recv) != nil {
		return "loop" // for _, w := range wrappers { handler = w.Wrap(handler) }
	}
	return "?"
}

// c10rangedSlice: recv is the value variable of a forward `for _, w := range L` over a local slice L
// of f; returns L.
func c10rangedSlice(f *flow.Func, recv ast.Expr) types.Object {
	id := c10ident(recv)
	if id == nil {
		return nil
	}
	o := c10obj(f, id)
	var out types.Object
	ast.Inspect(f.Body, func(n ast.Node) bool {
		rs, ok := n.(*ast.RangeStmt)
		if !ok || rs.Value == nil {
			return true
		}
		if v := c10ident(rs.Value); v != nil && f.Info.Defs[v] == o {
			if l := c10ident(rs.X); l != nil {
				if lv, ok := c10obj(f, l).(*types.Var); ok && !lv.IsField() {
					out = lv
				}
			}
		}
		return true
	})
	return out
}

// c10sliceAppends lists the one-element appends `L = append(L, x)` to local slice L in f with the kind
// of wrapper appended ("retry", "breaker", "?"), in source order.
func c10sliceAppends(f *flow.Func, L types.Object, retryF, cbF *types.Var) (callsOut []*ast.CallExpr, kinds []string) {
	ast.Inspect(f.Body, func(n ast.Node) bool {
		as, ok := n.(*ast.AssignStmt)
		if !ok || len(as.Lhs) != 1 || len(as.Rhs) != 1 {
			return true
		}
		if id := c10ident(as.Lhs[0]); id == nil || c10obj(f, id) != L {
			return true
		}
		call, ok := ast.Unparen(as.Rhs[0]).(*ast.CallExpr)
		if !ok {
			return true
		}
		if b, ok := f.Callee(call).(*types.Builtin); !ok || b.Name() != "append" {
			return true
		}
		if len(call.Args) < 1 || c10ident(call.Args[0]) == nil || c10obj(f, c10ident(call.Args[0])) != L {
			callsOut, kinds = append(callsOut, call), append(kinds, "?")
			return true
		}
		for _, a := range call.Args[1:] {
			k := "?"
			x := c10alias(f, f.Body, a)
			switch {
			case c10fieldSel(f, x, retryF):
				k = "retry"
			case c10fieldSel(f, x, cbF):
				k = "breaker"
			}
			callsOut, kinds = append(callsOut, call), append(kinds, k)
		}
		return true
	})
	return
}

// c10appliesRetry: the call applies the retry wrapper - directly, or by appending it to the slice of
// wrappers a loop applies.
func c10appliesRetry(f *flow.Func, call *ast.CallExpr, retryF, cbF *types.Var) bool {
	switch c10wrapKind(f, call, retryF, cbF) {
	case "retry":
		return true
	case "loop":
		_, kinds := c10sliceAppends(f, c10rangedSlice(f, c10alias(f, f.Body, c10recv(call))), retryF, cbF)
		for _, k := range kinds {
			if k == "retry" {
				return true
			}
		}
	}
	return false
}

// c10relevantInline is inlineSamePkg restricted to the callees in whose reach one of the given
// nodes' enclosing functions lies: helpers that carry a piece of the analysed logic are
// interpreted in place, unrelated callees (mirror, metrics, cache ...) stay opaque.
func c10relevantInline(f *flow.Func, carriers map[*ast.BlockStmt]bool, except ...types.Object) func(*ast.CallExpr, *types.Func) *flow.Func {
	base := inlineSamePkg(f, except...)
	memo := map[*ast.BlockStmt]bool{}
	return func(call *ast.CallExpr, callee *types.Func) *flow.Func {
		g := base(call, callee)
		if g == nil {
			return nil
		}
		rel, ok := memo[g.Body]
		if !ok {
			for _, h := range reach(g, 3) {
				if carriers[h.Body] {
					rel = true
				}
			}
			memo[g.Body] = rel
		}
		if !rel {
			return nil
		}
		return g
	}
}

// c10Handle decides R-C10-3 and the handle-side halves of R-C10-2 / R-C10-5. The code looked at is
// ServerPool.handle together with the same-package helpers it calls (wrapping and the mapping of
// the error to the result may live in helpers); the flow analysis interprets those helpers in place.
func c10Handle(c *core.Ctx) {
	ro := c10Roles(c)
	if ro == nil {
		return
	}
	f, retryF, cbF, respF, speT := ro.handle, ro.retryF, ro.cbF, ro.respF, ro.spe
	cons := c10funcCons(f)
	fs := reach(f, 3)
	pm := map[ast.Node]ast.Node{}
	for _, g := range fs {
		for k, v := range parentMap(g.Body) {
			pm[k] = v
		}
	}
	carriers := map[*ast.BlockStmt]bool{}

	// ---- subjects
	wraps := map[*ast.CallExpr]string{}
	nRetry, nBreaker := 0, 0
	for _, g := range fs {
		for _, call := range calls(g.Body, false) {
			switch k := c10wrapKind(g, call, retryF, cbF); k {
			case "loop":
				// the wrappers are collected in a slice and applied by a forward range loop: the order
				// of the appends is the order of application, an append stands for the Wrap of its element
				carriers[g.Body] = true
				acalls, kinds := c10sliceAppends(g, c10rangedSlice(g, c10alias(g, g.Body, c10recv(call))), retryF, cbF)
				for i, ac := range acalls {
					switch kinds[i] {
					case "retry":
						wraps[ac] = "retry"
						nRetry++
					case "breaker":
						wraps[ac] = "breaker"
						nBreaker++
					default:
						c10shape(c, "R-C10-3", cons+"|retry inside breaker", pos(c, ac), "the slice of wrappers applied in a loop receives something that is neither sp.retryWrapper nor sp.circuitBreakerWrapper")
						return
					}
				}
			case "retry", "breaker":
				wraps[call] = k
				carriers[g.Body] = true
				if k == "retry" {
					nRetry++
				} else {
					nBreaker++
				}
				if _, discarded := pm[call].(*ast.ExprStmt); discarded || len(call.Args) != 1 {
					c10shape(c, "R-C10-3", cons+"|retry inside breaker", pos(c, call), "the result of Wrap is discarded")
					return
				}
			case "?":
				c10shape(c, "R-C10-3", cons+"|retry inside breaker", pos(c, call), "Wrapper.Wrap is called on something that is neither sp.retryWrapper nor sp.circuitBreakerWrapper")
				return
			}
		}
	}
	okR := c.RequireCount("R-C10-3", "retryWrapper.Wrap call sites in ServerPool.handle", nRetry, 1)
	okB := c.RequireCount("R-C10-3", "circuitBreakerWrapper.Wrap call sites in ServerPool.handle", nBreaker, 1)
	if !okR || !okB {
		return
	}
	// the invocation(s): calls of a local func(context.Context) error variable
	var invokes []*ast.CallExpr
	for _, g := range fs {
		for _, call := range calls(g.Body, false) {
			id := c10ident(call.Fun)
			if id == nil {
				continue
			}
			if v, ok := c10obj(f, id).(*types.Var); ok && !v.IsField() && c10isHandlerSig(v.Type()) {
				invokes = append(invokes, call)
				carriers[g.Body] = true
			}
		}
	}
	if !c.RequireCount("R-C10-3", "invocations of the wrapped handler in ServerPool.handle", len(invokes), 1) {
		return
	}
	// Request.IsStream() atoms
	var streamKeys []string
	for _, g := range fs {
		for _, call := range calls(g.Body, true) { // local predicate closures included
			if calleeIs(g, call, "(*"+c10hp+".Request).IsStream") {
				carriers[g.Body] = true
				streamKeys = append(streamKeys, f.CallKey(call))
				// a boolean local defined as this call
				if as, ok := pm[call].(*ast.AssignStmt); ok && len(as.Lhs) == 1 && len(as.Rhs) == 1 {
					if id := c10ident(as.Lhs[0]); id != nil && len(c10writes(f, g.Body, c10obj(f, id))) == 1 {
						streamKeys = append(streamKeys, f.VarKey(id))
					}
				}
			}
		}
	}
	isStream := func(st *flow.State) flow.Val {
		for _, k := range streamKeys {
			if v := st.Get(k); v != flow.Unknown {
				return v
			}
		}
		return flow.Unknown
	}
	// nilOf: is the field (read through any receiver / any single-assignment local alias in the
	// reach) known nil in a state?
	nilOf := func(fld *types.Var, condition bool) func(st *flow.State) flow.Val {
		seen := map[string]bool{}
		var keys []string
		add := func(k string) {
			if !seen[k] {
				seen[k] = true
				keys = append(keys, k)
			}
		}
		for _, g := range fs {
			ast.Inspect(g.Body, func(n ast.Node) bool {
				switch x := n.(type) {
				case *ast.SelectorExpr:
					if c10fieldSel(f, x, fld) {
						add(f.NilKey(x))
						if condition {
							carriers[g.Body] = true // a helper that tests the field carries part of the decision
						}
					}
				case *ast.AssignStmt:
					if len(x.Lhs) != len(x.Rhs) {
						return true
					}
					for i, l := range x.Lhs {
						if id := c10ident(l); id != nil && id.Name != "_" && c10fieldSel(f, x.Rhs[i], fld) && len(c10writes(f, g.Body, c10obj(f, id))) == 1 {
							add(f.NilKey(id))
						}
					}
				}
				return true
			})
		}
		return func(st *flow.State) flow.Val {
			for _, k := range keys {
				if v := st.Get(k); v != flow.Unknown {
					return v
				}
			}
			return flow.Unknown
		}
	}
	retryNil, cbNil, respNil := nilOf(retryF, true), nilOf(cbF, true), nilOf(respF, false)

	// the pool error is recognised by `spe, ok := err.(T)` (ok tested) or by the clause `case T:` of a
	// type switch `switch spe := err.(type)`; speObjs are the variables holding the asserted value
	speObjs := map[types.Object]bool{}
	var okVar *ast.Ident
	var speClauses []*ast.CaseClause
	for _, g := range fs {
		ast.Inspect(g.Body, func(n ast.Node) bool {
			switch x := n.(type) {
			case *ast.AssignStmt:
				if len(x.Lhs) != 2 || len(x.Rhs) != 1 {
					return true
				}
				if ta, ok := ast.Unparen(x.Rhs[0]).(*ast.TypeAssertExpr); ok && ta.Type != nil {
					if tv, ok := f.Info.Types[ta.Type]; ok && types.Identical(tv.Type, speT) && okVar == nil {
						if id := c10ident(x.Lhs[0]); id != nil {
							speObjs[c10obj(f, id)] = true
						}
						okVar = c10ident(x.Lhs[1])
						carriers[g.Body] = true
					}
				}
			case *ast.TypeSwitchStmt:
				for _, cl := range x.Body.List {
					cc := cl.(*ast.CaseClause)
					if len(cc.List) != 1 {
						continue
					}
					if tv, ok := f.Info.Types[cc.List[0]]; ok && types.Identical(tv.Type, speT) {
						speClauses = append(speClauses, cc)
						if o := f.Info.Implicits[cc]; o != nil {
							speObjs[o] = true
						}
						carriers[g.Body] = true
					}
				}
			}
			return true
		})
	}
	// a member of the pool error: its int field / a method returning int (the code), its string
	// field / a method other than Error returning string (the result)
	speMember := func(e ast.Expr, fld *types.Var, kind types.BasicKind) bool {
		e = ast.Unparen(e)
		if call, ok := e.(*ast.CallExpr); ok {
			fo, ok := f.Callee(call).(*types.Func)
			if !ok || fo.Name() == "Error" || len(call.Args) != 0 {
				return false
			}
			sig := fo.Type().(*types.Signature)
			if sig.Recv() == nil || !types.Identical(sig.Recv().Type(), speT) || sig.Results().Len() != 1 {
				return false
			}
			if bt, ok := sig.Results().At(0).Type().(*types.Basic); !ok || bt.Kind() != kind {
				return false
			}
			e = c10recv(call)
		} else if sel, ok := e.(*ast.SelectorExpr); ok {
			if !c10fieldSel(f, sel, fld) {
				return false
			}
			e = sel.X
		} else {
			return false
		}
		id := c10ident(e)
		return id != nil && speObjs[c10obj(f, id)]
	}
	isSpeCode := func(e ast.Expr) bool { return speMember(e, ro.codeF, types.Int) }
	isSpeResult := func(e ast.Expr) bool { return speMember(e, ro.resultF, types.String) }
	// role: the failure-response builder is the same-package function with an int (status) parameter
	// that stores the response field of the per-request context
	failCode := func(call *ast.CallExpr) (ast.Expr, bool) {
		fo, ok := f.Callee(call).(*types.Func)
		if !ok || fo.Pkg() != f.Pkg.Types {
			return nil, false
		}
		fd := declOf(f.Pkg, fo)
		if fd == nil || fd.Type.Params == nil {
			return nil, false
		}
		stores := false
		ast.Inspect(fd.Body, func(n ast.Node) bool {
			if as, ok := n.(*ast.AssignStmt); ok {
				for _, l := range as.Lhs {
					if c10fieldSel(f, l, respF) {
						stores = true
					}
				}
			}
			return true
		})
		if !stores {
			return nil, false
		}
		k := 0
		var code ast.Expr
		n := 0
		for _, fld := range fd.Type.Params.List {
			names := len(fld.Names)
			if names == 0 {
				names = 1
			}
			for i := 0; i < names; i++ {
				if bt, ok := f.Info.Types[fld.Type].Type.(*types.Basic); ok && bt.Kind() == types.Int && k < len(call.Args) {
					code = call.Args[k]
					n++
				}
				k++
			}
		}
		return code, n == 1
	}

	const evRetry, evBreaker = "ev:retryApplied", "ev:breakerApplied"
	var badOrder *flow.State
	var badOrderAt ast.Node
	res := analyze(c, f, flow.Config{
		NoHavoc: true,
		Inline:  c10relevantInline(f, carriers),
		// predicates held in single-assignment local closures (canRetry := func() bool {..}) are
		// interpreted in place; the attempt closure is reassigned by the wrappers and stays opaque
		InlineClosures: true,
		OnCall: func(st *flow.State, call *ast.CallExpr, callee types.Object, deferred bool) {
			if k, ok := wraps[call]; ok {
				// the wrappers form one chain on the path (the result of each Wrap is kept): what
				// has been applied before this call is inside what is applied now
				if k == "retry" {
					if st.Is(evBreaker, flow.True) && badOrder == nil {
						badOrder, badOrderAt = st, call
					}
					st.Set(evRetry, flow.True)
				} else {
					st.Set(evBreaker, flow.True)
				}
				return
			}
			if code, ok := failCode(call); ok {
				// what is known about the response at the moment the failure response replaces it
				st.Set("ev:failrespOnNil", respNil(st))
				if isSpeCode(code) {
					st.Set("ev:failresp", flow.True)
				} else {
					st.Set("ev:failresp", flow.False)
				}
			}
		},
	})
	if res == nil {
		return
	}
	inlined := ""
	if len(res.Inlined) > 0 {
		inlined = sprintf(" (helpers interpreted in place: %v)", res.Inlined)
	}
	// ---- R-C10-3: order
	c.Check(badOrder == nil, "R-C10-3", cons+"|retry inside breaker", pos(c, func() ast.Node {
		if badOrderAt != nil {
			return badOrderAt
		}
		return invokes[0]
	}()),
		"no state applies retryWrapper.Wrap to a handler that already contains the circuit breaker",
		"retryWrapper.Wrap is applied to a handler already wrapped by the circuit breaker: the breaker records one outcome per attempt instead of one per client request, and a short-circuited call is retried", witness(badOrder)...)

	// ---- R-C10-3: stream exclusion at the retry Wrap call
	var badStream *flow.State
	var badStreamAt ast.Node
	nStates := 0
	for call, k := range wraps {
		if k != "retry" {
			continue
		}
		for _, st := range res.At[call] {
			nStates++
			if isStream(st) != flow.False && badStream == nil {
				badStream, badStreamAt = st, call
			}
		}
	}
	if nStates == 0 {
		c.Violate("R-C10-3", cons+"|no retry for stream bodies", pos(c, invokes[0]), "retryWrapper.Wrap is unreachable in handle: a configured Retry policy has no effect")
	} else {
		c.Check(badStream == nil, "R-C10-3", cons+"|no retry for stream bodies", pos(c, func() ast.Node {
			if badStreamAt != nil {
				return badStreamAt
			}
			return invokes[0]
		}()),
			sprintf("%d state(s) reach retryWrapper.Wrap, all with Request.IsStream() known false", nStates),
			"retryWrapper.Wrap is reachable without Request.IsStream() being known false: a streamed request body, which can be read only once, is re-sent (empty or truncated) on the 2nd attempt", witness(badStream)...)
	}

	// ---- R-C10-3: wrappers present exactly when configured; R-C10-2: client context
	var badTable *flow.State
	whyTable := ""
	nInv := 0
	okArg := true
	for _, inv := range invokes {
		for _, st := range res.At[inv] {
			nInv++
			hasRetry, hasCB := st.Is(evRetry, flow.True), st.Is(evBreaker, flow.True)
			switch {
			case badTable != nil:
			case hasRetry && (retryNil(st) != flow.False || isStream(st) != flow.False):
				badTable, whyTable = st, "the invoked handler contains the retry wrapper on a path where retryWrapper != nil and !IsStream() are not both established"
			case !hasRetry && retryNil(st) != flow.True && isStream(st) != flow.True:
				badTable, whyTable = st, "the handler is invoked without the retry wrapper although neither retryWrapper == nil nor a stream request is established: a configured Retry policy is not applied"
			case hasCB && cbNil(st) != flow.False:
				badTable, whyTable = st, "the invoked handler contains the breaker wrapper on a path where circuitBreakerWrapper != nil is not established"
			case !hasCB && cbNil(st) != flow.True:
				badTable, whyTable = st, "the handler is invoked without the circuit-breaker wrapper although circuitBreakerWrapper == nil is not established: outcomes are not recorded"
			}
		}
		arg := ast.Expr(nil)
		if len(inv.Args) == 1 {
			// the argument, or the single-assignment local it was given a name with (reqCtx := req.Context())
			var root ast.Node = f.Body
			for _, g := range fs {
				if contains(g.Body, inv) {
					root = g.Body
				}
			}
			arg = ast.Unparen(c10alias(f, root, inv.Args[0]))
		}
		if call, ok := arg.(*ast.CallExpr); !ok || !(calleeIs(f, call, "(*"+c10hp+".Request).Context") || calleeFull(f, call) == "(*net/http.Request).Context") {
			okArg = false
		}
	}
	if nInv == 0 {
		c.Violate("R-C10-3", cons+"|wrappers applied iff configured", pos(c, invokes[0]), "the wrapped handler is never invoked")
	} else {
		c.Check(badTable == nil, "R-C10-3", cons+"|wrappers applied iff configured", pos(c, invokes[0]),
			sprintf("%d state(s) at the invocation: retry present iff retryWrapper != nil and not a stream, breaker present iff circuitBreakerWrapper != nil%s", nInv, inlined),
			whyTable, witness(badTable)...)
	}
	c.Check(okArg, "R-C10-2", cons+"|client context handed to the handler", pos(c, invokes[0]),
		"the wrapped handler is invoked with the request's Context()",
		"the wrapped handler is not invoked with the client request's Context(): the retry loop cannot observe that the client has gone and keeps calling the backend")

	// ---- R-C10-5 (handle side): result and failure response from the last attempt
	if len(speObjs) == 0 || (okVar == nil && len(speClauses) == 0) {
		c.Violate("R-C10-5", cons+"|result from serverPoolError", pos(c, f.Body), "handle no longer recognises the handler's error as the pool's error type (type assertion or type switch): the classification (timeout/serverError/clientError/failureCode) does not reach the pipeline")
		return
	}
	isSpeExit := func(ex *flow.Exit) bool {
		if okVar != nil && ex.State.Is(f.VarKey(okVar), flow.True) {
			return true
		}
		for _, cc := range speClauses {
			if contains(cc, ex.Ret()) {
				return true
			}
		}
		return false
	}
	var badRes, badResp *flow.Exit
	whyResp := ""
	n := 0
	for _, ex := range res.Exits {
		if ex.Kind != flow.ExitReturn || ex.Return == nil || !isSpeExit(ex) {
			continue
		}
		n++
		if ret := ex.Ret(); (len(ret.Results) != 1 || !isSpeResult(ret.Results[0])) && badRes == nil {
			badRes = ex
		}
		built := ex.State.Is("ev:failresp", flow.True)
		other := ex.State.Is("ev:failresp", flow.False)
		switch {
		case badResp != nil:
		case other:
			badResp, whyResp = ex, "a failure response is built with a status that is not the serverPoolError's code: the client does not see 408 for a timeout / 503 for a server error"
		case built && !ex.State.Is("ev:failrespOnNil", flow.True):
			badResp, whyResp = ex, "a failure response is built although the last attempt is not known to have left no response: the backend's response of the last attempt (failure code) is replaced"
		case !built && respNil(ex.State) != flow.False:
			badResp, whyResp = ex, "handle returns a failure result without building a failure response although the last attempt may have left no response: the client sees a stale or default response instead of the 408/503/499 status"
		}
	}
	if !c.RequireCount("R-C10-5", "exits of handle with a serverPoolError", n, 1) {
		return
	}
	exitW := func(ex *flow.Exit) []string {
		if ex == nil {
			return nil
		}
		return append([]string{"return at " + pos(c, ex.Ret())}, witness(ex.State)...)
	}
	c.Check(badRes == nil, "R-C10-5", cons+"|result from serverPoolError", pos(c, invokes[0]),
		sprintf("%d exit(s) with a serverPoolError return its result", n),
		"with a serverPoolError handle returns something other than the error's result string: the attempt's classification is lost", exitW(badRes)...)
	c.Check(badResp == nil, "R-C10-5", cons+"|failure response iff no response", pos(c, invokes[0]),
		sprintf("%d exit(s): buildFailureResponse(spe.code) exactly when spCtx.resp == nil", n), whyResp, exitW(badResp)...)
}

// c10ctxDerived reports whether ident id (a context variable of fn f) is the parameter param or
// is only ever assigned values derived from it (calls whose first argument is such a variable).
func c10ctxDerived(f *flow.Func, root ast.Node, id *ast.Ident, param types.Object) bool {
	seen := map[types.Object]bool{}
	var good func(o types.Object) bool
	good = func(o types.Object) bool {
		if o == nil || seen[o] {
			return o != nil
		}
		seen[o] = true
		ws := c10writes(f, root, o)
		if o != param && len(ws) == 0 {
			return false
		}
		for _, w := range ws {
			src := w.rhs
			if src == nil {
				src = w.src
			}
			if src == nil {
				return false
			}
			var from *ast.Ident
			if call, ok := ast.Unparen(src).(*ast.CallExpr); ok && len(call.Args) >= 1 {
				from = c10ident(call.Args[0])
			} else {
				from = c10ident(src)
			}
			if from == nil || !good(c10obj(f, from)) {
				return false
			}
		}
		return true
	}
	if id == nil {
		return false
	}
	return good(c10obj(f, id))
}

func c10fnName(g *flow.Func) *ast.Ident {
	if fd, ok := g.Node.(*ast.FuncDecl); ok {
		return fd.Name
	}
	return nil
}

// fnNode returns g's node if g is the declaration of o, else nil.
func c10fnNode(o types.Object, g *flow.Func) ast.Node {
	if id := c10fnName(g); id != nil && o != nil && g.Info.Defs[id] == o {
		return g.Node
	}
	return nil
}

// c10retString renders the returned expressions of a return statement.
func c10retString(r *ast.ReturnStmt) string {
	if r == nil || len(r.Results) == 0 {
		return "(nothing)"
	}
	return types.ExprString(r.Results[0])
}
