package rules

import (
	"fmt"
	"go/ast"
	"go/constant"
	"go/types"
	"os"

	"verif/internal/core"
	"verif/internal/flow"
)

// c10wrapKind classifies a call of resilience.Wrapper.Wrap in (the reach of) ServerPool.handle by
// the pool field its receiver comes from: "retry", "breaker" or "".
func c10wrapKind(f *flow.Func, call *ast.CallExpr, retryF, cbF *types.Var) string {
	if !ifaceMethodCall(f, call, c10rs, "Wrapper", "Wrap") {
		return ""
	}
	recv := c10alias(f, f.Body, c10recv(call))
	switch {
	case c10fieldSel(f, recv, retryF):
		return "retry"
	case c10fieldSel(f, recv, cbF):
		return "breaker"
	}
	return "?"
}

// c10relevantInline is inlineSamePkg restricted to the callees in whose reach one of the given
// nodes' enclosing functions lies: helpers that carry a piece of the analysed logic are
// interpreted in place, unrelated callees (mirror, metrics, cache ...) stay opaque.
func c10relevantInline(f *flow.Func, carriers map[*ast.BlockStmt]bool, except ...types.Object) func(*ast.CallExpr, *types.Func) *flow.Func {
	base := inlineSamePkg(f, except...)
	memo := map[*ast.BlockStmt]bool{}
	return func(call *ast.CallExpr, callee *types.Func) *flow.Func {
		g := base(call, callee)
		if g == nil {
			return nil
		}
		rel, ok := memo[g.Body]
		if !ok {
			for _, h := range reach(g, 3) {
				if carriers[h.Body] {
					rel = true
				}
			}
			memo[g.Body] = rel
		}
		if !rel {
			return nil
		}
		return g
	}
}

// c10Handle decides R-C10-3 and the handle-side halves of R-C10-2 / R-C10-5. The code looked at is
// ServerPool.handle together with the same-package helpers it calls (wrapping and the mapping of
// the error to the result may live in helpers); the flow analysis interprets those helpers in place.
func c10Handle(c *core.Ctx) {
	f := fn(c, c10px, "ServerPool", "handle")
	retryF := structField(c, c10px, "ServerPool", "retryWrapper")
	cbF := structField(c, c10px, "ServerPool", "circuitBreakerWrapper")
	respF := structField(c, c10px, "serverPoolContext", "resp")
	speT := namedType(c, c10px, "serverPoolError")
	if f == nil || retryF == nil || cbF == nil || respF == nil || speT == nil {
		return
	}
	cons := fname(c10px, "ServerPool", "handle")
	fs := reach(f, 3)
	pm := map[ast.Node]ast.Node{}
	for _, g := range fs {
		for k, v := range parentMap(g.Body) {
			pm[k] = v
		}
	}
	carriers := map[*ast.BlockStmt]bool{}

	// ---- subjects
	wraps := map[*ast.CallExpr]string{}
	nRetry, nBreaker := 0, 0
	for _, g := range fs {
		for _, call := range calls(g.Body, false) {
			switch k := c10wrapKind(g, call, retryF, cbF); k {
			case "retry", "breaker":
				wraps[call] = k
				carriers[g.Body] = true
				if k == "retry" {
					nRetry++
				} else {
					nBreaker++
				}
				if _, discarded := pm[call].(*ast.ExprStmt); discarded || len(call.Args) != 1 {
					c10shape(c, "R-C10-3", cons+"|retry inside breaker", pos(c, call), "the result of Wrap is discarded")
					return
				}
			case "?":
				c10shape(c, "R-C10-3", cons+"|retry inside breaker", pos(c, call), "Wrapper.Wrap is called on something that is neither sp.retryWrapper nor sp.circuitBreakerWrapper")
				return
			}
		}
	}
	okR := c.RequireCount("R-C10-3", "retryWrapper.Wrap call sites in ServerPool.handle", nRetry, 1)
	okB := c.RequireCount("R-C10-3", "circuitBreakerWrapper.Wrap call sites in ServerPool.handle", nBreaker, 1)
	if !okR || !okB {
		return
	}
	// the invocation(s): calls of a local func(context.Context) error variable
	var invokes []*ast.CallExpr
	for _, g := range fs {
		for _, call := range calls(g.Body, false) {
			id := c10ident(call.Fun)
			if id == nil {
				continue
			}
			if v, ok := c10obj(f, id).(*types.Var); ok && !v.IsField() && c10isHandlerSig(v.Type()) {
				invokes = append(invokes, call)
				carriers[g.Body] = true
			}
		}
	}
	if !c.RequireCount("R-C10-3", "invocations of the wrapped handler in ServerPool.handle", len(invokes), 1) {
		return
	}
	// Request.IsStream() atoms
	var streamKeys []string
	for _, g := range fs {
		for _, call := range calls(g.Body, false) {
			if calleeIs(g, call, "(*"+c10hp+".Request).IsStream") {
				streamKeys = append(streamKeys, f.CallKey(call))
				// a boolean local defined as this call
				if as, ok := pm[call].(*ast.AssignStmt); ok && len(as.Lhs) == 1 && len(as.Rhs) == 1 {
					if id := c10ident(as.Lhs[0]); id != nil && len(c10writes(f, g.Body, c10obj(f, id))) == 1 {
						streamKeys = append(streamKeys, f.VarKey(id))
					}
				}
			}
		}
	}
	isStream := func(st *flow.State) flow.Val {
		for _, k := range streamKeys {
			if v := st.Get(k); v != flow.Unknown {
				return v
			}
		}
		return flow.Unknown
	}
	// nilOf: is the field (read through any receiver / any single-assignment local alias in the
	// reach) known nil in a state?
	nilOf := func(fld *types.Var) func(st *flow.State) flow.Val {
		seen := map[string]bool{}
		var keys []string
		add := func(k string) {
			if !seen[k] {
				seen[k] = true
				keys = append(keys, k)
			}
		}
		for _, g := range fs {
			ast.Inspect(g.Body, func(n ast.Node) bool {
				switch x := n.(type) {
				case *ast.SelectorExpr:
					if c10fieldSel(f, x, fld) {
						add(f.NilKey(x))
					}
				case *ast.AssignStmt:
					if len(x.Lhs) != len(x.Rhs) {
						return true
					}
					for i, l := range x.Lhs {
						if id := c10ident(l); id != nil && id.Name != "_" && c10fieldSel(f, x.Rhs[i], fld) && len(c10writes(f, g.Body, c10obj(f, id))) == 1 {
							add(f.NilKey(id))
						}
					}
				}
				return true
			})
		}
		return func(st *flow.State) flow.Val {
			for _, k := range keys {
				if v := st.Get(k); v != flow.Unknown {
					return v
				}
			}
			return flow.Unknown
		}
	}
	retryNil, cbNil, respNil := nilOf(retryF), nilOf(cbF), nilOf(respF)

	// the type assertion err.(serverPoolError) and buildFailureResponse
	var speVar, okVar *ast.Ident
	for _, g := range fs {
		ast.Inspect(g.Body, func(n ast.Node) bool {
			as, ok := n.(*ast.AssignStmt)
			if !ok || len(as.Lhs) != 2 || len(as.Rhs) != 1 {
				return true
			}
			if ta, ok := ast.Unparen(as.Rhs[0]).(*ast.TypeAssertExpr); ok && ta.Type != nil {
				if tv, ok := f.Info.Types[ta.Type]; ok && types.Identical(tv.Type, speT) && speVar == nil {
					speVar, okVar = c10ident(as.Lhs[0]), c10ident(as.Lhs[1])
					carriers[g.Body] = true
				}
			}
			return true
		})
	}
	speMember := func(e ast.Expr, method, field string) bool {
		if speVar == nil {
			return false
		}
		e = ast.Unparen(e)
		if call, ok := e.(*ast.CallExpr); ok {
			if !calleeIs(f, call, "("+c10px+".serverPoolError)."+method) {
				return false
			}
			e = c10recv(call)
		} else if sel, ok := e.(*ast.SelectorExpr); ok {
			s := f.Info.Selections[sel]
			if s == nil || s.Obj().Name() != field || !types.Identical(s.Recv(), speT) {
				return false
			}
			e = sel.X
		} else {
			return false
		}
		id := c10ident(e)
		return id != nil && c10obj(f, id) == c10obj(f, speVar)
	}
	isSpeCode := func(e ast.Expr) bool { return speMember(e, "Code", "code") }
	isSpeResult := func(e ast.Expr) bool { return speMember(e, "Result", "result") }

	const evRetry, evBreaker = "ev:retryApplied", "ev:breakerApplied"
	var badOrder *flow.State
	var badOrderAt ast.Node
	res := analyze(c, f, flow.Config{
		NoHavoc: true,
		Inline:  c10relevantInline(f, carriers),
		OnCall: func(st *flow.State, call *ast.CallExpr, callee types.Object, deferred bool) {
			if k, ok := wraps[call]; ok {
				// the wrappers form one chain on the path (the result of each Wrap is kept): what
				// has been applied before this call is inside what is applied now
				if k == "retry" {
					if st.Is(evBreaker, flow.True) && badOrder == nil {
						badOrder, badOrderAt = st, call
					}
					st.Set(evRetry, flow.True)
				} else {
					st.Set(evBreaker, flow.True)
				}
				return
			}
			if calleeIs(f, call, "(*"+c10px+".ServerPool).buildFailureResponse") {
				if len(call.Args) == 2 && isSpeCode(call.Args[1]) {
					st.Set("ev:failresp", flow.True)
				} else {
					st.Set("ev:failresp", flow.False)
				}
			}
		},
	})
	if res == nil {
		return
	}
	inlined := ""
	if len(res.Inlined) > 0 {
		inlined = sprintf(" (helpers interpreted in place: %v)", res.Inlined)
	}
	// ---- R-C10-3: order
	c.Check(badOrder == nil, "R-C10-3", cons+"|retry inside breaker", pos(c, func() ast.Node {
		if badOrderAt != nil {
			return badOrderAt
		}
		return invokes[0]
	}()),
		"no state applies retryWrapper.Wrap to a handler that already contains the circuit breaker",
		"retryWrapper.Wrap is applied to a handler already wrapped by the circuit breaker: the breaker records one outcome per attempt instead of one per client request, and a short-circuited call is retried", witness(badOrder)...)

	// ---- R-C10-3: stream exclusion at the retry Wrap call
	var badStream *flow.State
	var badStreamAt ast.Node
	nStates := 0
	for call, k := range wraps {
		if k != "retry" {
			continue
		}
		for _, st := range res.At[call] {
			nStates++
			if isStream(st) != flow.False && badStream == nil {
				badStream, badStreamAt = st, call
			}
		}
	}
	if nStates == 0 {
		c.Violate("R-C10-3", cons+"|no retry for stream bodies", pos(c, invokes[0]), "retryWrapper.Wrap is unreachable in handle: a configured Retry policy has no effect")
	} else {
		c.Check(badStream == nil, "R-C10-3", cons+"|no retry for stream bodies", pos(c, func() ast.Node {
			if badStreamAt != nil {
				return badStreamAt
			}
			return invokes[0]
		}()),
			sprintf("%d state(s) reach retryWrapper.Wrap, all with Request.IsStream() known false", nStates),
			"retryWrapper.Wrap is reachable without Request.IsStream() being known false: a streamed request body, which can be read only once, is re-sent (empty or truncated) on the 2nd attempt", witness(badStream)...)
	}

	// ---- R-C10-3: wrappers present exactly when configured; R-C10-2: client context
	var badTable *flow.State
	whyTable := ""
	nInv := 0
	okArg := true
	for _, inv := range invokes {
		for _, st := range res.At[inv] {
			nInv++
			hasRetry, hasCB := st.Is(evRetry, flow.True), st.Is(evBreaker, flow.True)
			switch {
			case badTable != nil:
			case hasRetry && (retryNil(st) != flow.False || isStream(st) != flow.False):
				badTable, whyTable = st, "the invoked handler contains the retry wrapper on a path where retryWrapper != nil and !IsStream() are not both established"
			case !hasRetry && retryNil(st) != flow.True && isStream(st) != flow.True:
				badTable, whyTable = st, "the handler is invoked without the retry wrapper although neither retryWrapper == nil nor a stream request is established: a configured Retry policy is not applied"
			case hasCB && cbNil(st) != flow.False:
				badTable, whyTable = st, "the invoked handler contains the breaker wrapper on a path where circuitBreakerWrapper != nil is not established"
			case !hasCB && cbNil(st) != flow.True:
				badTable, whyTable = st, "the handler is invoked without the circuit-breaker wrapper although circuitBreakerWrapper == nil is not established: outcomes are not recorded"
			}
		}
		arg := ast.Expr(nil)
		if len(inv.Args) == 1 {
			arg = ast.Unparen(inv.Args[0])
		}
		if call, ok := arg.(*ast.CallExpr); !ok || !(calleeIs(f, call, "(*"+c10hp+".Request).Context") || calleeFull(f, call) == "(*net/http.Request).Context") {
			okArg = false
		}
	}
	if nInv == 0 {
		c.Violate("R-C10-3", cons+"|wrappers applied iff configured", pos(c, invokes[0]), "the wrapped handler is never invoked")
	} else {
		c.Check(badTable == nil, "R-C10-3", cons+"|wrappers applied iff configured", pos(c, invokes[0]),
			sprintf("%d state(s) at the invocation: retry present iff retryWrapper != nil and not a stream, breaker present iff circuitBreakerWrapper != nil%s", nInv, inlined),
			whyTable, witness(badTable)...)
	}
	c.Check(okArg, "R-C10-2", cons+"|client context handed to the handler", pos(c, invokes[0]),
		"the wrapped handler is invoked with the request's Context()",
		"the wrapped handler is not invoked with the client request's Context(): the retry loop cannot observe that the client has gone and keeps calling the backend")

	// ---- R-C10-5 (handle side): result and failure response from the last attempt
	if speVar == nil || okVar == nil {
		c.Violate("R-C10-5", cons+"|result from serverPoolError", pos(c, f.Body), "handle no longer type-asserts the handler's error to serverPoolError: the classification (timeout/serverError/clientError/failureCode) does not reach the pipeline")
		return
	}
	okKey := f.VarKey(okVar)
	var badRes, badResp *flow.Exit
	whyResp := ""
	n := 0
	for _, ex := range res.Exits {
		if ex.Kind != flow.ExitReturn || ex.Return == nil || !ex.State.Is(okKey, flow.True) {
			continue
		}
		n++
		if ret := ex.Ret(); (len(ret.Results) != 1 || !isSpeResult(ret.Results[0])) && badRes == nil {
			badRes = ex
		}
		built := ex.State.Is("ev:failresp", flow.True)
		other := ex.State.Is("ev:failresp", flow.False)
		switch {
		case badResp != nil:
		case other:
			badResp, whyResp = ex, "a failure response is built with a status that is not the serverPoolError's code: the client does not see 408 for a timeout / 503 for a server error"
		case built && respNil(ex.State) != flow.True:
			badResp, whyResp = ex, "a failure response is built although the last attempt is not known to have left no response: the backend's response of the last attempt (failure code) is replaced"
		case !built && respNil(ex.State) != flow.False:
			badResp, whyResp = ex, "handle returns a failure result without building a failure response although the last attempt may have left no response: the client sees a stale or default response instead of the 408/503/499 status"
		}
	}
	if !c.RequireCount("R-C10-5", "exits of handle with a serverPoolError", n, 1) {
		return
	}
	exitW := func(ex *flow.Exit) []string {
		if ex == nil {
			return nil
		}
		return append([]string{"return at " + pos(c, ex.Ret())}, witness(ex.State)...)
	}
	c.Check(badRes == nil, "R-C10-5", cons+"|result from serverPoolError", pos(c, invokes[0]),
		sprintf("%d exit(s) with a serverPoolError return its result", n),
		"with a serverPoolError handle returns something other than the error's result string: the attempt's classification is lost", exitW(badRes)...)
	c.Check(badResp == nil, "R-C10-5", cons+"|failure response iff no response", pos(c, invokes[0]),
		sprintf("%d exit(s): buildFailureResponse(spe.code) exactly when spCtx.resp == nil", n), whyResp, exitW(badResp)...)
}

// c10Attempt decides R-C10-4 on the per-attempt closure of ServerPool.handle.
func c10Attempt(c *core.Ctx) {
	f := fn(c, c10px, "ServerPool", "handle")
	respF := structField(c, c10px, "serverPoolContext", "resp")
	timeoutF := structField(c, c10px, "ServerPool", "timeout")
	if f == nil || respF == nil || timeoutF == nil {
		return
	}
	cons := fname(c10px, "ServerPool", "handle") + "$attempt"
	doObj := func() types.Object {
		if g := fnOpt(c, c10px, "ServerPool", "doHandle"); g != nil {
			return g.Info.Defs[g.Node.(*ast.FuncDecl).Name]
		}
		return nil
	}()
	// role: the function literal with the handler signature, in handle or a helper of it, from
	// which doHandle is reached (directly or through same-package helpers such as an extracted
	// "one attempt" method)
	var lit *ast.FuncLit
	var lf *flow.Func
	var dos []*ast.CallExpr
	var unit []*flow.Func // the literal and the helpers between it and doHandle
	direct := 0
	for _, g := range reach(f, 2) {
		if g.Node == ast.Node(c10fnNode(doObj, g)) {
			continue
		}
		direct += len(callsTo(g, g.Body, false, "(*"+c10px+".ServerPool).doHandle"))
		ast.Inspect(g.Body, func(n ast.Node) bool {
			l, ok := n.(*ast.FuncLit)
			if !ok {
				return true
			}
			if tv, ok := g.Info.Types[l]; !ok || !c10isHandlerSig(tv.Type) {
				return true
			}
			cand := g.Lit(l)
			var found []*ast.CallExpr
			var fns []*flow.Func
			for _, h := range reach(cand, 3) {
				if doObj != nil && h.Info.Defs[c10fnName(h)] == doObj {
					continue
				}
				fns = append(fns, h)
				found = append(found, callsTo(h, h.Body, true, "(*"+c10px+".ServerPool).doHandle")...)
			}
			if len(found) > 0 {
				if lit != nil && lit != l {
					lit = nil
					return false
				}
				lit, lf, dos, unit = l, cand, found, fns
			}
			return false
		})
	}
	if !c.RequireCount("R-C10-4", "doHandle call sites in ServerPool.handle", len(dos), 1) {
		return
	}
	if lit == nil {
		c10shape(c, "R-C10-4", cons+"|response reset per attempt", pos(c, dos[0]), "doHandle is not reached from a single function literal of handle")
		return
	}
	ctxP := c10paramObj(f, lit.Type, 0)
	if ctxP == nil || !c10isCtxType(ctxP.Type()) {
		c.Errorf("R-C10-4: anchor: the attempt closure has no named context.Context parameter")
		return
	}
	carriers := map[*ast.BlockStmt]bool{}
	var tests []c10sign
	for _, h := range unit {
		tests = append(tests, c10signTests(f, h.Body, timeoutF)...)
		if len(callsTo(h, h.Body, true, "(*"+c10px+".ServerPool).doHandle")) > 0 {
			carriers[h.Body] = true
		}
	}
	bodyOf := func(n ast.Node) ast.Node {
		for _, h := range unit {
			if contains(h.Body, n) {
				return h.Body
			}
		}
		return lit.Body
	}

	good := func(st *flow.State, id *ast.Ident) bool {
		if id == nil {
			return false
		}
		if c10obj(f, id) == ctxP {
			return !st.Is("ev:ctxbad:"+lf.Render(id), flow.True)
		}
		return st.Is("ev:ctxgood:"+lf.Render(id), flow.True)
	}
	res := analyze(c, lf, flow.Config{
		NoHavoc: true,
		Inline:  c10relevantInline(lf, carriers, doObj),
		OnCall: func(st *flow.State, call *ast.CallExpr, callee types.Object, deferred bool) {
			// a context handed to a same-package helper keeps its status under the parameter's name
			fo, ok := callee.(*types.Func)
			if !ok || fo == doObj {
				return
			}
			fd := declOf(f.Pkg, fo)
			if fd == nil || fd.Type.Params == nil {
				return
			}
			k := 0
			for _, fld := range fd.Type.Params.List {
				if len(fld.Names) == 0 {
					k++
					continue
				}
				for _, name := range fld.Names {
					if k < len(call.Args) && c10isCtxType(f.Info.Defs[name].Type()) {
						arg := c10ident(call.Args[k])
						key := lf.Render(name)
						st.Set("ev:ctxgood:"+key, map[bool]flow.Val{true: flow.True, false: flow.False}[good(st, arg)])
						if arg != nil {
							st.Set("ev:deadline:"+key, st.Get("ev:deadline:"+lf.Render(arg)))
						}
					}
					k++
				}
			}
		},
		OnNode: func(st *flow.State, n ast.Node) {
			as, ok := n.(*ast.AssignStmt)
			if !ok {
				return
			}
			// stores to spCtx.resp
			for i, l := range as.Lhs {
				if c10fieldSel(f, l, respF) {
					if len(as.Rhs) == len(as.Lhs) && f.Info.Types[as.Rhs[i]].IsNil() {
						st.Set("ev:respReset", flow.True)
					} else {
						st.Set("ev:respReset", flow.False)
					}
				}
			}
			// writes to context-typed variables
			if len(as.Lhs) == 0 {
				return
			}
			l := c10ident(as.Lhs[0])
			if l == nil {
				return
			}
			v, ok := c10obj(f, l).(*types.Var)
			if !ok || !c10isCtxType(v.Type()) {
				return
			}
			derived, deadline := false, flow.Unknown
			if len(as.Rhs) == 1 {
				if call, ok := ast.Unparen(as.Rhs[0]).(*ast.CallExpr); ok && len(call.Args) >= 1 {
					src := c10ident(call.Args[0])
					if good(st, src) {
						derived = true
						deadline = st.Get("ev:deadline:" + lf.Render(src))
						switch calleeFull(f, call) {
						case "context.WithTimeout", "context.WithDeadline":
							if len(call.Args) == 2 && c10mentions(f, c10alias(f, bodyOf(call), call.Args[1]), timeoutF) {
								deadline = flow.True
							}
						}
					}
				} else if src := c10ident(as.Rhs[0]); src != nil && good(st, src) {
					derived = true
					deadline = st.Get("ev:deadline:" + lf.Render(src))
				}
			}
			key := lf.Render(l)
			if c10obj(f, l) == ctxP {
				st.Set("ev:ctxbad:"+key, map[bool]flow.Val{true: flow.False, false: flow.True}[derived])
			} else {
				st.Set("ev:ctxgood:"+key, map[bool]flow.Val{true: flow.True, false: flow.False}[derived])
			}
			st.Set("ev:deadline:"+key, deadline)
		},
	})
	if res == nil {
		return
	}
	var badReset, badCtx, badDL *flow.State
	whyDL := ""
	n := 0
	for _, d := range dos {
		var arg *ast.Ident
		if len(d.Args) >= 1 {
			arg = c10ident(d.Args[0])
		}
		for _, st := range res.At[d] {
			n++
			if !st.Is("ev:respReset", flow.True) && badReset == nil {
				badReset = st
			}
			if !good(st, arg) {
				if badCtx == nil {
					badCtx = st
				}
				continue
			}
			has := st.Is("ev:deadline:"+lf.Render(arg), flow.True)
			p := c10positive(st, tests)
			switch {
			case badDL != nil:
			case has && p != flow.True:
				badDL, whyDL = st, "doHandle runs under WithTimeout(ctx, sp.timeout) on a path where sp.timeout > 0 is not established: a pool without a timeout gets an already expired deadline and every request ends as 408/timeout"
			case !has && p != flow.False:
				badDL, whyDL = st, "doHandle is reachable without a WithTimeout(ctx, sp.timeout) context although sp.timeout <= 0 is not established: a backend that does not answer hangs the request instead of yielding timeout (408)"
			}
		}
	}
	if n == 0 {
		c.Violate("R-C10-4", cons+"|response reset per attempt", pos(c, dos[0]), "doHandle is unreachable in the attempt closure")
		return
	}
	c.Check(badReset == nil, "R-C10-4", cons+"|response reset per attempt", pos(c, dos[0]),
		sprintf("%d state(s) reach doHandle, all after spCtx.resp = nil", n),
		"doHandle is reachable without spCtx.resp having been cleared in this attempt: when an earlier attempt left a response (failure code) and the last attempt fails without one, handle sees resp != nil and the client is served the earlier attempt's response with the last attempt's result", witness(badReset)...)
	c.Check(badCtx == nil, "R-C10-4", cons+"|attempt context derived from wrapper ctx", pos(c, dos[0]),
		"doHandle receives the closure's ctx parameter or a context derived from it",
		"doHandle receives a context that is not derived from the closure's ctx parameter: the client's cancellation does not reach the backend call", witness(badCtx)...)
	c.Check(badDL == nil, "R-C10-4", cons+"|deadline iff timeout configured", pos(c, dos[0]),
		sprintf("%d state(s): WithTimeout(ctx, sp.timeout) applied exactly when sp.timeout > 0 (helpers interpreted in place: %v)", n, res.Inlined), whyDL, witness(badDL)...)
}

// c10ctxDerived reports whether ident id (a context variable of fn f) is the parameter param or
// is only ever assigned values derived from it (calls whose first argument is such a variable).
func c10ctxDerived(f *flow.Func, root ast.Node, id *ast.Ident, param types.Object) bool {
	seen := map[types.Object]bool{}
	var good func(o types.Object) bool
	good = func(o types.Object) bool {
		if o == nil || seen[o] {
			return o != nil
		}
		seen[o] = true
		ws := c10writes(f, root, o)
		if o != param && len(ws) == 0 {
			return false
		}
		for _, w := range ws {
			src := w.rhs
			if src == nil {
				src = w.src
			}
			if src == nil {
				return false
			}
			var from *ast.Ident
			if call, ok := ast.Unparen(src).(*ast.CallExpr); ok && len(call.Args) >= 1 {
				from = c10ident(call.Args[0])
			} else {
				from = c10ident(src)
			}
			if from == nil || !good(c10obj(f, from)) {
				return false
			}
		}
		return true
	}
	if id == nil {
		return false
	}
	return good(c10obj(f, id))
}

// c10DoHandle decides the send-failure table of R-C10-5 and the context flow of R-C10-4.
func c10DoHandle(c *core.Ctx) {
	f := fn(c, c10px, "ServerPool", "doHandle")
	stdReqF := structField(c, c10px, "serverPoolContext", "stdReq")
	speT := namedType(c, c10px, "serverPoolError")
	if f == nil || stdReqF == nil || speT == nil {
		return
	}
	cons := fname(c10px, "ServerPool", "doHandle")
	fs := reach(f, 3)
	pm := map[ast.Node]ast.Node{}
	for _, g := range fs {
		for k, v := range parentMap(g.Body) {
			pm[k] = v
		}
	}
	ctxP := c10paramObj(f, f.Type, 0)
	if ctxP == nil || !c10isCtxType(ctxP.Type()) {
		c.Errorf("R-C10-4: anchor: doHandle's first parameter is not a named context.Context")
		return
	}
	// expected constants (role: declared result names of the proxy filter)
	pkg := c.Prog.Pkg(c10px)
	want := map[string][2]string{} // row -> {code, result}
	for row, v := range map[string][2]string{"nil": {"503", "resultServerError"}, "deadline": {"408", "resultTimeout"}, "other": {"499", "resultClientError"}} {
		o, ok := pkg.Types.Scope().Lookup(v[1]).(*types.Const)
		if !ok || o.Val().Kind() != constant.String {
			c.Errorf("R-C10-5: anchor: constant %s.%s not found", c10px, v[1])
			return
		}
		want[row] = [2]string{v[0], constant.StringVal(o.Val())}
	}

	// ---- subject: the send through the package-level function variable fnSendRequest
	var sends []*ast.CallExpr
	for _, call := range calls(f.Body, false) {
		if id := c10ident(call.Fun); id != nil {
			if v, ok := c10obj(f, id).(*types.Var); ok && v.Pkg() != nil && v.Parent() == v.Pkg().Scope() && v.Name() == "fnSendRequest" {
				sends = append(sends, call)
			}
		}
	}
	if !c.RequireCount("R-C10-5", "fnSendRequest call sites in doHandle", len(sends), 1) {
		return
	}
	if len(sends) != 1 {
		c10shape(c, "R-C10-5", cons+"|send-failure table", pos(c, sends[1]), "more than one send in doHandle")
		return
	}
	send := sends[0]
	var sendErr *ast.Ident
	if as, ok := pm[send].(*ast.AssignStmt); ok && len(as.Lhs) == 2 && len(as.Rhs) == 1 {
		sendErr = c10ident(as.Lhs[1])
	}
	if sendErr == nil || sendErr.Name == "_" {
		c.Violate("R-C10-5", cons+"|send-failure table", pos(c, send), "the error of the send is not kept: a failed send is not classified at all")
		return
	}
	sendErrObj := c10obj(f, sendErr)
	sendErrKey := f.NilKey(sendErr)
	c.Check(len(send.Args) >= 1 && c10fieldSel(f, send.Args[0], stdReqF), "R-C10-4", cons+"|sends the prepared request", pos(c, send),
		"fnSendRequest(spCtx.stdReq, ...)", "the request sent is not spCtx.stdReq (the one prepared with the attempt's context)")

	// ---- the context-error expressions consulted
	type ctxErr struct {
		xs     []string // renderings of the call and of every variable / parameter the value is bound to
		call   *ast.CallExpr
		recvOK bool
		why    string
	}
	// paramFor returns the parameter identifier of the same-package callee of `outer` that
	// receives outer's argument arg.
	paramFor := func(outer *ast.CallExpr, arg ast.Expr) *ast.Ident {
		fo, ok := f.Callee(outer).(*types.Func)
		if !ok || fo.Pkg() != f.Pkg.Types {
			return nil
		}
		fd := declOf(f.Pkg, fo)
		if fd == nil || fd.Type.Params == nil {
			return nil
		}
		k := 0
		for _, fld := range fd.Type.Params.List {
			if len(fld.Names) == 0 {
				k++
				continue
			}
			for _, name := range fld.Names {
				if k < len(outer.Args) && ast.Unparen(outer.Args[k]) == ast.Unparen(arg) {
					return name
				}
				k++
			}
		}
		return nil
	}
	var bound func(o types.Object, depth int) []string
	bound = func(o types.Object, depth int) []string {
		var out []string
		if o == nil || depth > 3 {
			return nil
		}
		for _, g := range fs {
			for _, outer := range calls(g.Body, true) {
				for _, a := range outer.Args {
					if id := c10ident(a); id != nil && c10obj(f, id) == o {
						if p := paramFor(outer, a); p != nil {
							out = append(out, f.Render(p))
							out = append(out, bound(f.Info.Defs[p], depth+1)...)
						}
					}
				}
			}
		}
		return out
	}
	var errs []ctxErr
	carriers := map[*ast.BlockStmt]bool{}
	for _, g := range fs {
		ast.Inspect(g.Body, func(n ast.Node) bool {
			switch x := n.(type) {
			case *ast.CompositeLit:
				if tv, ok := f.Info.Types[x]; ok && types.Identical(tv.Type, speT) {
					carriers[g.Body] = true
				}
			case *ast.SelectorExpr:
				if v, ok := f.Info.Uses[x.Sel].(*types.Var); ok && v.Pkg() != nil && v.Pkg().Path() == "context" && v.Name() == "DeadlineExceeded" {
					carriers[g.Body] = true
				}
			}
			return true
		})
		for _, call := range calls(g.Body, false) {
			if calleeFull(f, call) != "(context.Context).Err" {
				continue
			}
			carriers[g.Body] = true
			ce := ctxErr{call: call, xs: []string{f.Render(call)}}
			switch par := pm[call].(type) {
			case *ast.AssignStmt:
				if len(par.Lhs) == 1 && len(par.Rhs) == 1 {
					if id := c10ident(par.Lhs[0]); id != nil {
						ce.xs = append(ce.xs, f.Render(id))
						ce.xs = append(ce.xs, bound(c10obj(f, id), 0)...)
					}
				}
			case *ast.CallExpr:
				if p := paramFor(par, call); p != nil {
					ce.xs = append(ce.xs, f.Render(p))
					ce.xs = append(ce.xs, bound(f.Info.Defs[p], 0)...)
				}
			}
			recv := c10alias(f, g.Body, c10recv(call))
			switch r := ast.Unparen(recv).(type) {
			case *ast.CallExpr:
				switch {
				case calleeFull(f, r) == "(*net/http.Request).Context" && c10fieldSel(f, c10alias(f, g.Body, c10recv(r)), stdReqF):
					ce.recvOK = true
				case calleeIs(f, r, "(*"+c10hp+".Request).Context"):
					ce.why = "the client's request context (it carries no pool timeout: an expired pool timeout is classified as 503/serverError instead of 408/timeout)"
				default:
					ce.why = "?"
				}
			case *ast.Ident:
				if g == f && c10ctxDerived(f, f.Body, r, ctxP) {
					ce.recvOK = true
				} else {
					ce.why = "?"
				}
			default:
				ce.why = "?"
			}
			errs = append(errs, ce)
		}
	}
	dlKeys := func(x string) []string {
		ks := []string{"eq:" + x + "==@context.DeadlineExceeded"}
		for _, g := range fs {
			for _, call := range calls(g.Body, false) {
				if calleeFull(f, call) == "errors.Is" && len(call.Args) == 2 && f.Render(call.Args[0]) == x {
					if sel, ok := ast.Unparen(call.Args[1]).(*ast.SelectorExpr); ok {
						if v, ok := f.Info.Uses[sel.Sel].(*types.Var); ok && v.Pkg() != nil && v.Pkg().Path() == "context" && v.Name() == "DeadlineExceeded" {
							ks = append(ks, f.CallKey(call))
						}
					}
				}
			}
		}
		return ks
	}

	// what a state knows about the value of the i-th ctx.Err() call: the engine's facts about any
	// of its names, remembered as events as soon as a branch establishes them (the value of one
	// evaluation of Err() does not change; the events are reset when the call is evaluated again).
	// Needed because facts about a value handed through helper parameters can be dropped when the
	// same helper is interpreted a second time (see the engine note in the reply).
	errIdx := map[*ast.CallExpr]int{}
	nilKeys := make([][]string, len(errs))
	dlKeysOf := make([][]string, len(errs))
	for i, ce := range errs {
		errIdx[ce.call] = i
		for _, x := range ce.xs {
			nilKeys[i] = append(nilKeys[i], "nil:"+x)
			dlKeysOf[i] = append(dlKeysOf[i], dlKeys(x)...)
		}
	}
	known := func(st *flow.State, ev string, keys []string) flow.Val {
		if v := st.Get(ev); v != flow.Unknown {
			return v
		}
		for _, k := range keys {
			if v := st.Get(k); v != flow.Unknown {
				return v
			}
		}
		return flow.Unknown
	}

	// the response read (header already received; the body is read under the same context)
	reads := callsTo(f, f.Body, false, "(*"+c10px+".ServerPool).buildResponse")
	readErrKey := map[*ast.CallExpr]string{}
	for _, rd := range reads {
		if as, ok := pm[rd].(*ast.AssignStmt); ok && len(as.Lhs) == 1 && len(as.Rhs) == 1 {
			if id := c10ident(as.Lhs[0]); id != nil && id.Name != "_" {
				readErrKey[rd] = f.NilKey(id)
			}
		}
	}

	res := analyze(c, f, flow.Config{
		NoHavoc: true,
		Inline:  c10relevantInline(f, carriers),
		OnCall: func(st *flow.State, call *ast.CallExpr, callee types.Object, deferred bool) {
			if i, ok := errIdx[call]; ok {
				st.Set(sprintf("ev:ctxnil:%d", i), flow.Unknown)
				st.Set(sprintf("ev:ctxdl:%d", i), flow.Unknown)
			}
			if call == send {
				st.Set("ev:sent", flow.True)
				st.Set("ev:sendfailed", flow.Unknown)
			}
			if readErrKey[call] != "" {
				st.Set("ev:read", flow.True)
				st.Set("ev:readfailed", flow.Unknown)
				st.Set("ev:readkey:"+readErrKey[call], flow.True)
			}
		},
		OnNode: func(st *flow.State, n ast.Node) {
			// the send error variable is re-used for something else before having been tested
			if as, ok := n.(*ast.AssignStmt); ok && st.Is("ev:sent", flow.True) && st.Get("ev:sendfailed") == flow.Unknown {
				for _, l := range as.Lhs {
					if id := c10ident(l); id != nil && c10obj(f, id) == sendErrObj && pm[send] != ast.Node(as) {
						st.Set("ev:sendlost", flow.True)
					}
				}
			}
		},
		AfterAssume: func(st *flow.State, cond ast.Expr, outcome bool) {
			for i := range errs {
				if v := known(st, sprintf("ev:ctxnil:%d", i), nilKeys[i]); v != flow.Unknown {
					st.Set(sprintf("ev:ctxnil:%d", i), v)
				}
				if v := known(st, sprintf("ev:ctxdl:%d", i), dlKeysOf[i]); v != flow.Unknown {
					st.Set(sprintf("ev:ctxdl:%d", i), v)
				}
			}
			if st.Is("ev:sent", flow.True) && st.Get("ev:sendfailed") == flow.Unknown && !st.Is("ev:sendlost", flow.True) {
				switch st.Get(sendErrKey) {
				case flow.True:
					st.Set("ev:sendfailed", flow.False)
				case flow.False:
					st.Set("ev:sendfailed", flow.True)
				}
			}
			if st.Is("ev:read", flow.True) && st.Get("ev:readfailed") == flow.Unknown {
				for _, k := range readErrKey {
					if !st.Is("ev:readkey:"+k, flow.True) {
						continue
					}
					switch st.Get(k) {
					case flow.True:
						st.Set("ev:readfailed", flow.False)
					case flow.False:
						st.Set("ev:readfailed", flow.True)
					}
				}
			}
		},
	})
	if res == nil {
		return
	}
	// retLit reads a returned constant serverPoolError{code, result}
	retLit := func(ex *flow.Exit) (code, result string, okLit bool) {
		if ret := ex.Ret(); len(ret.Results) == 1 {
			if cl, ok := ast.Unparen(ret.Results[0]).(*ast.CompositeLit); ok {
				if tv, ok := f.Info.Types[cl]; ok && types.Identical(tv.Type, speT) && len(cl.Elts) == 2 {
					var ce, re ast.Expr
					for i, el := range cl.Elts {
						if kv, ok := el.(*ast.KeyValueExpr); ok {
							switch c10ident(kv.Key).Name {
							case "code":
								ce = kv.Value
							case "result":
								re = kv.Value
							}
						} else if i == 0 {
							ce = el
						} else {
							re = el
						}
					}
					if ce != nil && re != nil {
						if v, ok := c10constInt(f, ce); ok {
							if s, ok := c10constString(f, re); ok {
								code, result, okLit = sprintf("%d", v), s, true
							}
						}
					}
				}
			}
		}
		return
	}
	// ctxRow tells which row of the table a state is on ("" = not distinguished)
	ctxRow := func(st *flow.State) string {
		for i := range errs {
			nilV := known(st, sprintf("ev:ctxnil:%d", i), nilKeys[i])
			dl := known(st, sprintf("ev:ctxdl:%d", i), dlKeysOf[i])
			switch {
			case nilV == flow.True:
				return "nil"
			case dl == flow.True:
				return "deadline"
			case nilV == flow.False && dl == flow.False:
				return "other"
			case dl == flow.False:
				return "notdeadline"
			}
		}
		return ""
	}
	type row struct {
		ex   *flow.Exit
		why  string
		kind string
	}
	var bad *row
	rows := map[string]int{}
	nFail := 0
	lost := false
	for _, ex := range res.Exits {
		if ex.Kind != flow.ExitReturn || ex.Return == nil {
			continue
		}
		st := ex.State
		if st.Is("ev:sendlost", flow.True) {
			lost = true
		}
		if !st.Is("ev:sendfailed", flow.True) {
			continue
		}
		nFail++
		// what is returned
		code, result, okLit := retLit(ex)
		if !okLit {
			if bad == nil {
				k := "violate"
				if len(ex.Ret().Results) == 1 && !f.Info.Types[ex.Ret().Results[0]].IsNil() {
					k = "shape"
				}
				bad = &row{ex, "after a failed send doHandle returns " + c10retString(ex.Ret()) + " instead of a constant serverPoolError{code, result}", k}
			}
			continue
		}
		// which row are we on?
		which := ctxRow(st)
		if which == "notdeadline" {
			which = ""
		}
		if which == "" {
			if bad == nil {
				if os.Getenv("VERIF_C10_DEBUG") != "" {
					fmt.Fprintln(os.Stderr, "DEBUG facts:", st.Facts(), "errs:", errs)
				}
				bad = &row{ex, sprintf("after a failed send doHandle returns (%s, %s) on a path that has not distinguished context error nil / DeadlineExceeded / other: timeouts, backend failures and client disconnects are not told apart", code, result), "violate"}
			}
			continue
		}
		rows[which]++
		if w := want[which]; (w[0] != code || w[1] != result) && bad == nil {
			bad = &row{ex, sprintf("send failed with request-context error %s: doHandle returns (%s, %s), the property demands (%s, %s)",
				map[string]string{"nil": "nil (backend failure)", "deadline": "DeadlineExceeded (pool timeout expired)", "other": "non-nil, not DeadlineExceeded (client gone)"}[which], code, result, w[0], w[1]), "violate"}
		}
	}
	if lost {
		c10shape(c, "R-C10-5", cons+"|send-failure table", pos(c, send), "the send's error variable is overwritten before it is tested")
		return
	}
	if nFail == 0 {
		c.Violate("R-C10-5", cons+"|send-failure table", pos(c, send), "no exit of doHandle is taken with the send's error known non-nil: a failed send is not turned into a failure result")
		return
	}
	switch {
	case bad != nil && bad.kind == "shape":
		c10shape(c, "R-C10-5", cons+"|send-failure table", pos(c, bad.ex.Ret()), bad.why)
	case bad != nil:
		c.Violate("R-C10-5", cons+"|send-failure table", pos(c, bad.ex.Ret()), bad.why, witness(bad.ex.State)...)
	case rows["nil"] == 0 || rows["deadline"] == 0 || rows["other"] == 0:
		c.Violate("R-C10-5", cons+"|send-failure table", pos(c, send), sprintf("the send-failure exits do not cover all three rows (nil: %d, DeadlineExceeded: %d, other: %d)", rows["nil"], rows["deadline"], rows["other"]))
	default:
		c.Discharge("R-C10-5", cons+"|send-failure table", pos(c, send),
			sprintf("%d send-failure exits: ctx error nil => (503, %s); DeadlineExceeded => (408, %s); other => (499, %s)", nFail, want["nil"][1], want["deadline"][1], want["other"][1]))
	}
	// whose context error is consulted
	okRecv, shape := true, false
	why := ""
	var at ast.Node = send
	for _, ce := range errs {
		if !ce.recvOK {
			okRecv, at = false, ce.call
			if ce.why == "?" {
				shape = true
			} else {
				why = ce.why
			}
		}
	}
	switch {
	case len(errs) == 0:
		// reported by the table above
	case shape:
		c10shape(c, "R-C10-5", cons+"|classified by the outgoing request's context", pos(c, at), "cannot tell which context's Err() is consulted")
	default:
		c.Check(okRecv, "R-C10-5", cons+"|classified by the outgoing request's context", pos(c, at),
			"Err() is read from spCtx.stdReq.Context() / the attempt's context", "the send failure is classified by "+why)
	}

	// ---- R-C10-5: a response read that fails because the pool timeout expired is a timeout too
	if c.RequireCount("R-C10-5", "buildResponse call sites in doHandle", len(reads), 1) {
		if len(readErrKey) != len(reads) {
			c.Violate("R-C10-5", cons+"|response-read failure under the deadline", pos(c, reads[0]), "the error of buildResponse is not kept: a response whose body could not be read in time is passed on as success")
		} else {
			var badRead *flow.Exit
			whyRead := ""
			nRead := 0
			for _, ex := range res.Exits {
				if ex.Kind != flow.ExitReturn || ex.Return == nil || !ex.State.Is("ev:readfailed", flow.True) {
					continue
				}
				nRead++
				code, result, okLit := retLit(ex)
				switch which := ctxRow(ex.State); {
				case badRead != nil:
				case which == "":
					badRead, whyRead = ex, sprintf("reading the backend's response failed and doHandle returns (%s, %s) without consulting the attempt context's error: when the pool timeout expires while the body is still being received (header in time, body stalled) the result is %s instead of timeout (408)", code, result, result)
				case which == "deadline" && (!okLit || code != want["deadline"][0] || result != want["deadline"][1]):
					badRead, whyRead = ex, sprintf("reading the backend's response failed with the context's DeadlineExceeded: doHandle returns (%s, %s), the property demands (%s, %s)", code, result, want["deadline"][0], want["deadline"][1])
				}
			}
			if nRead == 0 {
				c.Violate("R-C10-5", cons+"|response-read failure under the deadline", pos(c, reads[0]), "no exit of doHandle is taken with buildResponse's error known non-nil")
			} else {
				c.Check(badRead == nil, "R-C10-5", cons+"|response-read failure under the deadline", pos(c, reads[0]),
					sprintf("%d exit(s) after a failed response read: DeadlineExceeded => (408, %s)", nRead, want["deadline"][1]), whyRead,
					func() []string {
						if badRead == nil {
							return nil
						}
						return append([]string{"return at " + pos(c, badRead.Return)}, witness(badRead.State)...)
					}()...)
			}
		}
	}

	// ---- R-C10-4: the attempt's context reaches prepareRequest
	preps := callsTo(f, f.Body, false, "(*"+c10px+".serverPoolContext).prepareRequest")
	if !c.RequireCount("R-C10-4", "prepareRequest call sites in doHandle", len(preps), 1) {
		return
	}
	okFlow := true
	for _, p := range preps {
		// the context argument, wherever it stands in the parameter list
		var ctxArg *ast.Ident
		nctx := 0
		for _, a := range p.Args {
			if tv, ok := f.Info.Types[a]; ok && c10isCtxType(tv.Type) {
				ctxArg = c10ident(a)
				nctx++
			}
		}
		if nctx != 1 || !c10ctxDerived(f, f.Body, ctxArg, ctxP) {
			okFlow, at = false, p
		}
	}
	c.Check(okFlow, "R-C10-4", cons+"|attempt context reaches prepareRequest", pos(c, preps[0]),
		"prepareRequest receives doHandle's ctx parameter (or a context derived from it)",
		"prepareRequest does not receive a context derived from doHandle's ctx parameter: the pool timeout / client cancellation never reaches the backend request", pos(c, at))
}

// c10Prepare: the context given to prepareRequest becomes the context of the request stored in
// stdReq.
func c10Prepare(c *core.Ctx) {
	f := fn(c, c10px, "serverPoolContext", "prepareRequest")
	stdReqF := structField(c, c10px, "serverPoolContext", "stdReq")
	if f == nil || stdReqF == nil {
		return
	}
	cons := fname(c10px, "serverPoolContext", "prepareRequest")
	var ctxP types.Object
	for i := 0; i < 4; i++ {
		if o := c10paramObj(f, f.Type, i); o != nil && c10isCtxType(o.Type()) {
			ctxP = o
		}
	}
	if ctxP == nil {
		c.Errorf("R-C10-4: anchor: prepareRequest has no named context.Context parameter")
		return
	}
	// variables holding a request built with the context
	carrier := map[types.Object]bool{}
	pm := parentMap(f.Body)
	for _, call := range calls(f.Body, false) {
		var ctxArg ast.Expr
		switch calleeFull(f, call) {
		case "net/http.NewRequestWithContext":
			if len(call.Args) >= 1 {
				ctxArg = call.Args[0]
			}
		case "(*net/http.Request).WithContext":
			if len(call.Args) == 1 {
				ctxArg = call.Args[0]
			}
		default:
			continue
		}
		if !c10ctxDerived(f, f.Body, c10ident(ctxArg), ctxP) {
			continue
		}
		if as, ok := pm[call].(*ast.AssignStmt); ok && len(as.Rhs) == 1 && len(as.Lhs) >= 1 {
			if id := c10ident(as.Lhs[0]); id != nil {
				carrier[c10obj(f, id)] = true
			}
		}
	}
	stores, good := 0, 0
	var at ast.Node = f.Body
	ast.Inspect(f.Body, func(n ast.Node) bool {
		as, ok := n.(*ast.AssignStmt)
		if !ok || len(as.Lhs) != len(as.Rhs) {
			return true
		}
		for i, l := range as.Lhs {
			if !c10fieldSel(f, l, stdReqF) {
				continue
			}
			stores++
			at = as
			if id := c10ident(as.Rhs[i]); id != nil && carrier[c10obj(f, id)] {
				// every write to the carrier variable must be such a request
				all := true
				for _, w := range c10writes(f, f.Body, c10obj(f, id)) {
					src := w.rhs
					if src == nil {
						src = w.src
					}
					call, ok := ast.Unparen(src).(*ast.CallExpr)
					if !ok {
						all = false
						continue
					}
					switch calleeFull(f, call) {
					case "net/http.NewRequestWithContext", "(*net/http.Request).WithContext":
					default:
						all = false
					}
				}
				if all {
					good++
				}
			}
		}
		return true
	})
	if stores == 0 {
		c.Violate("R-C10-4", cons+"|deadline reaches the backend request", pos(c, f.Body), "prepareRequest no longer stores the request it builds in spCtx.stdReq")
		return
	}
	c.Check(good == stores, "R-C10-4", cons+"|deadline reaches the backend request", pos(c, at),
		"spCtx.stdReq is the request built by http.NewRequestWithContext(ctx, ...) with prepareRequest's ctx parameter",
		"the request stored in spCtx.stdReq is not built with prepareRequest's ctx parameter (NewRequestWithContext / WithContext): the pool timeout and the client's cancellation do not bound the backend call, which may hang")
}

// fnName returns the name identifier of a declared function (nil for literals).
func c10fnName(g *flow.Func) *ast.Ident {
	if fd, ok := g.Node.(*ast.FuncDecl); ok {
		return fd.Name
	}
	return nil
}

// fnNode returns g's node if g is the declaration of o, else nil.
func c10fnNode(o types.Object, g *flow.Func) ast.Node {
	if id := c10fnName(g); id != nil && o != nil && g.Info.Defs[id] == o {
		return g.Node
	}
	return nil
}

// c10retString renders the returned expressions of a return statement.
func c10retString(r *ast.ReturnStmt) string {
	if r == nil || len(r.Results) == 0 {
		return "(nothing)"
	}
	return types.ExprString(r.Results[0])
}
