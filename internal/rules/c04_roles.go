package rules

// Role resolution of the ServerPool functions C04 is anchored in (robustness pass): unexported
// functions are found by what they do, so that a rename, a move to another file of the package
// or a split keeps the rules attached:
//   publish = the functions that Store into ServerPool's atomic.Value        (createLoadBalancer)
//   watch   = the ServerPool method that talks to *serviceregistry.ServiceRegistry (watchServers)
//   apply   = the ServerPool method taking map[string]*ServiceInstanceSpec that reaches a
//             publish function; of several, the one the watch function calls     (useService)
// The current names are tie-breakers only.

import (
	"go/ast"
	"go/types"

	"golang.org/x/tools/go/packages"

	"verif/internal/core"
	"verif/internal/flow"
)

type c04Fn struct {
	f   *flow.Func
	pkg *packages.Package
	fd  *ast.FuncDecl
	obj *types.Func
}

func (x *c04Fn) cons() string { return declName(x.pkg, x.fd) }

type c04Roles struct {
	holder  *types.Var
	publish map[*types.Func]*c04Fn
	watch   *c04Fn
	apply   *c04Fn
	instMap types.Type
}

func c04PoolMethod(pkg *packages.Package, fd *ast.FuncDecl) bool {
	if fd.Recv == nil || len(fd.Recv.List) != 1 {
		return false
	}
	tv, ok := pkg.TypesInfo.Types[fd.Recv.List[0].Type]
	if !ok {
		return false
	}
	n, ok := c04Deref(tv.Type).(*types.Named)
	return ok && n.Obj().Name() == "ServerPool"
}

func c04ResolveRoles(c *core.Ctx) *c04Roles {
	r := &c04Roles{holder: c04Holder(c), publish: map[*types.Func]*c04Fn{}}
	pkg := c.Prog.Pkg(c04pkg)
	if pkg == nil {
		return r
	}
	mk := func(fd *ast.FuncDecl) *c04Fn {
		o, _ := pkg.TypesInfo.Defs[fd.Name].(*types.Func)
		return &c04Fn{f: flow.NewFunc(pkg, fd), pkg: pkg, fd: fd, obj: o}
	}
	if sr := c.Prog.Pkg(c04sr); sr != nil {
		if tn, ok := sr.Types.Scope().Lookup("ServiceInstanceSpec").(*types.TypeName); ok {
			r.instMap = types.NewMap(types.Typ[types.String], types.NewPointer(tn.Type()))
		}
	}
	var decls []*ast.FuncDecl
	for _, file := range pkg.Syntax {
		for _, d := range file.Decls {
			if fd, ok := d.(*ast.FuncDecl); ok && fd.Body != nil {
				decls = append(decls, fd)
			}
		}
	}
	// publish
	for _, fd := range decls {
		for _, call := range calls(fd.Body, true) {
			sel, ok := ast.Unparen(call.Fun).(*ast.SelectorExpr)
			if !ok || r.holder == nil || c04SelObj(pkg.TypesInfo, sel.X) != types.Object(r.holder) {
				continue
			}
			if fo, _ := c04Callee(pkg.TypesInfo, call).(*types.Func); fo != nil && fo.Pkg() != nil && fo.Pkg().Path() == "sync/atomic" && (fo.Name() == "Store" || fo.Name() == "Swap" || fo.Name() == "CompareAndSwap") {
				x := mk(fd)
				r.publish[x.obj] = x
			}
		}
	}
	// watch: the ServerPool method the constructor calls whose reach talks to
	// *serviceregistry.ServiceRegistry (listing, watcher creation — possibly split into helpers)
	talksToRegistry := func(g *flow.Func, n ast.Node) bool {
		call, ok := n.(*ast.CallExpr)
		if !ok {
			return false
		}
		fo, _ := c04Callee(pkg.TypesInfo, call).(*types.Func)
		if fo == nil {
			return false
		}
		sig := fo.Type().(*types.Signature)
		if rv := sig.Recv(); rv != nil {
			if n, ok := c04Deref(rv.Type()).(*types.Named); ok && n.Obj().Pkg() != nil && n.Obj().Pkg().Path() == Mod+c04sr && n.Obj().Name() == "ServiceRegistry" {
				return true
			}
			// through an interface put in front of the registry: a method that yields a
			// serviceregistry.ServiceWatcher or the instance map
			for i := 0; i < sig.Results().Len(); i++ {
				rt := sig.Results().At(i).Type()
				if n, ok := rt.(*types.Named); ok && n.Obj().Pkg() != nil && n.Obj().Pkg().Path() == Mod+c04sr && n.Obj().Name() == "ServiceWatcher" {
					return true
				}
				if r.instMap != nil && types.Identical(rt, r.instMap) && fo.Pkg() != pkg.Types {
					return true
				}
				if r.instMap != nil && types.Identical(rt, r.instMap) && types.IsInterface(rv.Type()) {
					return true
				}
			}
		}
		return false
	}
	var watches []*c04Fn
	var ctor *ast.FuncDecl
	for _, fd := range decls {
		if fd.Recv == nil && fd.Name.Name == "NewServerPool" {
			ctor = fd
		}
	}
	seenW := map[*ast.FuncDecl]bool{}
	if ctor != nil {
		for _, call := range calls(ctor.Body, true) {
			fo, _ := c04Callee(pkg.TypesInfo, call).(*types.Func)
			if fo == nil {
				continue
			}
			wd := declOf(pkg, fo)
			if wd == nil || seenW[wd] || !c04PoolMethod(pkg, wd) {
				continue
			}
			seenW[wd] = true
			if reachContains(funcOf(pkg, wd), 3, talksToRegistry) {
				watches = append(watches, mk(wd))
			}
		}
	}
	r.watch = c04Pick(watches, "watchServers")
	// apply
	var applies []*c04Fn
	for _, fd := range decls {
		if !c04PoolMethod(pkg, fd) || r.instMap == nil {
			continue
		}
		has := false
		for _, fld := range fd.Type.Params.List {
			if tv, ok := pkg.TypesInfo.Types[fld.Type]; ok && types.Identical(tv.Type, r.instMap) {
				has = true
			}
		}
		if !has {
			continue
		}
		x := mk(fd)
		reaches := false
		for _, g := range reach(x.f, 3) {
			if gd, ok := g.Node.(*ast.FuncDecl); ok {
				if o, _ := pkg.TypesInfo.Defs[gd.Name].(*types.Func); o != nil && r.publish[o] != nil {
					reaches = true
				}
			}
		}
		if reaches {
			applies = append(applies, x)
		}
	}
	if len(applies) > 1 && r.watch != nil {
		// prefer the one the watch function calls
		var called []*c04Fn
		for _, x := range applies {
			for _, call := range calls(r.watch.fd.Body, true) {
				if c04Callee(pkg.TypesInfo, call) == types.Object(x.obj) {
					called = append(called, x)
					break
				}
			}
		}
		if len(called) > 0 {
			applies = called
		}
	}
	r.apply = c04Pick(applies, "useService")
	return r
}

// c04Pick returns the single candidate, or the one with the preferred name, or nil.
func c04Pick(xs []*c04Fn, name string) *c04Fn {
	if len(xs) == 1 {
		return xs[0]
	}
	for _, x := range xs {
		if x.fd.Name.Name == name {
			return x
		}
	}
	return nil
}
