package rules

// R-C06-7: the header-rule validator finds a header whatever the spelling of the configured
// name. net/http stores request headers under their canonical MIME key; the configured rule
// name is user-spelled. On the chain from the configured name (range key of the header spec
// in httpheader.Validator.Validate) to the lookup, a direct index of an http.Header /
// textproto.MIMEHeader map must be preceded by CanonicalMIMEHeaderKey / CanonicalHeaderKey;
// the Header methods (Get, Values ...) canonicalise themselves. Same-module helpers receiving
// the name are followed (depth 3).

import (
	"go/ast"
	"go/types"

	"verif/internal/core"
	"verif/internal/flow"
)

type c06Lookup struct {
	at   ast.Node
	ok   bool
	desc string
}

func c06IsHeaderMap(t types.Type) bool {
	if t == nil {
		return false
	}
	switch t.String() {
	case "net/http.Header", "net/textproto.MIMEHeader":
		return true
	}
	return false
}

func c06HasCanonical(g *flow.Func, exprs []ast.Expr) bool {
	for _, e := range exprs {
		if c06MentionsCall(g, e, "net/textproto.CanonicalMIMEHeaderKey", "net/http.CanonicalHeaderKey") {
			return true
		}
	}
	return false
}

func c06MentionsAny(g *flow.Func, exprs []ast.Expr, objs map[types.Object]bool) bool {
	for _, e := range exprs {
		if c06Mentions(g, e, objs) {
			return true
		}
	}
	return false
}

// c06HeaderLookups lists the header lookups of g whose key derives from one of keys.
func c06HeaderLookups(c *core.Ctx, g *flow.Func, keys map[types.Object]bool, canonical bool, depth int, seen map[*types.Func]bool) []c06Lookup {
	var out []c06Lookup
	ast.Inspect(g.Body, func(n ast.Node) bool {
		switch x := n.(type) {
		case *ast.IndexExpr:
			tv, ok := g.Info.Types[x.X]
			if !ok || !c06IsHeaderMap(tv.Type) {
				return true
			}
			cl := c06ValueClosure(g, []ast.Expr{x.Index})
			if !c06MentionsAny(g, cl, keys) {
				return true
			}
			out = append(out, c06Lookup{x, canonical || c06HasCanonical(g, cl), c06DeclConstructOf(g) + ": " + types.ExprString(x.X) + "[" + types.ExprString(x.Index) + "]"})
		case *ast.CallExpr:
			fnObj, _ := c06Callee(g, x)
			if fnObj == nil {
				return true
			}
			sig := fnObj.Type().(*types.Signature)
			for j, a := range x.Args {
				cl := c06ValueClosure(g, []ast.Expr{a})
				if !c06MentionsAny(g, cl, keys) {
					continue
				}
				if recv := sig.Recv(); recv != nil && c06IsHeaderMap(recv.Type()) {
					out = append(out, c06Lookup{x, true, c06DeclConstructOf(g) + ": " + fnObj.FullName()})
					continue
				}
				if depth >= 3 || seen[fnObj] {
					continue
				}
				h := c06FuncDeclOf(c, fnObj)
				if h == nil || h.Type == nil || h.Type.Params == nil {
					continue
				}
				// the j-th parameter of the callee
				var param types.Object
				idx := 0
				for _, fld := range h.Type.Params.List {
					for _, nm := range fld.Names {
						if idx == j || (sig.Variadic() && idx == sig.Params().Len()-1 && j >= idx) {
							param = h.Info.Defs[nm]
						}
						idx++
					}
				}
				if param == nil {
					continue
				}
				seen[fnObj] = true
				c.Count("functions_analysed", 1)
				out = append(out, c06HeaderLookups(c, h, map[types.Object]bool{param: true}, canonical || c06HasCanonical(g, cl), depth+1, seen)...)
			}
		}
		return true
	})
	return out
}

func c06DeclConstructOf(g *flow.Func) string {
	if fd, ok := g.Node.(*ast.FuncDecl); ok {
		return declName(g.Pkg, fd)
	}
	return g.Name
}

func c06HeaderRules(c *core.Ctx) {
	const rule = "R-C06-7"
	f := fn(c, c06hh, "Validator", "Validate")
	vv := namedType(c, c06hh, "ValueValidator")
	if f == nil || vv == nil {
		return
	}
	cons := fname(c06hh, "Validator", "Validate") + "|configured header name is canonicalised before it indexes the header map"
	// the configured names: keys of the range over a map whose elements are (*)ValueValidator
	keys := map[types.Object]bool{}
	ast.Inspect(f.Body, func(n ast.Node) bool {
		rs, ok := n.(*ast.RangeStmt)
		if !ok || rs.Key == nil {
			return true
		}
		tv, ok := f.Info.Types[rs.X]
		if !ok || tv.Type == nil {
			return true
		}
		m, ok := tv.Type.Underlying().(*types.Map)
		if !ok {
			return true
		}
		el := m.Elem()
		if p, ok := el.Underlying().(*types.Pointer); ok {
			el = p.Elem()
		}
		if types.Identical(el, vv) {
			if o := c06Obj(f, rs.Key); o != nil {
				keys[o] = true
			}
		}
		return true
	})
	if !c.RequireCount(rule, "loops over the configured header rules in httpheader.Validator.Validate", len(keys), 1) {
		return
	}
	lookups := c06HeaderLookups(c, f, keys, false, 0, map[*types.Func]bool{})
	if len(lookups) == 0 {
		c.Undecide(rule, cons, pos(c, f.Body), "cannot find where the configured header name is used to look the header up")
		return
	}
	var bad *c06Lookup
	for i := range lookups {
		if !lookups[i].ok && bad == nil {
			bad = &lookups[i]
		}
	}
	if bad != nil {
		c.Violate(rule, cons, pos(c, bad.at), "the header name of a configured rule indexes the header map as it is spelled in the spec ("+bad.desc+"): net/http stores request headers under canonical keys (X-Api-Key), so a rule written `x-api-key` never finds its header and every request, valid ones included, is rejected with 400")
		return
	}
	c.Discharge(rule, cons, pos(c, lookups[0].at), sprintf("%d lookup(s) with the configured name, each through a canonicalising Header method or after CanonicalMIMEHeaderKey", len(lookups)))
}
