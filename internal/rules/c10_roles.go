package rules

import (
	"go/ast"
	"go/token"
	"go/types"

	"verif/internal/core"
	"verif/internal/flow"
)

// Roles of the proxy server pool, resolved by what a type / field / function IS or DOES, so that
// renaming an unexported name or moving code between functions does not lose the anchor.
// Exported names (ServerPool, RetryPolicy, CircuitBreakerPolicy, CreateWrapper, Wrapper.Wrap,
// httpprot.Request / Response) are part of the package's API and are used as they are.
type c10roles struct {
	pkgFuncs []*flow.Func // every declared function of the proxy package

	pool *types.Named // ServerPool
	spc  *types.Named // the per-request context: struct with *httpprot.Request, *http.Request, *httpprot.Response, *http.Response
	spe  *types.Named // the pool's error: struct{int; string} implementing error

	retryF, cbF *types.Var                // fields of ServerPool of type resilience.Wrapper (told apart by who creates them)
	timeoutF    *types.Var                // the time.Duration field of ServerPool
	reqF        *types.Var                // *httpprot.Request field of spc
	respF       *types.Var                // *httpprot.Response field of spc
	stdReqF     *types.Var                // *http.Request field of spc
	holder      map[*types.Var]*types.Var // promoted field of spc -> the embedded struct field that holds it
	codeF       *types.Var                // int field of spe
	resultF     *types.Var                // string field of spe

	handle  *flow.Func // outermost function that applies the retry wrapper
	sendVar *types.Var // package-level func(*http.Request, *http.Client) (*http.Response, error)
}

var c10rolesMemo = map[*core.Ctx]*c10roles{}

func c10typeIs(t types.Type, ptr bool, pkgPath, name string) bool {
	if ptr {
		p, ok := t.(*types.Pointer)
		if !ok {
			return false
		}
		t = p.Elem()
	}
	n, ok := t.(*types.Named)
	return ok && n.Obj().Pkg() != nil && n.Obj().Pkg().Path() == pkgPath && n.Obj().Name() == name
}

// c10flatFields lists the fields of a struct including those promoted from embedded structs of the
// same package (one level: `attemptState` embedded in the per-request context), with the embedded
// field that holds each promoted one.
func c10flatFields(st *types.Struct, pkg *types.Package) (fields []*types.Var, holder map[*types.Var]*types.Var) {
	holder = map[*types.Var]*types.Var{}
	for i := 0; i < st.NumFields(); i++ {
		f := st.Field(i)
		fields = append(fields, f)
		if !f.Embedded() {
			continue
		}
		t := f.Type()
		if p, ok := t.(*types.Pointer); ok {
			t = p.Elem()
		}
		n, ok := t.(*types.Named)
		if !ok || n.Obj().Pkg() != pkg {
			continue
		}
		if es, ok := n.Underlying().(*types.Struct); ok {
			for j := 0; j < es.NumFields(); j++ {
				fields = append(fields, es.Field(j))
				holder[es.Field(j)] = f
			}
		}
	}
	return
}

// c10Roles resolves the roles once per run; nil (with checker errors) if a role is missing or ambiguous.
func c10Roles(c *core.Ctx) *c10roles {
	if r, ok := c10rolesMemo[c]; ok {
		return r
	}
	var r *c10roles
	defer func() { c10rolesMemo[c] = r }()
	pkg := c.Prog.Pkg(c10px)
	if pkg == nil {
		c.Errorf("anchor: package %s not loaded", c10px)
		return nil
	}
	ro := &c10roles{}
	ro.pkgFuncs = funcsByRole(c, c10px, func(*flow.Func, *ast.FuncDecl) bool { return true })
	ro.pool = namedType(c, c10px, "ServerPool")
	if ro.pool == nil {
		return nil
	}
	pst, _ := ro.pool.Underlying().(*types.Struct)
	if pst == nil {
		c.Errorf("anchor: %s.ServerPool is not a struct", c10px)
		return nil
	}
	var wrapperFields, durFields []*types.Var
	for i := 0; i < pst.NumFields(); i++ {
		f := pst.Field(i)
		switch {
		case c10typeIs(f.Type(), false, Mod+c10rs, "Wrapper"):
			wrapperFields = append(wrapperFields, f)
		case c10typeIs(f.Type(), false, "time", "Duration"):
			durFields = append(durFields, f)
		}
	}
	pick := func(cands []*types.Var, name, what string) *types.Var {
		if len(cands) == 1 {
			return cands[0]
		}
		for _, v := range cands {
			if v.Name() == name {
				return v
			}
		}
		c.Errorf("anchor: cannot identify %s (%d candidates)", what, len(cands))
		return nil
	}
	if ro.timeoutF = pick(durFields, "timeout", "the time.Duration (timeout) field of ServerPool"); ro.timeoutF == nil {
		return nil
	}
	// which Wrapper field is the retry wrapper, which the breaker: by the policy type whose CreateWrapper feeds it
	for _, g := range ro.pkgFuncs {
		ast.Inspect(g.Body, func(n ast.Node) bool {
			as, ok := n.(*ast.AssignStmt)
			if !ok || len(as.Lhs) != len(as.Rhs) {
				return true
			}
			for i, l := range as.Lhs {
				for _, wf := range wrapperFields {
					if !c10fieldSel(g, l, wf) {
						continue
					}
					if call, ok := ast.Unparen(c10alias(g, g.Body, as.Rhs[i])).(*ast.CallExpr); ok {
						switch {
						case calleeIs(g, call, "(*"+c10rs+".RetryPolicy).CreateWrapper"):
							ro.retryF = wf
						case calleeIs(g, call, "(*"+c10rs+".CircuitBreakerPolicy).CreateWrapper"):
							ro.cbF = wf
						}
					}
				}
			}
			return true
		})
	}
	if ro.retryF == nil || ro.cbF == nil || ro.retryF == ro.cbF {
		// fall back to the declared names (a store that is not a CreateWrapper call is reported by c10Inject)
		for _, wf := range wrapperFields {
			switch wf.Name() {
			case "retryWrapper":
				if ro.retryF == nil {
					ro.retryF = wf
				}
			case "circuitBreakerWrapper":
				if ro.cbF == nil {
					ro.cbF = wf
				}
			}
		}
	}
	if ro.retryF == nil || ro.cbF == nil || ro.retryF == ro.cbF {
		c.Errorf("anchor: cannot tell the retry wrapper field from the circuit-breaker wrapper field of ServerPool (%d fields of type resilience.Wrapper)", len(wrapperFields))
		return nil
	}
	// the per-request context and the pool error, by shape
	var spcs, spes []*types.Named
	scope := pkg.Types.Scope()
	for _, name := range scope.Names() {
		tn, ok := scope.Lookup(name).(*types.TypeName)
		if !ok || tn.IsAlias() {
			continue
		}
		nt, ok := tn.Type().(*types.Named)
		if !ok {
			continue
		}
		st, ok := nt.Underlying().(*types.Struct)
		if !ok {
			continue
		}
		cnt := map[string]int{}
		flat, _ := c10flatFields(st, pkg.Types)
		for _, fv := range flat {
			t := fv.Type()
			switch {
			case c10typeIs(t, true, Mod+c10hp, "Request"):
				cnt["req"]++
			case c10typeIs(t, true, Mod+c10hp, "Response"):
				cnt["resp"]++
			case c10typeIs(t, true, "net/http", "Request"):
				cnt["stdreq"]++
			case c10typeIs(t, true, "net/http", "Response"):
				cnt["stdresp"]++
			}
		}
		if cnt["req"] == 1 && cnt["resp"] == 1 && cnt["stdreq"] == 1 && cnt["stdresp"] == 1 {
			spcs = append(spcs, nt)
		}
		if st.NumFields() == 2 && types.Implements(nt, types.Universe.Lookup("error").Type().Underlying().(*types.Interface)) {
			a, b := st.Field(0).Type(), st.Field(1).Type()
			isInt := func(t types.Type) bool { bt, ok := t.(*types.Basic); return ok && bt.Kind() == types.Int }
			isStr := func(t types.Type) bool { bt, ok := t.(*types.Basic); return ok && bt.Kind() == types.String }
			if (isInt(a) && isStr(b)) || (isStr(a) && isInt(b)) {
				spes = append(spes, nt)
			}
		}
	}
	pickT := func(cands []*types.Named, name, what string) *types.Named {
		if len(cands) == 1 {
			return cands[0]
		}
		for _, t := range cands {
			if t.Obj().Name() == name {
				return t
			}
		}
		c.Errorf("anchor: cannot identify %s (%d candidates)", what, len(cands))
		return nil
	}
	ro.spc = pickT(spcs, "serverPoolContext", "the per-request context type of the server pool (struct holding the httpprot and net/http request and response)")
	ro.spe = pickT(spes, "serverPoolError", "the server pool's error type (struct{int; string} implementing error)")
	if ro.spc == nil || ro.spe == nil {
		return nil
	}
	st := ro.spc.Underlying().(*types.Struct)
	flat, holder := c10flatFields(st, pkg.Types)
	ro.holder = holder
	for _, f := range flat {
		switch {
		case c10typeIs(f.Type(), true, Mod+c10hp, "Request"):
			ro.reqF = f
		case c10typeIs(f.Type(), true, Mod+c10hp, "Response"):
			ro.respF = f
		case c10typeIs(f.Type(), true, "net/http", "Request"):
			ro.stdReqF = f
		}
	}
	est := ro.spe.Underlying().(*types.Struct)
	for i := 0; i < 2; i++ {
		if bt := est.Field(i).Type().(*types.Basic); bt.Kind() == types.Int {
			ro.codeF = est.Field(i)
		} else {
			ro.resultF = est.Field(i)
		}
	}
	// the send: a package-level function variable with the transport's shape
	var sends []*types.Var
	for _, name := range scope.Names() {
		v, ok := scope.Lookup(name).(*types.Var)
		if !ok {
			continue
		}
		sig, ok := v.Type().Underlying().(*types.Signature)
		if !ok || sig.Params().Len() != 2 || sig.Results().Len() != 2 {
			continue
		}
		if c10typeIs(sig.Params().At(0).Type(), true, "net/http", "Request") && c10typeIs(sig.Params().At(1).Type(), true, "net/http", "Client") &&
			c10typeIs(sig.Results().At(0).Type(), true, "net/http", "Response") {
			sends = append(sends, v)
		}
	}
	if ro.sendVar = pick(sends, "fnSendRequest", "the package-level send function variable func(*http.Request, *http.Client) (*http.Response, error)"); ro.sendVar == nil {
		return nil
	}
	// handle: the innermost function in whose reach the retry wrapper is applied AND the wrapped handler
	// (a local of type func(context.Context) error) is invoked
	var cands []*flow.Func
	for _, g := range ro.pkgFuncs {
		wraps := reachContains(g, 3, func(h *flow.Func, n ast.Node) bool {
			call, ok := n.(*ast.CallExpr)
			return ok && c10appliesRetry(h, call, ro.retryF, ro.cbF)
		})
		invokes := wraps && reachContains(g, 3, func(h *flow.Func, n ast.Node) bool {
			call, ok := n.(*ast.CallExpr)
			if !ok {
				return false
			}
			id := c10ident(call.Fun)
			if id == nil {
				return false
			}
			v, ok := c10obj(h, id).(*types.Var)
			return ok && !v.IsField() && c10isHandlerSig(v.Type())
		})
		if wraps && invokes {
			cands = append(cands, g)
		}
	}
	var outer []*flow.Func // candidates that contain no other candidate
	for _, g := range cands {
		hasInner := false
		for _, x := range reach(g, 3)[1:] {
			for _, h := range cands {
				if h != g && x.Body == h.Body {
					hasInner = true
				}
			}
		}
		if !hasInner {
			outer = append(outer, g)
		}
	}
	switch {
	case len(outer) == 1:
		ro.handle = outer[0]
	default:
		for _, g := range outer {
			if id := c10fnName(g); id != nil && id.Name == "handle" {
				ro.handle = g
			}
		}
	}
	if ro.handle == nil {
		c.Errorf("anchor: cannot identify the function of %s that applies the retry wrapper (ServerPool.handle): %d candidates", c10px, len(outer))
		return nil
	}
	c.Count("functions_analysed", 1)
	r = ro
	return r
}

// c10funcCons renders the construct name of a function by its current declaration.
func c10funcCons(g *flow.Func) string {
	fd, ok := g.Node.(*ast.FuncDecl)
	if !ok {
		return g.Name
	}
	return declName(g.Pkg, fd)
}

// c10isSend reports whether call invokes the package-level send function variable.
func (ro *c10roles) isSend(g *flow.Func, call *ast.CallExpr) bool {
	id := c10ident(call.Fun)
	return id != nil && c10obj(g, id) == ro.sendVar
}

// ---------------------------------------------------------------------------------------------
// value flow of one function-typed / context-typed value through a small set of functions

// c10flowSet is the set of variables, parameters and struct fields a value is handed to, starting
// from one object and following, inside fs: arguments of same-package calls (to the callee's
// parameter), struct literals and field assignments (to the field), and locals written once.
type c10flowSet map[types.Object]bool

func c10flow(f *flow.Func, fs []*flow.Func, start ...types.Object) c10flowSet {
	set := c10flowSet{}
	for _, o := range start {
		if o != nil {
			set[o] = true
		}
	}
	holds := func(e ast.Expr) bool {
		switch x := ast.Unparen(c10strip(f, e)).(type) {
		case *ast.Ident:
			return set[c10obj(f, x)]
		case *ast.SelectorExpr:
			if s := f.Info.Selections[x]; s != nil {
				return set[s.Obj()]
			}
		}
		return false
	}
	for changed := true; changed; {
		changed = false
		add := func(o types.Object) {
			if o != nil && !set[o] {
				set[o] = true
				changed = true
			}
		}
		for _, g := range fs {
			ast.Inspect(g.Body, func(n ast.Node) bool {
				switch x := n.(type) {
				case *ast.CallExpr:
					fo, ok := f.Callee(x).(*types.Func)
					if !ok || fo.Pkg() != f.Pkg.Types {
						return true
					}
					fd := declOf(f.Pkg, fo)
					if fd == nil || fd.Type.Params == nil {
						return true
					}
					k := 0
					for _, fld := range fd.Type.Params.List {
						if len(fld.Names) == 0 {
							k++
							continue
						}
						for _, name := range fld.Names {
							if k < len(x.Args) && holds(x.Args[k]) {
								add(f.Info.Defs[name])
							}
							k++
						}
					}
				case *ast.CompositeLit:
					for _, el := range x.Elts {
						if kv, ok := el.(*ast.KeyValueExpr); ok && holds(kv.Value) {
							if id := c10ident(kv.Key); id != nil {
								if fv, ok := f.Info.Uses[id].(*types.Var); ok && fv.IsField() {
									add(fv)
								}
							}
						}
					}
				case *ast.AssignStmt:
					if len(x.Lhs) != len(x.Rhs) {
						return true
					}
					for i, l := range x.Lhs {
						if !holds(x.Rhs[i]) {
							continue
						}
						switch lx := ast.Unparen(l).(type) {
						case *ast.Ident:
							if o := c10obj(f, lx); o != nil && lx.Name != "_" && len(c10writes(f, g.Body, o)) == 1 {
								add(o)
							}
						case *ast.SelectorExpr:
							if s := f.Info.Selections[lx]; s != nil {
								add(s.Obj())
							}
						}
					}
				case *ast.ValueSpec:
					for i, name := range x.Names {
						if i < len(x.Values) && len(x.Values) == len(x.Names) && holds(x.Values[i]) {
							if o := f.Info.Defs[name]; o != nil && len(c10writes(f, g.Body, o)) == 1 {
								add(o)
							}
						}
					}
				}
				return true
			})
		}
	}
	return set
}

// holds reports whether expression e (identifier or field selector, conversions stripped) denotes a member of the set.
func (s c10flowSet) holds(f *flow.Func, e ast.Expr) bool {
	if e == nil {
		return false
	}
	switch x := ast.Unparen(c10strip(f, e)).(type) {
	case *ast.Ident:
		return s[c10obj(f, x)]
	case *ast.SelectorExpr:
		if sel := f.Info.Selections[x]; sel != nil {
			return s[sel.Obj()]
		}
	}
	return false
}

// c10reachRefs is reach() extended by the same-package functions that are merely referenced
// (method values `T{..}.run`, function values) inside the functions visited.
func c10reachRefs(f *flow.Func, depth int) []*flow.Func {
	out := []*flow.Func{}
	seen := map[*ast.BlockStmt]bool{}
	var add func(g *flow.Func, d int)
	add = func(g *flow.Func, d int) {
		for _, h := range reach(g, depth) {
			if seen[h.Body] {
				continue
			}
			seen[h.Body] = true
			out = append(out, h)
			if d >= depth {
				continue
			}
			ast.Inspect(h.Body, func(n ast.Node) bool {
				var id *ast.Ident
				switch x := n.(type) {
				case *ast.SelectorExpr:
					id = x.Sel
				case *ast.Ident:
					id = x
				default:
					return true
				}
				if fo, ok := h.Info.Uses[id].(*types.Func); ok && fo.Pkg() == h.Pkg.Types {
					if fd := declOf(h.Pkg, fo); fd != nil && !seen[fd.Body] {
						add(funcOf(h.Pkg, fd), d+1)
					}
				}
				return true
			})
		}
	}
	add(f, 0)
	return out
}

// c10enclosingFunc returns the innermost function (literal or declaration) of fs whose body contains n,
// as body, type and (for literals) the literal.
func c10enclosingFunc(fs []*flow.Func, n ast.Node) (g *flow.Func, body *ast.BlockStmt, typ *ast.FuncType, lit *ast.FuncLit) {
	for _, h := range fs {
		if !contains(h.Body, n) {
			continue
		}
		g, body, typ = h, h.Body, h.Type
		ast.Inspect(h.Body, func(m ast.Node) bool {
			if l, ok := m.(*ast.FuncLit); ok && contains(l.Body, n) {
				body, typ, lit = l.Body, l.Type, l
			}
			return true
		})
		return
	}
	return
}

var _ = token.NoPos
