package rules

import (
	"go/ast"
	"go/token"
	"go/types"
	"strings"
	"sync"

	"golang.org/x/tools/go/cfg"
	"golang.org/x/tools/go/packages"
	"golang.org/x/tools/go/types/typeutil"

	"verif/internal/core"
	"verif/internal/flow"
)

// c15env holds the anchors of the MQTT delivery path, each resolved by its role (types of the
// receiver, parameters, results and fields; what the function stores / sends / calls). The name
// used today only breaks ties, so that renaming an unexported function or field, or moving it to
// another file of the package, does not lose the anchor. An unresolvable or ambiguous role is a
// checker error (exit 2), never a violation.
type c15env struct {
	c   *core.Ctx
	pkg *packages.Package

	fns   []*flow.Func                // every function declaration (with body) of the package
	byObj map[types.Object]*flow.Func // declaration of a function object
	sites map[types.Object][]c15site  // static call sites of the package's functions (method values resolved)

	sessT, clientT, brokerT, topicMgrT *types.Named

	pendingF, queueF, doneF, clientsF, writeChF *types.Var

	writePacket, getClient, findSubs, publish, puback, doResend, bgResend *flow.Func
	runPipeline, checkLimit, processPublish                               *flow.Func
}

// c15site is one call of a function of the package.
type c15site struct {
	fn      *flow.Func    // the function containing the call
	call    *ast.CallExpr // the call
	recv    ast.Expr      // receiver operand (nil for plain functions)
	inGo    bool          // the call of a go statement
	inDefer bool          // the call of a defer statement
}

const c15packets = "github.com/eclipse/paho.mqtt.golang/packets."

// c15isPacket reports whether t is *packets.<name> (or packets.<name> for interfaces).
func c15isPacket(t types.Type, name string) bool {
	if t == nil {
		return false
	}
	s := t.String()
	return s == "*"+c15packets+name || s == c15packets+name
}

func c15deref(t types.Type) types.Type {
	if t == nil {
		return nil
	}
	if p, ok := t.Underlying().(*types.Pointer); ok {
		return types.Unalias(p.Elem())
	}
	return types.Unalias(t)
}

// c15isNamed reports whether t is n or *n.
func c15isNamed(t types.Type, n *types.Named) bool {
	if t == nil || n == nil {
		return false
	}
	return types.Identical(c15deref(t), n)
}

func (e *c15env) obj(f *flow.Func) types.Object {
	if f == nil {
		return nil
	}
	if fd, ok := f.Node.(*ast.FuncDecl); ok {
		return f.Info.Defs[fd.Name]
	}
	return nil
}

func (e *c15env) name(f *flow.Func) string {
	if fd, ok := f.Node.(*ast.FuncDecl); ok {
		return declName(e.pkg, fd)
	}
	return f.Name
}

func c15declName(f *flow.Func) string {
	if fd, ok := f.Node.(*ast.FuncDecl); ok {
		return fd.Name.Name
	}
	return ""
}

// recvOf returns the named receiver type of a method declaration (nil for functions).
func (e *c15env) recvOf(f *flow.Func) *types.Named {
	fo, ok := e.obj(f).(*types.Func)
	if !ok {
		return nil
	}
	r := fo.Type().(*types.Signature).Recv()
	if r == nil {
		return nil
	}
	n, _ := c15deref(r.Type()).(*types.Named)
	return n
}

func (e *c15env) sig(f *flow.Func) *types.Signature {
	if fo, ok := e.obj(f).(*types.Func); ok {
		return fo.Type().(*types.Signature)
	}
	return nil
}

// field resolves a field of a struct type by the type of the field; pref (today's name) decides
// between several candidates.
func (e *c15env) field(n *types.Named, what, pref string, pred func(types.Type) bool) *types.Var {
	if n == nil {
		return nil
	}
	st, ok := n.Underlying().(*types.Struct)
	if !ok {
		e.c.Errorf("anchor: %s is not a struct", n.Obj().Name())
		return nil
	}
	var cands []*types.Var
	for i := 0; i < st.NumFields(); i++ {
		if pred(st.Field(i).Type()) {
			cands = append(cands, st.Field(i))
		}
	}
	if len(cands) == 0 {
		// the field moved into a sub-struct of the package (embedded or named, value or pointer): s.out.pending
		for i := 0; i < st.NumFields(); i++ {
			sub, ok := c15deref(st.Field(i).Type()).(*types.Named)
			if !ok || sub.Obj().Pkg() != e.pkg.Types || e.anchored(sub) {
				continue
			}
			ss, ok := sub.Underlying().(*types.Struct)
			if !ok {
				continue
			}
			for j := 0; j < ss.NumFields(); j++ {
				if pred(ss.Field(j).Type()) {
					cands = append(cands, ss.Field(j))
				}
			}
		}
	}
	switch len(cands) {
	case 0:
		e.c.Errorf("anchor: %s has no field playing the role: %s", n.Obj().Name(), what)
		return nil
	case 1:
		return cands[0]
	}
	for _, f := range cands {
		if f.Name() == pref {
			return f
		}
	}
	e.c.Errorf("anchor: %d fields of %s fit the role: %s", len(cands), n.Obj().Name(), what)
	return nil
}

// anchored reports whether n is one of the long-lived types whose fields are roles of their own.
func (e *c15env) anchored(n *types.Named) bool {
	for _, a := range []*types.Named{e.sessT, e.clientT, e.brokerT, e.topicMgrT} {
		if a != nil && types.Identical(a, n) {
			return true
		}
	}
	return n.Obj().Name() == "SessionManager" || n.Obj().Name() == "SessionInfo"
}

// pick chooses the function playing a role.
func (e *c15env) pick(what, pref string, cands []*flow.Func) *flow.Func {
	switch len(cands) {
	case 0:
		e.c.Errorf("anchor: no function of %s plays the role: %s (today: %s)", mq, what, pref)
		return nil
	case 1:
		e.c.Count("functions_analysed", 1)
		return cands[0]
	}
	for _, f := range cands {
		if c15declName(f) == pref {
			e.c.Count("functions_analysed", 1)
			return f
		}
	}
	var names []string
	for _, f := range cands {
		names = append(names, c15declName(f))
	}
	e.c.Errorf("anchor: %d functions of %s fit the role: %s (%s)", len(cands), mq, what, strings.Join(names, ", "))
	return nil
}

// pickOpt is pick for a role that the code may play without a function of its own (the helper was
// inlined into its callers): no candidate is not an error.
func (e *c15env) pickOpt(what, pref string, cands []*flow.Func) *flow.Func {
	if len(cands) == 0 {
		return nil
	}
	return e.pick(what, pref, cands)
}

// c15write is one blocking write of a packet to a client's outbound queue: a call of the
// function playing the writePacket role, or a plain send statement on the queue (the same thing
// with the helper inlined). Sends that are a case of a select are not writes in this sense.
type c15write struct {
	fn   *flow.Func
	node ast.Node // *ast.CallExpr or *ast.SendStmt (key of flow.Result.At)
	pkt  ast.Expr // the packet written
}

func (e *c15env) writesIn(fns []*flow.Func) []c15write {
	var out []c15write
	if e.writePacket != nil {
		for _, s := range e.callsIn(fns, e.writePacket) {
			args := c15args(s.fn, s.call)
			if e.recvOf(e.writePacket) == nil && len(args) > 0 {
				args = args[1:] // function form: the client comes first
			}
			if len(args) == 1 {
				out = append(out, c15write{s.fn, s.call, args[0]})
			}
		}
	}
	for _, g := range fns {
		if e.writePacket != nil && g.Body == e.writePacket.Body {
			continue
		}
		pm := parentMap(g.Body)
		ast.Inspect(g.Body, func(n ast.Node) bool {
			if s, ok := n.(*ast.SendStmt); ok && e.selects(s.Chan, e.writeChF) {
				if _, inSelect := pm[s].(*ast.CommClause); !inSelect {
					out = append(out, c15write{g, s, s.Value})
				}
			}
			return true
		})
	}
	return out
}

// methodsOf lists the methods of n for which role holds — and the plain functions taking n (or *n) as
// their first parameter (a method turned into a function): role sees their signature without it.
func (e *c15env) methodsOf(n *types.Named, role func(g *flow.Func, sig *types.Signature) bool) []*flow.Func {
	var out []*flow.Func
	if n == nil {
		return nil
	}
	for _, g := range e.fns {
		sig := e.sig(g)
		if sig == nil {
			continue
		}
		if r := e.recvOf(g); r != nil {
			if types.Identical(r, n) && role(g, sig) {
				out = append(out, g)
			}
			continue
		}
		if sig.Recv() != nil || sig.Params().Len() == 0 || !c15isNamed(sig.Params().At(0).Type(), n) {
			continue
		}
		var rest []*types.Var
		for i := 1; i < sig.Params().Len(); i++ {
			rest = append(rest, sig.Params().At(i))
		}
		if role(g, types.NewSignatureType(nil, nil, nil, types.NewTuple(rest...), sig.Results(), sig.Variadic())) {
			out = append(out, g)
		}
	}
	return out
}

// subjectOf returns the operand a call works on: the receiver of a method call, or the first
// argument when the callee is a plain function taking a Session / Client / Broker first.
func (e *c15env) subjectOf(g *flow.Func, call *ast.CallExpr) ast.Expr {
	o, recv := c15callee(g, call)
	if recv != nil {
		return recv
	}
	fo, ok := o.(*types.Func)
	if !ok || len(call.Args) == 0 {
		return nil
	}
	sig := fo.Type().(*types.Signature)
	if sig.Recv() != nil || sig.Params().Len() == 0 {
		return nil
	}
	t := sig.Params().At(0).Type()
	if c15isNamed(t, e.sessT) || c15isNamed(t, e.clientT) || c15isNamed(t, e.brokerT) {
		return call.Args[0]
	}
	return nil
}

// selects reports whether x is a selector of field fld.
func (e *c15env) selects(x ast.Expr, fld *types.Var) bool {
	sel, ok := ast.Unparen(x).(*ast.SelectorExpr)
	if !ok || fld == nil {
		return false
	}
	s := e.pkg.TypesInfo.Selections[sel]
	return s != nil && s.Obj() == fld
}

// mentions reports whether field fld is selected anywhere in n.
func (e *c15env) mentions(n ast.Node, fld *types.Var) bool {
	found := false
	ast.Inspect(n, func(x ast.Node) bool {
		if sel, ok := x.(*ast.SelectorExpr); ok && e.selects(sel, fld) {
			found = true
		}
		return !found
	})
	return found
}

// storesInto reports whether n contains an assignment `X.fld[k] = v`.
func (e *c15env) storesInto(n ast.Node, fld *types.Var) bool {
	found := false
	ast.Inspect(n, func(x ast.Node) bool {
		if as, ok := x.(*ast.AssignStmt); ok {
			for _, l := range as.Lhs {
				if ix, ok := ast.Unparen(l).(*ast.IndexExpr); ok && e.selects(ix.X, fld) {
					found = true
				}
			}
		}
		return !found
	})
	return found
}

// callsIn returns the calls (with their enclosing function) to target in the given functions.
func (e *c15env) callsIn(fns []*flow.Func, target *flow.Func) []c15site {
	want := e.obj(target)
	if want == nil {
		return nil
	}
	var out []c15site
	for _, s := range e.sites[want] {
		for _, g := range fns {
			if g.Body == s.fn.Body {
				out = append(out, s)
			}
		}
	}
	return out
}

// reaches reports whether target's body belongs to reach(f, depth) (f itself excluded).
func (e *c15env) reaches(f, target *flow.Func, depth int) bool {
	for _, g := range e.reachOf(f, depth)[1:] {
		if g.Body == target.Body {
			return true
		}
	}
	return false
}

// reachOf is reach() extended with callees reached through method values held in locals.
func (e *c15env) reachOf(f *flow.Func, depth int) []*flow.Func { return e.reachBy(f, depth, true) }

// reachSync is reachOf without the functions started by go statements (what f does itself).
func (e *c15env) reachSync(f *flow.Func, depth int) []*flow.Func { return e.reachBy(f, depth, false) }

func (e *c15env) reachBy(f *flow.Func, depth int, goCalls bool) []*flow.Func {
	out := []*flow.Func{f}
	seen := map[*ast.BlockStmt]bool{f.Body: true}
	frontier := []*flow.Func{f}
	for d := 0; d < depth && len(frontier) > 0; d++ {
		var next []*flow.Func
		for _, g := range frontier {
			started := map[*ast.CallExpr]bool{}
			ast.Inspect(g.Body, func(n ast.Node) bool {
				if gs, ok := n.(*ast.GoStmt); ok {
					started[gs.Call] = true
				}
				call, ok := n.(*ast.CallExpr)
				if !ok || started[call] && !goCalls {
					return true
				}
				o, _ := c15callee(g, call)
				h := e.byObj[o]
				if h == nil || seen[h.Body] {
					return true
				}
				seen[h.Body] = true
				out = append(out, h)
				next = append(next, h)
				return true
			})
		}
		frontier = next
	}
	return out
}

// fnAt returns the declared function whose source range contains pos.
func (e *c15env) fnAt(pos token.Pos) *flow.Func {
	for _, g := range e.fns {
		if n := g.Node; n != nil && n.Pos() <= pos && pos < n.End() {
			return g
		}
	}
	return nil
}

// c15callee resolves the function called by call: a static callee, or the function / method
// value held by a local that is assigned exactly once (`resend := s.doResend; resend()`).
// recv is the receiver operand of a method call (nil otherwise).
func c15callee(g *flow.Func, call *ast.CallExpr) (types.Object, ast.Expr) {
	fun := ast.Unparen(call.Fun)
	if id, ok := fun.(*ast.Ident); ok {
		if v, ok := c15objOf(g, id).(*types.Var); ok {
			// a local holding a function / method value
			if v.IsField() {
				return nil, nil
			}
			defs := c15defs(g, v)
			if len(defs) != 1 || defs[0].rhs == nil || defs[0].idx >= 0 {
				return nil, nil
			}
			return c15funcValue(g, defs[0].rhs)
		}
	}
	switch o := typeutil.Callee(g.Info, call).(type) {
	case *types.Func:
		if impl := c15soleImpl(g, o); impl != nil {
			o = impl // an unexported interface in front of its single implementation
		}
		var recv ast.Expr
		if sel, ok := fun.(*ast.SelectorExpr); ok {
			if s := g.Info.Selections[sel]; s != nil {
				switch {
				case s.Kind() == types.MethodVal:
					recv = sel.X
				case s.Kind() == types.MethodExpr && len(call.Args) > 0:
					recv = call.Args[0]
				}
			}
		}
		return o.Origin(), recv
	case *types.Builtin:
		return o, nil
	}
	return nil, nil
}

// c15args returns the arguments of a call without the receiver operand of a method-expression call.
func c15args(g *flow.Func, call *ast.CallExpr) []ast.Expr {
	if sel, ok := ast.Unparen(call.Fun).(*ast.SelectorExpr); ok {
		if s := g.Info.Selections[sel]; s != nil && s.Kind() == types.MethodExpr && len(call.Args) > 0 {
			return call.Args[1:]
		}
	}
	return call.Args
}

// c15funcValue resolves an expression denoting a declared function or a bound method value.
func c15funcValue(g *flow.Func, x ast.Expr) (types.Object, ast.Expr) {
	switch r := ast.Unparen(x).(type) {
	case *ast.Ident:
		if fo, ok := g.Info.Uses[r].(*types.Func); ok {
			return fo.Origin(), nil
		}
	case *ast.SelectorExpr:
		if s := g.Info.Selections[r]; s != nil {
			if fo, ok := s.Obj().(*types.Func); ok {
				switch s.Kind() {
				case types.MethodVal:
					return fo.Origin(), r.X
				case types.MethodExpr: // (*Client).processPublish
					return fo.Origin(), nil
				}
			}
			return nil, nil
		}
		if fo, ok := g.Info.Uses[r.Sel].(*types.Func); ok {
			return fo.Origin(), nil
		}
	}
	return nil, nil
}

// c15def is one definition (assignment) of a local variable.
type c15def struct {
	rhs  ast.Expr       // the expression assigned; nil = unknown (op-assign, ++, var without value)
	idx  int            // -1: rhs is the value; i >= 0: the i-th value of a multi-value rhs (call, comma-ok)
	rng  *ast.RangeStmt // defined as key / value of this range statement
	key  bool
	zero bool // `var x T`
	at   ast.Node
}

func c15objOf(g *flow.Func, id *ast.Ident) types.Object {
	if o := g.Info.Uses[id]; o != nil {
		return o
	}
	return g.Info.Defs[id]
}

// c15defs lists the definitions of variable o inside g (function literals included).
func c15defs(g *flow.Func, o types.Object) []c15def {
	var out []c15def
	is := func(x ast.Expr) bool {
		id, ok := ast.Unparen(x).(*ast.Ident)
		return ok && id.Name != "_" && c15objOf(g, id) == o
	}
	ast.Inspect(g.Body, func(n ast.Node) bool {
		switch s := n.(type) {
		case *ast.AssignStmt:
			for i, l := range s.Lhs {
				if !is(l) {
					continue
				}
				switch {
				case s.Tok != token.ASSIGN && s.Tok != token.DEFINE:
					out = append(out, c15def{idx: -1, at: s})
				case len(s.Lhs) == len(s.Rhs):
					out = append(out, c15def{rhs: s.Rhs[i], idx: -1, at: s})
				case len(s.Rhs) == 1:
					out = append(out, c15def{rhs: s.Rhs[0], idx: i, at: s})
				}
			}
		case *ast.ValueSpec:
			for i, nm := range s.Names {
				if !is(nm) {
					continue
				}
				switch {
				case len(s.Values) == 0:
					out = append(out, c15def{idx: -1, zero: true, at: s})
				case len(s.Values) == len(s.Names):
					out = append(out, c15def{rhs: s.Values[i], idx: -1, at: s})
				case len(s.Values) == 1:
					out = append(out, c15def{rhs: s.Values[0], idx: i, at: s})
				}
			}
		case *ast.IncDecStmt:
			if is(s.X) {
				out = append(out, c15def{idx: -1, at: s})
			}
		case *ast.RangeStmt:
			if s.Key != nil && is(s.Key) {
				out = append(out, c15def{idx: -1, rng: s, key: true, at: s})
			}
			if s.Value != nil && is(s.Value) {
				out = append(out, c15def{idx: -1, rng: s, at: s})
			}
		}
		return true
	})
	return out
}

// c15term is where a value comes from: a terminal expression of a function (a field selector, a
// literal, a call that is not followed, an index expression), one value of a multi-value
// expression, or the key / value variable of a range statement.
type c15term struct {
	fn   *flow.Func
	expr ast.Expr
	idx  int
	rng  *ast.RangeStmt
	key  bool
}

func (t c15term) same(u c15term) bool {
	return t.expr == u.expr && t.idx == u.idx && t.rng == u.rng && t.key == u.key
}

func (t c15term) String() string {
	switch {
	case t.rng != nil && t.key:
		return "key of range " + types.ExprString(t.rng.X)
	case t.rng != nil:
		return "value of range " + types.ExprString(t.rng.X)
	case t.expr != nil:
		return types.ExprString(t.expr)
	}
	return "?"
}

// c15trace follows values backwards through locals assigned once or several times, parameters
// (to the arguments of every call site in the package), results of same-package functions (to
// their return expressions), conversions and type assertions.
type c15trace struct {
	e      *c15env
	opaque map[types.Object]bool                      // callees whose results are terminals
	live   func(h *flow.Func, r *ast.ReturnStmt) bool // nil = every return statement counts
	vars   map[types.Object]bool                      // every variable passed through
	seen   map[ast.Node]bool                          // cycle guard
	ctx    []c15ctx                                   // the calls whose results the trace is inside of
	varCtx map[types.Object][]c15ctx                  // the calls the trace was inside of when it first passed through a variable
}

// c15ctx: the trace entered h by following the result of call (made in caller).
type c15ctx struct {
	h      *flow.Func
	call   *ast.CallExpr
	caller *flow.Func
}

func (e *c15env) trace(opaque ...*flow.Func) *c15trace {
	t := &c15trace{e: e, opaque: map[types.Object]bool{}, vars: map[types.Object]bool{}, seen: map[ast.Node]bool{}, varCtx: map[types.Object][]c15ctx{}}
	for _, f := range opaque {
		if o := e.obj(f); o != nil {
			t.opaque[o] = true
		}
	}
	return t
}

func (t *c15trace) origins(g *flow.Func, x ast.Expr) []c15term {
	return t.walk(g, x, 0)
}

func (t *c15trace) walk(g *flow.Func, x ast.Expr, depth int) []c15term {
	x = ast.Unparen(x)
	term := []c15term{{fn: g, expr: x, idx: -1}}
	if x == nil || g == nil || depth > 10 {
		return term
	}
	if t.seen[x] {
		return nil
	}
	t.seen[x] = true
	defer delete(t.seen, x)
	switch v := x.(type) {
	case *ast.Ident:
		o, ok := c15objOf(g, v).(*types.Var)
		if !ok || o.IsField() || o.Pkg() == nil || o.Parent() == nil || o.Parent() == o.Pkg().Scope() {
			return term
		}
		if !t.vars[o] {
			t.varCtx[o] = append([]c15ctx(nil), t.ctx...)
		}
		t.vars[o] = true
		if pi, isRecv, ok := t.e.paramIndex(o); ok {
			h := t.e.fnAt(o.Pos())
			if h == nil {
				return term
			}
			sites := t.e.sites[t.e.obj(h)]
			// the trace came into h through one particular call (following its result): the parameter is
			// the argument of THAT call, not of the other callers of a shared helper
			for k := len(t.ctx) - 1; k >= 0; k-- {
				if t.ctx[k].h.Body == h.Body {
					c := t.ctx[k]
					_, recv := c15callee(c.caller, c.call)
					sites = []c15site{{fn: c.caller, call: c.call, recv: recv}}
					saved := t.ctx
					t.ctx = t.ctx[:k]
					defer func() { t.ctx = saved }()
					break
				}
			}
			if len(sites) == 0 {
				return term
			}
			var out []c15term
			for _, s := range sites {
				var arg ast.Expr
				switch {
				case isRecv:
					arg = s.recv
				case pi < len(c15args(s.fn, s.call)) && !s.call.Ellipsis.IsValid():
					arg = c15args(s.fn, s.call)[pi]
				}
				if arg == nil {
					out = append(out, term...)
					continue
				}
				out = append(out, t.walk(s.fn, arg, depth+1)...)
			}
			return out
		}
		h := t.e.fnAt(o.Pos())
		if h == nil {
			return term
		}
		defs := c15defs(h, o)
		if len(defs) == 0 {
			return term
		}
		var out []c15term
		for _, d := range defs {
			switch {
			case d.rng != nil:
				out = append(out, c15term{fn: h, idx: -1, rng: d.rng, key: d.key})
			case d.rhs == nil:
				out = append(out, c15term{fn: h, expr: v, idx: -1})
			case d.idx < 0:
				out = append(out, t.walk(h, d.rhs, depth+1)...)
			default:
				out = append(out, t.result(h, d.rhs, d.idx, depth+1)...)
			}
		}
		return out
	case *ast.CallExpr:
		if tv, ok := g.Info.Types[v.Fun]; ok && tv.IsType() && len(v.Args) == 1 {
			return t.walk(g, v.Args[0], depth+1) // conversion
		}
		return t.result(g, v, 0, depth+1)
	case *ast.TypeAssertExpr:
		return t.walk(g, v.X, depth+1)
	case *ast.UnaryExpr:
		if v.Op == token.AND {
			if _, ok := ast.Unparen(v.X).(*ast.CompositeLit); ok {
				return []c15term{{fn: g, expr: ast.Unparen(v.X), idx: -1}}
			}
		}
	case *ast.StarExpr:
		return t.walk(g, v.X, depth+1)
	case *ast.SliceExpr:
		return t.walk(g, v.X, depth+1) // a part of a slice holds elements of that slice
	case *ast.SelectorExpr:
		// a field of a struct value built in the reach (an intermediate struct carrying several values
		// between two functions): the value given to the field in the composite literal, or assigned
		// to it afterwards through one of the variables the struct passed through
		sel := g.Info.Selections[v]
		if sel == nil || sel.Kind() != types.FieldVal || len(sel.Index()) != 1 {
			return term
		}
		fld, ok := sel.Obj().(*types.Var)
		if !ok || fld.Pkg() != t.e.pkg.Types {
			return term
		}
		if out := t.field(g, v.X, fld, depth); out != nil {
			return out
		}
	}
	return term
}

// field follows field fld of the struct value x: the values given to it where the struct was built
// (composite literal) and assigned to it through the variables the struct passed through; nil when
// the struct is a long-lived object or comes from somewhere the rule cannot see into.
func (t *c15trace) field(g *flow.Func, x ast.Expr, fld *types.Var, depth int) []c15term {
	if tv, ok := g.Info.Types[x]; !ok || !t.e.transient(tv.Type) {
		return nil // a long-lived shared object (Session, Client, Broker ..): its fields are state, not a value in transit
	}
	before := map[types.Object]bool{}
	for o := range t.vars {
		before[o] = true
	}
	var out []c15term
	built := false
	for _, src := range t.walk(g, x, depth+1) {
		lit, ok := src.expr.(*ast.CompositeLit)
		if !ok || src.idx >= 0 {
			return nil // the struct comes from somewhere the rule cannot see into
		}
		built = true
		if val := c15litField(src.fn, lit, fld); val != nil {
			out = append(out, t.walk(src.fn, val, depth+1)...)
		} else {
			out = append(out, c15term{fn: src.fn, expr: lit, idx: -1}) // zero value of the field
		}
	}
	if !built {
		return nil
	}
	// x.f = v on the variables the struct value passed through
	var passed []types.Object
	for o := range t.vars {
		if !before[o] {
			passed = append(passed, o)
		}
	}
	for _, o := range passed {
		h := t.e.fnAt(o.Pos())
		if h == nil {
			continue
		}
		ast.Inspect(h.Body, func(n ast.Node) bool {
			as, ok := n.(*ast.AssignStmt)
			if !ok || len(as.Lhs) != len(as.Rhs) {
				return true
			}
			for i, l := range as.Lhs {
				ls, ok := ast.Unparen(l).(*ast.SelectorExpr)
				if !ok || !t.e.selects(ls, fld) {
					continue
				}
				if id, ok := ast.Unparen(ls.X).(*ast.Ident); ok && c15objOf(h, id) == o {
					out = append(out, t.walk(h, as.Rhs[i], depth+1)...)
				}
			}
			return true
		})
	}
	return out
}

// transient reports whether t is (a pointer to) a struct type of the package that only carries values:
// no mutex, no channel, not one of the anchored long-lived types.
func (e *c15env) transient(t types.Type) bool {
	d := c15deref(t)
	if d == nil {
		return false
	}
	for _, a := range []*types.Named{e.sessT, e.clientT, e.brokerT, e.topicMgrT} {
		if a != nil && types.Identical(d, a) {
			return false
		}
	}
	st, ok := d.Underlying().(*types.Struct)
	if !ok {
		return false
	}
	if n, ok := d.(*types.Named); ok && n.Obj().Pkg() != e.pkg.Types {
		return false
	}
	for i := 0; i < st.NumFields(); i++ {
		ft := st.Field(i).Type()
		if _, isChan := ft.Underlying().(*types.Chan); isChan {
			return false
		}
		if n, ok := c15deref(ft).(*types.Named); ok && n.Obj().Pkg() != nil && n.Obj().Pkg().Path() == "sync" {
			return false
		}
	}
	return true
}

// c15litField returns the value given to field fld in a composite literal (nil if not given).
func c15litField(g *flow.Func, lit *ast.CompositeLit, fld *types.Var) ast.Expr {
	tv, ok := g.Info.Types[lit]
	if !ok {
		return nil
	}
	st, ok := c15deref(tv.Type).Underlying().(*types.Struct)
	if !ok {
		return nil
	}
	for i, el := range lit.Elts {
		if kv, ok := el.(*ast.KeyValueExpr); ok {
			if id, ok := kv.Key.(*ast.Ident); ok && id.Name == fld.Name() {
				return kv.Value
			}
			continue
		}
		if i < st.NumFields() && st.Field(i) == fld {
			return el
		}
	}
	return nil
}

// result follows the i-th value of a multi-value expression.
func (t *c15trace) result(g *flow.Func, x ast.Expr, i, depth int) []c15term {
	x = ast.Unparen(x)
	term := []c15term{{fn: g, expr: x, idx: i}}
	call, ok := x.(*ast.CallExpr)
	if !ok {
		if ta, ok := x.(*ast.TypeAssertExpr); ok && i == 0 {
			return t.walk(g, ta.X, depth+1)
		}
		return term // comma-ok of an index expression / receive
	}
	o, _ := c15callee(g, call)
	h := t.e.byObj[o]
	if h == nil || t.opaque[o] || depth > 10 {
		return term
	}
	sig := t.e.sig(h)
	if sig == nil || i >= sig.Results().Len() {
		return term
	}
	var out []c15term
	n := 0
	t.ctx = append(t.ctx, c15ctx{h, call, g})
	defer func() { t.ctx = t.ctx[:len(t.ctx)-1] }()
	ast.Inspect(h.Body, func(nd ast.Node) bool {
		switch r := nd.(type) {
		case *ast.FuncLit:
			return false
		case *ast.ReturnStmt:
			if t.live != nil && !t.live(h, r) {
				return true
			}
			n++
			switch {
			case len(r.Results) == sig.Results().Len():
				out = append(out, t.walk(h, r.Results[i], depth+1)...)
			case len(r.Results) == 1:
				out = append(out, t.result(h, r.Results[0], i, depth+1)...)
			case len(r.Results) == 0:
				if id := t.e.resultIdent(h, i); id != nil {
					out = append(out, t.walk(h, id, depth+1)...)
				} else {
					out = append(out, term...)
				}
			}
		}
		return true
	})
	if n == 0 {
		return term
	}
	return out
}

// resultIdent returns the defining identifier of the i-th named result of h.
func (e *c15env) resultIdent(h *flow.Func, i int) *ast.Ident {
	if h.Type == nil || h.Type.Results == nil {
		return nil
	}
	k := 0
	for _, fld := range h.Type.Results.List {
		if len(fld.Names) == 0 {
			k++
			continue
		}
		for _, nm := range fld.Names {
			if k == i {
				return nm
			}
			k++
		}
	}
	return nil
}

// paramIndex reports whether o is a parameter (index) or the receiver of a declared function.
func (e *c15env) paramIndex(o *types.Var) (int, bool, bool) {
	h := e.fnAt(o.Pos())
	if h == nil {
		return 0, false, false
	}
	fd, ok := h.Node.(*ast.FuncDecl)
	if !ok || !(fd.Type.Pos() <= o.Pos() && o.Pos() < fd.Type.End() || fd.Recv != nil && fd.Recv.Pos() <= o.Pos() && o.Pos() < fd.Recv.End()) {
		return 0, false, false
	}
	if fd.Recv != nil {
		for _, fld := range fd.Recv.List {
			for _, nm := range fld.Names {
				if h.Info.Defs[nm] == o {
					return 0, true, true
				}
			}
		}
	}
	i := 0
	if fd.Type.Params != nil {
		for _, fld := range fd.Type.Params.List {
			if len(fld.Names) == 0 {
				i++
				continue
			}
			for _, nm := range fld.Names {
				if h.Info.Defs[nm] == o {
					return i, false, true
				}
				i++
			}
		}
	}
	return 0, false, false
}

// paramIdent returns the defining identifier of the i-th parameter of h (nil if unnamed).
func (e *c15env) paramIdent(h *flow.Func, i int) *ast.Ident {
	if h.Type == nil || h.Type.Params == nil {
		return nil
	}
	k := 0
	for _, fld := range h.Type.Params.List {
		if len(fld.Names) == 0 {
			k++
			continue
		}
		for _, nm := range fld.Names {
			if k == i {
				return nm
			}
			k++
		}
	}
	return nil
}

// sessLock is an OnCall hook body: it tracks "ev:locked" for Lock/Unlock (also deferred) of the
// Session's own mutex (embedded, or a sync mutex field of Session) and ignores other locks.
func (e *c15env) sessLock(st *flow.State, call *ast.CallExpr, callee types.Object) {
	fo, ok := callee.(*types.Func)
	if !ok || fo.Pkg() == nil || fo.Pkg().Path() != "sync" {
		return
	}
	sel, ok := ast.Unparen(call.Fun).(*ast.SelectorExpr)
	if !ok {
		return
	}
	owner := sel.X
	if tv, ok := e.pkg.TypesInfo.Types[owner]; !ok || !c15isNamed(tv.Type, e.sessT) {
		inner, ok := ast.Unparen(owner).(*ast.SelectorExpr)
		if !ok {
			return
		}
		if tv, ok := e.pkg.TypesInfo.Types[inner.X]; !ok || !c15isNamed(tv.Type, e.sessT) {
			return
		}
	}
	switch fo.Name() {
	case "Lock":
		st.Set("ev:locked", flow.True)
	case "Unlock":
		st.Set("ev:locked", flow.False)
	}
}

// inline returns a flow.Config.Inline function interpreting every same-package callee in place
// except the listed ones.
func (e *c15env) inline(f *flow.Func, except ...*flow.Func) func(*ast.CallExpr, *types.Func) *flow.Func {
	var skip []types.Object
	for _, x := range except {
		if o := e.obj(x); o != nil {
			skip = append(skip, o)
		}
	}
	return inlineSamePkg(f, skip...)
}

// inlined reports whether g's body was interpreted in place during the analysis res.
func c15inlined(res *flow.Result, g *flow.Func) bool {
	for _, n := range res.Inlined {
		if n == g.Name {
			return true
		}
	}
	return false
}

func c15resolve(c *core.Ctx) *c15env {
	pkg := c.Prog.Pkg(mq)
	if pkg == nil {
		c.Errorf("anchor: package %s not loaded", mq)
		return nil
	}
	e := &c15env{c: c, pkg: pkg, byObj: map[types.Object]*flow.Func{}, sites: map[types.Object][]c15site{}}
	for _, file := range pkg.Syntax {
		for _, d := range file.Decls {
			if fd, ok := d.(*ast.FuncDecl); ok && fd.Body != nil {
				g := flow.NewFunc(pkg, fd)
				e.fns = append(e.fns, g)
				if o := pkg.TypesInfo.Defs[fd.Name]; o != nil {
					e.byObj[o] = g
				}
			}
		}
	}
	for _, g := range e.fns {
		special := map[*ast.CallExpr]int{}
		ast.Inspect(g.Body, func(n ast.Node) bool {
			switch s := n.(type) {
			case *ast.GoStmt:
				special[s.Call] = 1
			case *ast.DeferStmt:
				special[s.Call] = 2
			case *ast.CallExpr:
				o, recv := c15callee(g, s)
				if fo, ok := o.(*types.Func); ok && e.byObj[fo] != nil {
					e.sites[fo] = append(e.sites[fo], c15site{fn: g, call: s, recv: recv, inGo: special[s] == 1, inDefer: special[s] == 2})
				}
			}
			return true
		})
	}
	e.sessT = namedType(c, mq, "Session")
	e.clientT = namedType(c, mq, "Client")
	e.brokerT = namedType(c, mq, "Broker")
	e.topicMgrT = namedType(c, mq, "TopicManager")
	if e.sessT == nil || e.clientT == nil || e.brokerT == nil || e.topicMgrT == nil {
		return nil
	}

	// ---- fields, by type
	e.pendingF = e.field(e.sessT, "map from packet id to the unacknowledged *Message", "pending", func(t types.Type) bool {
		m, ok := t.Underlying().(*types.Map)
		if !ok {
			return false
		}
		n, ok := c15deref(m.Elem()).(*types.Named)
		return ok && n.Obj().Name() == "Message" && n.Obj().Pkg() == pkg.Types
	})
	e.queueF = e.field(e.sessT, "slice of packet ids in send order", "pendingQueue", func(t types.Type) bool {
		s, ok := t.Underlying().(*types.Slice)
		if !ok || e.pendingF == nil {
			return false
		}
		return types.Identical(s.Elem(), e.pendingF.Type().Underlying().(*types.Map).Key())
	})
	e.doneF = e.field(e.sessT, "channel closed when the session ends", "done", func(t types.Type) bool {
		ch, ok := t.Underlying().(*types.Chan)
		if !ok {
			return false
		}
		st, ok := ch.Elem().Underlying().(*types.Struct)
		return ok && st.NumFields() == 0
	})
	e.clientsF = e.field(e.brokerT, "table of registered clients (map to *Client)", "clients", func(t types.Type) bool {
		m, ok := t.Underlying().(*types.Map)
		if !ok {
			return false
		}
		_, isPtr := m.Elem().Underlying().(*types.Pointer)
		return isPtr && c15isNamed(m.Elem(), e.clientT)
	})
	e.writeChF = e.field(e.clientT, "outbound packet queue (chan packets.ControlPacket)", "writeCh", func(t types.Type) bool {
		ch, ok := t.Underlying().(*types.Chan)
		return ok && c15isPacket(ch.Elem(), "ControlPacket")
	})
	if e.pendingF == nil || e.queueF == nil || e.doneF == nil || e.clientsF == nil || e.writeChF == nil {
		return nil
	}

	// ---- functions, by role
	e.writePacket = e.pickOpt("blocking write of a packet to the client's outbound queue", "writePacket",
		e.methodsOf(e.clientT, func(g *flow.Func, sig *types.Signature) bool {
			if sig.Params().Len() != 1 || !c15isPacket(sig.Params().At(0).Type(), "ControlPacket") {
				return false
			}
			pm := parentMap(g.Body)
			blocking := false
			ast.Inspect(g.Body, func(n ast.Node) bool {
				if s, ok := n.(*ast.SendStmt); ok && e.selects(s.Chan, e.writeChF) {
					if _, inSelect := pm[s].(*ast.CommClause); !inSelect {
						blocking = true
					}
				}
				return true
			})
			return blocking
		}))
	e.getClient = e.pick("lookup of a registered client by id", "getClient",
		e.methodsOf(e.brokerT, func(g *flow.Func, sig *types.Signature) bool {
			return sig.Results().Len() == 1 && c15isNamed(sig.Results().At(0).Type(), e.clientT) && sig.Params().Len() == 1 &&
				types.Identical(sig.Params().At(0).Type().Underlying(), types.Typ[types.String]) && e.readsClients(g)
		}))
	e.findSubs = e.pick("subscribers of a topic (map client id → subscription QoS)", "findSubscribers",
		e.methodsOf(e.topicMgrT, func(g *flow.Func, sig *types.Signature) bool {
			if sig.Results().Len() < 1 {
				return false
			}
			m, ok := sig.Results().At(0).Type().Underlying().(*types.Map)
			return ok && types.Identical(m.Elem().Underlying(), types.Typ[types.Uint8]) && types.Identical(m.Key().Underlying(), types.Typ[types.String])
		}))
	if e.getClient == nil || e.findSubs == nil {
		return nil
	}
	callsWrite := func(g *flow.Func) bool {
		return len(e.writesIn(e.reachSync(g, 2))) > 0
	}
	storesPending := func(g *flow.Func) bool {
		for _, h := range e.reachSync(g, 2) {
			if e.storesInto(h.Body, e.pendingF) {
				return true
			}
		}
		return false
	}
	// outermost: several functions fit a role when one is a helper of the other; today's name decides,
	// otherwise the candidate that is not called (transitively) by another candidate
	outermost := func(cands []*flow.Func, pref string) []*flow.Func {
		for _, a := range cands {
			if c15declName(a) == pref {
				return []*flow.Func{a}
			}
		}
		var out []*flow.Func
		for _, a := range cands {
			drop := false
			for _, b := range cands {
				if a != b && e.reaches(b, a, 3) {
					drop = true
				}
			}
			if !drop {
				out = append(out, a)
			}
		}
		return out
	}
	e.publish = e.pick("delivery of one message to the session's client (pending store + write)", "publish",
		outermost(e.methodsOf(e.sessT, func(g *flow.Func, sig *types.Signature) bool {
			return callsWrite(g) && storesPending(g)
		}), "publish"))
	pubackCands := e.methodsOf(e.sessT, func(g *flow.Func, sig *types.Signature) bool {
		for i := 0; i < sig.Params().Len(); i++ {
			if c15isPacket(sig.Params().At(i).Type(), "PubackPacket") {
				return true
			}
		}
		return false
	})
	if len(pubackCands) == 0 {
		// the method was inlined into the packet handler: the function deleting from pending
		for _, g := range e.fns {
			for _, call := range calls(g.Body, true) {
				if b, ok := g.Callee(call).(*types.Builtin); ok && b.Name() == "delete" && len(call.Args) == 2 && e.selects(call.Args[0], e.pendingF) {
					pubackCands = append(pubackCands, g)
					break
				}
			}
		}
	}
	e.puback = e.pickOpt("handling of a PUBACK (parameter *packets.PubackPacket / deletes from pending)", "puback", pubackCands)
	resendRole := func(loopToo bool) []*flow.Func {
		return e.methodsOf(e.sessT, func(g *flow.Func, sig *types.Signature) bool {
			if sig.Params().Len() != 0 || !callsWrite(g) || storesPending(g) || !loopToo && e.mentions(g.Body, e.doneF) {
				return false
			}
			for _, h := range e.reachSync(g, 2) {
				if e.mentions(h.Body, e.queueF) {
					return true
				}
			}
			return false
		})
	}
	resendCands := resendRole(false)
	if len(resendCands) == 0 {
		resendCands = resendRole(true) // the retransmission was inlined into the resend loop
	}
	e.doResend = e.pick("retransmission of the first unacknowledged message (reads the id queue, writes a packet, stores nothing into pending)", "doResend",
		outermost(resendCands, "doResend"))
	if e.doResend != nil && e.mentions(e.doResend.Body, e.doneF) {
		e.bgResend = e.doResend
	} else if e.doResend != nil {
		resendObj := e.obj(e.doResend)
		e.bgResend = e.pick("periodic resend loop of a session (a for loop driving the retransmission)", "backgroundResendPending",
			e.methodsOf(e.sessT, func(g *flow.Func, sig *types.Signature) bool {
				if g == e.doResend {
					return false
				}
				hasFor := false
				ast.Inspect(g.Body, func(n ast.Node) bool {
					if _, ok := n.(*ast.ForStmt); ok {
						hasFor = true
					}
					return true
				})
				if !hasFor {
					return false
				}
				uses := false
				for _, h := range e.reachOf(g, 2) {
					if h == e.doResend {
						continue
					}
					ast.Inspect(h.Body, func(n ast.Node) bool {
						if id, ok := n.(*ast.Ident); ok && pkg.TypesInfo.Uses[id] == resendObj {
							uses = true
						}
						return true
					})
				}
				return uses
			}))
	}
	pktType := func(t types.Type) bool {
		n, ok := t.(*types.Named)
		return ok && n.Obj().Pkg() == pkg.Types && n.Obj().Name() == "PacketType"
	}
	isErr := func(t types.Type) bool { return types.Identical(t, types.Universe.Lookup("error").Type()) }
	e.runPipeline = e.pick("run of the MQTT pipeline for a packet (ControlPacket, PacketType) error", "runPipeline",
		e.methodsOf(e.clientT, func(g *flow.Func, sig *types.Signature) bool {
			return sig.Params().Len() == 2 && c15isPacket(sig.Params().At(0).Type(), "ControlPacket") && pktType(sig.Params().At(1).Type()) &&
				sig.Results().Len() == 1 && isErr(sig.Results().At(0).Type())
		}))
	e.checkLimit = e.pickOpt("publish limiter test (*packets.PublishPacket) bool", "checkPublishLimit",
		e.methodsOf(e.clientT, func(g *flow.Func, sig *types.Signature) bool {
			return sig.Params().Len() == 1 && c15isPacket(sig.Params().At(0).Type(), "PublishPacket") && sig.Results().Len() == 1 &&
				types.Identical(sig.Results().At(0).Type().Underlying(), types.Typ[types.Bool])
		}))
	// func(*Client, ControlPacket) or the same as a method of Client
	pp := e.methodsOf(e.clientT, func(g *flow.Func, sig *types.Signature) bool {
		if sig.Results().Len() != 0 || sig.Params().Len() != 1 || !c15isPacket(sig.Params().At(0).Type(), "ControlPacket") {
			return false
		}
		asserts := false
		ast.Inspect(g.Body, func(n ast.Node) bool {
			if ta, ok := n.(*ast.TypeAssertExpr); ok && ta.Type != nil {
				if tv, ok := pkg.TypesInfo.Types[ta.Type]; ok && c15isPacket(tv.Type, "PublishPacket") {
					asserts = true
				}
			}
			return true
		})
		return asserts
	})
	e.processPublish = e.pick("processing of an accepted PUBLISH from a client (func(*Client, ControlPacket) asserting *PublishPacket)", "processPublish", pp)
	return e
}

// c15enclosingLit returns the innermost function literal of g containing node at (nil if none).
func c15enclosingLit(g *flow.Func, at ast.Node) *ast.FuncLit {
	var lit *ast.FuncLit
	ast.Inspect(g.Body, func(n ast.Node) bool {
		if l, ok := n.(*ast.FuncLit); ok && contains(l, at) {
			lit = l
		}
		return true
	})
	return lit
}

// c15liftLit: when at sits inside a function literal that is the only value of a local variable
// (`resend := func() { s.doResend() }`), it returns the calls of that local in g — the places
// where the code of the literal runs.
func c15liftLit(g *flow.Func, at ast.Node) []*ast.CallExpr {
	lit := c15enclosingLit(g, at)
	if lit == nil {
		return nil
	}
	var v types.Object
	ast.Inspect(g.Body, func(n ast.Node) bool {
		switch s := n.(type) {
		case *ast.AssignStmt:
			if len(s.Lhs) == len(s.Rhs) {
				for i, r := range s.Rhs {
					if ast.Unparen(r) == ast.Expr(lit) {
						if id, ok := s.Lhs[i].(*ast.Ident); ok {
							v = c15objOf(g, id)
						}
					}
				}
			}
		case *ast.ValueSpec:
			if len(s.Names) == len(s.Values) {
				for i, r := range s.Values {
					if ast.Unparen(r) == ast.Expr(lit) {
						v = g.Info.Defs[s.Names[i]]
					}
				}
			}
		}
		return true
	})
	if v == nil || len(c15defs(g, v)) != 1 {
		return nil
	}
	var out []*ast.CallExpr
	for _, call := range calls(g.Body, true) {
		if id, ok := ast.Unparen(call.Fun).(*ast.Ident); ok && c15objOf(g, id) == v {
			out = append(out, call)
		}
	}
	return out
}

// c15run is the interpretation of a function together with the separate interpretations of the
// function literals that its reach hands to same-package "runner" helpers which call them
// (s.withLock(func() { .. })): the engine does not follow a literal passed as an argument, so each
// such literal is interpreted on its own, starting with the session lock held when the runner
// calls its parameter under the lock.
type c15run struct {
	main *flow.Result
	lits []*flow.Result
}

func (r *c15run) at(n ast.Node) []*flow.State {
	out := append([]*flow.State(nil), r.main.At[n]...)
	for _, l := range r.lits {
		out = append(out, l.At[n]...)
	}
	return out
}

// all merges the At maps of the runs.
func (r *c15run) all() map[ast.Node][]*flow.State {
	out := map[ast.Node][]*flow.State{}
	for n, sts := range r.main.At {
		out[n] = append(out[n], sts...)
	}
	for _, l := range r.lits {
		for n, sts := range l.At {
			out[n] = append(out[n], sts...)
		}
	}
	return out
}

func (r *c15run) inlined(g *flow.Func) bool {
	if c15inlined(r.main, g) {
		return true
	}
	for _, l := range r.lits {
		if c15inlined(l, g) {
			return true
		}
	}
	return false
}

// runnerLocks reports whether helper h calls its i-th parameter (a func()) only with the session lock held.
func (e *c15env) runnerLocks(h *flow.Func, i int) (ncalls int, locked bool) {
	pid := e.paramIdent(h, i)
	if pid == nil {
		return 0, false
	}
	po := h.Info.Defs[pid]
	var sites []*ast.CallExpr
	for _, call := range calls(h.Body, true) {
		if id, ok := ast.Unparen(call.Fun).(*ast.Ident); ok && c15objOf(h, id) == po {
			sites = append(sites, call)
		}
	}
	if len(sites) == 0 {
		return 0, false
	}
	res := analyze(e.c, h, flow.Config{NoHavoc: true, OnCall: func(st *flow.State, call *ast.CallExpr, callee types.Object, d bool) {
		e.sessLock(st, call, callee)
	}})
	if res == nil {
		return len(sites), false
	}
	locked = true
	for _, call := range sites {
		if len(res.At[call]) == 0 {
			locked = false
		}
		for _, st := range res.At[call] {
			if !st.Is("ev:locked", flow.True) {
				locked = false
			}
		}
	}
	return len(sites), locked
}

// analyse interprets f with cfg (closures held in locals in place) and, separately, every function
// literal of fns that is passed to a same-package helper calling it.
func (e *c15env) analyse(f *flow.Func, fns []*flow.Func, conf flow.Config) *c15run {
	conf.InlineClosures = true
	main := analyze(e.c, f, conf)
	if main == nil {
		return nil
	}
	run := &c15run{main: main}
	for _, g := range fns {
		for _, call := range calls(g.Body, true) {
			o, _ := c15callee(g, call)
			h := e.byObj[o]
			if h == nil {
				continue
			}
			for i, a := range c15args(g, call) {
				lit, ok := ast.Unparen(a).(*ast.FuncLit)
				if !ok {
					continue
				}
				n, locked := e.runnerLocks(h, i)
				if n == 0 {
					continue
				}
				// the rule's events that hold in every state reaching the runner call hold when the literal starts
				var seed []string
				for si, st := range main.At[call] {
					var mine []string
					for _, fact := range st.Facts() {
						if strings.HasPrefix(fact, "ev:") && strings.HasSuffix(fact, "=T") {
							mine = append(mine, fact[:len(fact)-2])
						}
					}
					if si == 0 {
						seed = mine
						continue
					}
					var both []string
					for _, k := range seed {
						for _, m := range mine {
							if k == m {
								both = append(both, k)
							}
						}
					}
					seed = both
				}
				sub := conf
				prev := conf.OnBlock
				sub.OnBlock = func(st *flow.State, b *cfg.Block) {
					if !st.Is("ev:litInit", flow.True) {
						st.Set("ev:litInit", flow.True)
						for _, k := range seed {
							if k != "ev:locked" {
								st.Set(k, flow.True)
							}
						}
						if locked {
							st.Set("ev:locked", flow.True)
						}
					}
					if prev != nil {
						prev(st, b)
					}
				}
				if res := analyze(e.c, g.Lit(lit), sub); res != nil {
					run.lits = append(run.lits, res)
				}
			}
		}
	}
	return run
}

var (
	c15implMu  sync.Mutex
	c15implMap = map[*types.Func]*types.Func{}
)

// c15soleImpl: m is a method of an interface declared in g's package and exactly one named type of
// the package implements that interface — then the method of that type (nil otherwise).
func c15soleImpl(g *flow.Func, m *types.Func) *types.Func {
	sig, ok := m.Type().(*types.Signature)
	if !ok || sig.Recv() == nil || g.Pkg == nil || m.Pkg() != g.Pkg.Types {
		return nil
	}
	iface, ok := sig.Recv().Type().Underlying().(*types.Interface)
	if !ok {
		return nil
	}
	c15implMu.Lock()
	defer c15implMu.Unlock()
	if r, ok := c15implMap[m]; ok {
		return r
	}
	var found *types.Func
	n := 0
	scope := g.Pkg.Types.Scope()
	for _, name := range scope.Names() {
		tn, ok := scope.Lookup(name).(*types.TypeName)
		if !ok || tn.IsAlias() {
			continue
		}
		nt, ok := tn.Type().(*types.Named)
		if !ok || types.IsInterface(nt) {
			continue
		}
		var recv types.Type
		switch {
		case types.Implements(nt, iface):
			recv = nt
		case types.Implements(types.NewPointer(nt), iface):
			recv = types.NewPointer(nt)
		default:
			continue
		}
		n++
		if obj, _, _ := types.LookupFieldOrMethod(recv, true, g.Pkg.Types, m.Name()); obj != nil {
			found, _ = obj.(*types.Func)
		}
	}
	if n != 1 {
		found = nil
	}
	c15implMap[m] = found
	return found
}

// readsClients: g reads the client table itself or through an accessor it calls.
func (e *c15env) readsClients(g *flow.Func) bool {
	for _, h := range e.reachSync(g, 1) {
		if e.mentions(h.Body, e.clientsF) {
			return true
		}
	}
	return false
}

// clientLookup recognises a comma-ok lookup in the client table: `v, ok := b.clients[k]`, or the same
// through an accessor in front of the map (`v, ok := b.lookupClientLocked(k)`, a same-package function
// returning (*Client, bool) whose body is such a lookup keyed by its parameter). It returns the key
// expression in g (nil if x is not a lookup).
func (e *c15env) clientLookup(g *flow.Func, x ast.Expr) ast.Expr {
	x = ast.Unparen(x)
	if ix, ok := x.(*ast.IndexExpr); ok && e.selects(ix.X, e.clientsF) {
		return ix.Index
	}
	call, ok := x.(*ast.CallExpr)
	if !ok {
		return nil
	}
	o, _ := c15callee(g, call)
	h := e.byObj[o]
	if h == nil {
		return nil
	}
	sig := e.sig(h)
	if sig == nil || sig.Results().Len() != 2 || !c15isNamed(sig.Results().At(0).Type(), e.clientT) ||
		!types.Identical(sig.Results().At(1).Type().Underlying(), types.Typ[types.Bool]) {
		return nil
	}
	// the accessor's own lookup, keyed by one of its parameters
	pi := -1
	ast.Inspect(h.Body, func(n ast.Node) bool {
		if ix, ok := n.(*ast.IndexExpr); ok && e.selects(ix.X, e.clientsF) {
			if id, ok := ast.Unparen(ix.Index).(*ast.Ident); ok {
				if v, ok := c15objOf(h, id).(*types.Var); ok {
					if i, isRecv, isPar := e.paramIndex(v); isPar && !isRecv {
						pi = i
					}
				}
			}
		}
		return true
	})
	args := c15args(g, call)
	if pi < 0 || pi >= len(args) {
		return nil
	}
	return args[pi]
}
