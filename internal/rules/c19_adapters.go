package rules

import (
	"go/ast"
	"go/types"

	"golang.org/x/tools/go/cfg"
	"golang.org/x/tools/go/packages"

	"verif/internal/core"
	"verif/internal/flow"
)

const (
	c19evChSent  = "ev:chsent"
	c19evChSent2 = "ev:chsent2"
	c19evStored  = "ev:stored"
	c19evClosed  = "ev:closed" // the callback took a select case receiving from the syncer's done channel
)

// c19runMutates reports a statement of run, its closures or the same-package functions below it
// (the pull and the reads below the pull excepted) that writes into a snapshot-typed map in place.
func c19runMutates(r *c19run) ast.Node {
	var at ast.Node
	// the pull and the reads below it fill maps they have just created: not a delivered snapshot
	below := map[*ast.BlockStmt]bool{}
	for _, ps := range r.pulls {
		if fo, ok := ps.f.Callee(ps.call).(*types.Func); ok {
			if pfd := declOf(ps.f.Pkg, fo); pfd != nil {
				for _, g := range reach(flow.NewFunc(ps.f.Pkg, pfd), 3) {
					below[g.Body] = true
				}
			}
		}
	}
	for _, f := range r.funcs {
		if below[f.Body] {
			continue
		}
		isSnap := func(e ast.Expr) bool {
			t := f.Info.TypeOf(e)
			return t != nil && types.Identical(t, r.snapT)
		}
		ast.Inspect(f.Body, func(n ast.Node) bool {
			switch s := n.(type) {
			case *ast.AssignStmt:
				for _, l := range s.Lhs {
					if ix, ok := ast.Unparen(l).(*ast.IndexExpr); ok && isSnap(ix.X) {
						at = s
					}
				}
			case *ast.CallExpr:
				if b, ok := f.Callee(s).(*types.Builtin); ok && (b.Name() == "delete" || b.Name() == "clear") && len(s.Args) > 0 && isSnap(s.Args[0]) {
					at = s
				}
			}
			return true
		})
	}
	return at
}

func c19Adapters(c *core.Ctx, r *c19run) {
	n := 0
	eachFunc(c, func(pkg *packages.Package, fd *ast.FuncDecl) {
		if relPkg(pkg.PkgPath) != c19pkg || fd == r.f.Node {
			return
		}
		f := flow.NewFunc(pkg, fd)
		var rc []*ast.CallExpr
		for _, call := range calls(fd.Body, true) {
			if r.runObj != nil && f.Callee(call) == types.Object(r.runObj) {
				rc = append(rc, call)
			}
		}
		if len(rc) == 0 {
			return
		}
		n++
		c.Count("functions_analysed", 1)
		c19Adapter(c, r, pkg, fd, f, rc)
	})
	c.RequireCount("R-C19-5", "syncer methods that start run", n, 4)
}

func c19Adapter(c *core.Ctx, r *c19run, pkg *packages.Package, fd *ast.FuncDecl, f *flow.Func, rc []*ast.CallExpr) {
	cons := declName(pkg, fd)
	if len(rc) != 1 {
		c.Undecide("R-C19-5", cons+"|run", pos(c, rc[1]), "more than one call of run in an adapter")
		return
	}
	run := rc[0]
	// the adapter's key parameter
	var keyP *types.Var
	for _, v := range c19params(f, f.Type) {
		if c19isString(v.Type()) {
			if keyP != nil {
				c.Undecide("R-C19-5", cons+"|run", pos(c, fd), "adapter with more than one string parameter")
				return
			}
			keyP = v
		}
	}
	// the returned channel
	var chObj types.Object
	okCh := true
	c19inspect(fd.Body, func(n ast.Node) bool {
		if rs, ok := n.(*ast.ReturnStmt); ok && len(rs.Results) >= 1 {
			o := c19obj(f, rs.Results[0])
			if o == nil || (chObj != nil && chObj != o) {
				if tv, ok := f.Info.Types[rs.Results[0]]; !ok || !tv.IsNil() {
					okCh = false
				}
			} else {
				chObj = o
			}
		}
		return true
	})
	if keyP == nil || chObj == nil || !okCh || len(run.Args) != 3 {
		c.Undecide("R-C19-5", cons+"|run", pos(c, fd), "cannot identify the adapter's key parameter / returned channel / run arguments")
		return
	}
	cht, ok := chObj.Type().Underlying().(*types.Chan)
	if !ok {
		c.Undecide("R-C19-5", cons+"|run", pos(c, fd), "the first result is not a channel variable")
		return
	}
	_, isMap := cht.Elem().Underlying().(*types.Map)

	c.Check(c19obj(f, run.Args[0]) == types.Object(keyP), "R-C19-5", cons+"|runs on the adapter's key", pos(c, run),
		"run's key argument is the adapter's own parameter",
		"run is started on something else than the key/prefix the caller asked for: the channel delivers the content of another key")
	if pv, isC := c19constBool(f, run.Args[1]); !isC {
		c.Undecide("R-C19-5", cons+"|prefix flag matches the channel type", pos(c, run), "run's prefix argument is not a constant")
	} else {
		why := "a single-value channel is fed by a prefix syncer: every change of any key under the prefix re-delivers the unchanged value (consecutive snapshots equal)"
		if isMap {
			why = "a map channel (all keys under a prefix) is fed by a single-key syncer: only the key equal to the prefix itself is read; puts and deletes under the prefix are never delivered"
		}
		c.Check(pv == isMap, "R-C19-5", cons+"|prefix flag matches the channel type", pos(c, run),
			sprintf("prefix=%v for a channel of %s", pv, types.TypeString(cht.Elem(), types.RelativeTo(pkg.Types))), why)
	}
	// the callback
	var lit *ast.FuncLit
	switch a := ast.Unparen(run.Args[2]).(type) {
	case *ast.FuncLit:
		lit = a
	case *ast.Ident:
		o := c19obj(f, a)
		nAssign := 0
		ast.Inspect(fd.Body, func(n ast.Node) bool {
			if as, ok := n.(*ast.AssignStmt); ok {
				for i, l := range as.Lhs {
					if c19obj(f, l) == o && o != nil {
						nAssign++
						if len(as.Lhs) == len(as.Rhs) {
							lit, _ = ast.Unparen(as.Rhs[i]).(*ast.FuncLit)
						}
					}
				}
			}
			return true
		})
		if nAssign != 1 {
			lit = nil
		}
	}
	if lit == nil {
		c.Undecide("R-C19-5", cons+"|callback", pos(c, run), "run's callback is not a function literal (or a variable assigned one exactly once)")
		return
	}
	lf := f.Lit(lit)
	lps := c19params(lf, lit.Type)
	if len(lps) != 1 {
		c.Undecide("R-C19-5", cons+"|callback", pos(c, lit), "callback does not take exactly one snapshot")
		return
	}
	dataP := lps[0]
	isData := func(e ast.Expr) bool { return c19obj(lf, e) == types.Object(dataP) }

	// sends on the returned channel
	var sends []*ast.SendStmt
	c19inspect(lit, func(n ast.Node) bool {
		if s, ok := n.(*ast.SendStmt); ok && c19obj(lf, s.Chan) == chObj {
			sends = append(sends, s)
		}
		return true
	})
	if len(sends) == 0 {
		c.Violate("R-C19-5", cons+"|exactly one send per snapshot", pos(c, lit),
			"the callback never sends on the channel returned to the caller: no snapshot reaches the consumer")
		return
	}
	// A send that is the communication of a select case happens only if that case is chosen
	// (go/cfg evaluates all communications of a select before branching, so the statement
	// node alone does not mean the value was sent).
	lpm := parentMap(lit)
	commSend := map[ast.Stmt]bool{}  // comm clauses whose communication sends on the returned channel
	commClose := map[ast.Stmt]bool{} // comm clauses receiving from a channel field of the syncer (Close)
	var chanFields []*types.Var
	if nt := namedType(c, c19pkg, "syncer"); nt != nil {
		if stt, ok := nt.Underlying().(*types.Struct); ok {
			for i := 0; i < stt.NumFields(); i++ {
				if _, ok := stt.Field(i).Type().Underlying().(*types.Chan); ok {
					chanFields = append(chanFields, stt.Field(i))
				}
			}
		}
	}
	inSelect := map[*ast.SendStmt]bool{}
	for _, s := range sends {
		if cc, ok := lpm[s].(*ast.CommClause); ok && cc.Comm == s {
			commSend[cc] = true
			inSelect[s] = true
		}
	}
	c19inspect(lit, func(n ast.Node) bool {
		cc, ok := n.(*ast.CommClause)
		if !ok || cc.Comm == nil {
			return true
		}
		if sel, ok := c19recvFrom(cc.Comm).(*ast.SelectorExpr); ok {
			if sl := lf.Info.Selections[sel]; sl != nil {
				for _, fld := range chanFields {
					if sl.Obj() == fld {
						commClose[cc] = true
					}
				}
			}
		}
		return true
	})
	markSent := func(st *flow.State) {
		if st.Is(c19evChSent, flow.True) {
			st.Set(c19evChSent2, flow.True)
		}
		st.Set(c19evChSent, flow.True)
	}
	// map adapters: the copy loop
	var L *ast.RangeStmt
	nLoops := 0
	c19inspect(lit, func(n ast.Node) bool {
		if rs, ok := n.(*ast.RangeStmt); ok && isData(rs.X) {
			L = rs
			nLoops++
		}
		return true
	})
	var mObj types.Object // the map that is sent (map adapters)
	if isMap {
		for _, s := range sends {
			o := c19obj(lf, s.Value)
			if o == nil || (mObj != nil && mObj != o) {
				c.Undecide("R-C19-5", cons+"|callback", pos(c, s), "the value sent is not a single map variable")
				return
			}
			mObj = o
		}
	}
	isStore := func(n ast.Node) bool {
		as, ok := n.(*ast.AssignStmt)
		if !ok || L == nil || mObj == nil {
			return false
		}
		for _, l := range as.Lhs {
			if ix, ok := ast.Unparen(l).(*ast.IndexExpr); ok && c19obj(lf, ix.X) == mObj && c19obj(lf, ix.Index) != nil && c19obj(lf, ix.Index) == c19obj(lf, L.Key) {
				return true
			}
		}
		return false
	}
	var badSkip *flow.State
	iters := 0
	res := analyze(c, lf, flow.Config{NoHavoc: true,
		OnNode: func(st *flow.State, n ast.Node) {
			if s, ok := n.(*ast.SendStmt); ok && c19obj(lf, s.Chan) == chObj && !inSelect[s] {
				markSent(st)
			}
			if isStore(n) {
				st.Set(c19evStored, flow.True)
			}
		},
		OnBlock: func(st *flow.State, b *cfg.Block) {
			if b.Kind == cfg.KindSelectCaseBody {
				if commSend[b.Stmt] {
					markSent(st)
				}
				if commClose[b.Stmt] {
					st.Set(c19evClosed, flow.True)
				}
			}
			if L == nil || b.Stmt != L {
				return
			}
			switch b.Kind {
			case cfg.KindRangeBody:
				st.Set(c19evBody, flow.True)
				st.Set(c19evStored, flow.False)
			case cfg.KindRangeLoop:
				if st.Is(c19evBody, flow.True) {
					iters++
					if !st.Is(c19evStored, flow.True) && badSkip == nil {
						badSkip = st
					}
				}
				st.Set(c19evBody, flow.Unknown)
				st.Set(c19evStored, flow.Unknown)
			case cfg.KindRangeDone:
				st.Set(c19evDone, flow.True)
			}
		}})
	if res == nil {
		return
	}
	// exactly one send on every path
	var none, twice *flow.State
	exits := 0
	for _, ex := range res.Exits {
		if ex.Kind != flow.ExitReturn || c19phantom(ex) {
			continue
		}
		exits++
		if !ex.State.Is(c19evChSent, flow.True) && !ex.State.Is(c19evClosed, flow.True) {
			none = ex.State
		}
		if ex.State.Is(c19evChSent2, flow.True) {
			twice = ex.State
		}
	}
	c.RequireCount("R-C19-5", "exits of the callback of "+cons, exits, 1)
	why, bad := "", (*flow.State)(nil)
	switch {
	case none != nil:
		why, bad = "a path through the callback returns without having sent the snapshot (no send on the path, or a select whose default / timeout / other alternative gives the snapshot up when the consumer is slow): run has already recorded the snapshot as `last`, so every later pull compares equal and the consumer never receives that content — no convergence to the final state. Only a case receiving from the syncer's own done channel (Close) may abandon a snapshot", none
	case twice != nil:
		why, bad = "a path through the callback sends twice for one snapshot: the consumer receives equal consecutive snapshots", twice
	}
	c.Check(bad == nil, "R-C19-5", cons+"|exactly one send per snapshot", pos(c, lit),
		sprintf("%d exit(s) of the callback, each after exactly one unconditional send on the returned channel (or after the syncer was closed)", exits), why, witness(bad)...)

	if !isMap {
		c19SingleKey(c, cons, lf, lit, keyP, isData, sends, res)
		return
	}

	// ---- map adapters
	aliased := types.Object(dataP) == mObj
	if aliased {
		at := c19runMutates(r)
		c.Check(at == nil, "R-C19-5", cons+"|delivered map is not mutated afterwards", pos(c, sends[0]),
			"the snapshot map itself is sent, and run never writes into a snapshot map in place (it replaces it)",
			"the snapshot map itself is handed to the consumer and run writes into snapshot maps in place ("+pos(c, at)+"): a delivered snapshot changes under the consumer's hands")
		return
	}
	if nLoops != 1 {
		c.Violate("R-C19-5", cons+"|every key of the snapshot is copied", pos(c, lit),
			"the callback sends a map but does not fill it in a loop over the snapshot: the delivered map is not the store's content")
		return
	}
	// fresh map
	fresh := false
	c19inspect(lit, func(n ast.Node) bool {
		if as, ok := n.(*ast.AssignStmt); ok && len(as.Lhs) == len(as.Rhs) {
			for i, l := range as.Lhs {
				if c19obj(lf, l) == mObj {
					if call, ok := ast.Unparen(as.Rhs[i]).(*ast.CallExpr); ok {
						if b, ok := lf.Callee(call).(*types.Builtin); ok && b.Name() == "make" {
							fresh = true
						}
					}
					if _, ok := ast.Unparen(as.Rhs[i]).(*ast.CompositeLit); ok {
						fresh = true
					}
				}
			}
		}
		return true
	})
	c.Check(fresh, "R-C19-5", cons+"|delivered map is not mutated afterwards", pos(c, sends[0]),
		"the map sent is created inside the callback for this snapshot",
		"the map sent is not created per snapshot inside the callback: a map shared between deliveries is overwritten while the consumer still reads the previous snapshot")
	// every key copied, value from the snapshot
	if c.RequireCount("R-C19-5", "abstract iterations of the copy loop of "+cons, iters, 1) {
		ok := badSkip == nil && len(breaksOut(lf, L, labelOf(lit.Body, L))) == 0
		c.Check(ok, "R-C19-5", cons+"|every key of the snapshot is copied", pos(c, L),
			sprintf("%d abstract iteration end(s), each after m[key] was stored; the loop has no early exit", iters),
			"an entry of the snapshot is skipped (or the loop left early) while the map is copied: the delivered map is not the content the store had", witness(badSkip)...)
	}
	valOK := true
	var badStore ast.Node
	vObj := c19obj(lf, L.Value)
	c19inspect(L.Body, func(n ast.Node) bool {
		if !isStore(n) {
			return true
		}
		as := n.(*ast.AssignStmt)
		if len(as.Lhs) != len(as.Rhs) {
			valOK, badStore = false, n
			return true
		}
		for i, l := range as.Lhs {
			if _, ok := ast.Unparen(l).(*ast.IndexExpr); !ok {
				continue
			}
			uses := false
			ast.Inspect(as.Rhs[i], func(x ast.Node) bool {
				switch t := x.(type) {
				case *ast.Ident:
					if vObj != nil && lf.Info.Uses[t] == vObj {
						uses = true
					}
				case *ast.IndexExpr: // data[k] with k the loop's key
					if isData(t.X) && c19obj(lf, t.Index) != nil && c19obj(lf, t.Index) == c19obj(lf, L.Key) {
						uses = true
					}
				}
				return true
			})
			if !uses {
				valOK, badStore = false, n
			}
		}
		return true
	})
	c.Check(valOK, "R-C19-5", cons+"|copied value is the snapshot's value", pos(c, L),
		"the value stored under each key is computed from the snapshot's entry for that key (the loop's value variable or data[key])",
		"the value stored under a key is not derived from the snapshot's entry for that key ("+pos(c, badStore)+")")
	// send after the loop
	var early *flow.State
	for _, s := range sends {
		for _, st := range res.At[s] {
			if !st.Is(c19evDone, flow.True) || st.Is(c19evBody, flow.True) {
				early = st
			}
		}
	}
	c.Check(early == nil, "R-C19-5", cons+"|send after the copy is complete", pos(c, sends[0]),
		"every send is reached after the copy loop was exhausted",
		"the map is sent before all keys have been copied: the consumer receives a partial content", witness(early)...)
}

// c19SingleKey: the callback of a single-key adapter looks the snapshot up under the
// adapter's key, sends nil only when that entry is nil, and otherwise something derived
// from the entry.
func c19SingleKey(c *core.Ctx, cons string, lf *flow.Func, lit *ast.FuncLit, keyP *types.Var,
	isData func(ast.Expr) bool, sends []*ast.SendStmt, res *flow.Result) {
	var lookups []*ast.IndexExpr
	badKey := false
	c19inspect(lit, func(n ast.Node) bool {
		if ix, ok := n.(*ast.IndexExpr); ok && isData(ix.X) {
			lookups = append(lookups, ix)
			if c19obj(lf, ix.Index) != types.Object(keyP) {
				badKey = true
			}
		}
		return true
	})
	if len(lookups) == 0 {
		c.Violate("R-C19-5", cons+"|looks up the adapter's key", pos(c, lit), "the callback never reads the snapshot: what it sends is not the store's value")
		return
	}
	c.Check(!badKey, "R-C19-5", cons+"|looks up the adapter's key", pos(c, lookups[0]),
		sprintf("%d lookup(s) of the snapshot, all under the adapter's key parameter", len(lookups)),
		"the snapshot is looked up under another key than the one run pulls: the lookup misses and the consumer is told the key does not exist")
	// the entry: the lookup itself or variables assigned from it
	entry := map[types.Object]ast.Expr{} // var → its declaring lhs expr
	isLookup := func(e ast.Expr) bool {
		ix, ok := ast.Unparen(e).(*ast.IndexExpr)
		return ok && isData(ix.X)
	}
	c19inspect(lit, func(n ast.Node) bool {
		if as, ok := n.(*ast.AssignStmt); ok && len(as.Rhs) == 1 && isLookup(as.Rhs[0]) {
			if o := c19obj(lf, as.Lhs[0]); o != nil {
				entry[o] = as.Lhs[0]
			}
		}
		return true
	})
	// taint: variables derived from an entry
	tainted := map[types.Object]bool{}
	for o := range entry {
		tainted[o] = true
	}
	mentions := func(e ast.Expr) bool {
		hit := false
		ast.Inspect(e, func(x ast.Node) bool {
			switch t := x.(type) {
			case *ast.Ident:
				if o := lf.Info.Uses[t]; o != nil && tainted[o] {
					hit = true
				}
			case *ast.IndexExpr:
				if isData(t.X) {
					hit = true
				}
			}
			return true
		})
		return hit
	}
	for changed := true; changed; {
		changed = false
		c19inspect(lit, func(n ast.Node) bool {
			as, ok := n.(*ast.AssignStmt)
			if !ok || len(as.Lhs) != len(as.Rhs) {
				return true
			}
			for i, l := range as.Lhs {
				if o := c19obj(lf, l); o != nil && !tainted[o] && mentions(as.Rhs[i]) {
					tainted[o] = true
					changed = true
				}
			}
			return true
		})
	}
	for i, s := range sends {
		role := cons + "|value sent is the entry under the key"
		if len(sends) > 1 {
			role = sprintf("%s (send#%d)", role, i+1)
		}
		if tv, ok := lf.Info.Types[s.Value]; ok && tv.IsNil() {
			// nil literal: only when the entry is known to be nil
			var bad *flow.State
			for _, st := range res.At[s] {
				known := false
				for _, lhs := range entry {
					if st.Is(lf.NilKey(lhs), flow.True) {
						known = true
					}
				}
				for _, ix := range lookups {
					if st.Is(lf.NilKey(ix), flow.True) {
						known = true
					}
				}
				if !known {
					bad = st
				}
			}
			c.Check(bad == nil && len(res.At[s]) > 0, "R-C19-5", role, pos(c, s),
				"nil is sent only on paths where the entry under the key is nil (key absent)",
				"nil ('key does not exist') is sent on a path where the key may exist in the snapshot: the consumer sees a deletion that never happened", witness(bad)...)
			continue
		}
		c.Check(mentions(s.Value), "R-C19-5", role, pos(c, s),
			"the value sent is derived from the snapshot's entry under the key",
			"the value sent is not derived from the snapshot's entry under the key: the consumer does not receive the store's value")
	}
}
