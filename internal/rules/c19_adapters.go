package rules

import (
	"go/ast"
	"go/types"

	"golang.org/x/tools/go/cfg"
	"golang.org/x/tools/go/packages"

	"verif/internal/core"
	"verif/internal/flow"
)

const (
	c19evChSent  = "ev:chsent"
	c19evChSent2 = "ev:chsent2"
	c19evStored  = "ev:stored"
	c19evClosed  = "ev:closed" // the callback took a select case receiving from the syncer's done channel
)

// c19runMutates reports a statement of run, its closures or the same-package functions below it
// (the pull and the reads below the pull excepted) that writes into a snapshot-typed map in place.
func c19runMutates(r *c19run) ast.Node {
	var at ast.Node
	// the pull and the reads below it fill maps they have just created: not a delivered snapshot
	below := map[*ast.BlockStmt]bool{}
	for _, ps := range r.pulls {
		if fo, ok := ps.f.Callee(ps.call).(*types.Func); ok {
			if pfd := declOf(ps.f.Pkg, fo); pfd != nil {
				for _, g := range reach(flow.NewFunc(ps.f.Pkg, pfd), 3) {
					below[g.Body] = true
				}
			}
		}
	}
	for _, f := range r.funcs {
		if below[f.Body] {
			continue
		}
		isSnap := func(e ast.Expr) bool {
			t := f.Info.TypeOf(e)
			return t != nil && types.Identical(t, r.snapT)
		}
		ast.Inspect(f.Body, func(n ast.Node) bool {
			switch s := n.(type) {
			case *ast.AssignStmt:
				for _, l := range s.Lhs {
					if ix, ok := ast.Unparen(l).(*ast.IndexExpr); ok && isSnap(ix.X) {
						at = s
					}
				}
			case *ast.CallExpr:
				if b, ok := f.Callee(s).(*types.Builtin); ok && (b.Name() == "delete" || b.Name() == "clear") && len(s.Args) > 0 && isSnap(s.Args[0]) {
					at = s
				}
			}
			return true
		})
	}
	return at
}

// c19launch is one way an adapter starts run: the call of run (directly in the adapter, or in a
// same-package launcher the adapter calls) with run's arguments expressed in the adapter.
type c19launch struct {
	at   *ast.CallExpr
	args []ast.Expr // run's arguments as expressions of the adapter (nil = cannot be expressed)
}

func c19Adapters(c *core.Ctx, r *c19run) {
	pkgp := r.f.Pkg
	// functions that call run themselves (function literals included)
	direct := map[*ast.FuncDecl][]*ast.CallExpr{}
	var decls []*ast.FuncDecl
	for _, file := range pkgp.Syntax {
		for _, d := range file.Decls {
			fd, ok := d.(*ast.FuncDecl)
			if !ok || fd.Body == nil || fd == r.f.Node {
				continue
			}
			decls = append(decls, fd)
			f := funcOfDecl(pkgp, fd)
			for _, call := range calls(fd.Body, true) {
				if r.runObj != nil && f.Callee(call) == types.Object(r.runObj) {
					direct[fd] = append(direct[fd], call)
				}
			}
		}
	}
	n := 0
	for _, fd := range decls {
		f := funcOfDecl(pkgp, fd)
		// an adapter hands a channel back to the caller
		if fd.Type.Results == nil || len(fd.Type.Results.List) == 0 {
			continue
		}
		if _, ok := f.Info.TypeOf(fd.Type.Results.List[0].Type).Underlying().(*types.Chan); !ok {
			continue
		}
		var ls []c19launch
		for _, call := range direct[fd] {
			ls = append(ls, c19launch{call, call.Args})
		}
		for _, call := range calls(fd.Body, true) {
			fo, ok := f.Callee(call).(*types.Func)
			if !ok || fo.Pkg() != pkgp.Types {
				continue
			}
			hfd := declOf(pkgp, fo)
			if hfd == nil || hfd == fd || len(direct[hfd]) != 1 {
				continue
			}
			// run's arguments inside the launcher, rewritten to the adapter's arguments
			h := funcOfDecl(pkgp, hfd)
			hps := c19params(h, hfd.Type)
			var args []ast.Expr
			for _, ra := range direct[hfd][0].Args {
				var e ast.Expr
				if o := c19obj(h, ra); o != nil && len(hps) == len(call.Args) {
					for i, hp := range hps {
						if types.Object(hp) == o {
							e = call.Args[i]
						}
					}
				}
				args = append(args, e)
			}
			ls = append(ls, c19launch{call, args})
		}
		if len(ls) == 0 {
			continue
		}
		n++
		c.Count("functions_analysed", 1)
		c19Adapter(c, r, pkgp, fd, f, ls)
	}
	c.RequireCount("R-C19-5", "functions that return a channel and start run", n, 4)
}

func funcOfDecl(pkg *packages.Package, fd *ast.FuncDecl) *flow.Func { return flow.NewFunc(pkg, fd) }

// c19target extracts what run is started on from its (non-callback) arguments: the key
// expression and the constant prefix flag, given as separate arguments or as the fields of a
// struct literal.
func c19target(f *flow.Func, args []ast.Expr, enumT types.Type, meaning func(string) bool) (key ast.Expr, prefix, prefixConst bool, cb ast.Expr, ok bool) {
	ok = true
	sawBool := false
	setBool := func(e ast.Expr) {
		sawBool = true
		if v, isC := c19constBool(f, e); isC {
			prefix, prefixConst = v, true
		} else {
			prefixConst = false
		}
	}
	for _, a := range args {
		if a == nil {
			return nil, false, false, nil, false
		}
		t := f.Info.TypeOf(a)
		if t == nil {
			return nil, false, false, nil, false
		}
		switch {
		case c19isString(t):
			key = a
		case c19isBool(t):
			setBool(a)
		case enumT != nil && types.Identical(t, enumT):
			// an enum-like scope constant: its meaning was learnt from pull
			sawBool = true
			if tv, okv := f.Info.Types[a]; okv && tv.Value != nil && meaning != nil {
				prefix, prefixConst = meaning(tv.Value.ExactString()), true
			} else {
				prefixConst = false
			}
		default:
			if _, isSig := t.Underlying().(*types.Signature); isSig {
				cb = a
				continue
			}
			ut := t
			if p, isPtr := ut.Underlying().(*types.Pointer); isPtr {
				ut = p.Elem()
			}
			stt, isStruct := ut.Underlying().(*types.Struct)
			if !isStruct {
				continue
			}
			x := ast.Unparen(a)
			if u, isAddr := x.(*ast.UnaryExpr); isAddr {
				x = ast.Unparen(u.X)
			}
			cl, isLit := x.(*ast.CompositeLit)
			if !isLit {
				return nil, false, false, nil, false
			}
			hasBoolField := false
			for i := 0; i < stt.NumFields(); i++ {
				if c19isBool(stt.Field(i).Type()) {
					hasBoolField = true
				}
			}
			for i, el := range cl.Elts {
				var fld *types.Var
				val := el
				if kv, isKV := el.(*ast.KeyValueExpr); isKV {
					if k, isID := kv.Key.(*ast.Ident); isID {
						fld, _ = f.Info.Uses[k].(*types.Var)
					}
					val = kv.Value
				} else if i < stt.NumFields() {
					fld = stt.Field(i)
				}
				if fld == nil {
					continue
				}
				switch {
				case c19isString(fld.Type()):
					key = val
				case c19isBool(fld.Type()):
					setBool(val)
				}
			}
			if hasBoolField && !sawBool {
				sawBool, prefix, prefixConst = true, false, true // zero value
			}
		}
	}
	return key, prefix, prefixConst && sawBool, cb, ok && sawBool
}

func c19Adapter(c *core.Ctx, r *c19run, pkg *packages.Package, fd *ast.FuncDecl, f *flow.Func, ls []c19launch) {
	cons := declName(pkg, fd)
	if len(ls) != 1 {
		c.Undecide("R-C19-5", cons+"|run", pos(c, ls[1].at), "run is started more than once by an adapter")
		return
	}
	run := ls[0].at
	// the adapter's key parameter
	var keyP *types.Var
	for _, v := range c19params(f, f.Type) {
		if c19isString(v.Type()) {
			if keyP != nil {
				c.Undecide("R-C19-5", cons+"|run", pos(c, fd), "adapter with more than one string parameter")
				return
			}
			keyP = v
		}
	}
	// the returned channel
	var chObj types.Object
	okCh := true
	c19inspect(fd.Body, func(n ast.Node) bool {
		if rs, ok := n.(*ast.ReturnStmt); ok && len(rs.Results) >= 1 {
			o := c19obj(f, rs.Results[0])
			if o == nil || (chObj != nil && chObj != o) {
				if tv, ok := f.Info.Types[rs.Results[0]]; !ok || !tv.IsNil() {
					okCh = false
				}
			} else {
				chObj = o
			}
		}
		return true
	})
	var enumT types.Type
	var meaning func(string) bool
	if r.prefEnum {
		enumT = r.prefObj.Type()
		if r.prefKnown {
			meaning = func(v string) bool { return (v == r.prefVal) == r.prefIs }
		}
	}
	keyExpr, prefixVal, prefixConst, cbExpr, okT := c19target(f, ls[0].args, enumT, meaning)
	if keyP == nil || chObj == nil || !okCh || !okT || keyExpr == nil || cbExpr == nil {
		c.Undecide("R-C19-5", cons+"|run", pos(c, fd), "cannot identify the adapter's key parameter / returned channel / what run is started on")
		return
	}
	cht, ok := chObj.Type().Underlying().(*types.Chan)
	if !ok {
		c.Undecide("R-C19-5", cons+"|run", pos(c, fd), "the first result is not a channel variable")
		return
	}
	_, isMap := cht.Elem().Underlying().(*types.Map)

	c.Check(c19obj(f, keyExpr) == types.Object(keyP), "R-C19-5", cons+"|runs on the adapter's key", pos(c, run),
		"run's key argument is the adapter's own parameter",
		"run is started on something else than the key/prefix the caller asked for: the channel delivers the content of another key")
	if !prefixConst {
		c.Undecide("R-C19-5", cons+"|prefix flag matches the channel type", pos(c, run), "run's prefix argument is not a constant (or the meaning of its enum constant could not be learnt from pull)")
	} else {
		pv := prefixVal
		why := "a single-value channel is fed by a prefix syncer: every change of any key under the prefix re-delivers the unchanged value (consecutive snapshots equal)"
		if isMap {
			why = "a map channel (all keys under a prefix) is fed by a single-key syncer: only the key equal to the prefix itself is read; puts and deletes under the prefix are never delivered"
		}
		c.Check(pv == isMap, "R-C19-5", cons+"|prefix flag matches the channel type", pos(c, run),
			sprintf("prefix=%v for a channel of %s", pv, types.TypeString(cht.Elem(), types.RelativeTo(pkg.Types))), why)
	}
	// the callback
	var lit *ast.FuncLit
	switch a := ast.Unparen(cbExpr).(type) {
	case *ast.FuncLit:
		lit = a
	case *ast.Ident:
		o := c19obj(f, a)
		nAssign := 0
		ast.Inspect(fd.Body, func(n ast.Node) bool {
			if as, ok := n.(*ast.AssignStmt); ok {
				for i, l := range as.Lhs {
					if c19obj(f, l) == o && o != nil {
						nAssign++
						if len(as.Lhs) == len(as.Rhs) {
							lit, _ = ast.Unparen(as.Rhs[i]).(*ast.FuncLit)
						}
					}
				}
			}
			return true
		})
		if nAssign != 1 {
			lit = nil
		}
	}
	if lit == nil {
		c.Undecide("R-C19-5", cons+"|callback", pos(c, run), "run's callback is not a function literal (or a variable assigned one exactly once)")
		return
	}
	lf := f.Lit(lit)
	lps := c19params(lf, lit.Type)
	if len(lps) != 1 {
		c.Undecide("R-C19-5", cons+"|callback", pos(c, lit), "callback does not take exactly one snapshot")
		return
	}
	dataP := lps[0]
	isData := func(e ast.Expr) bool { return c19obj(lf, e) == types.Object(dataP) }

	// sends on the returned channel
	var sends []*ast.SendStmt
	c19inspect(lit, func(n ast.Node) bool {
		if s, ok := n.(*ast.SendStmt); ok && c19obj(lf, s.Chan) == chObj {
			sends = append(sends, s)
		}
		return true
	})
	if len(sends) == 0 {
		c.Violate("R-C19-5", cons+"|exactly one send per snapshot", pos(c, lit),
			"the callback never sends on the channel returned to the caller: no snapshot reaches the consumer")
		return
	}
	// A send that is the communication of a select case happens only if that case is chosen
	// (go/cfg evaluates all communications of a select before branching, so the statement
	// node alone does not mean the value was sent).
	lpm := parentMap(lit)
	commSend := map[ast.Stmt]bool{}  // comm clauses whose communication sends on the returned channel
	commClose := map[ast.Stmt]bool{} // comm clauses receiving from a channel field of the syncer (Close)
	chanFields := r.doneFields()
	inSelect := map[*ast.SendStmt]bool{}
	for _, s := range sends {
		if cc, ok := lpm[s].(*ast.CommClause); ok && cc.Comm == s {
			commSend[cc] = true
			inSelect[s] = true
		}
	}
	c19inspect(lit, func(n ast.Node) bool {
		cc, ok := n.(*ast.CommClause)
		if !ok || cc.Comm == nil {
			return true
		}
		if sel, ok := c19resolveLocal(f, c19recvFrom(cc.Comm)).(*ast.SelectorExpr); ok {
			if sl := lf.Info.Selections[sel]; sl != nil {
				for _, fld := range chanFields {
					if sl.Obj() == fld {
						commClose[cc] = true
					}
				}
			}
		}
		return true
	})
	markSent := func(st *flow.State) {
		if st.Is(c19evChSent, flow.True) {
			st.Set(c19evChSent2, flow.True)
		}
		st.Set(c19evChSent, flow.True)
	}
	res := analyze(c, lf, flow.Config{NoHavoc: true,
		OnNode: func(st *flow.State, n ast.Node) {
			if s, ok := n.(*ast.SendStmt); ok && c19obj(lf, s.Chan) == chObj && !inSelect[s] {
				markSent(st)
			}
		},
		OnBlock: func(st *flow.State, b *cfg.Block) {
			if b.Kind == cfg.KindSelectCaseBody {
				if commSend[b.Stmt] {
					markSent(st)
				}
				if commClose[b.Stmt] {
					st.Set(c19evClosed, flow.True)
				}
			}
		}})
	if res == nil {
		return
	}
	// exactly one send on every path
	var none, twice *flow.State
	exits := 0
	for _, ex := range res.Exits {
		if ex.Kind != flow.ExitReturn || c19phantom(ex) {
			continue
		}
		exits++
		if !ex.State.Is(c19evChSent, flow.True) && !ex.State.Is(c19evClosed, flow.True) {
			none = ex.State
		}
		if ex.State.Is(c19evChSent2, flow.True) {
			twice = ex.State
		}
	}
	c.RequireCount("R-C19-5", "exits of the callback of "+cons, exits, 1)
	why, bad := "", (*flow.State)(nil)
	switch {
	case none != nil:
		why, bad = "a path through the callback returns without having sent the snapshot (no send on the path, or a select whose default / timeout / other alternative gives the snapshot up when the consumer is slow): run has already recorded the snapshot as `last`, so every later pull compares equal and the consumer never receives that content — no convergence to the final state. Only a case receiving from the syncer's own done channel (Close) may abandon a snapshot", none
	case twice != nil:
		why, bad = "a path through the callback sends twice for one snapshot: the consumer receives equal consecutive snapshots", twice
	}
	c.Check(bad == nil, "R-C19-5", cons+"|exactly one send per snapshot", pos(c, lit),
		sprintf("%d exit(s) of the callback, each after exactly one unconditional send on the returned channel (or after the syncer was closed)", exits), why, witness(bad)...)

	if !isMap {
		c19SingleKey(c, cons, lf, lit, keyP, isData, sends, res)
		return
	}

	// ---- map adapters: what is sent is the snapshot itself, a map variable filled by the
	// callback, or the result of a same-package converter applied to the snapshot
	var handover []ast.Node
	for _, s := range sends {
		handover = append(handover, s)
	}
	v0 := ast.Unparen(sends[0].Value)
	if call, isCall := v0.(*ast.CallExpr); isCall && len(sends) == 1 {
		fo, _ := lf.Callee(call).(*types.Func)
		var hfd *ast.FuncDecl
		if fo != nil && fo.Pkg() == pkg.Types {
			hfd = declOf(pkg, fo)
		}
		idx := -1
		for i, a := range call.Args {
			if isData(a) {
				idx = i
			}
		}
		if hfd == nil || idx < 0 {
			c.Undecide("R-C19-5", cons+"|callback", pos(c, sends[0]), "the value sent is a call that is not a same-package converter of the snapshot")
			return
		}
		h := flow.NewFunc(pkg, hfd)
		hps := c19params(h, hfd.Type)
		if len(hps) != len(call.Args) {
			c.Undecide("R-C19-5", cons+"|callback", pos(c, sends[0]), "cannot bind the converter's parameters")
			return
		}
		var mObj types.Object
		var rets []ast.Node
		okRet := true
		c19inspect(hfd.Body, func(n ast.Node) bool {
			if rs, ok := n.(*ast.ReturnStmt); ok {
				rets = append(rets, rs)
				if len(rs.Results) != 1 {
					okRet = false
					return true
				}
				o := c19obj(h, rs.Results[0])
				if o == nil || (mObj != nil && mObj != o) {
					okRet = false
				}
				mObj = o
			}
			return true
		})
		if !okRet || mObj == nil {
			c.Undecide("R-C19-5", cons+"|callback", pos(c, hfd), "the converter does not return a single map variable")
			return
		}
		c.Count("functions_analysed", 1)
		c19CopyChecks(c, r, cons, h, hfd.Body, hps[idx], mObj, rets, sends[0])
		return
	}
	var mObj types.Object
	for _, s := range sends {
		o := c19obj(lf, s.Value)
		if o == nil || (mObj != nil && mObj != o) {
			c.Undecide("R-C19-5", cons+"|callback", pos(c, s), "the value sent is not a single map variable")
			return
		}
		mObj = o
	}
	c19CopyChecks(c, r, cons, lf, lit, dataP, mObj, handover, sends[0])
}

// c19CopyChecks: function g (root = its literal or body) turns the snapshot dataObj into the map
// mObj that is handed over (sent / returned) at the handover statements: a fresh map, every key
// copied with the snapshot's value, handed over after the copy is complete — or the snapshot
// itself, provided run never writes into a snapshot map.
func c19CopyChecks(c *core.Ctx, r *c19run, cons string, g *flow.Func, root ast.Node, dataObj, mObj types.Object, handover []ast.Node, at ast.Node) {
	isData := func(e ast.Expr) bool { return c19obj(g, e) == dataObj }
	if dataObj == mObj {
		mut := c19runMutates(r)
		c.Check(mut == nil, "R-C19-5", cons+"|delivered map is not mutated afterwards", pos(c, at),
			"the snapshot map itself is sent, and run never writes into a snapshot map in place (it replaces it)",
			"the snapshot map itself is handed to the consumer and run writes into snapshot maps in place ("+pos(c, mut)+"): a delivered snapshot changes under the consumer's hands")
		return
	}
	var L *ast.RangeStmt
	nLoops := 0
	c19inspect(root, func(n ast.Node) bool {
		if rs, ok := n.(*ast.RangeStmt); ok && isData(rs.X) {
			L = rs
			nLoops++
		}
		return true
	})
	if nLoops != 1 {
		c.Violate("R-C19-5", cons+"|every key of the snapshot is copied", pos(c, root),
			"a map is delivered that is not filled in a loop over the snapshot: the delivered map is not the store's content")
		return
	}
	isStore := func(n ast.Node) bool {
		as, ok := n.(*ast.AssignStmt)
		if !ok {
			return false
		}
		for _, l := range as.Lhs {
			if ix, ok := ast.Unparen(l).(*ast.IndexExpr); ok && c19obj(g, ix.X) == mObj && c19obj(g, ix.Index) != nil && c19obj(g, ix.Index) == c19obj(g, L.Key) {
				return true
			}
		}
		return false
	}
	var badSkip *flow.State
	iters := 0
	res := analyze(c, g, flow.Config{NoHavoc: true,
		OnNode: func(st *flow.State, n ast.Node) {
			if isStore(n) {
				st.Set(c19evStored, flow.True)
			}
		},
		OnBlock: func(st *flow.State, b *cfg.Block) {
			if b.Stmt != L {
				return
			}
			switch b.Kind {
			case cfg.KindRangeBody:
				st.Set(c19evBody, flow.True)
				st.Set(c19evStored, flow.False)
			case cfg.KindRangeLoop:
				if st.Is(c19evBody, flow.True) {
					iters++
					if !st.Is(c19evStored, flow.True) && badSkip == nil {
						badSkip = st
					}
				}
				st.Set(c19evBody, flow.Unknown)
				st.Set(c19evStored, flow.Unknown)
			case cfg.KindRangeDone:
				st.Set(c19evDone, flow.True)
			}
		}})
	if res == nil {
		return
	}
	// fresh map
	fresh := false
	c19inspect(root, func(n ast.Node) bool {
		if as, ok := n.(*ast.AssignStmt); ok && len(as.Lhs) == len(as.Rhs) {
			for i, l := range as.Lhs {
				if c19obj(g, l) == mObj {
					if call, ok := ast.Unparen(as.Rhs[i]).(*ast.CallExpr); ok {
						if b, ok := g.Callee(call).(*types.Builtin); ok && b.Name() == "make" {
							fresh = true
						}
					}
					if _, ok := ast.Unparen(as.Rhs[i]).(*ast.CompositeLit); ok {
						fresh = true
					}
				}
			}
		}
		return true
	})
	c.Check(fresh, "R-C19-5", cons+"|delivered map is not mutated afterwards", pos(c, at),
		"the map sent is created for this snapshot (in the callback or its converter)",
		"the map sent is not created per snapshot: a map shared between deliveries is overwritten while the consumer still reads the previous snapshot")
	// every key copied, value from the snapshot
	var body *ast.BlockStmt
	switch t := root.(type) {
	case *ast.FuncLit:
		body = t.Body
	case *ast.BlockStmt:
		body = t
	}
	if c.RequireCount("R-C19-5", "abstract iterations of the copy loop of "+cons, iters, 1) {
		ok := badSkip == nil && len(breaksOut(g, L, labelOf(body, L))) == 0
		c.Check(ok, "R-C19-5", cons+"|every key of the snapshot is copied", pos(c, L),
			sprintf("%d abstract iteration end(s), each after m[key] was stored; the loop has no early exit", iters),
			"an entry of the snapshot is skipped (or the loop left early) while the map is copied: the delivered map is not the content the store had", witness(badSkip)...)
	}
	valOK := true
	var badStore ast.Node
	vObj := c19obj(g, L.Value)
	// derived: the expression is computed from the snapshot's entry for the loop's key — the
	// loop's value variable, data[key], or a local of the loop body assigned from those
	fromEntry := map[types.Object]bool{}
	if vObj != nil {
		fromEntry[vObj] = true
	}
	derived := func(e ast.Expr) bool {
		uses := false
		ast.Inspect(e, func(x ast.Node) bool {
			switch t := x.(type) {
			case *ast.Ident:
				if o := g.Info.Uses[t]; o != nil && fromEntry[o] {
					uses = true
				}
			case *ast.IndexExpr: // data[k] with k the loop's key
				if isData(t.X) && c19obj(g, t.Index) != nil && c19obj(g, t.Index) == c19obj(g, L.Key) {
					uses = true
				}
			}
			return true
		})
		return uses
	}
	for changed := true; changed; {
		changed = false
		c19inspect(L.Body, func(n ast.Node) bool {
			as, ok := n.(*ast.AssignStmt)
			if !ok || len(as.Lhs) != len(as.Rhs) {
				return true
			}
			for i, l := range as.Lhs {
				if o := c19obj(g, l); o != nil && !fromEntry[o] && derived(as.Rhs[i]) {
					if _, isIdx := ast.Unparen(l).(*ast.IndexExpr); !isIdx {
						fromEntry[o] = true
						changed = true
					}
				}
			}
			return true
		})
	}
	c19inspect(L.Body, func(n ast.Node) bool {
		if !isStore(n) {
			return true
		}
		as := n.(*ast.AssignStmt)
		if len(as.Lhs) != len(as.Rhs) {
			valOK, badStore = false, n
			return true
		}
		for i, l := range as.Lhs {
			if _, ok := ast.Unparen(l).(*ast.IndexExpr); !ok {
				continue
			}
			if !derived(as.Rhs[i]) {
				valOK, badStore = false, n
			}
		}
		return true
	})
	c.Check(valOK, "R-C19-5", cons+"|copied value is the snapshot's value", pos(c, L),
		"the value stored under each key is computed from the snapshot's entry for that key (the loop's value variable or data[key])",
		"the value stored under a key is not derived from the snapshot's entry for that key ("+pos(c, badStore)+")")
	// handed over after the loop
	var early *flow.State
	for _, s := range handover {
		for _, st := range res.At[s] {
			if !st.Is(c19evDone, flow.True) || st.Is(c19evBody, flow.True) {
				early = st
			}
		}
	}
	c.Check(early == nil, "R-C19-5", cons+"|send after the copy is complete", pos(c, at),
		"the map is sent / returned only after the copy loop was exhausted",
		"the map is sent before all keys have been copied: the consumer receives a partial content", witness(early)...)
}

// c19SingleKey: the callback of a single-key adapter looks the snapshot up under the
// adapter's key, sends nil only when that entry is nil, and otherwise something derived
// from the entry.
func c19SingleKey(c *core.Ctx, cons string, lf *flow.Func, lit *ast.FuncLit, keyP *types.Var,
	isData func(ast.Expr) bool, sends []*ast.SendStmt, res *flow.Result) {
	var lookups []*ast.IndexExpr
	badKey := false
	c19inspect(lit, func(n ast.Node) bool {
		if ix, ok := n.(*ast.IndexExpr); ok && isData(ix.X) {
			lookups = append(lookups, ix)
			if c19obj(lf, ix.Index) != types.Object(keyP) {
				badKey = true
			}
		}
		return true
	})
	if len(lookups) == 0 {
		c.Violate("R-C19-5", cons+"|looks up the adapter's key", pos(c, lit), "the callback never reads the snapshot: what it sends is not the store's value")
		return
	}
	c.Check(!badKey, "R-C19-5", cons+"|looks up the adapter's key", pos(c, lookups[0]),
		sprintf("%d lookup(s) of the snapshot, all under the adapter's key parameter", len(lookups)),
		"the snapshot is looked up under another key than the one run pulls: the lookup misses and the consumer is told the key does not exist")
	// the entry: the lookup itself or variables assigned from it
	entry := map[types.Object]ast.Expr{} // var → its declaring lhs expr
	isLookup := func(e ast.Expr) bool {
		ix, ok := ast.Unparen(e).(*ast.IndexExpr)
		return ok && isData(ix.X)
	}
	c19inspect(lit, func(n ast.Node) bool {
		if as, ok := n.(*ast.AssignStmt); ok && len(as.Rhs) == 1 && isLookup(as.Rhs[0]) {
			if o := c19obj(lf, as.Lhs[0]); o != nil {
				entry[o] = as.Lhs[0]
			}
		}
		return true
	})
	// taint: variables derived from an entry
	tainted := map[types.Object]bool{}
	for o := range entry {
		tainted[o] = true
	}
	mentions := func(e ast.Expr) bool {
		hit := false
		ast.Inspect(e, func(x ast.Node) bool {
			switch t := x.(type) {
			case *ast.Ident:
				if o := lf.Info.Uses[t]; o != nil && tainted[o] {
					hit = true
				}
			case *ast.IndexExpr:
				if isData(t.X) {
					hit = true
				}
			}
			return true
		})
		return hit
	}
	for changed := true; changed; {
		changed = false
		c19inspect(lit, func(n ast.Node) bool {
			as, ok := n.(*ast.AssignStmt)
			if !ok || len(as.Lhs) != len(as.Rhs) {
				return true
			}
			for i, l := range as.Lhs {
				if o := c19obj(lf, l); o != nil && !tainted[o] && mentions(as.Rhs[i]) {
					tainted[o] = true
					changed = true
				}
			}
			return true
		})
	}
	for i, s := range sends {
		role := cons + "|value sent is the entry under the key"
		if len(sends) > 1 {
			role = sprintf("%s (send#%d)", role, i+1)
		}
		if tv, ok := lf.Info.Types[s.Value]; ok && tv.IsNil() {
			// nil literal: only when the entry is known to be nil
			var bad *flow.State
			for _, st := range res.At[s] {
				known := false
				for _, lhs := range entry {
					if st.Is(lf.NilKey(lhs), flow.True) {
						known = true
					}
				}
				for _, ix := range lookups {
					if st.Is(lf.NilKey(ix), flow.True) {
						known = true
					}
				}
				if !known {
					bad = st
				}
			}
			c.Check(bad == nil && len(res.At[s]) > 0, "R-C19-5", role, pos(c, s),
				"nil is sent only on paths where the entry under the key is nil (key absent)",
				"nil ('key does not exist') is sent on a path where the key may exist in the snapshot: the consumer sees a deletion that never happened", witness(bad)...)
			continue
		}
		// a same-package converter applied to the entry: nil / derived-from-entry is decided inside it
		if call, ok := ast.Unparen(s.Value).(*ast.CallExpr); ok {
			if fo, ok := lf.Callee(call).(*types.Func); ok && fo.Pkg() == lf.Pkg.Types {
				if hfd := declOf(lf.Pkg, fo); hfd != nil {
					idx := -1
					for j, a := range call.Args {
						if mentions(a) {
							idx = j
						}
					}
					hps := c19params(lf, hfd.Type)
					if idx >= 0 && len(hps) == len(call.Args) {
						c19EntryConverter(c, role, flow.NewFunc(lf.Pkg, hfd), hfd, hps[idx], s)
						continue
					}
				}
			}
		}
		c.Check(mentions(s.Value), "R-C19-5", role, pos(c, s),
			"the value sent is derived from the snapshot's entry under the key",
			"the value sent is not derived from the snapshot's entry under the key: the consumer does not receive the store's value")
	}
}

// c19EntryConverter: a same-package function turns the entry under the key (parameter p) into
// the value that is sent: it returns nil only where p is known nil and otherwise something
// derived from p.
func c19EntryConverter(c *core.Ctx, role string, h *flow.Func, hfd *ast.FuncDecl, p *types.Var, at ast.Node) {
	c.Count("functions_analysed", 1)
	pKey := h.NilKey(c19defIdent(h, hfd.Type, p))
	tainted := map[types.Object]bool{p: true}
	mentions := func(e ast.Expr) bool {
		hit := false
		ast.Inspect(e, func(x ast.Node) bool {
			if id, ok := x.(*ast.Ident); ok {
				if o := h.Info.Uses[id]; o != nil && tainted[o] {
					hit = true
				}
			}
			return true
		})
		return hit
	}
	for changed := true; changed; {
		changed = false
		c19inspect(hfd.Body, func(n ast.Node) bool {
			as, ok := n.(*ast.AssignStmt)
			if !ok || len(as.Lhs) != len(as.Rhs) {
				return true
			}
			for i, l := range as.Lhs {
				if o := c19obj(h, l); o != nil && !tainted[o] && mentions(as.Rhs[i]) {
					tainted[o] = true
					changed = true
				}
			}
			return true
		})
	}
	res := analyze(c, h, flow.Config{NoHavoc: true})
	if res == nil {
		return
	}
	var badNil *flow.State
	var badVal ast.Node
	n := 0
	c19inspect(hfd.Body, func(x ast.Node) bool {
		rs, ok := x.(*ast.ReturnStmt)
		if !ok {
			return true
		}
		n++
		if len(rs.Results) != 1 {
			badVal = rs
			return true
		}
		if tv, ok := h.Info.Types[rs.Results[0]]; ok && tv.IsNil() {
			for _, st := range res.At[rs] {
				if !st.Is(pKey, flow.True) {
					badNil = st
				}
			}
			return true
		}
		if !mentions(rs.Results[0]) {
			badVal = rs
		}
		return true
	})
	switch {
	case n == 0 || badVal != nil:
		c.Violate("R-C19-5", role, pos(c, at), "the converter applied to the entry under the key returns something that is not derived from that entry ("+pos(c, badVal)+"): the consumer does not receive the store's value")
	case badNil != nil:
		c.Violate("R-C19-5", role, pos(c, at), "nil ('key does not exist') is returned by the converter on a path where the key may exist in the snapshot: the consumer sees a deletion that never happened", witness(badNil)...)
	default:
		c.Discharge("R-C19-5", role, pos(c, at), sprintf("converter %s: %d return(s), nil only where the entry is nil, otherwise derived from the entry", h.Name, n))
	}
}
