package rules

// R-C20-6 — event maps and bookkeeping maps are never aliased.
//
// ObjectRegistry.entities and ObjectEntityWatcher.entities are rewritten by every applyConfig;
// the Delete/Create/Update maps of an ObjectEntityWatcherEvent sit in a channel until the owner
// handles them. If one map object plays both roles, a snapshot applied before the event is
// consumed rewrites the queued class: a name is announced created twice (double Init), or is
// initialised with the newer spec and then inherits from itself. Shape decided for every store of a
// whole map into one of the five fields (assignment or composite-literal key, whole module):
//   - the value is a fresh map (make / map literal / nil / a call of a module function whose returns
//     are all fresh), or a local whose definitions are all fresh and which is not stored into a
//     field of the other class;
//   - a bookkeeping field is never the source (its value is only indexed, ranged, len()'d,
//     delete()'d, compared with nil or overwritten — it does not escape);
//   - an event field's map is never stored into another struct field or package variable.
//
// R-C20-7 — every snapshot received from the config syncer reaches applyConfig.
//
// The only reconciliation trigger is the value received from ObjectRegistry.configSyncChan; a
// content-dependent skip between the receive and applyConfig loses exactly the snapshots it matches
// (the empty snapshot after the last object was removed: nothing is ever closed). Decided
// path-sensitively in the receiving function: from the receive to the next loop iteration / return,
// applyConfig is called unless the channel is known closed (comma-ok false, or the received map
// nil); and the applied map is the received one or a fresh map filled unconditionally from every
// entry of it.
//
// Tried (script /tmp/vw/C20/out/mutants7.py): round-3 a (watcher.entities = firstEvent.Create),
// A1 firstEvent.Create = watcher.entities, A2 one local map stored in both, A3 Entities() returns
// w.entities itself, A4 event literal built with Create: watcher.entities in applyConfig,
// A5 watcher.entities: or.entities → R-C20-6; round-3 b (len(kv)==0 → continue), S1 `if len(config)
// > 0 { apply }`, S2 return when len(kv) == len(or.entities), S3 copy loop skips empty values,
// S4 applyConfig on a fresh empty map → R-C20-7. Preserving (silent): B1 view built in a local then
// stored, B2h watcher.entities filled by a helper returning a fresh copy, B3 comma-ok receive with
// `if !ok { return }`, B4 `if snapshot == nil { return }` with renamed locals and inlined TrimPrefix.
// Known false alarm (contrived): taking the map out of a freshly constructed, never sent event
// (`newObjectEntityWatcherEvent().Create`) is judged as an event's map.

import (
	"go/ast"
	"go/token"
	"go/types"

	"golang.org/x/tools/go/cfg"
	"golang.org/x/tools/go/packages"

	"verif/internal/core"
	"verif/internal/flow"
)

// c20FuncDeclOf finds the declaration of a module function.
func c20FuncDeclOf(c *core.Ctx, fnObj *types.Func) (*packages.Package, *ast.FuncDecl) {
	if fnObj == nil || fnObj.Pkg() == nil {
		return nil, nil
	}
	for _, pkg := range c.Prog.Module {
		if pkg.Types != fnObj.Pkg() {
			continue
		}
		for _, file := range pkg.Syntax {
			for _, d := range file.Decls {
				if fd, ok := d.(*ast.FuncDecl); ok && fd.Body != nil && pkg.TypesInfo.Defs[fd.Name] == types.Object(fnObj) {
					return pkg, fd
				}
			}
		}
	}
	return nil, nil
}

type c20MapOrigin struct {
	kind  string     // fresh | local | book | event | other
	local *types.Var // for kind local (all definitions fresh)
	field *types.Var // for book / event
}

func c20Aliasing(c *core.Ctx) {
	c.Rule("R-C20-6", "event maps and bookkeeping maps are never aliased: every whole-map store into ObjectRegistry.entities, ObjectEntityWatcher.entities or an ObjectEntityWatcherEvent's Delete/Create/Update takes a fresh map (make/literal/nil/fresh-returning function, or a local with only fresh definitions that is not stored into the other class); bookkeeping maps do not escape (only indexed, ranged, len, delete, nil test, overwritten); an event's map is never stored into a longer-lived field")
	book := map[*types.Var]string{}
	event := map[*types.Var]string{}
	for _, fl := range [][2]string{{"ObjectRegistry", "entities"}, {"ObjectEntityWatcher", "entities"}} {
		if v := c20EntitiesField(c, fl[0]); v != nil {
			book[v] = fl[0] + "." + v.Name()
		}
	}
	for _, n := range []string{"Delete", "Create", "Update"} {
		if v := structField(c, c20sv, "ObjectEntityWatcherEvent", n); v != nil {
			event[v] = "ObjectEntityWatcherEvent." + n
		}
	}
	if len(book) != 2 || len(event) != 3 {
		return
	}
	bookStores, eventStores := 0, 0
	eachFunc(c, func(pkg *packages.Package, fd *ast.FuncDecl) {
		f := flow.NewFunc(pkg, fd)
		// quick reject: does the function mention any of the fields?
		touches := false
		ast.Inspect(fd.Body, func(n ast.Node) bool {
			switch x := n.(type) {
			case *ast.SelectorExpr:
				if v := c20FieldOf(f, x); v != nil && (book[v] != "" || event[v] != "") {
					touches = true
				}
			case *ast.KeyValueExpr:
				if id, ok := x.Key.(*ast.Ident); ok {
					if v, ok := f.Info.Uses[id].(*types.Var); ok && (book[v] != "" || event[v] != "") {
						touches = true
					}
				}
			}
			return !touches
		})
		if !touches {
			return
		}
		cons := declName(pkg, fd)
		var classify func(e ast.Expr, depth int) c20MapOrigin
		classify = func(e ast.Expr, depth int) c20MapOrigin {
			e = ast.Unparen(e)
			if e == nil || depth > 3 {
				return c20MapOrigin{kind: "other"}
			}
			if f.Info.Types[e].IsNil() {
				return c20MapOrigin{kind: "fresh"}
			}
			switch x := e.(type) {
			case *ast.CompositeLit:
				return c20MapOrigin{kind: "fresh"}
			case *ast.CallExpr:
				switch o := f.Callee(x).(type) {
				case *types.Builtin:
					if o.Name() == "make" {
						return c20MapOrigin{kind: "fresh"}
					}
				case *types.Func:
					if p2, fd2 := c20FuncDeclOf(c, o); fd2 != nil && depth == 0 {
						g := flow.NewFunc(p2, fd2)
						all, n := true, 0
						c20SkipLits(fd2.Body, func(m ast.Node) bool {
							if r, ok := m.(*ast.ReturnStmt); ok && len(r.Results) >= 1 {
								n++
								if !c20FreshIn(g, fd2, r.Results[0], 0) {
									all = false
								}
							}
							return true
						})
						if all && n > 0 {
							return c20MapOrigin{kind: "fresh"}
						}
					}
				}
			case *ast.SelectorExpr:
				if v := c20FieldOf(f, x); v != nil {
					if book[v] != "" {
						return c20MapOrigin{kind: "book", field: v}
					}
					if event[v] != "" {
						return c20MapOrigin{kind: "event", field: v}
					}
				}
			case *ast.Ident:
				v := c20Var(f, x)
				if v == nil || !c20IsLocalVar(v) {
					break
				}
				defs := c20Defs(f, fd, v)
				if len(defs) == 0 {
					break
				}
				var k c20MapOrigin
				for i, d := range defs {
					if d.rhs == nil {
						return c20MapOrigin{kind: "other"}
					}
					o := classify(d.rhs, depth+1)
					if o.kind == "local" {
						o.kind = "fresh"
					}
					if i > 0 && (o.kind != k.kind || o.field != k.field) {
						return c20MapOrigin{kind: "other"}
					}
					k = o
				}
				if k.kind == "fresh" {
					return c20MapOrigin{kind: "local", local: v}
				}
				return k
			}
			return c20MapOrigin{kind: "other"}
		}

		type store struct {
			field *types.Var
			val   ast.Expr
			at    ast.Node
		}
		var stores []store
		pm := parentMap(fd)
		var fEsc c20Finding
		ast.Inspect(fd.Body, func(n ast.Node) bool {
			switch x := n.(type) {
			case *ast.AssignStmt:
				for i, l := range x.Lhs {
					v := c20FieldOf(f, l)
					if v == nil || (book[v] == "" && event[v] == "") {
						continue
					}
					var rhs ast.Expr
					if len(x.Lhs) == len(x.Rhs) {
						rhs = x.Rhs[i]
					}
					stores = append(stores, store{v, rhs, x})
				}
				// an event's map stored into some other field / package variable
				if len(x.Lhs) == len(x.Rhs) {
					for i, r := range x.Rhs {
						if v := c20FieldOf(f, r); v != nil && event[v] != "" {
							lf := c20FieldOf(f, x.Lhs[i])
							gv := c20Var(f, x.Lhs[i])
							global := gv != nil && !gv.IsField() && gv.Pkg() != nil && gv.Parent() == gv.Pkg().Scope()
							if (lf != nil && book[lf] == "" && event[lf] == "") || global {
								fEsc.fail(nil, x, "the "+event[v]+" map of an event is stored into a longer-lived field/variable: the holder and the still-queued event share one map")
							}
						}
					}
				}
			case *ast.KeyValueExpr:
				if id, ok := x.Key.(*ast.Ident); ok {
					if v, ok := f.Info.Uses[id].(*types.Var); ok && (book[v] != "" || event[v] != "") {
						stores = append(stores, store{v, x.Value, x})
					}
				}
			case *ast.SelectorExpr:
				v := c20FieldOf(f, x)
				if v == nil || book[v] == "" {
					return true
				}
				// allowed uses of a bookkeeping map
				ok := c20MapUseOK(f, fd, pm, x, 0)
				if !ok {
					fEsc.n++
					fEsc.fail(nil, x, "the bookkeeping map "+book[v]+" is handed out (returned, passed on, copied into another variable/field/event) instead of being copied: whoever holds it sees — or races with — every later applyConfig (a queued event is rewritten: double Init / Inherit from itself; a caller ranging over it crashes with concurrent map iteration and write)")
				} else {
					fEsc.n++
				}
			}
			return true
		})
		// judge the stores
		localIn := map[*types.Var]map[string]ast.Node{}
		var fBook, fEvent c20Finding
		for _, s := range stores {
			isBook := book[s.field] != ""
			fd := &fEvent
			name := event[s.field]
			if isBook {
				fd, name = &fBook, book[s.field]
				bookStores++
			} else {
				eventStores++
			}
			fd.n++
			if s.val == nil {
				c.Undecide("R-C20-6", cons+"|"+name+" holds a map of its own", pos(c, s.at), "multi-value assignment to the field")
				continue
			}
			o := classify(s.val, 0)
			switch o.kind {
			case "fresh":
			case "local":
				if localIn[o.local] == nil {
					localIn[o.local] = map[string]ast.Node{}
				}
				cl := "event"
				if isBook {
					cl = "book"
				}
				localIn[o.local][cl] = s.at
			case "book":
				if isBook {
					fd.fail(nil, s.at, name+" is assigned the map held by "+book[o.field]+": two views that applyConfig updates separately share one map (deletions/creations are applied twice or filtered by the wrong watcher)")
				} else {
					fd.fail(nil, s.at, "the event's "+name+" set is the bookkeeping map "+book[o.field]+" itself: a snapshot applied before the owner consumes the event rewrites the queued set (a name is announced created twice → double Init, or initialised with the newer spec and then inherits from itself)")
				}
			case "event":
				if isBook {
					fd.fail(nil, s.at, name+" is assigned the "+event[o.field]+" map of an event instead of a map of its own: a snapshot applied after this point but before the owner consumes the queued event rewrites the event's set through the bookkeeping map (a name is announced created twice → double Init, or initialised with the newer spec and then inherits from itself)")
				} else {
					c.Undecide("R-C20-6", cons+"|"+name+" holds a map of its own", pos(c, s.at), "an event map is copied from another event's map")
				}
			default:
				c.Undecide("R-C20-6", cons+"|"+name+" holds a map of its own", pos(c, s.at), "cannot tell where the assigned map comes from (parameter or unknown call)")
			}
		}
		for v, in := range localIn {
			if in["book"] != nil && in["event"] != nil {
				fBook.fail(nil, in["book"], "the local map "+v.Name()+" is stored both into a bookkeeping field and into an event: the queued event and the bookkeeping share one map, so a later applyConfig rewrites the event before its owner consumed it")
			}
		}
		if fBook.n > 0 {
			fBook.report(c, "R-C20-6", cons+"|bookkeeping maps are maps of their own", fd.Body, sprintf("%d whole-map store(s), all fresh", fBook.n))
		}
		if fEvent.n > 0 {
			fEvent.report(c, "R-C20-6", cons+"|event maps are created for the event", fd.Body, sprintf("%d whole-map store(s), all fresh", fEvent.n))
		}
		if fEsc.n > 0 || fEsc.why != "" {
			fEsc.report(c, "R-C20-6", cons+"|bookkeeping maps do not escape", fd.Body, sprintf("%d use(s): indexed, ranged, len, delete, nil test or overwritten", fEsc.n))
		}
	})
	c.RequireCount("R-C20-6", "whole-map stores into ObjectRegistry.entities / ObjectEntityWatcher.entities", bookStores, 2)
	c.RequireCount("R-C20-6", "whole-map stores into ObjectEntityWatcherEvent.Delete/Create/Update", eventStores, 3)
}

func c20IsLocalVar(v *types.Var) bool {
	return v != nil && !v.IsField() && v.Pkg() != nil && v.Parent() != v.Pkg().Scope()
}

// c20FreshIn: e (inside fd of g) is a fresh map: make / literal / a local whose definitions are all fresh.
func c20FreshIn(g *flow.Func, fd *ast.FuncDecl, e ast.Expr, depth int) bool {
	e = ast.Unparen(e)
	if depth > 3 {
		return false
	}
	switch x := e.(type) {
	case *ast.CompositeLit:
		return true
	case *ast.CallExpr:
		b, ok := g.Callee(x).(*types.Builtin)
		return ok && b.Name() == "make"
	case *ast.Ident:
		v := c20Var(g, x)
		if !c20IsLocalVar(v) {
			return false
		}
		defs := c20Defs(g, fd, v)
		if len(defs) == 0 {
			return false
		}
		for _, d := range defs {
			if d.rhs == nil || !c20FreshIn(g, fd, d.rhs, depth+1) {
				return false
			}
		}
		return true
	}
	return false
}

// ---------------------------------------------------------------------------------------
// R-C20-7

func c20Snapshots(c *core.Ctx) {
	c.Rule("R-C20-7", "every snapshot received from ObjectRegistry.configSyncChan reaches applyConfig: on every path from the receive to the next loop iteration or return applyConfig is called, unless the channel is known closed (comma-ok false / received map nil) — no content-dependent skip; the applied map is the received one or a fresh map filled unconditionally from every entry of it")
	chanF := c20SnapshotChanField(c)
	pkg := c.Prog.Pkg(c20sv)
	if chanF == nil || pkg == nil {
		return
	}
	sites := 0
	for _, file := range pkg.Syntax {
		for _, d := range file.Decls {
			fd, ok := d.(*ast.FuncDecl)
			if !ok || fd.Body == nil {
				continue
			}
			f := flow.NewFunc(pkg, fd)
			var recvs []*ast.UnaryExpr
			ast.Inspect(fd.Body, func(n ast.Node) bool {
				if u, ok := n.(*ast.UnaryExpr); ok && u.Op == token.ARROW && c20FieldVia(f, u.X) == chanF {
					recvs = append(recvs, u)
				}
				return true
			})
			if len(recvs) == 0 {
				continue
			}
			sites += len(recvs)
			c.Count("functions_analysed", 1)
			c20SnapshotFunc(c, f, fd, declName(pkg, fd), recvs)
		}
	}
	c.RequireCount("R-C20-7", "receives from ObjectRegistry.configSyncChan", sites, 1)
}

func c20SnapshotFunc(c *core.Ctx, f *flow.Func, fd *ast.FuncDecl, cons string, recvs []*ast.UnaryExpr) {
	pm := parentMap(fd)
	const applyName = "(*" + c20sv + ".ObjectRegistry).applyConfig"
	type recvInfo struct {
		u     *ast.UnaryExpr
		stmt  ast.Node
		kv    *types.Var
		kvID  *ast.Ident
		okID  *ast.Ident
		loops []ast.Stmt
		// clause is set when the receive is the communication of a select case: go/cfg evaluates
		// all communications at the head of the select, so the receive "happens" when the case
		// body is entered
		clause *ast.CommClause
	}
	var infos []*recvInfo
	var fLost, fData c20Finding
	for _, u := range recvs {
		ri := &recvInfo{u: u}
		p := pm[u]
		for {
			if pe, ok := p.(*ast.ParenExpr); ok {
				p = pm[pe]
				continue
			}
			break
		}
		for q := pm[u]; q != nil; q = pm[q] {
			if _, isLit := q.(*ast.FuncLit); isLit {
				c.Undecide("R-C20-7", cons+"|every received snapshot is applied", pos(c, u), "the receive from configSyncChan sits in a function literal")
				return
			}
		}
		switch s := p.(type) {
		case *ast.AssignStmt:
			ri.stmt = s
			if len(s.Rhs) == 1 && len(s.Lhs) >= 1 {
				ri.kv = c20Var(f, s.Lhs[0])
				ri.kvID, _ = ast.Unparen(s.Lhs[0]).(*ast.Ident)
				if len(s.Lhs) == 2 {
					if id, ok := ast.Unparen(s.Lhs[1]).(*ast.Ident); ok && id.Name != "_" {
						ri.okID = id
					}
				}
			}
		case *ast.ValueSpec:
			ri.stmt = s
			if len(s.Names) >= 1 {
				ri.kv, _ = f.Info.Defs[s.Names[0]].(*types.Var)
				ri.kvID = s.Names[0]
				if len(s.Names) == 2 && s.Names[1].Name != "_" {
					ri.okID = s.Names[1]
				}
			}
		default:
			ri.stmt = p
		}
		ri.loops = enclosingLoops(fd.Body, u)
		if cc, ok := pm[ri.stmt].(*ast.CommClause); ok && cc.Comm == ri.stmt {
			ri.clause = cc
		}
		if ri.kv == nil {
			fLost.fail(nil, u, "a snapshot received from the config syncer is discarded (its value is not bound): the configuration change it carries is never reconciled")
		}
		infos = append(infos, ri)
	}
	infoOf := func(n ast.Node) *recvInfo {
		for _, ri := range infos {
			if ri.stmt == n {
				return ri
			}
		}
		return nil
	}
	const evRecv, evApplied = "ev:received", "ev:applied"
	exempt := func(st *flow.State) bool {
		for _, ri := range infos {
			if ri.okID != nil && st.Is(f.VarKey(ri.okID), flow.False) {
				return true
			}
			if ri.kvID != nil && ri.kv != nil && st.Is(f.NilKey(ri.kvID), flow.True) {
				return true
			}
		}
		return false
	}
	pending := func(st *flow.State, at ast.Node, where string) {
		if !st.Is(evRecv, flow.True) {
			return
		}
		fLost.n++
		if !st.Is(evApplied, flow.True) && !exempt(st) {
			fLost.fail(st, at, "a snapshot received from the config syncer "+where+" without having been handed to applyConfig, on a path that depends on its content (not on the channel being closed): exactly the snapshots matching the condition are lost — e.g. the empty snapshot sent when the last object is removed, after which the removed objects are never closed and stay live")
		}
	}
	isLoop := map[ast.Stmt]bool{}
	for _, ri := range infos {
		for _, l := range ri.loops {
			isLoop[l] = true
		}
	}
	res := analyze(c, f, flow.Config{
		OnBlock: func(st *flow.State, b *cfg.Block) {
			if (b.Kind == cfg.KindForBody || b.Kind == cfg.KindRangeBody) && isLoop[b.Stmt] {
				pending(st, b.Stmt, "is left behind by the next loop iteration")
				st.Set(evRecv, flow.Unknown)
				st.Set(evApplied, flow.Unknown)
			}
			if b.Kind == cfg.KindSelectCaseBody {
				for _, ri := range infos {
					if ri.clause != nil && b.Stmt == ast.Stmt(ri.clause) {
						pending(st, ri.stmt, "is overwritten by the next receive")
						st.Set(evRecv, flow.True)
						st.Set(evApplied, flow.False)
					}
				}
			}
		},
		OnNode: func(st *flow.State, n ast.Node) {
			if ri := infoOf(n); ri != nil && ri.clause == nil {
				pending(st, n, "is overwritten by the next receive")
				st.Set(evRecv, flow.True)
				st.Set(evApplied, flow.False)
			}
		},
		OnCall: func(st *flow.State, call *ast.CallExpr, callee types.Object, deferred bool) {
			if calleeIs(f, call, applyName) {
				st.Set(evApplied, flow.True)
			}
		},
	})
	if res == nil {
		return
	}
	for _, ex := range res.Exits {
		if ex.Kind == flow.ExitReturn {
			pending(ex.State, ex.At, "is dropped by a return")
		}
	}
	if fLost.n == 0 && fLost.why == "" {
		fLost.fail(nil, fd.Body, "no path from the receive to the end of the iteration was explored")
	}
	fLost.report(c, "R-C20-7", cons+"|every received snapshot is applied", fd.Body,
		sprintf("%d abstract paths from the receive to the next iteration/return all call applyConfig (or know the channel closed)", fLost.n))

	// data link: the applied map carries every entry of the received one
	applies := callsTo(f, fd.Body, false, applyName)
	for _, call := range applies {
		fData.n++
		if len(call.Args) != 1 {
			continue
		}
		a := c20Var(f, call.Args[0])
		okData := false
		for _, ri := range infos {
			if ri.kv == nil {
				continue
			}
			if a != nil && a == ri.kv {
				okData = true
				continue
			}
			if a == nil || !c20IsLocalVar(a) {
				continue
			}
			// all definitions of the applied map are fresh, and a loop over the received map
			// stores every entry unconditionally
			fresh := true
			for _, d := range c20Defs(f, fd, a) {
				if d.rhs == nil || !c20FreshIn(f, fd, d.rhs, 0) {
					fresh = false
				}
			}
			if !fresh {
				continue
			}
			ast.Inspect(fd.Body, func(n ast.Node) bool {
				rs, ok := n.(*ast.RangeStmt)
				if !ok || c20Var(f, rs.X) != ri.kv || rs.Value == nil {
					return true
				}
				val := c20Var(f, rs.Value)
				for _, s := range rs.Body.List {
					// anything that can leave the iteration before the store makes it conditional
					leaves := false
					ast.Inspect(s, func(m ast.Node) bool {
						switch m.(type) {
						case *ast.BranchStmt, *ast.ReturnStmt:
							leaves = true
						}
						return true
					})
					if as, ok := s.(*ast.AssignStmt); ok {
						for _, st := range c20IndexStores(as) {
							if c20Var(f, st[0]) == a && st[2] != nil && c20Var(f, st[2]) == val && val != nil {
								okData = true
							}
						}
					}
					if leaves || okData {
						break
					}
				}
				return true
			})
		}
		if !okData {
			fData.fail(nil, call, "the map handed to applyConfig is neither the received snapshot nor a fresh map filled unconditionally from every entry of it: objects whose entries are filtered out (or all of them) look removed and are closed although they are configured, or changes are never seen")
		}
	}
	if len(applies) == 0 {
		fData.fail(nil, fd.Body, "the function receives snapshots but never calls applyConfig")
	}
	fData.report(c, "R-C20-7", cons+"|applied config carries every entry of the snapshot", fd.Body,
		sprintf("%d applyConfig call(s) take the received map or an unconditional copy of it", fData.n))
}

// c20FieldVia is c20FieldOf that also sees through a local defined once from the field
// (`syncChan := or.configSyncChan; … <-syncChan`).
func c20FieldVia(f *flow.Func, e ast.Expr) *types.Var {
	if v := c20FieldOf(f, e); v != nil {
		return v
	}
	lv := c20Var(f, e)
	if lv == nil || !c20IsLocalVar(lv) {
		return nil
	}
	defs := c20Defs(f, c20DeclNodeOf(f, lv), lv)
	if len(defs) != 1 || defs[0].rhs == nil {
		return nil
	}
	return c20FieldOf(f, defs[0].rhs)
}

// c20MapUseOK: the map-valued expression node x (a bookkeeping field, or an alias of it) is used in
// a way that does not let the map escape: indexed, ranged, len(), delete(), compared with nil,
// overwritten; bound to a local alias all of whose uses are of that kind (`registered := or.entities`
// under the lock); or passed to a same-package function whose parameter is only used that way
// (`watcher.forEachWanted(or.entities, fn)`).
func c20MapUseOK(f *flow.Func, fd *ast.FuncDecl, pm map[ast.Node]ast.Node, x ast.Node, depth int) bool {
	if depth > 2 {
		return false
	}
	child := x
	p := pm[child]
	for {
		if pe, ok := p.(*ast.ParenExpr); ok {
			child, p = pe, pm[pe]
			continue
		}
		break
	}
	usesOK := func(g *flow.Func, gfd *ast.FuncDecl, v *types.Var) bool {
		if v == nil || !c20IsLocalVar(v) || gfd == nil || gfd.Body == nil {
			return false
		}
		gpm := pm
		if gfd != fd {
			gpm = parentMap(gfd)
		}
		// exactly one definition (the alias itself / the parameter): never re-pointed
		if len(c20Defs(g, gfd, v)) > 1 {
			return false
		}
		ok := true
		ast.Inspect(gfd.Body, func(n ast.Node) bool {
			if id, isID := n.(*ast.Ident); isID && g.Info.Uses[id] == types.Object(v) {
				if !c20MapUseOK(g, gfd, gpm, id, depth+1) {
					ok = false
				}
			}
			return ok
		})
		return ok
	}
	switch pp := p.(type) {
	case *ast.IndexExpr:
		return pp.X == child
	case *ast.RangeStmt:
		return pp.X == child
	case *ast.BinaryExpr:
		return (pp.Op == token.EQL || pp.Op == token.NEQ) && (f.Info.Types[pp.X].IsNil() || f.Info.Types[pp.Y].IsNil())
	case *ast.AssignStmt:
		for _, l := range pp.Lhs {
			if l == child {
				return true
			}
		}
		if len(pp.Lhs) == len(pp.Rhs) {
			for i, r := range pp.Rhs {
				if r == child {
					if v := c20Var(f, pp.Lhs[i]); v != nil {
						return usesOK(f, fd, v)
					}
				}
			}
		}
	case *ast.ValueSpec:
		if len(pp.Names) == len(pp.Values) {
			for i, r := range pp.Values {
				if r == child {
					v, _ := f.Info.Defs[pp.Names[i]].(*types.Var)
					return usesOK(f, fd, v)
				}
			}
		}
	case *ast.CallExpr:
		if b, isB := f.Callee(pp).(*types.Builtin); isB {
			return (b.Name() == "len" || b.Name() == "delete") && len(pp.Args) > 0 && pp.Args[0] == child
		}
		fo, ok := f.Callee(pp).(*types.Func)
		if !ok || fo.Pkg() != f.Pkg.Types {
			return false
		}
		hfd := declOf(f.Pkg, fo)
		if hfd == nil || hfd.Type.Params == nil {
			return false
		}
		h := flow.NewFunc(f.Pkg, hfd)
		i := 0
		for _, fld := range hfd.Type.Params.List {
			for _, id := range fld.Names {
				if i < len(pp.Args) && pp.Args[i] == child {
					pv, _ := h.Info.Defs[id].(*types.Var)
					return usesOK(h, hfd, pv)
				}
				i++
			}
		}
	}
	return false
}
