package rules

import (
	"go/ast"
	"go/types"

	"golang.org/x/tools/go/cfg"

	"verif/internal/flow"
)

// R-C14-6 batch consistency between the routing trie and the session.
//
// The SUBSCRIBE handler drops the whole batch (no session record, no SUBACK) when
// TopicManager.subscribe fails; the UNSUBSCRIBE handler and the disconnect path forget the whole
// batch in the session whatever TopicManager.unsubscribe returns, and the disconnect path later
// removes from the trie only what the session records. Hence
//   * subscribe must not report failure after it has inserted something (else the inserted
//     filters route to a client whose session does not know them, and are never removed), and
//   * unsubscribe must work through the whole batch (else the filters after the failing one stay
//     routed to a client whose session has forgotten them, and are never removed).
// The caller-side facts are checked, not assumed: the rule adapts if the UNSUBSCRIBE handler is
// changed to gate on the error.

const (
	c14evInB     = "ev:c14:inBatch"
	c14evMutCall = "ev:c14:mutCalled"
	c14evMutDone = "ev:c14:mutDone"
	c14evLoopEnd = "ev:c14:loopDone"
	c14evPreval  = "ev:c14:prevalidated"
	c14evInvalid = "ev:c14:sawInvalid"    // a level-source verdict on a batch element was non-nil
	c14evInvMut  = "ev:c14:sawInvalidMut" // a mutator call on a batch element returned non-nil
)

type c14batchResult struct {
	f        *flow.Func
	res      *flow.Result
	loop     ast.Stmt
	valid    map[ast.Stmt]bool // validation loops that complete only with err == nil
	validSet bool
	// prevalAtMut: every mutator call is reached only after a valid validation loop completed
	prevalAtMut bool
	errBound    bool
}

// reports decides "a filter of the batch was found malformed => a non-nil error is returned".
func (b *c14batchResult) reports(e *c14env, cons string) {
	c := e.c
	if !b.errBound {
		c.Violate("R-C14-6", cons+"|malformed filter reported", pos(c, b.loop), "the verdict of insert / the level source on the filters of the batch is not bound to a variable: a malformed filter cannot be reported to the SUBSCRIBE handler")
		return
	}
	var bad *flow.Exit
	n := 0
	for _, ex := range b.res.Exits {
		// once the whole batch was validated, a mutator error is unreachable
		invalid := ex.State.Is(c14evInvalid, flow.True) || (!b.prevalAtMut && ex.State.Is(c14evInvMut, flow.True))
		if ex.Kind != flow.ExitReturn || !invalid {
			continue
		}
		n++
		if ex.Return == nil || len(ex.Return.Results) == 0 {
			bad = ex
			continue
		}
		last := ex.Return.Results[len(ex.Return.Results)-1]
		if nn, ok := c14nonNilErr(b.f, ex.State, last); !ok || !nn {
			bad = ex
		}
	}
	if n == 0 {
		c.Violate("R-C14-6", cons+"|malformed filter reported", pos(c, b.loop), "no path tests the verdict on a filter of the batch: malformed filters are acknowledged and recorded in the session")
		return
	}
	c.Check(bad == nil, "R-C14-6", cons+"|malformed filter reported", pos(c, b.loop),
		sprintf("%d abstract exits after a filter of the batch was found malformed, all returning a non-nil error", n),
		"after a filter of the batch was found malformed the function may return a nil error: the SUBSCRIBE handler then records the malformed filter in the session and acknowledges it", func() []string {
			if bad == nil {
				return nil
			}
			return append([]string{"return at " + pos(c, bad.At)}, witness(bad.State)...)
		}()...)
}

// c14batch analyses a batch operation of the TopicManager: mutator is "insert" or "remove".
func c14batch(e *c14env, name, mutator string) *c14batchResult {
	c := e.c
	outer := e.role(name).f
	cons := e.role(name).cons
	// the operation's body may be a closure handed to a lock wrapper (withWriteLock(func() error {..}))
	f := outer
	if lit, _, ok := e.lockedBody(outer); ok {
		f = lit
	}
	mutObj := e.role(mutator).obj
	muts := c14callsToFn(f, f.Body, false, mutObj)
	if !c.RequireCount("R-C14-6", mutator+" call sites in "+name, len(muts), 1) {
		return nil
	}
	isMut := map[*ast.CallExpr]bool{}
	var loop ast.Stmt
	var slice types.Object
	for _, m := range muts {
		isMut[m] = true
		l, sl := e.batchLoop(f, outer, m)
		if l == nil || (loop != nil && l != loop) {
			c.Undecide("R-C14-6", cons+"|batch loop", pos(c, m), mutator+" is not called from a single loop visiting every element of the filter slice parameter (range, or for i := 0; i < len(s); i++)")
			return nil
		}
		loop, slice = l, sl
	}

	// validation loops: earlier loops over the same slice (in this function, or in a helper called
	// before the mutation loop with the slice) that call a level source on the current element and
	// contain no mutator call
	type vinfo struct {
		errKey string
		valid  bool
	}
	bind := c14bindings(f, 2)
	vloops := map[ast.Stmt]*vinfo{}
	vfuncs := map[types.Object]bool{}
	for _, g := range reach(f, 2) {
		g := g
		gd, _ := g.Node.(*ast.FuncDecl)
		if g != f {
			if gd == nil || e.funcObj(gd) == mutObj || e.roles.sources[e.funcObj(gd)] {
				continue
			}
			before := false
			for _, call := range calls(f.Body, false) {
				if fo := c14calleeOf(f, call); fo != nil && fo == e.funcObj(gd) && call.Pos() < loop.Pos() && !contains(loop, call) {
					before = true
				}
			}
			if !before {
				continue
			}
		}
		for _, l := range c14loops(g.Body) {
			it := c14iterOf(g, l)
			if it == nil || l == loop || (g == f && (l.Pos() > loop.Pos() || contains(l, loop))) {
				continue
			}
			if !c14denotes(bind, g, c14obj(g, it.slice), slice, 3) {
				continue
			}
			if len(c14callsToFn(g, it.body, false, mutObj)) > 0 {
				continue
			}
			srcs := e.sourceCalls(g, it.body, false)
			if len(srcs) != 1 || len(srcs[0].Args) != 1 {
				continue
			}
			arg := ast.Unparen(srcs[0].Args[0])
			elem := false
			if o := c14obj(g, arg); o != nil && o == it.elem {
				elem = true
			}
			if ix, ok := arg.(*ast.IndexExpr); ok && g.Render(ix.X) == g.Render(it.slice) && c14obj(g, ix.Index) != nil && c14obj(g, ix.Index) == it.key {
				elem = true
			}
			if !elem {
				continue
			}
			var errID *ast.Ident
			ast.Inspect(it.body, func(n ast.Node) bool {
				if as, ok := n.(*ast.AssignStmt); ok && len(as.Rhs) == 1 && ast.Unparen(as.Rhs[0]) == ast.Expr(srcs[0]) && len(as.Lhs) == 2 {
					errID, _ = as.Lhs[1].(*ast.Ident)
				}
				return true
			})
			if errID == nil || errID.Name == "_" {
				continue
			}
			// the validation loop must be left early only by returning (a break would let the
			// mutation loop start with the rest of the batch unvalidated)
			onlyReturns := true
			for _, x := range breaksOut(g, l, labelOf(g.Body, l)) {
				if _, isRet := x.(*ast.ReturnStmt); !isRet {
					onlyReturns = false
				}
			}
			vloops[l] = &vinfo{errKey: g.NilKey(errID), valid: onlyReturns}
			if gd != nil && g != f {
				vfuncs[e.funcObj(gd)] = true
			}
		}
	}

	// error variables bound to a verdict on a filter of the batch (mutator result, level source)
	var errKeys, mutErrKeys []string
	for _, g := range reach(f, 2) {
		g := g
		gd, _ := g.Node.(*ast.FuncDecl)
		if g != f && (gd == nil || !vfuncs[e.funcObj(gd)]) {
			continue
		}
		ast.Inspect(g.Body, func(n ast.Node) bool {
			as, ok := n.(*ast.AssignStmt)
			if !ok || len(as.Rhs) != 1 {
				return true
			}
			call, ok := ast.Unparen(as.Rhs[0]).(*ast.CallExpr)
			if !ok {
				return true
			}
			if id, ok := as.Lhs[len(as.Lhs)-1].(*ast.Ident); ok && id.Name != "_" {
				if isMut[call] {
					mutErrKeys = append(mutErrKeys, g.NilKey(id))
				} else if e.isSource(g, call) {
					errKeys = append(errKeys, g.NilKey(id))
				}
			}
			return true
		})
	}
	baseInline := inlineSamePkg(f)

	res := analyze(c, f, flow.Config{
		NoHavoc: true,
		// only the validation helpers are interpreted in place
		Inline: func(call *ast.CallExpr, callee *types.Func) *flow.Func {
			if callee == nil || !vfuncs[callee] {
				return nil
			}
			return baseInline(call, callee)
		},
		OnCall: func(st *flow.State, call *ast.CallExpr, callee types.Object, d bool) {
			if isMut[call] {
				st.Set(c14evMutCall, flow.True)
			}
		},
		AfterAssume: func(st *flow.State, cond ast.Expr, outcome bool) {
			for _, k := range errKeys {
				if st.Is(k, flow.False) {
					st.Set(c14evInvalid, flow.True)
				}
			}
			for _, k := range mutErrKeys {
				if st.Is(k, flow.False) {
					st.Set(c14evInvMut, flow.True)
				}
			}
		},
		OnBlock: func(st *flow.State, b *cfg.Block) {
			if b.Stmt != nil && b.Stmt == loop {
				switch b.Kind {
				case cfg.KindRangeBody, cfg.KindForBody:
					st.Set(c14evInB, flow.True)
					st.Set(c14evMutCall, flow.False)
				case cfg.KindRangeLoop, cfg.KindForLoop:
					if st.Is(c14evInB, flow.True) && st.Is(c14evMutCall, flow.True) {
						st.Set(c14evMutDone, flow.True)
					}
					st.Set(c14evInB, flow.Unknown)
					st.Set(c14evMutCall, flow.Unknown)
				case cfg.KindRangeDone, cfg.KindForDone:
					st.Set(c14evLoopEnd, flow.True)
				}
				return
			}
			if b.Stmt == nil {
				return
			}
			if v := vloops[b.Stmt]; v != nil {
				switch {
				case c14isBody(b.Kind):
					st.Set("ev:c14:inV", flow.True)
				case c14isHead(b.Kind):
					if st.Is("ev:c14:inV", flow.True) && !st.Is(v.errKey, flow.True) {
						v.valid = false
					}
					st.Set("ev:c14:inV", flow.Unknown)
					st.Set(v.errKey, flow.Unknown)
				case c14isDone(b.Kind):
					st.Set(c14evPreval, flow.True)
				}
			}
		},
	})
	if res == nil {
		return nil
	}
	out := &c14batchResult{f: f, res: res, loop: loop, valid: map[ast.Stmt]bool{}}
	out.validSet = len(vloops) > 0
	for rs, v := range vloops {
		out.valid[rs] = v.valid
		if !v.valid {
			out.validSet = false
		}
	}
	out.errBound = len(errKeys)+len(mutErrKeys) > 0
	out.prevalAtMut = out.validSet
	for _, m := range muts {
		for _, st := range res.At[m] {
			if !st.Is(c14evPreval, flow.True) {
				out.prevalAtMut = false
			}
		}
	}
	return out
}

// atomic decides "error => nothing was mutated (or everything was validated first)".
func (b *c14batchResult) atomic(e *c14env, cons, what, consequence string) {
	c := e.c
	f := b.f
	var bad *flow.Exit
	n := 0
	for _, ex := range b.res.Exits {
		if ex.Kind != flow.ExitReturn {
			continue
		}
		n++
		mayFail := true
		if ex.Return != nil && len(ex.Return.Results) > 0 {
			last := ex.Return.Results[len(ex.Return.Results)-1]
			if nn, ok := c14nonNilErr(f, ex.State, last); ok && !nn {
				mayFail = false
			}
		}
		if !mayFail || !ex.State.Is(c14evMutDone, flow.True) {
			continue
		}
		if ex.State.Is(c14evPreval, flow.True) && b.validSet {
			continue
		}
		bad = ex
	}
	c.Check(bad == nil, "R-C14-6", cons+"|all-or-nothing", pos(c, b.loop),
		sprintf("%d abstract exits: none reports an error after an earlier element of the batch was %s (or the whole batch is validated before the first one)", n, what),
		"an error is returned after an earlier filter of the same batch was already "+what+": "+consequence, func() []string {
			if bad == nil {
				return nil
			}
			return append([]string{"return at " + pos(c, bad.At)}, witness(bad.State)...)
		}()...)
}

// complete decides "every exit happens after the batch loop was exhausted".
func (b *c14batchResult) complete(e *c14env, cons, consequence string) {
	c := e.c
	var bad *flow.Exit
	n := 0
	for _, ex := range b.res.Exits {
		if ex.Kind != flow.ExitReturn {
			continue
		}
		n++
		if !ex.State.Is(c14evLoopEnd, flow.True) {
			bad = ex
		}
	}
	for _, x := range breaksOut(b.f, b.loop, labelOf(b.f.Body, b.loop)) {
		if _, isRet := x.(*ast.ReturnStmt); !isRet {
			c.Violate("R-C14-6", cons+"|every filter processed", pos(c, x), "the loop over the batch is left by break/goto before every filter was processed: "+consequence)
			return
		}
	}
	c.Check(bad == nil, "R-C14-6", cons+"|every filter processed", pos(c, b.loop),
		sprintf("%d abstract exits, all after the loop over the batch was exhausted", n),
		"the function can return before every filter of the batch was processed: "+consequence, func() []string {
			if bad == nil {
				return nil
			}
			return append([]string{"return at " + pos(c, bad.At)}, witness(bad.State)...)
		}()...)
}

// batchLoop finds the loop around a mutator call that visits every element of a slice parameter of
// the batch operation (outer) and hands the current element to the call: the element itself, s[i],
// or the levels a level source returned for it in the same iteration (`levels, err := getLevels(t)`).
// Loops in all three element-wise forms (c14iterOf).
func (e *c14env) batchLoop(f, outer *flow.Func, call *ast.CallExpr) (ast.Stmt, types.Object) {
	loops := enclosingLoops(f.Body, call)
	for i := len(loops) - 1; i >= 0; i-- {
		it := c14iterOf(f, loops[i])
		if it == nil {
			continue
		}
		sl := c14obj(f, it.slice)
		if !c14isParam(outer, sl) {
			continue
		}
		isElem := func(x ast.Expr) bool {
			x = ast.Unparen(x)
			if o := c14obj(f, x); o != nil && o == it.elem {
				return true
			}
			ix, ok := x.(*ast.IndexExpr)
			return ok && c14obj(f, ix.X) == sl && c14obj(f, ix.Index) != nil && c14obj(f, ix.Index) == it.key
		}
		fromElem := func(x ast.Expr) bool {
			if isElem(x) {
				return true
			}
			v := c14obj(f, x)
			if v == nil {
				return false
			}
			found := false
			ast.Inspect(it.body, func(n ast.Node) bool {
				as, ok := n.(*ast.AssignStmt)
				if !ok || len(as.Rhs) != 1 || c14obj(f, as.Lhs[0]) != v {
					return true
				}
				if src, ok := ast.Unparen(as.Rhs[0]).(*ast.CallExpr); ok && e.isSource(f, src) && len(src.Args) == 1 && isElem(src.Args[0]) {
					found = true
				}
				return true
			})
			return found
		}
		for _, a := range c14flattenArgs(call.Args) {
			if fromElem(a) {
				return loops[i], sl
			}
		}
	}
	return nil, nil
}

func c14Batch(e *c14env) {
	c := e.c
	recordFns, forgetFns := e.sessionTopicFns()
	isSuback := func(g *flow.Func, w *ast.CallExpr) bool {
		if fo := c14calleeOf(g, w); fo == nil || fo.FullName() != "(*"+Mod+mq+".Client).writePacket" || len(w.Args) != 1 {
			return false
		}
		tv, ok := g.Info.Types[w.Args[0]]
		return ok && tv.Type != nil && tv.Type.String() == "*github.com/eclipse/paho.mqtt.golang/packets.SubackPacket"
	}
	// callsIn lists, over f and the helpers it calls (the TopicManager's own functions excluded), the
	// calls for which pick reports true
	callsIn := func(f *flow.Func, pick func(g *flow.Func, call *ast.CallExpr) bool) (out []*ast.CallExpr, in map[*ast.BlockStmt]bool) {
		in = map[*ast.BlockStmt]bool{}
		for _, g := range reach(f, 2) {
			if gd, ok := g.Node.(*ast.FuncDecl); ok && g != f {
				if r := e.recvNamed(gd); r != nil && (r.Obj().Name() == "TopicManager" || r.Obj().Name() == "Session") {
					continue
				}
			}
			for _, call := range calls(g.Body, false) {
				if pick(g, call) {
					out = append(out, call)
					in[g.Body] = true
				}
			}
		}
		return
	}

	// ---- callers
	gatedSubCallers, subCallers := 0, 0
	unsubCallers, unsubRegardless := 0, 0
	var regardlessAt []string
	e.decls(func(f *flow.Func, fd *ast.FuncDecl) {
		cons := declName(e.pkg, fd)
		subs := c14callsToFn(f, fd.Body, false, e.role("subscribe").obj)
		unsubs := c14callsToFn(f, fd.Body, false, e.role("unsubscribe").obj)
		if len(subs) == 0 && len(unsubs) == 0 {
			return
		}
		errOf := func(call *ast.CallExpr) *ast.Ident {
			var id *ast.Ident
			ast.Inspect(fd.Body, func(n ast.Node) bool {
				if as, ok := n.(*ast.AssignStmt); ok && len(as.Rhs) == 1 && len(as.Lhs) == 1 && ast.Unparen(as.Rhs[0]) == ast.Expr(call) {
					id, _ = as.Lhs[0].(*ast.Ident)
				}
				return true
			})
			if id != nil && id.Name == "_" {
				return nil
			}
			return id
		}
		records, inR := callsIn(f, func(g *flow.Func, call *ast.CallExpr) bool {
			fo := c14calleeOf(g, call)
			return fo != nil && recordFns[fo]
		})
		acks, inA := callsIn(f, isSuback)
		forgets, inF := callsIn(f, func(g *flow.Func, call *ast.CallExpr) bool {
			fo := c14calleeOf(g, call)
			return fo != nil && forgetFns[fo]
		})
		var res *flow.Result
		run := func() *flow.Result {
			if res == nil {
				res = analyze(c, f, flow.Config{NoHavoc: true,
					Inline: e.selectiveInline(f, 2, func(g *flow.Func) bool { return inR[g.Body] || inA[g.Body] || inF[g.Body] })})
			}
			return res
		}
		for _, s := range subs {
			subCallers++
			if len(records) == 0 && len(acks) == 0 {
				continue // e.g. session restore on connect: nothing is recorded or acknowledged here
			}
			gatedSubCallers++
			errID := errOf(s)
			if errID == nil {
				c.Violate("R-C14-6", cons+"|SUBSCRIBE error gate", pos(c, s), "the result of TopicManager.subscribe is discarded but the batch is recorded in the session / acknowledged: a malformed filter is persisted and SUBACKed")
				continue
			}
			r := run()
			if r == nil {
				continue
			}
			key := f.NilKey(errID)
			var bad *flow.State
			why := ""
			n := 0
			for _, call := range append(append([]*ast.CallExpr{}, records...), acks...) {
				if len(r.At[call]) == 0 {
					c.Undecide("R-C14-6", cons+"|SUBSCRIBE error gate", pos(c, call), "the recording / acknowledging call sits in a helper the flow engine could not interpret in place (or is unreachable): cannot decide under which verdict of TopicManager.subscribe it runs")
					bad = nil
					n = -1
					break
				}
				for _, st := range r.At[call] {
					n++
					if !st.Is(key, flow.True) {
						bad = st
						why = "the batch is recorded in the session / acknowledged with a SUBACK although TopicManager.subscribe rejected it: the malformed filter is persisted, and on reconnect restoring the session's filters fails as a whole"
					}
				}
			}
			if n < 0 {
				continue
			}
			c.Check(bad == nil, "R-C14-6", cons+"|SUBSCRIBE error gate", pos(c, s),
				sprintf("%d abstract states at Session.subscribe / SUBACK, all with TopicManager.subscribe's error known nil", n), why, witness(bad)...)
		}
		for _, u := range unsubs {
			unsubCallers++
			errID := errOf(u)
			regardless := errID == nil || len(forgets) == 0
			if !regardless {
				if r := run(); r != nil {
					for _, call := range forgets {
						for _, st := range r.At[call] {
							if !st.Is(f.NilKey(errID), flow.True) {
								regardless = true
							}
						}
					}
				}
			}
			if regardless {
				unsubRegardless++
				regardlessAt = append(regardlessAt, cons)
			}
		}
	})
	c.RequireCount("R-C14-6", "callers of TopicManager.subscribe that record/acknowledge the batch", gatedSubCallers, 1)
	c.RequireCount("R-C14-6", "callers of TopicManager.unsubscribe", unsubCallers, 2)

	// ---- subscribe: all-or-nothing
	if b := c14batch(e, "subscribe", "insert"); b != nil {
		e.insertPrevalidated = b.prevalAtMut
		b.reports(e, e.role("subscribe").cons)
		b.atomic(e, e.role("subscribe").cons, "inserted into the trie",
			"the SUBSCRIBE handler treats the error as 'nothing subscribed' (no session record, no SUBACK), so the filters inserted before the malformed one route messages to a client that holds no such subscription, and since disconnect only unsubscribes what the session records they are never removed (a later client with the same id inherits them)")
	}

	// ---- unsubscribe
	if b := c14batch(e, "unsubscribe", "remove"); b != nil {
		cons := e.role("unsubscribe").cons
		if unsubRegardless > 0 {
			b.complete(e, cons, sprintf("%d caller(s) (%v) forget the whole batch in the session whatever unsubscribe returns (UNSUBACK is sent), so a malformed filter in the batch leaves the well-formed filters after it in the trie: the client keeps receiving them after its UNSUBSCRIBE was acknowledged, and since disconnect only unsubscribes what the session records they are never removed", unsubRegardless, regardlessAt))
		} else {
			b.atomic(e, cons, "removed from the trie", "the callers keep the whole batch in the session when unsubscribe fails, so the filters already removed are still considered live subscriptions but no longer routed")
		}
	}
}
