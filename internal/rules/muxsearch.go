package rules

import (
	"go/ast"
	"go/constant"
	"go/token"
	"go/types"
	"strings"

	"golang.org/x/tools/go/cfg"
	"golang.org/x/tools/go/packages"

	"verif/internal/core"
	"verif/internal/flow"
)

const hs = "pkg/object/httpserver"

// ---------------------------------------------------------------------------------------
// Roles: the types, fields and functions of the router are resolved by what they are
// (types of fields, signatures, what a function calls), the current name is only a tie-breaker.

type muxRoles struct {
	routeT, instT, ruleT, pathT *types.Named

	codeF, rpathF                                   *types.Var // route{code, path}
	rulesF, pathsF, headersF                        *types.Var // muxInstance.rules, muxRule.paths, MuxPath.headers
	instFilterF, ruleFilterF, pathFilterF           *types.Var // *ipfilter.IPFilter of each level
	instChainF, ruleChainF, pathChainF              *types.Var // *ipfilter.IPFilters of each level
	cacheF                                          *types.Var // muxInstance.cache
	backendF, limitF                                *types.Var // MuxPath fields initialised from Path.Backend / Path.ClientMaxBodySize
	filterT, filtersT, filterSpecT, requestT, specT *types.Named
}

func muxDerefNamed(t types.Type) *types.Named {
	if p, ok := t.(*types.Pointer); ok {
		t = p.Elem()
	}
	n, _ := t.(*types.Named)
	return n
}

func muxIsPtrTo(t types.Type, n *types.Named) bool {
	p, ok := t.(*types.Pointer)
	if !ok || n == nil {
		return false
	}
	m, ok := p.Elem().(*types.Named)
	return ok && m.Obj() == n.Obj()
}

func muxIsSliceOfPtrTo(t types.Type, n *types.Named) bool {
	s, ok := t.(*types.Slice)
	return ok && muxIsPtrTo(s.Elem(), n)
}

// muxStructFields returns the fields of a named struct type satisfying pred.
func muxStructFields(n *types.Named, pred func(v *types.Var) bool) []*types.Var {
	if n == nil {
		return nil
	}
	st, ok := n.Underlying().(*types.Struct)
	if !ok {
		return nil
	}
	var out []*types.Var
	var walk func(st *types.Struct, depth int)
	walk = func(st *types.Struct, depth int) {
		for i := 0; i < st.NumFields(); i++ {
			f := st.Field(i)
			if pred(f) {
				out = append(out, f)
			}
			// fields promoted from an embedded struct
			if f.Embedded() && depth < 2 {
				if en := muxDerefNamed(f.Type()); en != nil {
					if est, ok := en.Underlying().(*types.Struct); ok {
						walk(est, depth+1)
					}
				}
			}
		}
	}
	walk(st, 0)
	return out
}

// muxOneField picks the field satisfying pred; when several do, the one called prefer.
func muxOneField(n *types.Named, prefer string, pred func(v *types.Var) bool) *types.Var {
	fs := muxStructFields(n, pred)
	if len(fs) == 1 {
		return fs[0]
	}
	for _, f := range fs {
		if f.Name() == prefer {
			return f
		}
	}
	return nil
}

// muxStructsWith returns the named struct types of the package having a field satisfying pred.
func muxStructsWith(scope *types.Scope, pred func(v *types.Var) bool) []*types.Named {
	var out []*types.Named
	for _, name := range scope.Names() {
		tn, ok := scope.Lookup(name).(*types.TypeName)
		if !ok || tn.IsAlias() {
			continue
		}
		n, ok := tn.Type().(*types.Named)
		if !ok {
			continue
		}
		if len(muxStructFields(n, pred)) > 0 {
			out = append(out, n)
		}
	}
	return out
}

func muxPickNamed(ns []*types.Named, prefer string) *types.Named {
	if len(ns) == 1 {
		return ns[0]
	}
	for _, n := range ns {
		if n.Obj().Name() == prefer {
			return n
		}
	}
	return nil
}

// muxRolesOf resolves the router's types and fields; a missing role is a checker error.
func muxRolesOf(c *core.Ctx, rule string) *muxRoles {
	pkg := c.Prog.Pkg(hs)
	if pkg == nil {
		c.Errorf("%s: anchor: package %s not loaded", rule, hs)
		return nil
	}
	ro := &muxRoles{}
	ro.filterT, ro.filtersT, ro.filterSpecT = namedType(c, ipf, "IPFilter"), namedType(c, ipf, "IPFilters"), namedType(c, ipf, "Spec")
	ro.requestT = namedType(c, "pkg/protocols/httpprot", "Request")
	ro.pathT = namedType(c, hs, "MuxPath")
	ro.specT = namedType(c, hs, "Spec")
	if ro.filterT == nil || ro.filtersT == nil || ro.pathT == nil || ro.requestT == nil {
		return nil
	}
	scope := pkg.Types.Scope()
	ro.routeT = muxPickNamed(muxStructsWith(scope, func(v *types.Var) bool { return muxIsPtrTo(v.Type(), ro.pathT) }), "route")
	ro.ruleT = muxPickNamed(muxStructsWith(scope, func(v *types.Var) bool { return muxIsSliceOfPtrTo(v.Type(), ro.pathT) }), "muxRule")
	if ro.ruleT != nil {
		ro.instT = muxPickNamed(muxStructsWith(scope, func(v *types.Var) bool { return muxIsSliceOfPtrTo(v.Type(), ro.ruleT) }), "muxInstance")
	}
	if ro.routeT == nil || ro.ruleT == nil || ro.instT == nil {
		c.Errorf("%s: anchor: cannot resolve the router's types (route = struct with a *MuxPath field, rule = struct with []*MuxPath, instance = struct with []*rule)", rule)
		return nil
	}
	ro.rpathF = muxOneField(ro.routeT, "path", func(v *types.Var) bool { return muxIsPtrTo(v.Type(), ro.pathT) })
	ro.codeF = muxOneField(ro.routeT, "code", func(v *types.Var) bool {
		b, ok := v.Type().Underlying().(*types.Basic)
		return ok && b.Info()&types.IsInteger != 0
	})
	ro.rulesF = muxOneField(ro.instT, "rules", func(v *types.Var) bool { return muxIsSliceOfPtrTo(v.Type(), ro.ruleT) })
	ro.pathsF = muxOneField(ro.ruleT, "paths", func(v *types.Var) bool { return muxIsSliceOfPtrTo(v.Type(), ro.pathT) })
	ro.headersF = muxOneField(ro.pathT, "headers", func(v *types.Var) bool {
		s, ok := v.Type().(*types.Slice)
		if !ok {
			return false
		}
		n := muxDerefNamed(s.Elem())
		return n != nil && n.Obj().Name() == "Header" && n.Obj().Pkg() == pkg.Types
	})
	isFilter := func(v *types.Var) bool { return muxIsPtrTo(v.Type(), ro.filterT) }
	isChain := func(v *types.Var) bool { return muxIsPtrTo(v.Type(), ro.filtersT) }
	ro.instFilterF, ro.ruleFilterF, ro.pathFilterF = muxOneField(ro.instT, "ipFilter", isFilter), muxOneField(ro.ruleT, "ipFilter", isFilter), muxOneField(ro.pathT, "ipFilter", isFilter)
	ro.instChainF, ro.ruleChainF, ro.pathChainF = muxOneField(ro.instT, "ipFilterChain", isChain), muxOneField(ro.ruleT, "ipFilterChain", isChain), muxOneField(ro.pathT, "ipFilterChain", isChain)
	ro.cacheF = muxOneField(ro.instT, "cache", func(v *types.Var) bool {
		if muxIsLRU(v.Type()) {
			return true
		}
		// an interface in front of the single implementation: every value the package stores
		// in the field is a golang-lru cache (or nil)
		if muxIfaceOnlyLRU(pkg, v) {
			return true
		}
		// a same-package wrapper type around an lru cache
		n := muxDerefNamed(v.Type())
		return n != nil && n.Obj().Pkg() == pkg.Types && len(muxStructFields(n, func(w *types.Var) bool { return muxIsLRU(w.Type()) })) > 0
	})
	for what, v := range map[string]*types.Var{"route.code": ro.codeF, "route.path": ro.rpathF, "instance.rules": ro.rulesF, "rule.paths": ro.pathsF, "path.headers": ro.headersF,
		"instance filter": ro.instFilterF, "rule filter": ro.ruleFilterF, "path filter": ro.pathFilterF, "path filter chain": ro.pathChainF, "instance filter chain": ro.instChainF} {
		if v == nil {
			c.Errorf("%s: anchor: cannot resolve the field playing the role %q", rule, what)
			return nil
		}
	}
	// MuxPath fields by the exported spec field they are initialised from
	if pt := muxNamedTypeOpt(pkg.Types, "Path"); pt != nil {
		ro.backendF = muxFieldInitFrom(c, ro.pathT, muxOneField(pt, "Backend", func(v *types.Var) bool { return v.Name() == "Backend" }))
		ro.limitF = muxFieldInitFrom(c, ro.pathT, muxOneField(pt, "ClientMaxBodySize", func(v *types.Var) bool { return v.Name() == "ClientMaxBodySize" }))
	}
	return ro
}

// muxIfaceOnlyLRU: v is a field of interface type (with Get and Add) and every store to it in the
// package (assignment or composite-literal entry) has a golang-lru cache (or nil) as its static type.
func muxIfaceOnlyLRU(pkg *packages.Package, v *types.Var) bool {
	it, ok := v.Type().Underlying().(*types.Interface)
	if !ok {
		return false
	}
	has := map[string]bool{}
	for i := 0; i < it.NumMethods(); i++ {
		has[it.Method(i).Name()] = true
	}
	if !has["Get"] || !has["Add"] {
		return false
	}
	stores, good := 0, true
	okVal := func(e ast.Expr) {
		stores++
		tv, ok := pkg.TypesInfo.Types[e]
		if !ok || !(tv.IsNil() || (tv.Type != nil && muxIsLRU(tv.Type))) {
			good = false
		}
	}
	for _, file := range pkg.Syntax {
		ast.Inspect(file, func(n ast.Node) bool {
			switch x := n.(type) {
			case *ast.AssignStmt:
				for i, l := range x.Lhs {
					sel, ok := ast.Unparen(l).(*ast.SelectorExpr)
					if !ok {
						continue
					}
					if sl := pkg.TypesInfo.Selections[sel]; sl == nil || sl.Obj() != types.Object(v) {
						continue
					}
					if len(x.Rhs) == len(x.Lhs) {
						okVal(x.Rhs[i])
					} else {
						stores++
						good = false
					}
				}
			case *ast.UnaryExpr:
				// &x.cache: the field may be written through the pointer
				if sel, ok := ast.Unparen(x.X).(*ast.SelectorExpr); ok && x.Op == token.AND {
					if sl := pkg.TypesInfo.Selections[sel]; sl != nil && sl.Obj() == types.Object(v) {
						good = false
					}
				}
			case *ast.CompositeLit:
				for _, el := range x.Elts {
					if kv, ok := el.(*ast.KeyValueExpr); ok {
						if k, ok := kv.Key.(*ast.Ident); ok && pkg.TypesInfo.Uses[k] == types.Object(v) {
							okVal(kv.Value)
						}
					}
				}
			}
			return true
		})
	}
	return good && stores > 0
}

// muxIsLRU: t is (a pointer to) a cache type of hashicorp/golang-lru.
func muxIsLRU(t types.Type) bool {
	n := muxDerefNamed(t)
	return n != nil && n.Obj().Pkg() != nil && strings.HasSuffix(n.Obj().Pkg().Path(), "hashicorp/golang-lru")
}

func muxNamedTypeOpt(pkg *types.Package, name string) *types.Named {
	if o := pkg.Scope().Lookup(name); o != nil {
		n, _ := o.Type().(*types.Named)
		return n
	}
	return nil
}

// muxFieldInitFrom finds the field of struct type typ that is initialised (composite literal
// or assignment) from a selection of the field src.
func muxFieldInitFrom(c *core.Ctx, typ *types.Named, src *types.Var) *types.Var {
	pkg := c.Prog.Pkg(hs)
	if pkg == nil || typ == nil || src == nil {
		return nil
	}
	info := pkg.TypesInfo
	isSrc := func(e ast.Expr) bool {
		sel, ok := ast.Unparen(e).(*ast.SelectorExpr)
		if !ok {
			return false
		}
		s := info.Selections[sel]
		return s != nil && s.Obj() == src
	}
	found := map[*types.Var]bool{}
	fieldNamed := func(name string) *types.Var {
		return muxOneField(typ, name, func(v *types.Var) bool { return v.Name() == name })
	}
	for _, file := range pkg.Syntax {
		ast.Inspect(file, func(n ast.Node) bool {
			switch x := n.(type) {
			case *ast.CompositeLit:
				if tv, ok := info.Types[x]; ok && muxDerefNamed(tv.Type) != nil && muxDerefNamed(tv.Type).Obj() == typ.Obj() {
					for _, el := range x.Elts {
						if kv, ok := el.(*ast.KeyValueExpr); ok && isSrc(kv.Value) {
							if k, ok := kv.Key.(*ast.Ident); ok {
								if f := fieldNamed(k.Name); f != nil {
									found[f] = true
								}
							}
						}
					}
				}
			case *ast.AssignStmt:
				if len(x.Lhs) == len(x.Rhs) {
					for i, l := range x.Lhs {
						if sel, ok := ast.Unparen(l).(*ast.SelectorExpr); ok && isSrc(x.Rhs[i]) {
							if s := info.Selections[sel]; s != nil {
								if v, ok := s.Obj().(*types.Var); ok && v.IsField() && muxDerefNamed(s.Recv()) != nil && muxDerefNamed(s.Recv()).Obj() == typ.Obj() {
									found[v] = true
								}
							}
						}
					}
				}
			}
			return true
		})
	}
	if len(found) == 1 {
		for f := range found {
			return f
		}
	}
	return nil
}

// muxFuncByRole picks the function of package rel satisfying role; several candidates are resolved
// by the preferred name, otherwise the anchor is ambiguous (nil, n).
func muxFuncByRole(c *core.Ctx, rel, prefer string, role func(g *flow.Func, fd *ast.FuncDecl) bool) (*flow.Func, int) {
	cands := funcsByRole(c, rel, role)
	if len(cands) == 1 {
		return cands[0], 1
	}
	for _, g := range cands {
		if fd, ok := g.Node.(*ast.FuncDecl); ok && fd.Name.Name == prefer {
			return g, len(cands)
		}
	}
	return nil, len(cands)
}

func muxFuncObj(g *flow.Func) *types.Func {
	if fd, ok := g.Node.(*ast.FuncDecl); ok {
		fo, _ := g.Info.Defs[fd.Name].(*types.Func)
		return fo
	}
	return nil
}

func muxRecvNamed(fo *types.Func) *types.Named {
	sig, ok := fo.Type().(*types.Signature)
	if !ok || sig.Recv() == nil {
		return nil
	}
	return muxDerefNamed(sig.Recv().Type())
}

func muxSameNamed(a, b *types.Named) bool { return a != nil && b != nil && a.Obj() == b.Obj() }

// muxFuncConstruct renders the construct name of a resolved function.
func muxFuncConstruct(g *flow.Func) string {
	fd, ok := g.Node.(*ast.FuncDecl)
	if !ok {
		return g.Name
	}
	return declName(g.Pkg, fd)
}

// muxReach is reach() that does not descend into the given (opaque) callees.
func muxReach(f *flow.Func, depth int, opaque map[types.Object]bool) []*flow.Func {
	if f == nil {
		return nil
	}
	out := []*flow.Func{f}
	seen := map[*ast.BlockStmt]bool{f.Body: true}
	frontier := []*flow.Func{f}
	for d := 0; d < depth && len(frontier) > 0; d++ {
		var next []*flow.Func
		for _, g := range frontier {
			ast.Inspect(g.Body, func(n ast.Node) bool {
				call, ok := n.(*ast.CallExpr)
				if !ok {
					return true
				}
				fo, ok := g.Callee(call).(*types.Func)
				if !ok || fo.Pkg() != g.Pkg.Types || opaque[fo.Origin()] {
					return true
				}
				fd := declOf(g.Pkg, fo)
				if fd == nil || seen[fd.Body] {
					return true
				}
				seen[fd.Body] = true
				h := flow.NewFunc(g.Pkg, fd)
				out = append(out, h)
				next = append(next, h)
				return true
			})
		}
		frontier = next
	}
	return out
}

// muxReachCalls reports whether the reach of g (depth levels) contains a call satisfying pred.
func muxReachCalls(g *flow.Func, depth int, pred func(h *flow.Func, call *ast.CallExpr) bool) bool {
	found := false
	inspectReach(g, depth, func(h *flow.Func, n ast.Node) bool {
		if call, ok := n.(*ast.CallExpr); ok && !found && pred(h, call) {
			found = true
		}
		return !found
	})
	return found
}

// ---------------------------------------------------------------------------------------
// Value flow over a set of functions of one package (flow-insensitive): where may the value of
// an expression come from — through locals, parameters (all call sites) and results of calls.

type muxDefSite struct {
	expr  ast.Expr      // x = expr
	call  *ast.CallExpr // x, y = call(): position idx
	idx   int
	rng   *ast.RangeStmt // key / value of a range statement
	isKey bool
	other bool // anything else (inc/dec, op-assign, type switch ...)
	zero  bool // `var x T` without a value
}

type muxParamRef struct {
	fn  *types.Func
	idx int // -1 = receiver
}

type muxFlow struct {
	fns     []*flow.Func
	info    *types.Info
	defs    map[types.Object][]muxDefSite
	param   map[types.Object]muxParamRef
	fnOf    map[*types.Func]*flow.Func
	sites   map[*types.Func][]reachCall
	rets    map[*types.Func][]*ast.ReturnStmt
	results map[*types.Func][]*ast.Ident
	stop    map[types.Object]bool
	ident   map[types.Object]*ast.Ident // a defining identifier per object (for rendering)
}

func newMuxFlow(fns []*flow.Func) *muxFlow {
	vf := &muxFlow{fns: fns, defs: map[types.Object][]muxDefSite{}, param: map[types.Object]muxParamRef{}, fnOf: map[*types.Func]*flow.Func{},
		sites: map[*types.Func][]reachCall{}, rets: map[*types.Func][]*ast.ReturnStmt{}, results: map[*types.Func][]*ast.Ident{},
		stop: map[types.Object]bool{}, ident: map[types.Object]*ast.Ident{}}
	if len(fns) == 0 {
		return vf
	}
	vf.info = fns[0].Info
	info := vf.info
	objOf := func(id *ast.Ident) types.Object {
		if o := info.Defs[id]; o != nil {
			vf.ident[o] = id
			return o
		}
		return info.Uses[id]
	}
	for _, g := range fns {
		fo := muxFuncObj(g)
		if fo == nil {
			continue
		}
		vf.fnOf[fo] = g
		fd := g.Node.(*ast.FuncDecl)
		if fd.Recv != nil && len(fd.Recv.List) == 1 && len(fd.Recv.List[0].Names) == 1 {
			if o := objOf(fd.Recv.List[0].Names[0]); o != nil {
				vf.param[o] = muxParamRef{fo, -1}
			}
		}
		i := 0
		for _, fld := range fd.Type.Params.List {
			if len(fld.Names) == 0 {
				i++
			}
			for _, nm := range fld.Names {
				if o := objOf(nm); o != nil {
					vf.param[o] = muxParamRef{fo, i}
				}
				i++
			}
		}
		if fd.Type.Results != nil {
			named := true
			var ids []*ast.Ident
			for _, fld := range fd.Type.Results.List {
				if len(fld.Names) == 0 {
					named = false
				}
				for _, nm := range fld.Names {
					objOf(nm)
					ids = append(ids, nm)
				}
			}
			if named {
				vf.results[fo] = ids
			}
		}
	}
	addDef := func(l ast.Expr, d muxDefSite) {
		id, ok := ast.Unparen(l).(*ast.Ident)
		if !ok || id.Name == "_" {
			return
		}
		if o := objOf(id); o != nil {
			vf.defs[o] = append(vf.defs[o], d)
		}
	}
	for _, g := range fns {
		fo := muxFuncObj(g)
		lits := 0
		var stack []ast.Node
		ast.Inspect(g.Body, func(n ast.Node) bool {
			if n == nil {
				if _, ok := stack[len(stack)-1].(*ast.FuncLit); ok {
					lits--
				}
				stack = stack[:len(stack)-1]
				return true
			}
			stack = append(stack, n)
			switch x := n.(type) {
			case *ast.FuncLit:
				lits++
			case *ast.ReturnStmt:
				if lits == 0 && fo != nil {
					vf.rets[fo] = append(vf.rets[fo], x)
				}
			case *ast.AssignStmt:
				switch {
				case x.Tok != token.ASSIGN && x.Tok != token.DEFINE:
					for _, l := range x.Lhs {
						addDef(l, muxDefSite{other: true})
					}
				case len(x.Lhs) == len(x.Rhs):
					for i, l := range x.Lhs {
						addDef(l, muxDefSite{expr: x.Rhs[i]})
					}
				case len(x.Rhs) == 1:
					call, _ := ast.Unparen(x.Rhs[0]).(*ast.CallExpr)
					for i, l := range x.Lhs {
						if call != nil {
							addDef(l, muxDefSite{call: call, idx: i})
						} else {
							addDef(l, muxDefSite{other: true})
						}
					}
				}
			case *ast.ValueSpec:
				for i, nm := range x.Names {
					switch {
					case len(x.Values) == len(x.Names):
						addDef(nm, muxDefSite{expr: x.Values[i]})
					case len(x.Values) == 1:
						if call, ok := ast.Unparen(x.Values[0]).(*ast.CallExpr); ok {
							addDef(nm, muxDefSite{call: call, idx: i})
						} else {
							addDef(nm, muxDefSite{other: true})
						}
					case len(x.Values) == 0:
						addDef(nm, muxDefSite{zero: true})
					default:
						addDef(nm, muxDefSite{other: true})
					}
				}
			case *ast.IncDecStmt:
				addDef(x.X, muxDefSite{other: true})
			case *ast.RangeStmt:
				if x.Key != nil {
					addDef(x.Key, muxDefSite{rng: x, isKey: true})
				}
				if x.Value != nil {
					addDef(x.Value, muxDefSite{rng: x})
				}
			case *ast.CallExpr:
				if callee, ok := g.Callee(x).(*types.Func); ok {
					if _, in := vf.fnOf[callee.Origin()]; in {
						vf.sites[callee.Origin()] = append(vf.sites[callee.Origin()], reachCall{g, x})
					}
				}
			case *ast.Ident:
				objOf(x)
			}
			return true
		})
	}
	return vf
}

func (vf *muxFlow) obj(id *ast.Ident) types.Object {
	if o := vf.info.Uses[id]; o != nil {
		return o
	}
	return vf.info.Defs[id]
}

// singleDef returns the only definition of a local variable when it is a plain expression.
func (vf *muxFlow) singleDef(o types.Object) ast.Expr {
	if ds := vf.defs[o]; len(ds) == 1 && ds[0].expr != nil {
		if _, isParam := vf.param[o]; !isParam {
			return ds[0].expr
		}
	}
	return nil
}

// through resolves an identifier through single-definition locals to the defining expression.
func (vf *muxFlow) through(e ast.Expr) ast.Expr {
	for i := 0; i < 6; i++ {
		id, ok := ast.Unparen(e).(*ast.Ident)
		if !ok {
			break
		}
		d := vf.singleDef(vf.obj(id))
		if d == nil {
			break
		}
		e = d
	}
	return ast.Unparen(e)
}

// muxFlatVal is one possible origin of a value: an access path root.f1.f2 (root = variable), or a
// terminal expression.
type muxFlatVal struct {
	root   types.Object
	fields []*types.Var
	expr   ast.Expr
	zero   bool // the zero value of a declared variable (expr = the variable)
}

func (v muxFlatVal) last() *types.Var {
	if v.root == nil || len(v.fields) == 0 {
		return nil
	}
	return v.fields[len(v.fields)-1]
}

func (v muxFlatVal) isPath(root func(types.Object) bool, fields ...*types.Var) bool {
	if v.root == nil || !root(v.root) || len(v.fields) != len(fields) {
		return false
	}
	for i := range fields {
		if v.fields[i] != fields[i] {
			return false
		}
	}
	return true
}

func muxRefType(t types.Type) bool {
	if t == nil {
		return false
	}
	switch t.Underlying().(type) {
	case *types.Pointer, *types.Interface, *types.Map, *types.Slice, *types.Chan, *types.Signature:
		return true
	}
	return false
}

func (vf *muxFlow) flat(e ast.Expr) []muxFlatVal { return vf.flatRec(e, map[types.Object]bool{}, 0) }

func (vf *muxFlow) flatRec(e ast.Expr, seen map[types.Object]bool, depth int) []muxFlatVal {
	e = ast.Unparen(e)
	if e == nil || depth > 10 {
		return []muxFlatVal{{expr: e}}
	}
	switch x := e.(type) {
	case *ast.Ident:
		o := vf.obj(x)
		v, isVar := o.(*types.Var)
		if !isVar {
			return []muxFlatVal{{expr: e}}
		}
		if vf.stop[o] || seen[o] {
			return []muxFlatVal{{root: o}}
		}
		if v.Pkg() != nil && v.Parent() == v.Pkg().Scope() {
			return []muxFlatVal{{root: o}}
		}
		seen[o] = true
		defer delete(seen, o)
		var out []muxFlatVal
		if pr, ok := vf.param[o]; ok {
			sites := vf.sites[pr.fn]
			if len(sites) == 0 {
				return []muxFlatVal{{root: o}}
			}
			for _, s := range sites {
				var arg ast.Expr
				if pr.idx < 0 {
					if sel, ok := ast.Unparen(s.Call.Fun).(*ast.SelectorExpr); ok {
						arg = sel.X
					}
				} else if pr.idx < len(s.Call.Args) {
					arg = s.Call.Args[pr.idx]
				}
				if arg == nil {
					out = append(out, muxFlatVal{expr: e})
					continue
				}
				out = append(out, vf.flatRec(arg, seen, depth+1)...)
			}
			// a parameter may also be reassigned inside the function
		}
		ds := vf.defs[o]
		if len(ds) == 0 && len(out) == 0 {
			return []muxFlatVal{{root: o}}
		}
		for _, d := range ds {
			switch {
			case d.expr != nil:
				out = append(out, vf.flatRec(d.expr, seen, depth+1)...)
			case d.call != nil:
				out = append(out, vf.flatCall(d.call, d.idx, seen, depth+1)...)
			case d.rng != nil:
				out = append(out, muxFlatVal{root: o})
			case d.zero:
				out = append(out, muxFlatVal{expr: e, zero: true})
			default:
				out = append(out, muxFlatVal{expr: e})
			}
		}
		return out
	case *ast.SelectorExpr:
		if s := vf.info.Selections[x]; s != nil {
			fld, ok := s.Obj().(*types.Var)
			if !ok || s.Kind() != types.FieldVal {
				return []muxFlatVal{{expr: e}}
			}
			return vf.selectFrom(vf.flatRec(x.X, seen, depth+1), fld, e, seen, depth)
		}
		// qualified identifier
		if v, ok := vf.info.Uses[x.Sel].(*types.Var); ok && v.Pkg() != nil && v.Parent() == v.Pkg().Scope() {
			return []muxFlatVal{{root: v}}
		}
	case *ast.StarExpr:
		return vf.flatRec(x.X, seen, depth+1)
	case *ast.UnaryExpr:
		// &x denotes the same object as x for the purposes of following values (not &T{..})
		if x.Op == token.AND && muxLitOf(x) == nil {
			switch ast.Unparen(x.X).(type) {
			case *ast.Ident, *ast.SelectorExpr:
				return vf.flatRec(x.X, seen, depth+1)
			}
		}
	case *ast.CallExpr:
		if tv, ok := vf.info.Types[x.Fun]; ok && tv.IsType() && len(x.Args) == 1 {
			return vf.flatRec(x.Args[0], seen, depth+1)
		}
		return vf.flatCall(x, 0, seen, depth+1)
	}
	return []muxFlatVal{{expr: e}}
}

// selectFrom selects field fld from the given base values: an access path is extended, a
// composite literal yields the value given for the field (also through the literal of an embedded
// struct), a nil base is dropped.
func (vf *muxFlow) selectFrom(bases []muxFlatVal, fld *types.Var, e ast.Expr, seen map[types.Object]bool, depth int) []muxFlatVal {
	var out []muxFlatVal
	for _, v := range bases {
		if v.root != nil {
			nf := append(append([]*types.Var{}, v.fields...), fld)
			out = append(out, muxFlatVal{root: v.root, fields: nf})
			continue
		}
		if v.expr != nil && (vf.info.Types[v.expr].IsNil() || (v.zero && muxRefType(vf.info.TypeOf(v.expr)))) {
			continue // a nil base is never selected from
		}
		if cl := muxLitOf(v.expr); cl != nil && depth < 10 {
			found := false
			for _, el := range cl.Elts {
				kv, ok := el.(*ast.KeyValueExpr)
				if !ok {
					continue
				}
				k, _ := kv.Key.(*ast.Ident)
				if k == nil {
					continue
				}
				if k.Name == fld.Name() {
					out = append(out, vf.flatRec(kv.Value, seen, depth+1)...)
					found = true
					break
				}
			}
			if !found {
				// through the value given for an embedded struct
				if tv, ok := vf.info.Types[cl]; ok {
					if st, ok := tv.Type.Underlying().(*types.Struct); ok {
						for _, el := range cl.Elts {
							kv, ok := el.(*ast.KeyValueExpr)
							if !ok {
								continue
							}
							k, _ := kv.Key.(*ast.Ident)
							for i := 0; k != nil && i < st.NumFields(); i++ {
								if st.Field(i).Name() == k.Name && st.Field(i).Embedded() {
									if en := muxDerefNamed(st.Field(i).Type()); en != nil && len(muxStructFields(en, func(w *types.Var) bool { return w == fld })) > 0 {
										out = append(out, vf.selectFrom(vf.flatRec(kv.Value, seen, depth+1), fld, e, seen, depth+1)...)
										found = true
									}
								}
							}
						}
					}
				}
			}
			if found {
				continue
			}
		}
		out = append(out, muxFlatVal{expr: e})
	}
	return out
}

// muxLitOf is litOf for the value-flow code (a composite literal, possibly behind &).
func muxLitOf(e ast.Expr) *ast.CompositeLit {
	if e == nil {
		return nil
	}
	return litOf(e)
}

// flatCall: the origins of result idx of a call to a function of the set.
func (vf *muxFlow) flatCall(call *ast.CallExpr, idx int, seen map[types.Object]bool, depth int) []muxFlatVal {
	var callee *types.Func
	if len(vf.fns) > 0 {
		callee, _ = vf.fns[0].Callee(call).(*types.Func)
	}
	if callee == nil {
		return []muxFlatVal{{expr: call}}
	}
	callee = callee.Origin()
	if _, in := vf.fnOf[callee]; !in || depth > 10 {
		return []muxFlatVal{{expr: call}}
	}
	var out []muxFlatVal
	for _, ret := range vf.rets[callee] {
		switch {
		case len(ret.Results) == 0:
			if ids := vf.results[callee]; idx < len(ids) {
				out = append(out, vf.flatRec(ids[idx], seen, depth+1)...)
			} else {
				out = append(out, muxFlatVal{expr: call})
			}
		case len(ret.Results) == 1 && idx == 0:
			out = append(out, vf.flatRec(ret.Results[0], seen, depth+1)...)
		case len(ret.Results) == 1:
			// return h(..) of a multi-value function
			if inner, ok := ast.Unparen(ret.Results[0]).(*ast.CallExpr); ok {
				out = append(out, vf.flatCall(inner, idx, seen, depth+1)...)
			} else {
				out = append(out, muxFlatVal{expr: call})
			}
		case idx < len(ret.Results):
			out = append(out, vf.flatRec(ret.Results[idx], seen, depth+1)...)
		default:
			out = append(out, muxFlatVal{expr: call})
		}
	}
	if len(out) == 0 {
		return []muxFlatVal{{expr: call}}
	}
	return out
}

// allPaths reports whether every origin of e is the access path root.fields with an accepted root
// (nil literals are ignored when skipNil); at least one origin must be such a path.
func (vf *muxFlow) allPaths(e ast.Expr, skipNil bool, root func(types.Object) bool, fields ...*types.Var) bool {
	n := 0
	for _, v := range vf.flat(e) {
		if v.root == nil && skipNil && v.expr != nil && (vf.info.Types[v.expr].IsNil() || (v.zero && muxRefType(vf.info.TypeOf(v.expr)))) {
			continue
		}
		if !v.isPath(root, fields...) {
			return false
		}
		n++
	}
	return n > 0
}

// endsIn reports whether every origin of e is an access path whose last field is fld.
func (vf *muxFlow) endsIn(e ast.Expr, fld *types.Var) bool {
	vs := vf.flat(e)
	for _, v := range vs {
		if v.last() != fld {
			return false
		}
	}
	return len(vs) > 0 && fld != nil
}

// localCallee resolves a call through a local function variable defined once: a method value
// (`h := x.m; h(..)` → m, x) or a function literal.
func (vf *muxFlow) localCallee(call *ast.CallExpr) (fo *types.Func, recv ast.Expr, lit *ast.FuncLit) {
	id, ok := ast.Unparen(call.Fun).(*ast.Ident)
	if !ok {
		return nil, nil, nil
	}
	o, ok := vf.obj(id).(*types.Var)
	if !ok {
		return nil, nil, nil
	}
	d := vf.singleDef(o)
	if pr, isParam := vf.param[o]; isParam && d == nil && len(vf.defs[o]) == 0 && pr.idx >= 0 {
		// a func parameter of a helper called from one place (searchRules(rules, req, ip, remember)):
		// the operand of that call
		if sites := vf.sites[pr.fn]; len(sites) == 1 && pr.idx < len(sites[0].Call.Args) && !sites[0].Call.Ellipsis.IsValid() {
			d = sites[0].Call.Args[pr.idx]
		}
	}
	if d == nil {
		return nil, nil, nil
	}
	switch x := ast.Unparen(d).(type) {
	case *ast.FuncLit:
		return nil, nil, x
	case *ast.SelectorExpr:
		if s := vf.info.Selections[x]; s != nil && s.Kind() == types.MethodVal {
			fo, _ = s.Obj().(*types.Func)
			return fo, x.X, nil
		}
		if f, ok := vf.info.Uses[x.Sel].(*types.Func); ok {
			return f, nil, nil
		}
	case *ast.Ident:
		if f, ok := vf.obj(x).(*types.Func); ok {
			return f, nil, nil
		}
	}
	return nil, nil, nil
}

// ---------------------------------------------------------------------------------------
// Loops over a slice field: `for _, x := range X`, `for i := range X`, `for i := 0; i < len(X); i++`.

type muxLoop struct {
	fn      *flow.Func
	stmt    ast.Stmt
	over    ast.Expr
	idx     types.Object
	elems   map[types.Object]bool
	ordered bool
	name    string
	overP   func(x ast.Expr) bool
}

// isElem reports whether e denotes the current element of the loop: an element variable, or
// X[i] with the loop's index.
func (l *muxLoop) isElem(vf *muxFlow, e ast.Expr) bool {
	e = vf.through(e)
	if id := muxIdentOf(e); id != nil {
		return l.elems[vf.obj(id)]
	}
	if ie, ok := e.(*ast.IndexExpr); ok && l.idx != nil {
		if id := muxIdentOf(ie.Index); id != nil && vf.obj(id) == l.idx && l.overP != nil && l.overP(ie.X) {
			return true
		}
	}
	return false
}

func (l *muxLoop) isBody(b *cfg.Block) bool {
	return b.Stmt == l.stmt && (b.Kind == cfg.KindRangeBody || b.Kind == cfg.KindForBody)
}
func (l *muxLoop) isHead(b *cfg.Block) bool {
	return b.Stmt == l.stmt && (b.Kind == cfg.KindRangeLoop || b.Kind == cfg.KindForLoop)
}
func (l *muxLoop) isDone(b *cfg.Block) bool {
	return b.Stmt == l.stmt && (b.Kind == cfg.KindRangeDone || b.Kind == cfg.KindForDone)
}
func (l *muxLoop) body() *ast.BlockStmt {
	switch s := l.stmt.(type) {
	case *ast.RangeStmt:
		return s.Body
	case *ast.ForStmt:
		return s.Body
	}
	return nil
}

// track maintains the dynamic loop events: ev:cur:<name> is true from the entry of an iteration
// until the loop terminates normally (its head finds no further element); leaving the loop by
// break / return keeps it true: "the current element is still the one the facts speak about".
func (l *muxLoop) track(st *flow.State, b *cfg.Block) {
	switch {
	case l.isHead(b):
		st.Set("ev:head:"+l.name, flow.True)
	case l.isBody(b):
		st.Set("ev:head:"+l.name, flow.Unknown)
		st.Set("ev:cur:"+l.name, flow.True)
	case l.isDone(b):
		if st.Is("ev:head:"+l.name, flow.True) {
			st.Set("ev:cur:"+l.name, flow.Unknown)
		}
		st.Set("ev:head:"+l.name, flow.Unknown)
	}
}

func (l *muxLoop) current(st *flow.State) bool { return st.Is("ev:cur:"+l.name, flow.True) }

// lenOf returns X when e is len(X) (possibly through a local).
func (vf *muxFlow) lenOf(e ast.Expr) ast.Expr {
	call, ok := vf.through(e).(*ast.CallExpr)
	if !ok || len(call.Args) != 1 {
		return nil
	}
	if b, ok := vf.info.Uses[muxIdentOf(call.Fun)].(*types.Builtin); ok && b.Name() == "len" {
		return call.Args[0]
	}
	return nil
}

func muxIdentOf(e ast.Expr) *ast.Ident {
	id, _ := ast.Unparen(e).(*ast.Ident)
	return id
}

// loopsOver finds the loops of the function set that iterate over the slice field fld.
func (vf *muxFlow) loopsOver(fld *types.Var, name string) []*muxLoop {
	return vf.loops(name, func(x ast.Expr) bool { return vf.endsIn(x, fld) })
}

// loops finds the range / counting loops whose iterated slice satisfies over.
func (vf *muxFlow) loops(name string, over func(x ast.Expr) bool) []*muxLoop {
	var out []*muxLoop
	for _, g := range vf.fns {
		g := g
		ast.Inspect(g.Body, func(n ast.Node) bool {
			switch s := n.(type) {
			case *ast.RangeStmt:
				if !over(s.X) {
					return true
				}
				l := &muxLoop{fn: g, stmt: s, over: s.X, elems: map[types.Object]bool{}, ordered: true, name: name, overP: over}
				if id := muxIdentOf(s.Key); id != nil && id.Name != "_" {
					l.idx = vf.obj(id)
				}
				if id := muxIdentOf(s.Value); id != nil && id.Name != "_" {
					l.elems[vf.obj(id)] = true
				}
				out = append(out, l)
			case *ast.ForStmt:
				be, ok := ast.Unparen(s.Cond).(*ast.BinaryExpr)
				if !ok {
					return true
				}
				var ix, bound ast.Expr
				switch be.Op {
				case token.LSS:
					ix, bound = be.X, be.Y
				case token.GTR:
					ix, bound = be.Y, be.X
				default:
					return true
				}
				x := vf.lenOf(bound)
				id := muxIdentOf(ix)
				if x == nil || id == nil || !over(x) {
					return true
				}
				l := &muxLoop{fn: g, stmt: s, over: x, idx: vf.obj(id), elems: map[types.Object]bool{}, name: name, overP: over}
				// ordered: i := 0 ... i++
				if init, ok := s.Init.(*ast.AssignStmt); ok && len(init.Lhs) == 1 && len(init.Rhs) == 1 && muxIdentOf(init.Lhs[0]) != nil && vf.obj(muxIdentOf(init.Lhs[0])) == l.idx {
					if tv, ok := vf.info.Types[init.Rhs[0]]; ok && tv.Value != nil && tv.Value.ExactString() == "0" {
						if inc, ok := s.Post.(*ast.IncDecStmt); ok && inc.Tok == token.INC && muxIdentOf(inc.X) != nil && vf.obj(muxIdentOf(inc.X)) == l.idx {
							l.ordered = true
						}
					}
				}
				out = append(out, l)
			}
			return true
		})
	}
	for _, l := range out {
		if l.idx == nil {
			continue
		}
		// the index must not be touched in the body; element locals: v := X[i]
		ast.Inspect(l.body(), func(n ast.Node) bool {
			switch s := n.(type) {
			case *ast.AssignStmt:
				for i, lh := range s.Lhs {
					if id := muxIdentOf(lh); id != nil && vf.obj(id) == l.idx {
						l.ordered = false
					}
					if len(s.Lhs) == len(s.Rhs) {
						if ie, ok := ast.Unparen(s.Rhs[i]).(*ast.IndexExpr); ok && muxIdentOf(ie.Index) != nil && vf.obj(muxIdentOf(ie.Index)) == l.idx && over(ie.X) {
							if id := muxIdentOf(lh); id != nil && id.Name != "_" {
								l.elems[vf.obj(id)] = true
							}
						}
					}
				}
			case *ast.IncDecStmt:
				if id := muxIdentOf(s.X); id != nil && vf.obj(id) == l.idx {
					l.ordered = false
				}
			}
			return true
		})
	}
	for _, l := range out {
		for o := range l.elems {
			vf.stop[o] = true
		}
	}
	return out
}

// ---------------------------------------------------------------------------------------

// muxAllowSite is one evaluation of an IP filter: allowIP(filter, ip) or filter.Allow(ip).
type muxAllowSite struct {
	call   *ast.CallExpr
	filter ast.Expr
	direct bool // filter.Allow(ip): a nil filter is not covered by the call
}

// muxPutSite is one hand-over of a route to the cache.
type muxPutSite struct {
	call *ast.CallExpr
	val  ast.Expr
}

// searchInfo is the shared path-sensitive analysis of the router's search function
// (used by C01, C05 and C12).
type searchInfo struct {
	f    *flow.Func
	cons string
	res  *flow.Result
	ro   *muxRoles
	vf   *muxFlow
	fns  []*flow.Func

	outer *muxLoop // over instance.rules
	inner *muxLoop // over rule.paths

	hostMatch, pathMatch, methodMatch, headerMatch []*ast.CallExpr
	allow                                          map[string][]muxAllowSite // level -> IP filter evaluations
	puts                                           []muxPutSite
	gets                                           []*ast.CallExpr
	holders                                        map[types.Object]bool // variables assigned from the cache lookup
	cached                                         map[types.Object]bool // variables that may hold the cached route
	chainAllow                                     []*ast.CallExpr
	chainWrap                                      []*ast.CallExpr     // calls of a nil-safe wrapper around chain.Allow
	filterNil                                      map[string][]string // level -> keys of "the level's own filter is nil"
	hdrAtoms                                       []muxHdrAtom        // forms of "the path has no header conditions"

	routeCodes map[types.Object]string // package-level route vars -> status constant value

	pathLit   *muxSrc      // tracks the route variables that hold a fresh success route
	zeroFlags []*types.Var // bool fields of a state struct built empty by the search (see findZeroFlags)
}

type muxHdrAtom struct {
	key   string
	empty flow.Val // value of the fact that means "no headers"
}

// Event keys set by the search analysis.
const (
	evHdep    = "ev:hdep"       // a branch on the header matcher has been taken since entry
	evIPSrv   = "ev:ip:server"  // server-level IP test evaluated
	evIPRule  = "ev:ip:rule"    // current rule's IP test evaluated
	evIPPath  = "ev:ip:path"    // current path's IP test evaluated
	evIPEarly = "ev:ip:earlier" // a non-nil IP filter of an earlier rule/path was passed and the search moved on
	evHit     = "ev:hit"        // cache lookup returned a route
)

func (s *searchInfo) key(call *ast.CallExpr) string { return s.f.CallKey(call) }

// val reports the value of the first call in list whose outcome is known in st.
func (s *searchInfo) val(st *flow.State, list []*ast.CallExpr) flow.Val {
	for _, c := range list {
		if v := st.Get(s.key(c)); v != flow.Unknown {
			return v
		}
	}
	return flow.Unknown
}

// allowed reports the outcome of the IP filter evaluation of a level known in st.
func (s *searchInfo) allowed(st *flow.State, level string) flow.Val {
	if v := s.allowedNow(st, level); v != flow.Unknown || level != "server" {
		return v
	}
	// the verdict of the server's filter holds for the whole search; the engine drops the fact
	// when a variable the call mentions has its address taken (searchRule(&s, rule) after
	// allowIP(mi.ipFilter, s.ip)), the verdict is remembered when it is learned
	return st.Get("ev:srvAllowed")
}

func (s *searchInfo) allowedNow(st *flow.State, level string) flow.Val {
	for _, a := range s.allow[level] {
		if v := st.Get(s.key(a.call)); v != flow.Unknown {
			return v
		}
		if a.direct && a.filter != nil && st.Is(s.f.NilKey(a.filter), flow.True) {
			return flow.True
		}
	}
	return flow.Unknown
}

// noHeaders reports whether the current path is known to have no header conditions.
func (s *searchInfo) noHeaders(st *flow.State) bool {
	for _, a := range s.hdrAtoms {
		if st.Is(a.key, a.empty) {
			return true
		}
	}
	return false
}

func (s *searchInfo) nilFilterKnown(st *flow.State, level string) bool {
	for _, k := range s.filterNil[level] {
		if st.Is(k, flow.True) {
			return true
		}
	}
	return false
}

// routeVars collects package-level `&route{code: K}` variables of httpserver.
func routeVars(c *core.Ctx, ro *muxRoles) map[types.Object]string {
	out := map[types.Object]string{}
	pkg := c.Prog.Pkg(hs)
	if pkg == nil {
		return out
	}
	for _, file := range pkg.Syntax {
		for _, d := range file.Decls {
			gd, ok := d.(*ast.GenDecl)
			if !ok {
				continue
			}
			for _, sp := range gd.Specs {
				vs, ok := sp.(*ast.ValueSpec)
				if !ok {
					continue
				}
				for i, n := range vs.Names {
					if i >= len(vs.Values) {
						continue
					}
					cl := litOf(vs.Values[i])
					if cl == nil {
						continue
					}
					if tv, ok := pkg.TypesInfo.Types[cl]; !ok || !muxSameNamed(muxDerefNamed(tv.Type), ro.routeT) {
						continue
					}
					for _, el := range cl.Elts {
						if kv, ok := el.(*ast.KeyValueExpr); ok {
							if k, ok := kv.Key.(*ast.Ident); ok && k.Name == ro.codeF.Name() {
								if tv, ok := pkg.TypesInfo.Types[kv.Value]; ok && tv.Value != nil {
									out[pkg.TypesInfo.Defs[n]] = tv.Value.ExactString()
								}
							}
						}
					}
				}
			}
		}
	}
	return out
}

// muxSearchFn resolves the search function: the function returning a *route that is called on the
// request path (from mux.ServeHTTP) by a function which does not itself return a *route.
func muxSearchFn(c *core.Ctx, ro *muxRoles, rule string) *flow.Func {
	returnsRoute := func(fo *types.Func) bool {
		sig := fo.Type().(*types.Signature)
		return sig.Results().Len() >= 1 && muxIsPtrTo(sig.Results().At(0).Type(), ro.routeT)
	}
	entry := fnOpt(c, hs, "mux", "ServeHTTP")
	cands := map[*types.Func]*flow.Func{}
	if entry != nil {
		for _, g := range reach(entry, 4) {
			gfo := muxFuncObj(g)
			if gfo != nil && returnsRoute(gfo) {
				continue
			}
			for _, call := range calls(g.Body, true) {
				fo, ok := g.Callee(call).(*types.Func)
				if !ok || fo.Pkg() != g.Pkg.Types || !returnsRoute(fo) {
					continue
				}
				if fd := declOf(g.Pkg, fo); fd != nil {
					cands[fo.Origin()] = flow.NewFunc(g.Pkg, fd)
				}
			}
		}
	}
	if len(cands) == 1 {
		for _, g := range cands {
			c.Count("functions_analysed", 1)
			return g
		}
	}
	for fo, g := range cands {
		if fo.Name() == "search" {
			c.Count("functions_analysed", 1)
			return g
		}
	}
	if len(cands) == 0 {
		if f := fnOpt(c, hs, ro.instT.Obj().Name(), "search"); f != nil {
			return f
		}
	}
	c.Errorf("%s: anchor: cannot resolve the router's search function (a function returning *%s called on the path from mux.ServeHTTP; %d candidates)", rule, ro.routeT.Obj().Name(), len(cands))
	return nil
}

// muxOwnCalls reports whether the body of g itself (function literals included) contains a call
// satisfying pred.
func muxOwnCalls(g *flow.Func, pred func(call *ast.CallExpr) bool) bool {
	for _, call := range calls(g.Body, true) {
		if pred(call) {
			return true
		}
	}
	return false
}

// cacheMethodCall reports whether call invokes method name (Get / Add) of an lru cache: the
// receiver's static type is a golang-lru cache type, wherever the cache is kept (a field of the
// instance, a local it was read into, a field of a wrapper type).
func (ro *muxRoles) cacheMethodCall(info *types.Info, call *ast.CallExpr, name string) bool {
	sel, ok := ast.Unparen(call.Fun).(*ast.SelectorExpr)
	if !ok || sel.Sel.Name != name {
		return false
	}
	tv, ok := info.Types[sel.X]
	if ok && tv.Type != nil && ro.cacheF != nil && types.IsInterface(ro.cacheF.Type()) && types.Identical(tv.Type, ro.cacheF.Type()) {
		return true // the interface the (only ever lru-valued) cache field is declared with
	}
	return ok && tv.Type != nil && muxIsLRU(tv.Type)
}

// muxRequestMethodUsed reports whether the reach of g uses (calls, or takes as a method value) one
// of the given methods of httpprot.Request.
func muxRequestMethodUsed(g *flow.Func, names ...string) bool {
	found := false
	inspectReach(g, 2, func(h *flow.Func, n ast.Node) bool {
		if sel, ok := n.(*ast.SelectorExpr); ok && !found {
			if s := h.Info.Selections[sel]; s != nil {
				if fo, ok := s.Obj().(*types.Func); ok {
					full := strings.ReplaceAll(fo.FullName(), Mod, "")
					for _, nm := range names {
						if full == "(*pkg/protocols/httpprot.Request)."+nm {
							found = true
						}
					}
				}
			}
		}
		return !found
	})
	return found
}

// analyzeSearch resolves the roles inside the router's search function and runs the engine with
// the same-package helpers of the search interpreted in place.
func analyzeSearch(c *core.Ctx, rule string) *searchInfo {
	ro := muxRolesOf(c, rule)
	if ro == nil {
		return nil
	}
	f := muxSearchFn(c, ro, rule)
	if f == nil {
		return nil
	}
	s := &searchInfo{f: f, ro: ro, cons: muxFuncConstruct(f), allow: map[string][]muxAllowSite{}, holders: map[types.Object]bool{}, cached: map[types.Object]bool{}}
	// a form that is not followed: the matchers behind a classifier that returns an enum, the
	// search switching on its result (what a case knows about the single matchers is a disjunction
	// over the classifier's exits)
	// (the rules about the IP filters alone, R-C05-*, do not ask about the matchers)
	for _, g := range reach(f, 2) {
		if strings.HasPrefix(rule, "R-C05") {
			break
		}
		var at ast.Node
		g := g
		ast.Inspect(g.Body, func(n ast.Node) bool {
			sw, ok := n.(*ast.SwitchStmt)
			if !ok || sw.Tag == nil || at != nil {
				return at == nil
			}
			call, ok := ast.Unparen(sw.Tag).(*ast.CallExpr)
			if !ok {
				return true
			}
			fo, _ := g.Callee(call).(*types.Func)
			if fo == nil || fo.Pkg() != g.Pkg.Types {
				return true
			}
			sig := fo.Type().(*types.Signature)
			if sig.Results().Len() != 1 {
				return true
			}
			bt, isBasic := sig.Results().At(0).Type().Underlying().(*types.Basic)
			if _, named := sig.Results().At(0).Type().(*types.Named); !named || !isBasic || bt.Info()&types.IsInteger == 0 {
				return true
			}
			if fd := declOf(g.Pkg, fo); fd != nil && fd.Body != nil {
				h := funcOf(g.Pkg, fd)
				if muxOwnCalls(h, func(inner *ast.CallExpr) bool {
					io, ok := h.Callee(inner).(*types.Func)
					return ok && io.Pkg() == h.Pkg.Types
				}) {
					at = sw
				}
			}
			return true
		})
		if at != nil {
			c.Undecide(rule, s.cons+"|form of the search", pos(c, at), "the search switches on the result of a classifier that calls the matchers and returns an enum: what a case says about the single matchers is not followed")
			return nil
		}
	}
	s.routeCodes = routeVars(c, ro)
	if len(s.routeCodes) < 4 {
		c.Errorf("%s: anchor: expected the four package-level failure routes (404/403/405/400), found %d", rule, len(s.routeCodes))
	}
	info := f.Info

	// ---- roles of the same-package callees; the ones modelled by their outcome stay opaque
	opaque := map[types.Object]bool{}
	kind := map[types.Object]string{}
	for _, g := range reach(f, 4)[1:] {
		fo := muxFuncObj(g)
		if fo == nil {
			continue
		}
		sig := fo.Type().(*types.Signature)
		boolRes := sig.Results().Len() == 1 && types.Identical(sig.Results().At(0).Type(), types.Typ[types.Bool])
		reqParam := sig.Params().Len() == 1 && muxIsPtrTo(sig.Params().At(0).Type(), ro.requestT)
		rn := muxRecvNamed(fo)
		switch {
		case boolRes && reqParam && muxSameNamed(rn, ro.ruleT):
			kind[fo] = "host"
		case boolRes && reqParam && muxSameNamed(rn, ro.pathT):
			p, m, h := muxRequestMethodUsed(g, "Path"), muxRequestMethodUsed(g, "Method"), muxRequestMethodUsed(g, "HTTPHeader", "Header")
			switch {
			case h && !p && !m:
				kind[fo] = "headers"
			case m && !p && !h:
				kind[fo] = "method"
			case p && !m && !h:
				kind[fo] = "path"
			default:
				c.Errorf("%s: anchor: cannot tell which request attribute the matcher %s tests", rule, fo.Name())
				return nil
			}
		case boolRes && muxReachCalls(g, 2, func(h *flow.Func, call *ast.CallExpr) bool {
			return calleeIs(h, call, "(*pkg/util/ipfilter.IPFilters).Allow")
		}):
			kind[fo] = "chain" // a wrapper around chain.Allow (nil-safe test of a filter chain)
		case boolRes && muxReachCalls(g, 2, func(h *flow.Func, call *ast.CallExpr) bool {
			return calleeIs(h, call, "(*pkg/util/ipfilter.IPFilter).Allow")
		}):
			kind[fo] = "allow" // allowIP(filter, ip) or a method such as guard.allowsSelf(ip)
		case muxOwnCalls(g, func(call *ast.CallExpr) bool { return ro.cacheMethodCall(info, call, "Get") }):
			kind[fo] = "get"
		case muxOwnCalls(g, func(call *ast.CallExpr) bool { return ro.cacheMethodCall(info, call, "Add") }):
			kind[fo] = "put"
		}
		if kind[fo] != "" {
			opaque[fo] = true
		}
	}
	// a filter wrapper is modelled by its outcome only if its body is what the model assumes
	// (true for a nil filter / chain, otherwise the filter's verdict, possibly through another
	// accepted wrapper); else it is interpreted in place like any helper
	sound := map[types.Object]string{}
	for changed := true; changed; {
		changed = false
		for _, g := range reach(f, 4)[1:] {
			fo := muxFuncObj(g)
			if fo == nil || sound[fo] != "" || (kind[fo] != "allow" && kind[fo] != "chain") {
				continue
			}
			if muxWrapperSound(c, g, sound) {
				sound[fo] = kind[fo]
				changed = true
			}
		}
	}
	for fo, k := range kind {
		if (k == "allow" || k == "chain") && sound[fo] == "" {
			delete(kind, fo)
			delete(opaque, fo)
		}
	}
	s.fns = muxReach(f, 4, opaque)
	s.vf = newMuxFlow(s.fns)
	vf := s.vf

	// ---- the two loops
	outers, inners := vf.loopsOver(ro.rulesF, "outer"), vf.loopsOver(ro.pathsF, "inner")
	// a form that is not followed: a loop of the search inside a helper that calls a func parameter
	// in its body (a callback iterator: the body of the loop is a function literal of the caller
	// that assigns the caller's locals)
	for _, l := range append(append([]*muxLoop{}, outers...), inners...) {
		for _, g := range s.fns {
			fd, ok := g.Node.(*ast.FuncDecl)
			if !ok || g == f || fd.Body == nil || l.stmt.Pos() < fd.Body.Pos() || l.stmt.End() > fd.Body.End() {
				continue
			}
			var cb ast.Node
			ast.Inspect(l.stmt, func(n ast.Node) bool {
				if call, ok := n.(*ast.CallExpr); ok && cb == nil {
					if id, ok := ast.Unparen(call.Fun).(*ast.Ident); ok {
						if pr, isParam := vf.param[vf.obj(id)]; isParam && pr.idx >= 0 {
							if _, isFunc := vf.obj(id).Type().Underlying().(*types.Signature); isFunc {
								// handed the element itself (a callback that is given something else,
								// such as remember(&route{..}), is not an iterator's visit function)
								for _, a := range call.Args {
									if aid := muxIdentOf(a); aid != nil && l.elems[vf.obj(aid)] {
										cb = call
									}
								}
							}
						}
					}
				}
				return cb == nil
			})
			if cb != nil {
				c.Undecide(rule, s.cons+"|form of the search", pos(c, cb), "a loop of the search is inside a helper that hands each element to a func parameter (callback iterator): the loop body is a function literal assigning the caller's locals, this form is not followed")
				return nil
			}
		}
	}
	if len(outers) != 1 || len(inners) != 1 {
		c.Errorf("%s: anchor: the search does not consist of one loop over the rules and one loop over a rule's paths (found %d / %d, helpers of the search included)", rule, len(outers), len(inners))
		return nil
	}
	s.outer, s.inner = outers[0], inners[0]
	isOuterElem := func(o types.Object) bool { return s.outer.elems[o] }
	if !vf.allPaths(s.inner.over, false, isOuterElem, ro.pathsF) {
		// index form without an element variable: mi.rules[i].paths
		ok := false
		if sel, isSel := ast.Unparen(vf.through(s.inner.over)).(*ast.SelectorExpr); isSel {
			if ie, isIx := ast.Unparen(sel.X).(*ast.IndexExpr); isIx && muxIdentOf(ie.Index) != nil && vf.obj(muxIdentOf(ie.Index)) == s.outer.idx && vf.endsIn(ie.X, ro.rulesF) {
				ok = true
			}
		}
		if !ok {
			c.Errorf("%s: anchor: the loop over paths does not iterate over the paths of the current rule of the loop over rules", rule)
			return nil
		}
	}

	// ---- call sites by role
	for _, g := range s.fns {
		for _, call := range calls(g.Body, true) {
			fo, _ := g.Callee(call).(*types.Func)
			if fo != nil {
				fo = fo.Origin()
			}
			switch kind[fo] {
			case "host":
				s.hostMatch = append(s.hostMatch, call)
			case "path":
				s.pathMatch = append(s.pathMatch, call)
			case "method":
				s.methodMatch = append(s.methodMatch, call)
			case "headers":
				s.headerMatch = append(s.headerMatch, call)
			case "allow":
				// the operand that carries the filter: an argument of type *IPFilter, else the receiver
				var operand ast.Expr
				for _, a := range call.Args {
					if tv, ok := info.Types[a]; ok && muxIsPtrTo(tv.Type, ro.filterT) {
						operand = a
					}
				}
				site := muxAllowSite{call: call, filter: operand}
				if operand == nil {
					if sel, ok := ast.Unparen(call.Fun).(*ast.SelectorExpr); ok && info.Selections[sel] != nil {
						operand = sel.X
					}
				}
				if operand != nil {
					if lv := s.levelOf(operand); lv != "" {
						s.allow[lv] = append(s.allow[lv], site)
					}
				}
			case "chain":
				s.chainWrap = append(s.chainWrap, call)
			case "get":
				s.gets = append(s.gets, call)
			case "put":
				for _, a := range call.Args {
					if tv, ok := info.Types[a]; ok && muxIsPtrTo(tv.Type, ro.routeT) {
						s.puts = append(s.puts, muxPutSite{call, a})
					}
				}
			default:
				switch {
				case calleeIs(g, call, "(*pkg/util/ipfilter.IPFilters).Allow"):
					s.chainAllow = append(s.chainAllow, call)
				case calleeIs(g, call, "(*pkg/util/ipfilter.IPFilter).Allow"):
					if sel, ok := ast.Unparen(call.Fun).(*ast.SelectorExpr); ok {
						if lv := s.levelOf(sel.X); lv != "" {
							s.allow[lv] = append(s.allow[lv], muxAllowSite{call: call, filter: sel.X, direct: true})
						}
					}
				default:
					// a local closure / method value that hands its argument to the cache
					if p := s.closurePut(call, kind); p != nil {
						s.puts = append(s.puts, *p)
					}
				}
			}
		}
	}
	// "the own filter of the level is nil": every selection of a *IPFilter of that level
	s.filterNil = map[string][]string{}
	for _, g := range s.fns {
		ast.Inspect(g.Body, func(n ast.Node) bool {
			sel, ok := n.(*ast.SelectorExpr)
			if !ok {
				return true
			}
			if tv, ok := info.Types[sel]; ok && tv.Type != nil && muxIsPtrTo(tv.Type, ro.filterT) {
				if lv := s.levelOf(sel); lv != "" {
					s.filterNil[lv] = append(s.filterNil[lv], f.NilKey(sel))
				}
			}
			return true
		})
	}
	// holders of the lookup's result, and everything that may alias them
	for _, g := range s.fns {
		ast.Inspect(g.Body, func(n ast.Node) bool {
			if as, ok := n.(*ast.AssignStmt); ok && len(as.Rhs) == 1 && len(as.Lhs) >= 1 {
				for _, get := range s.gets {
					if ast.Unparen(as.Rhs[0]) == ast.Expr(get) {
						if id := muxIdentOf(as.Lhs[0]); id != nil {
							s.holders[vf.obj(id)] = true
						}
					}
				}
			}
			return true
		})
	}
	for o := range s.holders {
		s.cached[o] = true
	}
	for changed := true; changed; {
		changed = false
		for o := range vf.ident {
			if s.cached[o] {
				continue
			}
			if v, ok := o.(*types.Var); !ok || !muxIsPtrTo(v.Type(), ro.routeT) || v.IsField() {
				continue
			}
			for _, fv := range vf.flat(vf.ident[o]) {
				if fv.root != nil && len(fv.fields) == 0 && s.cached[fv.root] && fv.root != o {
					s.cached[o] = true
					changed = true
				}
			}
		}
	}

	// "the path has no header conditions": len(p.headers) == 0 and its spellings
	for _, g := range s.fns {
		ast.Inspect(g.Body, func(n ast.Node) bool {
			be, ok := n.(*ast.BinaryExpr)
			if !ok {
				return true
			}
			for i, side := range []ast.Expr{be.X, be.Y} {
				other := be.Y
				if i == 1 {
					other = be.X
				}
				if tv, ok := info.Types[other]; !ok || tv.Value == nil || tv.Value.ExactString() != "0" {
					continue
				}
				if x := vf.lenOf(side); x != nil && vf.endsIn(x, ro.headersF) {
					r := f.Render(ast.Unparen(side))
					s.hdrAtoms = append(s.hdrAtoms, muxHdrAtom{"eq:" + r + "==0", flow.True}, muxHdrAtom{"lt:0<" + r, flow.False})
				}
			}
			return true
		})
	}

	s.zeroFlags = s.findZeroFlags(c)
	bits := newMuxBitSets(f, s.fns)
	matcherCall := map[*ast.CallExpr]bool{}
	for _, list := range [][]*ast.CallExpr{s.hostMatch, s.pathMatch, s.methodMatch, s.headerMatch} {
		for _, call := range list {
			matcherCall[call] = true
		}
	}
	// which route variables currently hold a fresh success route for the current path: followed
	// through assignments, parameters and results of helpers interpreted in place
	s.pathLit = newMuxSrc(f, s.fns, "pl:", func(e ast.Expr) flow.Val {
		if s.isPathLit(e) {
			return flow.True
		}
		return flow.Unknown
	}, inlineSamePkg(f, muxObjList(opaque)...))
	res := muxAnalyzeInl(c, f, muxEnumSwitches(c, f, s.fns).config(s.pathLit.config(flow.Config{
		NoHavoc: true,
		OnCall: func(st *flow.State, call *ast.CallExpr, callee types.Object, deferred bool) {
			// a matcher reads the fields of its receiver first thing: where its call has returned,
			// the rule / path it was called on is not nil
			if matcherCall[call] {
				if sel, ok := ast.Unparen(call.Fun).(*ast.SelectorExpr); ok && muxIdentOf(sel.X) != nil {
					st.Set(f.NilKey(sel.X), flow.False)
				}
			}
		},
		OnInline: func(st *flow.State, ev *flow.InlineEvent) {
			// a failure route handed to a helper (cacheFailure(req, methodNotAllowed, flags)): the
			// parameter holds that package-level route while the helper runs
			if !ev.Enter {
				return
			}
			for i, p := range ev.Params {
				if p == nil || i >= len(ev.Args) {
					continue
				}
				s.clearRouteVar(st, p)
				aid := muxIdentOf(ev.Args[i])
				if aid == nil {
					continue
				}
				if code := s.routeCodes[info.Uses[aid]]; code != "" {
					st.Set("ev:rc:"+f.Render(p)+"="+code, flow.True)
				} else if code := s.codeByFact(st, aid); code != "" && f.Render(aid) != f.Render(p) {
					st.Set("ev:rc:"+f.Render(p)+"="+code, flow.True)
				}
			}
		},
		OnNode: func(st *flow.State, n ast.Node) {
			bits.onNode(st, n)
			if as, ok := n.(*ast.AssignStmt); ok {
				for _, l := range as.Lhs {
					if id, isID := ast.Unparen(l).(*ast.Ident); isID {
						s.clearRouteVar(st, id)
					}
				}
			}
			if as, ok := n.(*ast.AssignStmt); ok && len(s.zeroFlags) > 0 {
				for _, l := range as.Lhs {
					if sel, ok := ast.Unparen(l).(*ast.SelectorExpr); ok {
						if sl := info.Selections[sel]; sl != nil {
							for _, zf := range s.zeroFlags {
								if sl.Obj() != zf {
									continue
								}
								// the flag's value is tracked per field (there is one state struct per search);
								// what the engine knows about the flag under other spellings of the struct
								// (the caller's name for it while a helper assigns through its parameter)
								// is stale from here on
								for _, fact := range st.Facts() {
									if (strings.HasPrefix(fact, "v:") || strings.HasPrefix(fact, "expr:")) && strings.HasSuffix(fact[:len(fact)-2], "."+zf.Name()) {
										st.Set(fact[:len(fact)-2], flow.Unknown)
									}
								}
								st.Set("ev:flag:"+zf.Name(), flow.Unknown)
								st.Set("ev:flagany:"+zf.Name(), flow.True)
								if len(as.Lhs) == len(as.Rhs) {
									for i := range as.Lhs {
										if as.Lhs[i] == l {
											if tv, ok := info.Types[as.Rhs[i]]; ok && tv.Value != nil {
												st.Set("ev:flagany:"+zf.Name(), flow.Unknown)
												if tv.Value.ExactString() == "true" {
													st.Set("ev:flag:"+zf.Name(), flow.True)
												} else {
													st.Set("ev:flag:"+zf.Name(), flow.False)
												}
											}
										}
									}
								}
							}
						}
					}
				}
			}
		},
		OnBlock: func(st *flow.State, b *cfg.Block) {
			if s.outer.isBody(b) {
				if st.Is(evIPRule, flow.True) && !s.nilFilterKnown(st, "rule") {
					st.Set(evIPEarly, flow.True)
				}
				st.Set(evIPRule, flow.Unknown)
				if st.Is(evIPPath, flow.True) && !s.nilFilterKnown(st, "path") {
					st.Set(evIPEarly, flow.True)
				}
				st.Set(evIPPath, flow.Unknown)
			}
			if s.inner.isBody(b) {
				if st.Is(evIPPath, flow.True) && !s.nilFilterKnown(st, "path") {
					st.Set(evIPEarly, flow.True)
				}
				st.Set(evIPPath, flow.Unknown)
			}
			s.outer.track(st, b)
			s.inner.track(st, b)
		},
		AfterAssume: func(st *flow.State, cond ast.Expr, outcome bool) {
			if s.guessedFlag(st) {
				st.Set("ev:infeasible", flow.True)
			}
			if v, known := bits.eval(st, cond); known && v != outcome {
				// the bit set the search keeps its flags in says otherwise
				st.Set("ev:infeasible", flow.True)
			}
			if st.Is(evHit, flow.True) {
				if p, d := s.chainPassedNow(st); p || d {
					if p {
						st.Set("ev:chain:passed", flow.True)
					}
					if d {
						st.Set("ev:chain:denied", flow.True)
					}
				}
			}
			if s.val(st, s.headerMatch) != flow.Unknown {
				st.Set(evHdep, flow.True)
			}
			if v := s.allowedNow(st, "server"); v != flow.Unknown {
				st.Set(evIPSrv, flow.True)
				st.Set("ev:srvAllowed", v)
			}
			if s.allowed(st, "rule") != flow.Unknown {
				st.Set(evIPRule, flow.True)
			}
			if s.allowed(st, "path") != flow.Unknown {
				st.Set(evIPPath, flow.True)
			}
			if len(s.holders) > 0 && st.Get(evHit) == flow.Unknown {
				// first nil test of the variable assigned from the cache lookup
				ast.Inspect(cond, func(n ast.Node) bool {
					if id, ok := n.(*ast.Ident); ok && s.holders[info.Uses[id]] {
						switch st.Get(f.NilKey(id)) {
						case flow.True:
							st.Set(evHit, flow.False)
						case flow.False:
							st.Set(evHit, flow.True)
						}
					}
					return true
				})
			}
			// sticky mismatch events (C01): independent of how the implementation stores its flags
			pm, mm, hm := s.val(st, s.pathMatch), s.val(st, s.methodMatch), s.val(st, s.headerMatch)
			if s.val(st, s.hostMatch) == flow.False {
				return
			}
			if pm == flow.True && mm == flow.False {
				st.Set(evMethMis, flow.True)
			}
			if pm == flow.True && mm == flow.True && hm == flow.False && !s.noHeaders(st) {
				st.Set(evHdrMis, flow.True)
			}
		},
	})), muxObjList(opaque)...)
	if res == nil {
		return nil
	}
	if len(s.zeroFlags) > 0 || bits.any() {
		// drop the states in which the engine guessed a never-assigned flag of the freshly built
		// state struct to be true (it does not know the zero values of a composite literal's fields)
		keep := func(sts []*flow.State) []*flow.State {
			var out []*flow.State
			for _, st := range sts {
				if !st.Is("ev:infeasible", flow.True) && !s.guessedFlag(st) {
					out = append(out, st)
				}
			}
			return out
		}
		for n, sts := range res.At {
			res.At[n] = keep(sts)
		}
		var exits []*flow.Exit
		for _, ex := range res.Exits {
			if !ex.State.Is("ev:infeasible", flow.True) && !s.guessedFlag(ex.State) {
				exits = append(exits, ex)
			}
		}
		res.Exits = exits
	}
	s.res = res
	return s
}

// findZeroFlags finds the bool fields F of a same-package struct type T that the search uses as
// its own scratch state: every value of type T whose F the search reads or writes is built by the
// one composite literal of T in the search (`st := &searchState{}`, outside any loop, F not set),
// F is only written by plain assignments and its address is never taken. Such a flag is false
// until the search assigns it. The engine does not know the zero values of a literal's fields and
// keys a bool field test as `expr:x.F` but an assignment as `v:x.F` (reported), so the analysis
// tracks these flags itself (ev:flag:F) and drops the states whose engine facts contradict it.
func (s *searchInfo) findZeroFlags(c *core.Ctx) []*types.Var {
	info := s.f.Info
	cands := map[*types.Var]bool{}
	bad := map[*types.Var]bool{}
	sites := map[ast.Node]bool{} // creation sites: the composite literal, or the identifier of `var st T`
	created := func(v muxFlatVal, fld *types.Var) bool {
		if v.root != nil || v.expr == nil {
			return false
		}
		if v.zero {
			// `var st searchState`: all fields zero
			if id := muxIdentOf(v.expr); id != nil {
				if def := s.vf.ident[s.vf.obj(id)]; def != nil {
					if _, isStruct := s.vf.obj(id).Type().Underlying().(*types.Struct); isStruct {
						sites[def] = true
						return true
					}
				}
			}
			return false
		}
		cl := litOf(v.expr)
		if cl == nil {
			return false
		}
		for _, el := range cl.Elts {
			kv, ok := el.(*ast.KeyValueExpr)
			if !ok {
				return false // positional literal
			}
			if k, ok := kv.Key.(*ast.Ident); ok && k.Name == fld.Name() {
				return false
			}
		}
		sites[cl] = true
		return true
	}
	for _, g := range s.fns {
		ast.Inspect(g.Body, func(n ast.Node) bool {
			sel, ok := n.(*ast.SelectorExpr)
			if !ok {
				return true
			}
			sl := info.Selections[sel]
			if sl == nil || sl.Kind() != types.FieldVal {
				return true
			}
			fld, ok := sl.Obj().(*types.Var)
			if !ok || fld.Pkg() != s.f.Pkg.Types || !types.Identical(fld.Type(), types.Typ[types.Bool]) {
				return true
			}
			cands[fld] = true
			vs := s.vf.flat(sel.X)
			if len(vs) == 0 {
				bad[fld] = true
			}
			for _, v := range vs {
				if !created(v, fld) {
					bad[fld] = true
				}
			}
			return true
		})
	}
	if len(cands) == 0 {
		return nil
	}
	// one creation site, executed once per search
	if len(sites) != 1 {
		return nil
	}
	for site := range sites {
		for _, g := range s.fns {
			if contains(g.Body, site) && len(enclosingLoops(g.Body, site)) > 0 {
				return nil
			}
		}
	}
	// address of a flag taken anywhere in the package?
	for _, file := range s.f.Pkg.Syntax {
		ast.Inspect(file, func(n ast.Node) bool {
			if ue, ok := n.(*ast.UnaryExpr); ok && ue.Op == token.AND {
				if sel, ok := ast.Unparen(ue.X).(*ast.SelectorExpr); ok {
					if sl := info.Selections[sel]; sl != nil {
						if fld, ok := sl.Obj().(*types.Var); ok && cands[fld] {
							bad[fld] = true
						}
					}
				}
			}
			return true
		})
	}
	var out []*types.Var
	for fld := range cands {
		if !bad[fld] {
			out = append(out, fld)
		}
	}
	return out
}

// guessedFlag: an engine fact about a zero flag contradicts the flag's tracked value.
func (s *searchInfo) guessedFlag(st *flow.State) bool {
	if len(s.zeroFlags) == 0 {
		return false
	}
	for _, fact := range st.Facts() {
		if !strings.HasPrefix(fact, "v:") && !strings.HasPrefix(fact, "expr:") {
			continue
		}
		for _, zf := range s.zeroFlags {
			if !strings.HasSuffix(fact[:len(fact)-2], "."+zf.Name()) || st.Is("ev:flagany:"+zf.Name(), flow.True) {
				continue
			}
			want := st.Is("ev:flag:"+zf.Name(), flow.True) // never assigned = false
			if (fact[len(fact)-1] == 'T') != want {
				return true
			}
		}
	}
	return false
}

func muxObjList(m map[types.Object]bool) []types.Object {
	var out []types.Object
	for o := range m {
		out = append(out, o)
	}
	return out
}

// levelOf classifies an expression that denotes a level's IP filter (x.ipFilter) or the level
// itself (the receiver of x.allowsSelf(ip)) by the type it hangs off: the instance, a rule or a
// path — also when the filter fields live in a struct embedded in the three types.
func (s *searchInfo) levelOf(e ast.Expr) string {
	byType := func(t types.Type) string {
		switch n := muxDerefNamed(t); {
		case muxSameNamed(n, s.ro.instT):
			return "server"
		case muxSameNamed(n, s.ro.ruleT):
			return "rule"
		case muxSameNamed(n, s.ro.pathT):
			return "path"
		}
		return ""
	}
	lv := ""
	vs := s.vf.flat(e)
	for _, v := range vs {
		if v.root == nil {
			return ""
		}
		l := ""
		for i := len(v.fields) - 1; i >= 0 && l == ""; i-- {
			l = byType(v.fields[i].Type())
		}
		if l == "" {
			l = byType(v.root.Type())
		}
		if l == "" || (lv != "" && lv != l) {
			return ""
		}
		lv = l
	}
	return lv
}

// closurePut recognises `put := func(r *route) { mi.putRouteToCache(req, r) }; put(x)` and
// `put := mi.putRouteToCache; put(req, x)`.
func (s *searchInfo) closurePut(call *ast.CallExpr, kind map[types.Object]string) *muxPutSite {
	fo, _, lit := s.vf.localCallee(call)
	info := s.f.Info
	if fo != nil && kind[fo.Origin()] == "put" {
		for _, a := range call.Args {
			if tv, ok := info.Types[a]; ok && muxIsPtrTo(tv.Type, s.ro.routeT) {
				return &muxPutSite{call, a}
			}
		}
	}
	if lit == nil {
		return nil
	}
	// the literal's only effect must be the put of one of its parameters
	var params []types.Object
	for _, fld := range lit.Type.Params.List {
		for _, nm := range fld.Names {
			params = append(params, info.Defs[nm])
		}
	}
	for _, inner := range calls(lit.Body, false) {
		ifo, _ := s.f.Callee(inner).(*types.Func)
		if ifo == nil || kind[ifo.Origin()] != "put" {
			continue
		}
		for _, a := range inner.Args {
			if id := muxIdentOf(a); id != nil {
				for i, p := range params {
					if info.Uses[id] == p && i < len(call.Args) && muxIsPtrTo(p.Type(), s.ro.routeT) {
						return &muxPutSite{call, call.Args[i]}
					}
				}
			}
		}
	}
	return nil
}

// isCurPath reports whether e denotes the current element of the loop over paths.
func (s *searchInfo) isCurPath(e ast.Expr) bool {
	return s.vf.allPaths(e, true, func(o types.Object) bool { return s.inner.elems[o] })
}

// isGet reports whether e is one of the cache lookup calls.
func (s *searchInfo) isGet(e ast.Expr) bool {
	for _, g := range s.gets {
		if ast.Unparen(e) == ast.Expr(g) {
			return true
		}
	}
	return false
}

// routeExprKind classifies an expression of type *route: "path" (a fresh success route for the
// current path), the status code of a package-level failure route, "cached" (the route found in
// the cache), or "" if unknown / ambiguous. A variable that holds the lookup result and is reused
// later is read according to hit: on a hit path it is the cached route, on a miss path the lookup
// result is nil and the other origins count.
func (s *searchInfo) routeExprKind(e ast.Expr, hit bool) string {
	vs := s.vf.flat(e)
	isCached := func(v muxFlatVal) bool {
		return (v.root != nil && len(v.fields) == 0 && s.cached[v.root]) || (v.root == nil && v.expr != nil && s.isGet(v.expr))
	}
	anyCached := false
	for _, v := range vs {
		if isCached(v) {
			anyCached = true
		}
	}
	if hit && anyCached {
		return "cached"
	}
	kind := ""
	set := func(k string) {
		if kind != "" && kind != k {
			kind = "?"
			return
		}
		kind = k
	}
	for _, v := range vs {
		switch {
		case isCached(v):
			continue // nil on a miss path
		case v.root != nil && len(v.fields) == 0 && s.routeCodes[v.root] != "":
			set(s.routeCodes[v.root])
		case v.root == nil && v.expr != nil:
			if s.f.Info.Types[v.expr].IsNil() || v.zero {
				continue
			}
			if s.isPathLit(v.expr) {
				set("path")
			} else {
				set("?")
			}
		default:
			set("?")
		}
	}
	if kind == "?" {
		return ""
	}
	return kind
}

// isPathLit: &route{code: 0, path: <current path>} (code may be omitted).
func (s *searchInfo) isPathLit(e ast.Expr) bool {
	cl := litOf(e)
	if cl == nil {
		return false
	}
	if tv, ok := s.f.Info.Types[cl]; !ok || !muxSameNamed(muxDerefNamed(tv.Type), s.ro.routeT) {
		return false
	}
	okPath, okCode := false, true
	for _, el := range cl.Elts {
		kv, ok := el.(*ast.KeyValueExpr)
		if !ok {
			return false
		}
		k, _ := kv.Key.(*ast.Ident)
		if k == nil {
			return false
		}
		switch k.Name {
		case s.ro.rpathF.Name():
			okPath = s.isCurPath(kv.Value)
		case s.ro.codeF.Name():
			if tv, ok := s.f.Info.Types[kv.Value]; !ok || tv.Value == nil || tv.Value.ExactString() != "0" {
				okCode = false
			}
		}
	}
	return okPath && okCode
}

// putKindIn classifies the value handed to a put in a given state: "path", a status code, or "".
func (s *searchInfo) putKindIn(st *flow.State, put muxPutSite) string {
	if k := s.routeExprKind(put.val, false); k != "" {
		return k
	}
	if id := muxIdentOf(put.val); id != nil && s.pathLit != nil && s.pathLit.get(st, id) == flow.True {
		return "path"
	}
	// a variable known (in this state) to equal one of the package-level failure routes
	return s.codeByFact(st, put.val)
}

// codeByFact: the expression is a variable known in st to equal a package-level failure route.
func (s *searchInfo) codeByFact(st *flow.State, e ast.Expr) string {
	id := muxIdentOf(e)
	if id == nil {
		return ""
	}
	for g, code := range s.routeCodes {
		if st.Is("eq:"+s.f.Render(id)+"==@"+g.Pkg().Path()+"."+g.Name(), flow.True) {
			return code
		}
		if st.Is("ev:rc:"+s.f.Render(id)+"="+code, flow.True) {
			return code
		}
	}
	return ""
}

// clearRouteVar forgets which failure route a variable was bound to (it is assigned / bound anew).
func (s *searchInfo) clearRouteVar(st *flow.State, id *ast.Ident) {
	pre := "ev:rc:" + s.f.Render(id) + "="
	for _, fact := range st.Facts() {
		if strings.HasPrefix(fact, pre) {
			st.Set(fact[:len(fact)-2], flow.Unknown)
		}
	}
}

// muxRetExpr returns the expression whose value an exit returns (through inlined tail calls and
// named results), nil if there is none.
func muxRetExpr(f *flow.Func, vf *muxFlow, ex *flow.Exit) ast.Expr {
	ret := ex.Ret()
	if ret == nil {
		return nil
	}
	if len(ret.Results) == 1 {
		return ast.Unparen(ret.Results[0])
	}
	if len(ret.Results) == 0 && vf != nil {
		// bare return: the named result of the function the statement belongs to
		for fo, rs := range vf.rets {
			for _, r := range rs {
				if r == ret {
					if ids := vf.results[fo]; len(ids) == 1 {
						return ids[0]
					}
				}
			}
		}
	}
	return nil
}

// exitKind classifies what an exit of the search returns: "path" (success route of the current
// path), a status code, "cached", or "".
func (s *searchInfo) exitKind(ex *flow.Exit) string {
	e := muxRetExpr(s.f, s.vf, ex)
	if e == nil {
		return ""
	}
	if code := s.codeByFact(ex.State, e); code != "" {
		return code
	}
	if k := s.routeExprKind(e, ex.State.Is(evHit, flow.True)); k != "" {
		return k
	}
	if id := muxIdentOf(e); id != nil && s.pathLit != nil && s.pathLit.get(ex.State, id) == flow.True {
		return "path"
	}
	return ""
}

// cachedCodeZero reports what is known in st about "the cached route is a success route"
// (code == 0), looking at every variable that may hold the cached route.
func (s *searchInfo) cachedCodeZero(st *flow.State) flow.Val {
	for o := range s.cached {
		id := s.vf.ident[o]
		if id == nil {
			continue
		}
		if v := st.Get("eq:" + s.f.Render(id) + "." + s.ro.codeF.Name() + "==0"); v != flow.Unknown {
			return v
		}
	}
	return flow.Unknown
}

// chainPassed reports whether st has re-validated the cached path's filter chain: chain.Allow
// returned true, or the chain is nil.
func (s *searchInfo) chainPassed(st *flow.State) (passed, denied bool) {
	// what was established before the exit: with a named result the facts about the cached
	// route's variable die when `return forbidden` assigns it
	passed, denied = st.Is("ev:chain:passed", flow.True), st.Is("ev:chain:denied", flow.True)
	p2, d2 := s.chainPassedNow(st)
	return passed || p2, denied || d2
}

func (s *searchInfo) chainPassedNow(st *flow.State) (passed, denied bool) {
	for _, cw := range s.chainWrap {
		if !s.chainWrapOfCached(cw) {
			continue
		}
		switch st.Get(s.f.CallKey(cw)) {
		case flow.True:
			passed = true
		case flow.False:
			denied = true
		}
	}
	for _, ca := range s.chainAllow {
		if !s.chainOfCached(ca) {
			continue
		}
		switch st.Get(s.f.CallKey(ca)) {
		case flow.True:
			passed = true
		case flow.False:
			denied = true
		}
		if sel, ok := ast.Unparen(ca.Fun).(*ast.SelectorExpr); ok {
			if st.Is(s.f.NilKey(sel.X), flow.True) {
				passed = true
			}
			// the chain read into a local / tested through another spelling
			for _, fact := range st.Facts() {
				if strings.HasPrefix(fact, "nil:") && strings.HasSuffix(fact, "."+s.ro.pathChainF.Name()+"=T") && s.nilFactOfCached(fact) {
					passed = true
				}
			}
		}
	}
	return
}

// chainOfCached: the receiver of chain.Allow is the filter chain of the cached route's path
// (unresolvable receivers are given the benefit of the doubt).
func (s *searchInfo) chainOfCached(ca *ast.CallExpr) bool {
	sel, ok := ast.Unparen(ca.Fun).(*ast.SelectorExpr)
	if !ok {
		return true
	}
	vs := s.vf.flat(sel.X)
	for _, v := range vs {
		if v.root == nil {
			return true // an origin that cannot be followed (e.g. the lookup call itself)
		}
		if s.cached[v.root] && len(v.fields) >= 2 && v.fields[0] == s.ro.rpathF && v.fields[len(v.fields)-1] == s.ro.pathChainF {
			return true
		}
	}
	return len(vs) == 0
}

// chainWrapOfCached: the wrapper around chain.Allow is applied to the cached route's path (or to
// its chain); unresolvable operands are given the benefit of the doubt.
func (s *searchInfo) chainWrapOfCached(cw *ast.CallExpr) bool {
	var operands []ast.Expr
	if sel, ok := ast.Unparen(cw.Fun).(*ast.SelectorExpr); ok && s.f.Info.Selections[sel] != nil {
		operands = append(operands, sel.X)
	}
	operands = append(operands, cw.Args...)
	resolvable := false
	for _, op := range operands {
		for _, v := range s.vf.flat(op) {
			if v.root == nil {
				if tv, ok := s.f.Info.Types[op]; ok && tv.Type != nil && muxDerefNamed(tv.Type) != nil && !types.Identical(tv.Type, types.Typ[types.String]) {
					return true // an origin that cannot be followed
				}
				continue
			}
			if !muxIsPtrTo(v.root.Type(), s.ro.routeT) {
				continue
			}
			resolvable = true
			if s.cached[v.root] && len(v.fields) >= 1 && v.fields[0] == s.ro.rpathF {
				return true
			}
		}
	}
	return !resolvable
}

func (s *searchInfo) nilFactOfCached(fact string) bool {
	for o := range s.cached {
		if id := s.vf.ident[o]; id != nil && strings.HasPrefix(fact, "nil:"+s.f.Render(id)+"."+s.ro.rpathF.Name()+".") {
			return true
		}
	}
	return false
}

// ---------------------------------------------------------------------------------------
// muxAnalyzeInl runs the engine with the same-package callees interpreted in place (except the
// opaque ones). (It used to carry a work-around for a defect of flow/inline.go that has been
// repaired in the engine; the work-around mirrored facts across the call and could resurrect
// facts about other parameters, so it is gone.)
func muxAnalyzeInl(c *core.Ctx, f *flow.Func, conf flow.Config, opaque ...types.Object) *flow.Result {
	conf.Inline = inlineSamePkg(f, opaque...)
	return analyze(c, f, conf)
}

// muxWrapperSound checks a nil-safe wrapper around filter.Allow / chain.Allow (allowIP,
// guard.allowsSelf, guard.allowsChain): every exit returns the verdict of the wrapped call (or of
// another wrapper already accepted), true only with the filter known nil or the verdict true, false
// only with the verdict false.
func muxWrapperSound(c *core.Ctx, g *flow.Func, kind map[types.Object]string) bool {
	var inner []*ast.CallExpr
	for _, call := range calls(g.Body, false) {
		switch {
		case calleeIs(g, call, "(*pkg/util/ipfilter.IPFilter).Allow"), calleeIs(g, call, "(*pkg/util/ipfilter.IPFilters).Allow"):
			inner = append(inner, call)
		default:
			if fo, ok := g.Callee(call).(*types.Func); ok && (kind[fo.Origin()] == "allow" || kind[fo.Origin()] == "chain") && fo.Origin() != muxFuncObj(g) {
				inner = append(inner, call)
			}
		}
	}
	if len(inner) != 1 {
		return false
	}
	verdict := inner[0]
	var opaque []types.Object
	if fo, ok := g.Callee(verdict).(*types.Func); ok {
		opaque = append(opaque, fo.Origin())
	}
	res, err := flow.Analyze(g, flow.Config{NoHavoc: true, Inline: inlineSamePkg(g, opaque...)})
	if err != nil || res == nil {
		return false
	}
	vf := newMuxFlow([]*flow.Func{g})
	k := g.CallKey(verdict)
	nilKnown := func(st *flow.State) bool {
		if sel, ok := ast.Unparen(verdict.Fun).(*ast.SelectorExpr); ok && g.Info.Selections[sel] != nil && st.Is(g.NilKey(sel.X), flow.True) {
			return true
		}
		for _, a := range verdict.Args {
			if tv, ok := g.Info.Types[a]; ok && muxRefType(tv.Type) && st.Is(g.NilKey(a), flow.True) {
				return true
			}
		}
		return false
	}
	n := 0
	for _, ex := range res.Exits {
		if ex.Kind != flow.ExitReturn {
			continue
		}
		r := muxRetExpr(g, vf, ex)
		if r == nil {
			return false
		}
		n++
		if ast.Unparen(r) == ast.Expr(verdict) {
			continue
		}
		val, known := false, false
		if tv, ok := g.Info.Types[r]; ok && tv.Value != nil {
			val, known = tv.Value.ExactString() == "true", true
		} else if id := muxIdentOf(r); id != nil && ex.State.Get(g.VarKey(id)) != flow.Unknown {
			val, known = ex.State.Is(g.VarKey(id), flow.True), true
		}
		switch {
		case !known:
			return false
		case val && !(nilKnown(ex.State) || ex.State.Is(k, flow.True)):
			return false
		case !val && !ex.State.Is(k, flow.False):
			return false
		}
	}
	return n > 0
}

// ---------------------------------------------------------------------------------------
// A classifier followed by a switch: `switch payloadKindOf(contentLength, limit) { case payloadStream: .. }`.
// The engine evaluates the tag once as an opaque call. A classifier that is a pure function of its
// operands (no calls, no stores, every return a named constant) is analysed on its own; when a
// case of the switch is assumed, the exits of the classifier that return another constant (resp.
// that constant, when the case is refused) are ruled out and the facts about the operands that
// all remaining exits share are learned in the caller's vocabulary.

type muxEnumSwitch struct {
	id    string
	call  *ast.CallExpr         // the tag
	exits []map[string]flow.Val // per exit of the classifier: translated facts
	ks    []types.Object        // per exit: the constant returned
}

type muxEnumSwitchSet struct {
	caseOf map[ast.Expr]*muxEnumSwitch
	tagOf  map[*ast.CallExpr]*muxEnumSwitch
	info   *types.Info
}

func muxEnumSwitches(c *core.Ctx, f *flow.Func, fns []*flow.Func, withCalls ...bool) *muxEnumSwitchSet {
	return muxEnumSwitchesX(c, f, fns, len(withCalls) > 0 && withCalls[0])
}

func muxEnumSwitchesX(c *core.Ctx, f *flow.Func, fns []*flow.Func, withCalls bool) *muxEnumSwitchSet {
	set := &muxEnumSwitchSet{caseOf: map[ast.Expr]*muxEnumSwitch{}, tagOf: map[*ast.CallExpr]*muxEnumSwitch{}, info: f.Info}
	for _, h := range fns {
		h := h
		ast.Inspect(h.Body, func(n ast.Node) bool {
			sw, ok := n.(*ast.SwitchStmt)
			if !ok || sw.Tag == nil {
				return true
			}
			call, ok := ast.Unparen(sw.Tag).(*ast.CallExpr)
			if !ok || call.Ellipsis.IsValid() {
				return true
			}
			fo, _ := h.Callee(call).(*types.Func)
			if fo == nil || fo.Pkg() != h.Pkg.Types {
				return true
			}
			fd := declOf(h.Pkg, fo)
			if fd == nil || fd.Body == nil {
				return true
			}
			g := funcOf(h.Pkg, fd)
			// no stores at all; calls only when the rule says so (they stay atoms: what the exits
			// know about them is learned under the keys of the classifier's own call nodes)
			pure := true
			ast.Inspect(fd.Body, func(m ast.Node) bool {
				switch y := m.(type) {
				case *ast.CallExpr:
					if tv, ok := g.Info.Types[y.Fun]; !ok || !tv.IsType() {
						if b, isB := g.Callee(y).(*types.Builtin); !(isB && (b.Name() == "len" || b.Name() == "cap")) && !withCalls {
							pure = false
						}
					}
				case *ast.AssignStmt, *ast.IncDecStmt, *ast.GoStmt, *ast.DeferStmt, *ast.SendStmt, *ast.FuncLit:
					pure = false
				}
				return pure
			})
			if !pure {
				return true
			}
			// receiver and parameters -> operands
			subst := map[string]string{}
			if fd.Recv != nil {
				sel, ok := ast.Unparen(call.Fun).(*ast.SelectorExpr)
				if !ok || len(fd.Recv.List) != 1 || len(fd.Recv.List[0].Names) != 1 {
					return true
				}
				subst[g.Render(fd.Recv.List[0].Names[0])] = h.Render(sel.X)
			}
			i := 0
			for _, fld := range fd.Type.Params.List {
				if len(fld.Names) == 0 {
					i++
				}
				for _, nm := range fld.Names {
					if i < len(call.Args) {
						subst[g.Render(nm)] = h.Render(call.Args[i])
					}
					i++
				}
			}
			res := analyze(c, g, flow.Config{NoHavoc: true})
			if res == nil {
				return true
			}
			es := &muxEnumSwitch{id: pos(c, sw), call: call}
			gvf := newMuxFlow([]*flow.Func{g})
			for _, ex := range res.Exits {
				if ex.Kind != flow.ExitReturn {
					return true
				}
				r := muxRetExpr(g, gvf, ex)
				id := muxIdentOf(r)
				if id == nil {
					if sel, ok := r.(*ast.SelectorExpr); ok {
						id = sel.Sel
					}
				}
				if id == nil {
					return true
				}
				k, isConst := g.Info.Uses[id].(*types.Const)
				if !isConst {
					return true
				}
				facts := map[string]flow.Val{}
				for _, fact := range ex.State.Facts() {
					if len(fact) < 3 || !(strings.HasPrefix(fact, "lt:") || strings.HasPrefix(fact, "eq:") || strings.HasPrefix(fact, "v:") || strings.HasPrefix(fact, "nil:") || (withCalls && strings.HasPrefix(fact, "call:"))) {
						continue
					}
					key, val := fact[:len(fact)-2], fact[len(fact)-1:]
					rest := key
					if !strings.HasPrefix(key, "call:") { // a call atom keeps the key of its own node
						for from, to := range subst {
							key = strings.ReplaceAll(key, from, to)
							rest = strings.ReplaceAll(rest, from, "")
						}
						if strings.Contains(rest, "\u00b7") {
							continue // mentions a local of the classifier
						}
					}
					if val == "T" {
						facts[key] = flow.True
					} else if val == "F" {
						facts[key] = flow.False
					}
				}
				es.exits = append(es.exits, facts)
				es.ks = append(es.ks, k)
			}
			for _, st := range sw.Body.List {
				if cc, ok := st.(*ast.CaseClause); ok {
					for _, e := range cc.List {
						set.caseOf[ast.Unparen(e)] = es
					}
				}
			}
			set.tagOf[call] = es
			return true
		})
	}
	return set
}

func (set *muxEnumSwitchSet) config(extra flow.Config) flow.Config {
	if len(set.caseOf) == 0 {
		return extra
	}
	onCall := extra.OnCall
	extra.OnCall = func(st *flow.State, call *ast.CallExpr, callee types.Object, deferred bool) {
		if es := set.tagOf[call]; es != nil {
			// the tag is evaluated anew: every outcome of the classifier is possible again
			for i := range es.exits {
				st.Set(sprintf("ev:enum:%s:%d", es.id, i), flow.Unknown)
				for key := range es.exits[i] {
					if strings.HasPrefix(key, "call:") {
						st.Set(key, flow.Unknown) // the classifier's own calls run again
					}
				}
			}
		}
		if onCall != nil {
			onCall(st, call, callee, deferred)
		}
	}
	after := extra.AfterAssume
	extra.AfterAssume = func(st *flow.State, cond ast.Expr, outcome bool) {
		if es := set.caseOf[ast.Unparen(cond)]; es != nil {
			var k types.Object
			switch x := ast.Unparen(cond).(type) {
			case *ast.Ident:
				k = set.info.Uses[x]
			case *ast.SelectorExpr:
				k = set.info.Uses[x.Sel]
			}
			if _, isConst := k.(*types.Const); isConst {
				var remaining []map[string]flow.Val
				for i := range es.exits {
					key := sprintf("ev:enum:%s:%d", es.id, i)
					if (es.ks[i] == k) != outcome {
						st.Set(key, flow.False)
					}
					if !st.Is(key, flow.False) {
						remaining = append(remaining, es.exits[i])
					}
				}
				if len(remaining) > 0 {
					for key, v := range remaining[0] {
						same := true
						for _, o := range remaining[1:] {
							if o[key] != v {
								same = false
							}
						}
						if same && st.Get(key) == flow.Unknown {
							st.Set(key, v)
						}
					}
				}
			}
		}
		if after != nil {
			after(st, cond, outcome)
		}
	}
	return extra
}

// ---------------------------------------------------------------------------------------
// Flags folded into a bit set: `var seen uint8; seen |= sawHeaderMismatch; if seen&(a|b) == 0 {..}`.
// The engine forgets what it knew about the variable at every `|=`. A local of unsigned integer type
// that starts at zero, is only ever written by `x |= <constant>` and whose address is never taken
// has, on every path, exactly the bits set on that path: they are kept as events
// (ev:bit:<x>:<i>), bool locals defined once from a test of the set are evaluated where they are
// defined (ev:bitbool:<b>), and a branch whose assumed outcome contradicts them is infeasible.

type muxBitSets struct {
	f     *flow.Func
	vars  map[types.Object]bool
	bools map[types.Object]ast.Expr // bool local -> its single defining test
}

func newMuxBitSets(f *flow.Func, fns []*flow.Func) *muxBitSets {
	b := &muxBitSets{f: f, vars: map[types.Object]bool{}, bools: map[types.Object]ast.Expr{}}
	info := f.Info
	cand := map[types.Object]bool{}
	bad := map[types.Object]bool{}
	objOf := func(id *ast.Ident) types.Object {
		if o := info.Defs[id]; o != nil {
			return o
		}
		return info.Uses[id]
	}
	isUint := func(t types.Type) bool {
		bt, ok := t.Underlying().(*types.Basic)
		return ok && bt.Info()&types.IsUnsigned != 0
	}
	isZero := func(e ast.Expr) bool {
		tv, ok := info.Types[e]
		return ok && tv.Value != nil && tv.Value.ExactString() == "0"
	}
	for _, g := range fns {
		ast.Inspect(g.Body, func(n ast.Node) bool {
			switch x := n.(type) {
			case *ast.ValueSpec:
				for i, nm := range x.Names {
					o := info.Defs[nm]
					if v, ok := o.(*types.Var); ok && isUint(v.Type()) && (len(x.Values) == 0 || (i < len(x.Values) && isZero(x.Values[i]))) {
						cand[o] = true
					}
				}
			case *ast.AssignStmt:
				for i, l := range x.Lhs {
					id, ok := ast.Unparen(l).(*ast.Ident)
					if !ok {
						continue
					}
					o := objOf(id)
					v, isVar := o.(*types.Var)
					if !isVar || !isUint(v.Type()) {
						continue
					}
					switch {
					case x.Tok == token.DEFINE && len(x.Lhs) == len(x.Rhs) && isZero(x.Rhs[i]):
						cand[o] = true
					case x.Tok == token.OR_ASSIGN && len(x.Rhs) == 1 && info.Types[x.Rhs[0]].Value != nil:
					default:
						bad[o] = true
					}
				}
			case *ast.IncDecStmt:
				if id, ok := ast.Unparen(x.X).(*ast.Ident); ok {
					bad[objOf(id)] = true
				}
			case *ast.UnaryExpr:
				if id, ok := ast.Unparen(x.X).(*ast.Ident); ok && x.Op == token.AND {
					bad[objOf(id)] = true
				}
			case *ast.FuncLit:
				// written inside a closure: not followed
				ast.Inspect(x.Body, func(m ast.Node) bool {
					if as, ok := m.(*ast.AssignStmt); ok {
						for _, l := range as.Lhs {
							if id, ok := ast.Unparen(l).(*ast.Ident); ok {
								bad[objOf(id)] = true
							}
						}
					}
					return true
				})
			case *ast.RangeStmt:
				for _, e := range []ast.Expr{x.Key, x.Value} {
					if id, ok := e.(*ast.Ident); ok {
						bad[objOf(id)] = true
					}
				}
			}
			return true
		})
	}
	for o := range cand {
		if !bad[o] {
			b.vars[o] = true
		}
	}
	if len(b.vars) == 0 {
		return b
	}
	// bool locals defined once from a test of a tracked set
	vf := newMuxFlow(fns)
	for o := range vf.ident {
		v, ok := o.(*types.Var)
		if !ok || v.IsField() || !types.Identical(v.Type(), types.Typ[types.Bool]) {
			continue
		}
		if d := vf.singleDef(o); d != nil && b.mentions(d) {
			b.bools[o] = d
		}
	}
	return b
}

func (b *muxBitSets) any() bool { return b != nil && len(b.vars) > 0 }

func (b *muxBitSets) mentions(e ast.Expr) bool {
	found := false
	ast.Inspect(e, func(n ast.Node) bool {
		if id, ok := n.(*ast.Ident); ok && b.vars[b.f.Info.Uses[id]] {
			found = true
		}
		return !found
	})
	return found
}

func (b *muxBitSets) onNode(st *flow.State, n ast.Node) {
	if !b.any() {
		return
	}
	info := b.f.Info
	reset := func(id *ast.Ident) {
		pre := "ev:bit:" + b.f.Render(id) + ":"
		for _, fact := range st.Facts() {
			if strings.HasPrefix(fact, pre) {
				st.Set(fact[:len(fact)-2], flow.Unknown)
			}
		}
	}
	switch x := n.(type) {
	case *ast.DeclStmt:
		if gd, ok := x.Decl.(*ast.GenDecl); ok {
			for _, sp := range gd.Specs {
				if vs, ok := sp.(*ast.ValueSpec); ok {
					for _, nm := range vs.Names {
						if b.vars[info.Defs[nm]] {
							reset(nm)
						}
					}
				}
			}
		}
	case *ast.AssignStmt:
		for i, l := range x.Lhs {
			id, ok := ast.Unparen(l).(*ast.Ident)
			if !ok {
				continue
			}
			o := info.Defs[id]
			if o == nil {
				o = info.Uses[id]
			}
			if b.vars[o] {
				if x.Tok == token.DEFINE {
					reset(id)
				} else if x.Tok == token.OR_ASSIGN && len(x.Rhs) == 1 {
					if m, ok := constant.Uint64Val(constant.ToInt(info.Types[x.Rhs[0]].Value)); ok {
						for k := 0; k < 64; k++ {
							if m&(1<<uint(k)) != 0 {
								st.Set(sprintf("ev:bit:%s:%d", b.f.Render(id), k), flow.True)
							}
						}
					}
				}
			}
			if d, isBool := b.bools[o]; isBool && len(x.Lhs) == len(x.Rhs) && ast.Unparen(x.Rhs[i]) == ast.Unparen(d) {
				st.Set("ev:bitbool:"+b.f.Render(id), flow.Unknown)
				if v, known := b.eval(st, d); known {
					if v {
						st.Set("ev:bitbool:"+b.f.Render(id), flow.True)
					} else {
						st.Set("ev:bitbool:"+b.f.Render(id), flow.False)
					}
				}
			}
		}
	}
}

// eval computes a condition from the tracked bits; known is false when it depends on anything else.
func (b *muxBitSets) eval(st *flow.State, e ast.Expr) (val, known bool) {
	if !b.any() || e == nil {
		return false, false
	}
	info := b.f.Info
	switch x := ast.Unparen(e).(type) {
	case *ast.Ident:
		if _, isBool := b.bools[info.Uses[x]]; isBool {
			switch st.Get("ev:bitbool:" + b.f.Render(x)) {
			case flow.True:
				return true, true
			case flow.False:
				return false, true
			}
		}
	case *ast.UnaryExpr:
		if x.Op == token.NOT {
			v, k := b.eval(st, x.X)
			return !v, k
		}
	case *ast.BinaryExpr:
		switch x.Op {
		case token.LAND, token.LOR:
			lv, lk := b.eval(st, x.X)
			rv, rk := b.eval(st, x.Y)
			if x.Op == token.LAND {
				if (lk && !lv) || (rk && !rv) {
					return false, true
				}
				return lv && rv, lk && rk
			}
			if (lk && lv) || (rk && rv) {
				return true, true
			}
			return lv || rv, lk && rk
		case token.EQL, token.NEQ:
			for i, side := range []ast.Expr{x.X, x.Y} {
				other := x.Y
				if i == 1 {
					other = x.X
				}
				tv := info.Types[other]
				if tv.Value == nil {
					continue
				}
				want, ok := constant.Uint64Val(constant.ToInt(tv.Value))
				if !ok {
					continue
				}
				got, ok := b.value(st, side)
				if !ok {
					continue
				}
				return (got == want) == (x.Op == token.EQL), true
			}
		}
	}
	return false, false
}

// value computes x, x&M, M&x for a tracked set x and a constant M.
func (b *muxBitSets) value(st *flow.State, e ast.Expr) (uint64, bool) {
	info := b.f.Info
	switch x := ast.Unparen(e).(type) {
	case *ast.Ident:
		if !b.vars[info.Uses[x]] {
			return 0, false
		}
		var v uint64
		pre := "ev:bit:" + b.f.Render(x) + ":"
		for _, fact := range st.Facts() {
			if strings.HasPrefix(fact, pre) && strings.HasSuffix(fact, "=T") {
				k := 0
				for _, ch := range fact[len(pre) : len(fact)-2] {
					k = k*10 + int(ch-'0')
				}
				v |= 1 << uint(k)
			}
		}
		return v, true
	case *ast.BinaryExpr:
		if x.Op != token.AND {
			return 0, false
		}
		for i, side := range []ast.Expr{x.X, x.Y} {
			other := x.Y
			if i == 1 {
				other = x.X
			}
			tv := info.Types[other]
			if tv.Value == nil {
				continue
			}
			m, ok := constant.Uint64Val(constant.ToInt(tv.Value))
			if !ok {
				continue
			}
			if v, ok := b.value(st, side); ok {
				return v & m, true
			}
		}
	}
	return 0, false
}
