package rules

import (
	"go/ast"
	"go/types"
	"strings"

	"golang.org/x/tools/go/cfg"

	"verif/internal/core"
	"verif/internal/flow"
)

const hs = "pkg/object/httpserver"

// searchInfo is the shared path-sensitive analysis of the router's search function
// (used by C01, C05 and C12).
type searchInfo struct {
	f     *flow.Func
	cons  string
	res   *flow.Result
	outer *ast.RangeStmt // over mi.rules
	inner *ast.RangeStmt // over host.paths

	hostMatch, pathMatch, methodMatch, headerMatch []*ast.CallExpr
	allow                                          map[string][]*ast.CallExpr // level -> allowIP calls
	puts                                           []*ast.CallExpr
	get                                            *ast.CallExpr
	getVar                                         types.Object // variable assigned from the cache lookup
	chainAllow                                     []*ast.CallExpr
	lenHeaders                                     string // key of fact len(path.headers)==0

	routeCodes map[types.Object]string // package-level route vars -> status constant value
}

// Event keys set by the search analysis.
const (
	evHdep    = "ev:hdep"       // a branch on the header matcher has been taken since entry
	evIPSrv   = "ev:ip:server"  // server-level IP test evaluated
	evIPRule  = "ev:ip:rule"    // current rule's IP test evaluated
	evIPPath  = "ev:ip:path"    // current path's IP test evaluated
	evIPEarly = "ev:ip:earlier" // a non-nil IP filter of an earlier rule/path was passed and the search moved on
	evHit     = "ev:hit"        // cache lookup returned a route
)

func (s *searchInfo) key(call *ast.CallExpr) string { return s.f.CallKey(call) }

// known reports the value of the first call in list whose outcome is known in st.
func (s *searchInfo) val(st *flow.State, list []*ast.CallExpr) flow.Val {
	for _, c := range list {
		if v := st.Get(s.key(c)); v != flow.Unknown {
			return v
		}
	}
	return flow.Unknown
}

// selLevel classifies `X.ipFilter` by the named type of X.
func selLevel(f *flow.Func, e ast.Expr) string {
	sel, ok := ast.Unparen(e).(*ast.SelectorExpr)
	if !ok {
		return ""
	}
	tv, ok := f.Info.Types[sel.X]
	if !ok {
		return ""
	}
	t := tv.Type
	if p, ok := t.(*types.Pointer); ok {
		t = p.Elem()
	}
	n, ok := t.(*types.Named)
	if !ok {
		return ""
	}
	switch n.Obj().Name() {
	case "muxInstance":
		return "server"
	case "muxRule":
		return "rule"
	case "MuxPath":
		return "path"
	}
	return ""
}

// routeVars collects package-level `&route{code: K}` variables of httpserver.
func routeVars(c *core.Ctx) map[types.Object]string {
	out := map[types.Object]string{}
	pkg := c.Prog.Pkg(hs)
	if pkg == nil {
		return out
	}
	for _, file := range pkg.Syntax {
		for _, d := range file.Decls {
			gd, ok := d.(*ast.GenDecl)
			if !ok {
				continue
			}
			for _, sp := range gd.Specs {
				vs, ok := sp.(*ast.ValueSpec)
				if !ok {
					continue
				}
				for i, n := range vs.Names {
					if i >= len(vs.Values) {
						continue
					}
					ue, ok := vs.Values[i].(*ast.UnaryExpr)
					if !ok {
						continue
					}
					cl, ok := ue.X.(*ast.CompositeLit)
					if !ok {
						continue
					}
					if tv, ok := pkg.TypesInfo.Types[cl]; !ok || !strings.HasSuffix(tv.Type.String(), "httpserver.route") {
						continue
					}
					for _, el := range cl.Elts {
						if kv, ok := el.(*ast.KeyValueExpr); ok {
							if k, ok := kv.Key.(*ast.Ident); ok && k.Name == "code" {
								if tv, ok := pkg.TypesInfo.Types[kv.Value]; ok && tv.Value != nil {
									out[pkg.TypesInfo.Defs[n]] = tv.Value.ExactString()
								}
							}
						}
					}
				}
			}
		}
	}
	return out
}

// analyzeSearch resolves the roles inside muxInstance.search and runs the engine.
func analyzeSearch(c *core.Ctx, rule string) *searchInfo {
	f := fn(c, hs, "muxInstance", "search")
	if f == nil {
		return nil
	}
	s := &searchInfo{f: f, cons: fname(hs, "muxInstance", "search"), allow: map[string][]*ast.CallExpr{}}
	s.routeCodes = routeVars(c)
	if len(s.routeCodes) < 4 {
		c.Errorf("%s: anchor: expected the four package-level failure routes (404/403/405/400), found %d", rule, len(s.routeCodes))
	}
	rulesF := structField(c, hs, "muxInstance", "rules")
	pathsF := structField(c, hs, "muxRule", "paths")
	ast.Inspect(f.Body, func(n ast.Node) bool {
		rs, ok := n.(*ast.RangeStmt)
		if !ok {
			return true
		}
		if sel, ok := ast.Unparen(rs.X).(*ast.SelectorExpr); ok {
			if sl := f.Info.Selections[sel]; sl != nil {
				switch sl.Obj() {
				case rulesF:
					s.outer = rs
				case pathsF:
					s.inner = rs
				}
			}
		}
		return true
	})
	if s.outer == nil || s.inner == nil || !contains(s.outer, s.inner) {
		c.Errorf("%s: anchor: search does not contain a range loop over paths nested in a range loop over rules", rule)
		return nil
	}
	P := "(*" + hs + "."
	for _, call := range calls(f.Body, false) {
		switch {
		case calleeIs(f, call, P+"muxRule).match"):
			s.hostMatch = append(s.hostMatch, call)
		case calleeIs(f, call, P+"MuxPath).matchPath"):
			s.pathMatch = append(s.pathMatch, call)
		case calleeIs(f, call, P+"MuxPath).matchMethod"):
			s.methodMatch = append(s.methodMatch, call)
		case calleeIs(f, call, P+"MuxPath).matchHeaders"):
			s.headerMatch = append(s.headerMatch, call)
		case calleeIs(f, call, hs+".allowIP"):
			if len(call.Args) == 2 {
				if lv := selLevel(f, call.Args[0]); lv != "" {
					s.allow[lv] = append(s.allow[lv], call)
				}
			}
		case calleeIs(f, call, P+"muxInstance).putRouteToCache"):
			s.puts = append(s.puts, call)
		case calleeIs(f, call, P+"muxInstance).getRouteFromCache"):
			s.get = call
		case calleeIs(f, call, "(*pkg/util/ipfilter.IPFilters).Allow"):
			s.chainAllow = append(s.chainAllow, call)
		}
	}
	if s.get != nil {
		ast.Inspect(f.Body, func(n ast.Node) bool {
			if as, ok := n.(*ast.AssignStmt); ok && len(as.Rhs) == 1 && as.Rhs[0] == s.get && len(as.Lhs) == 1 {
				if id, ok := as.Lhs[0].(*ast.Ident); ok {
					s.getVar = f.Info.Defs[id]
					if s.getVar == nil {
						s.getVar = f.Info.Uses[id]
					}
				}
			}
			return true
		})
	}
	// len(path.headers) == 0 atom: find it syntactically to learn its key
	headersF := structField(c, hs, "MuxPath", "headers")
	ast.Inspect(f.Body, func(n ast.Node) bool {
		be, ok := n.(*ast.BinaryExpr)
		if !ok {
			return true
		}
		for _, side := range []ast.Expr{be.X, be.Y} {
			if call, ok := ast.Unparen(side).(*ast.CallExpr); ok && len(call.Args) == 1 {
				if b, ok := f.Callee(call).(*types.Builtin); ok && b.Name() == "len" {
					if sel, ok := ast.Unparen(call.Args[0]).(*ast.SelectorExpr); ok {
						if sl := f.Info.Selections[sel]; sl != nil && sl.Obj() == headersF {
							s.lenHeaders = "eq:" + f.Render(call) + "==0"
						}
					}
				}
			}
		}
		return true
	})

	var hostVar, pathVar types.Object
	if id, ok := s.outer.Value.(*ast.Ident); ok {
		hostVar = f.Info.Defs[id]
	}
	if id, ok := s.inner.Value.(*ast.Ident); ok {
		pathVar = f.Info.Defs[id]
	}
	nilOfFilter := func(st *flow.State, level string) bool {
		// is the IP filter of the current rule/path known to be nil?
		for _, call := range s.allow[level] {
			if st.Is(f.NilKey(call.Args[0]), flow.True) {
				return true
			}
		}
		return false
	}
	_ = hostVar
	_ = pathVar
	res := analyze(c, f, flow.Config{
		NoHavoc: true,
		OnBlock: func(st *flow.State, b *cfg.Block) {
			if b.Kind != cfg.KindRangeBody {
				return
			}
			if b.Stmt == s.outer {
				if st.Is(evIPRule, flow.True) && !nilOfFilter(st, "rule") {
					st.Set(evIPEarly, flow.True)
				}
				st.Set(evIPRule, flow.Unknown)
				if st.Is(evIPPath, flow.True) && !nilOfFilter(st, "path") {
					st.Set(evIPEarly, flow.True)
				}
				st.Set(evIPPath, flow.Unknown)
			}
			if b.Stmt == s.inner {
				if st.Is(evIPPath, flow.True) && !nilOfFilter(st, "path") {
					st.Set(evIPEarly, flow.True)
				}
				st.Set(evIPPath, flow.Unknown)
			}
		},
		AfterAssume: func(st *flow.State, cond ast.Expr, outcome bool) {
			if s.val(st, s.headerMatch) != flow.Unknown {
				st.Set(evHdep, flow.True)
			}
			if s.val(st, s.allow["server"]) != flow.Unknown {
				st.Set(evIPSrv, flow.True)
			}
			if s.val(st, s.allow["rule"]) != flow.Unknown {
				st.Set(evIPRule, flow.True)
			}
			if s.val(st, s.allow["path"]) != flow.Unknown {
				st.Set(evIPPath, flow.True)
			}
			if s.getVar != nil && st.Get(evHit) == flow.Unknown {
				// first nil test of the variable assigned from the cache lookup
				ast.Inspect(cond, func(n ast.Node) bool {
					if id, ok := n.(*ast.Ident); ok && f.Info.Uses[id] == s.getVar {
						switch st.Get(f.NilKey(id)) {
						case flow.True:
							st.Set(evHit, flow.False)
						case flow.False:
							st.Set(evHit, flow.True)
						}
					}
					return true
				})
			}
		},
	})
	if res == nil {
		return nil
	}
	s.res = res
	return s
}

// putValueKind classifies the route handed to a cache put:
// "path" (a fresh success route for the current path), a status code for a
// package-level failure route, or "" if unknown.
func (s *searchInfo) putValueKind(put *ast.CallExpr) string {
	if len(put.Args) != 2 {
		return ""
	}
	f := s.f
	arg := ast.Unparen(put.Args[1])
	isPathLit := func(e ast.Expr) bool {
		ue, ok := ast.Unparen(e).(*ast.UnaryExpr)
		if !ok {
			return false
		}
		cl, ok := ue.X.(*ast.CompositeLit)
		if !ok {
			return false
		}
		okPath, okCode := false, true
		for _, el := range cl.Elts {
			kv, ok := el.(*ast.KeyValueExpr)
			if !ok {
				return false
			}
			k, _ := kv.Key.(*ast.Ident)
			if k == nil {
				return false
			}
			switch k.Name {
			case "path":
				if id, ok := ast.Unparen(kv.Value).(*ast.Ident); ok && s.inner.Value != nil {
					if vid, ok := s.inner.Value.(*ast.Ident); ok && f.Info.Uses[id] == f.Info.Defs[vid] {
						okPath = true
					}
				}
			case "code":
				if tv, ok := f.Info.Types[kv.Value]; !ok || tv.Value == nil || tv.Value.ExactString() != "0" {
					okCode = false
				}
			}
		}
		return okPath && okCode
	}
	if isPathLit(arg) {
		return "path"
	}
	if id, ok := arg.(*ast.Ident); ok {
		obj := f.Info.Uses[id]
		if code, ok := s.routeCodes[obj]; ok {
			return code
		}
		// local variable: find its (unique) assignment in the function
		kind := ""
		n := 0
		ast.Inspect(f.Body, func(x ast.Node) bool {
			if as, ok := x.(*ast.AssignStmt); ok && len(as.Lhs) == 1 && len(as.Rhs) == 1 {
				if lid, ok := as.Lhs[0].(*ast.Ident); ok && (f.Info.Uses[lid] == obj || f.Info.Defs[lid] == obj) {
					if as.Rhs[0] == s.get {
						return true
					}
					n++
					if isPathLit(as.Rhs[0]) {
						kind = "path"
					}
				}
			}
			return true
		})
		if n == 1 {
			return kind
		}
	}
	return ""
}

// putKindIn classifies the value handed to a put in a given state: when the argument is
// a local variable known (in that state) to equal one of the package-level failure routes,
// the state decides; otherwise the static classification is used.
func (s *searchInfo) putKindIn(st *flow.State, put *ast.CallExpr) string {
	if k := s.putValueKind(put); k != "" {
		return k
	}
	if len(put.Args) != 2 {
		return ""
	}
	id, ok := ast.Unparen(put.Args[1]).(*ast.Ident)
	if !ok {
		return ""
	}
	for g, code := range s.routeCodes {
		if st.Is("eq:"+s.f.Render(id)+"==@"+g.Pkg().Path()+"."+g.Name(), flow.True) {
			return code
		}
	}
	return ""
}
