package rules

import (
	"go/ast"
	"go/token"
	"go/types"

	"golang.org/x/tools/go/cfg"

	"verif/internal/core"
	"verif/internal/flow"
)

// R-C14-1: decision-table extraction on the matcher (findSubscribers and the same-package helpers
// it calls, interpreted in place by the flow engine).
//
// Roles (all by object identity; loops in any of the three element-wise forms, see c14iterOf;
// a variable "stands for" another through the parameter bindings of the helper calls):
//   levels    first result of the level source call
//   L         the loop (in the matcher) over levels; its element is the topic level
//   edge loop the range loop — anywhere in the reach — over <n>.nodes with n the element of a loop
//             (mid) over a slice that stands for the frontier; key = edge label, value = child
//   descend   `next = append(next, ..., child, ...)` in the edge loop; next = the next frontier
//   advance   `frontier = next` inside L after mid was exhausted, or `frontier = h(..)` where the
//             helper h holds mid and returns next after it
//   post      the loop after L over the frontier
//   collect   a collector call / inline copy loop (see c14env.collects); classified by the dynamic
//             context (inside an edge iteration / inside a post iteration), not by where it is written

const (
	c14evInL       = "ev:c14:inL"
	c14evScanned   = "ev:c14:scanned"
	c14evAdvanced  = "ev:c14:advanced"
	c14evViaHelper = "ev:c14:frontierFromHelper"
	c14evRetNext   = "ev:c14:helperReturnsNext"
	c14evNextNew   = "ev:c14:nextEmpty"
	c14evRootInit  = "ev:c14:rootInit"
	c14evInMid     = "ev:c14:inMid"
	c14evIn        = "ev:c14:inEdge"
	c14evCollect   = "ev:c14:collect"
	c14evDescend   = "ev:c14:descend"
	c14evBadCol    = "ev:c14:collectOther"
	c14evInP       = "ev:c14:inPost"
	c14evSelf      = "ev:c14:self"
	c14evHash      = "ev:c14:hashChild"
	c14evStray     = "ev:c14:strayCollect"
)

// c14emptySlice reports whether x evaluates to an empty (fresh) slice.
func c14emptySlice(f *flow.Func, x ast.Expr) bool {
	x = ast.Unparen(x)
	switch t := x.(type) {
	case *ast.CompositeLit:
		return len(t.Elts) == 0
	case *ast.Ident:
		_, isNil := f.Info.Uses[t].(*types.Nil)
		return isNil
	case *ast.CallExpr:
		if c14isBuiltin(f, t, "make") && len(t.Args) >= 2 {
			if tv, ok := f.Info.Types[t.Args[1]]; ok && tv.Value != nil && tv.Value.ExactString() == "0" {
				return true
			}
		}
		// conversion []T(nil)
		if tv, ok := f.Info.Types[t.Fun]; ok && tv.IsType() && len(t.Args) == 1 {
			return c14emptySlice(f, t.Args[0])
		}
	}
	return false
}

// c14lenZero reports whether the state knows len(<rendered expr>) == 0.
func c14lenZero(st *flow.State, r string) bool {
	l := "len(" + r + ")"
	return st.Is("eq:"+l+"==0", flow.True) || st.Is("lt:"+l+"<1", flow.True) || st.Is("lt:0<"+l, flow.False)
}

// loop block kinds, uniform over range and for statements
func c14isBody(k cfg.BlockKind) bool { return k == cfg.KindRangeBody || k == cfg.KindForBody }
func c14isHead(k cfg.BlockKind) bool { return k == cfg.KindRangeLoop || k == cfg.KindForLoop }
func c14isDone(k cfg.BlockKind) bool { return k == cfg.KindRangeDone || k == cfg.KindForDone }

func c14loopBody(l ast.Stmt) *ast.BlockStmt {
	switch t := l.(type) {
	case *ast.RangeStmt:
		return t.Body
	case *ast.ForStmt:
		return t.Body
	}
	return nil
}

func c14Find(e *c14env) {
	c := e.c
	f := e.role("find").f
	cons := e.role("find").cons
	src := e.levelSource(f, cons)
	if src == nil {
		return
	}
	rfs := reach(f, 3)
	bind := c14bindings(f, 3)
	// root follows parameter bindings up to the variable a helper's parameter stands for
	var root func(o types.Object, depth int) types.Object
	root = func(o types.Object, depth int) types.Object {
		if o == nil || depth <= 0 {
			return o
		}
		bs := bind[o]
		if len(bs) == 0 {
			return o
		}
		var r types.Object
		for _, bd := range bs {
			a := root(c14obj(bd.in, bd.arg), depth-1)
			if a == nil || (r != nil && r != a) {
				return o
			}
			r = a
		}
		return r
	}
	rootOf := func(o types.Object) types.Object { return root(o, 4) }
	// plc: the storage place an expression denotes — a variable (followed through the parameter
	// bindings) or a struct field (a per-call state struct carrying frontier / result between helpers)
	plc := func(g *flow.Func, x ast.Expr) types.Object {
		o := c14place(g, x)
		if v, ok := o.(*types.Var); ok && !v.IsField() {
			return rootOf(o)
		}
		return o
	}

	// ---- the level loop (in the matcher itself)
	var L ast.Stmt
	var itL *c14iter
	nL0 := 0
	for _, l := range c14loops(f.Body) {
		if it := c14iterOf(f, l); it != nil && c14obj(f, it.slice) == src.levels {
			L, itL = l, it
			nL0++
		}
	}
	if nL0 != 1 {
		c.Errorf("R-C14-1: anchor: %s has %d loops over the validated levels, expected exactly 1", cons, nL0)
		return
	}
	if itL.elem == nil {
		c.Undecide("R-C14-1", cons+"|level loop", pos(c, L), "the level loop does not bind the topic level to a variable")
		return
	}
	topicLevel := itL.elem

	// ---- the edge loop, anywhere in the reach
	type edgeLoop struct {
		g     *flow.Func
		inner *ast.RangeStmt
		mid   *c14iter
		// iterator form: the loop over <n>.nodes lives in a callback iterator (gIn), its body is the
		// closure lit handed to it from g
		gIn *flow.Func
		lit *ast.FuncLit
	}
	var edges []edgeLoop
	for _, g := range rfs {
		loops := c14loops(g.Body)
		for _, l := range loops {
			rs, ok := l.(*ast.RangeStmt)
			if !ok {
				continue
			}
			x, ok := c14fieldRecv(g, rs.X, e.nodesF)
			if !ok {
				continue
			}
			ro := c14obj(g, x)
			for _, m := range loops {
				if m == l || !contains(c14loopBody(m), rs) || ro == nil {
					continue
				}
				if it := c14iterOf(g, m); it != nil && it.elem == ro {
					edges = append(edges, edgeLoop{g: g, inner: rs, mid: it})
				}
			}
		}
	}
	if len(edges) == 0 {
		// iterator form: for _, node := range frontier { node.forEachChild(visit) }
		for _, g := range rfs {
			loops := c14loops(g.Body)
			for _, call := range calls(g.Body, false) {
				node, lit, ok := e.iterCall(g, call, e.nodesF)
				if !ok || len(lit.Type.Params.List) == 0 {
					continue
				}
				no := c14obj(g, node)
				hd := declOf(e.pkg, c14calleeOf(g, call))
				if no == nil || hd == nil {
					continue
				}
				gIn := funcOf(e.pkg, hd)
				var rng *ast.RangeStmt
				for _, rs := range c14ranges(hd.Body) {
					if _, isNodes := c14fieldOrAlias(gIn, rs.X, e.nodesF); isNodes {
						rng = rs
					}
				}
				for _, m := range loops {
					if !contains(c14loopBody(m), call) || rng == nil {
						continue
					}
					if it := c14iterOf(g, m); it != nil && it.elem == no {
						edges = append(edges, edgeLoop{g: g, inner: rng, mid: it, gIn: gIn, lit: lit})
					}
				}
			}
		}
	}
	if len(edges) == 0 {
		// the edge loop behind a callback iterator (node.forEachChild(visit)): its body is a closure,
		// a shape the table extraction does not read
		for _, g := range rfs {
			for _, call := range calls(g.Body, true) {
				if fo := c14calleeOf(g, call); fo != nil {
					if it, ok := e.iterators[fo]; ok && it.field == e.nodesF {
						c.Undecide("R-C14-1", cons+"|edge loop", pos(c, call), "the children of a frontier node are visited through the callback iterator "+fo.Name()+": the per-edge decision is a closure handed to it, which the table extraction does not read")
						return
					}
				}
			}
		}
	}
	if len(edges) != 1 {
		c.Errorf("R-C14-1: anchor: %s: found %d loops over <frontier node>.nodes in the matcher and its helpers, expected exactly 1 (matcher rewritten? the rule must be revisited)", cons, len(edges))
		return
	}
	gi, inner, mid := edges[0].g, edges[0].inner, edges[0].mid
	gInner, innerBody, iterLit := gi, inner.Body, edges[0].lit
	frontier := plc(gi, mid.slice)
	edgeID, _ := inner.Key.(*ast.Ident)
	var edge, child types.Object
	if edgeID != nil && edgeID.Name != "_" {
		edge = c14obj(gi, edgeID)
	}
	if iterLit != nil {
		// the per-edge body is the closure: its two parameters are the edge label and the child
		gInner, innerBody = edges[0].gIn, iterLit.Body
		var ps []types.Object
		for _, fld := range iterLit.Type.Params.List {
			for _, nm := range fld.Names {
				ps = append(ps, gi.Info.Defs[nm])
			}
		}
		edge, child = nil, nil
		if len(ps) == 2 {
			edge, child = ps[0], ps[1]
		}
	} else if childID, _ := inner.Value.(*ast.Ident); childID != nil && childID.Name != "_" {
		child = c14obj(gi, childID)
	} else if edge != nil {
		// for label := range node.nodes { child := node.nodes[label]; ... }
		want := gi.Render(inner.X)
		for _, st := range innerBody.List {
			if as, ok := st.(*ast.AssignStmt); ok && len(as.Lhs) == len(as.Rhs) {
				for i, r := range as.Rhs {
					if ix, ok := ast.Unparen(r).(*ast.IndexExpr); ok && gi.Render(ix.X) == want && c14obj(gi, ix.Index) == edge && child == nil {
						child = c14obj(gi, as.Lhs[i])
					}
				}
			}
		}
	}
	if frontier == nil || edge == nil || child == nil {
		c.Undecide("R-C14-1", cons+"|edge loop", pos(c, inner), "cannot identify frontier variable / edge label / child variables of the edge loop")
		return
	}
	c.Count("R-C14-1:loops resolved (level, frontier, edge)", 3)

	// ---- the levels are consulted only through the three comparisons (edge label in the edge
	// loop's function; every variable standing for the topic level in its function)
	usesOK := true
	var tlLocal types.Object // the variable compared with the edge label that stands for the topic level
	for _, g := range rfs {
		g := g
		pm := parentMap(g.Body)
		ast.Inspect(g.Body, func(n ast.Node) bool {
			id, ok := n.(*ast.Ident)
			if !ok {
				return true
			}
			o := g.Info.Uses[id]
			if o == nil {
				return true
			}
			isEdge := o == edge
			isTL := rootOf(o) == topicLevel
			if !isEdge && !isTL {
				return true
			}
			p := pm[id]
			for {
				if pe, ok := p.(*ast.ParenExpr); ok {
					p = pm[pe]
					continue
				}
				break
			}
			switch pt := p.(type) {
			case *ast.BinaryExpr:
				if pt.Op == token.EQL || pt.Op == token.NEQ {
					other := pt.X
					if ast.Unparen(pt.X) == ast.Expr(id) {
						other = pt.Y
					}
					oo := c14obj(g, other)
					if s, isC := c14constStr(g, other); isC && (s == `"#"` || s == `"+"`) && isEdge {
						return true
					}
					if isEdge && oo != nil && rootOf(oo) == topicLevel {
						tlLocal = oo
						return true
					}
					if isTL && oo == edge {
						tlLocal = o
						return true
					}
				}
			case *ast.IndexExpr:
				// child := node.nodes[label] in a key-only edge loop
				if isEdge && ast.Unparen(pt.Index) == ast.Expr(id) && g == gi && g.Render(pt.X) == g.Render(inner.X) {
					return true
				}
			case *ast.SwitchStmt:
				if pt.Tag != nil && ast.Unparen(pt.Tag) == ast.Expr(id) && isEdge {
					return true
				}
			case *ast.CaseClause:
				if isTL {
					tlLocal = o
				}
				return true
			case *ast.CallExpr:
				// the topic level handed on to a helper (whose parameter then stands for it)
				if isTL {
					if fo := c14calleeOf(g, pt); fo != nil && fo.Pkg() == g.Pkg.Types && declOf(g.Pkg, fo) != nil {
						return true
					}
				}
			case *ast.AssignStmt:
				// topicLevel := levels[i] binds it; nothing else may be assigned from it
				for _, l := range pt.Lhs {
					if ast.Unparen(l) == ast.Expr(id) {
						return true
					}
				}
			}
			usesOK = false
			c.Undecide("R-C14-1", cons+"|levels used only in the three comparisons", pos(c, id),
				"the level value "+id.Name+" is used outside a comparison with '#', '+' or the other level ("+g.Render(id)+"): the transition table is no longer the matcher's complete local semantics")
			return true
		})
	}
	if usesOK {
		c.Discharge("R-C14-1", cons+"|levels used only in the three comparisons", pos(c, L), "edge label and topic level occur only as operands of ==/!=/switch against '#', '+' and each other (or are handed to a helper of the matcher)")
	}

	// ---- collect / descend sites over the reach
	type colSite struct {
		c14collect
		g *flow.Func
	}
	colAt := map[ast.Node]colSite{}
	var result types.Object
	oneResult := true
	nCols := 0
	collectorObjs := []types.Object{}
	for fo := range e.collectors {
		collectorObjs = append(collectorObjs, fo)
	}
	for _, g := range rfs {
		if gd, ok := g.Node.(*ast.FuncDecl); ok && e.collectors[e.funcObj(gd)] != nil {
			continue // the collector's own copy loop is its implementation (R-C14-5)
		}
		for _, cl := range e.collects(g, g.Body) {
			colAt[cl.at] = colSite{cl, g}
			nCols++
			if cl.dst != nil {
				d := cl.dst
				if v, ok := d.(*types.Var); ok && !v.IsField() {
					d = rootOf(d)
				}
				if result != nil && result != d {
					oneResult = false
				}
				result = d
			}
		}
	}
	if iterLit != nil {
		// collect sites inside the per-edge closure
		for _, cl := range e.collects(gi, iterLit.Body) {
			if _, seen := colAt[cl.at]; seen {
				continue
			}
			colAt[cl.at] = colSite{cl, gi}
			nCols++
			if cl.dst != nil {
				d := cl.dst
				if v, ok := d.(*types.Var); ok && !v.IsField() {
					d = rootOf(d)
				}
				if result != nil && result != d {
					oneResult = false
				}
				result = d
			}
		}
	}
	if !oneResult {
		c.Violate("R-C14-1", cons+"|success returns the result map", pos(c, f.Body), "the collect sites write into different maps: part of the matching subscribers never reaches the returned result")
		return
	}
	var next types.Object
	descendAt := map[ast.Node]bool{}
	ast.Inspect(innerBody, func(n ast.Node) bool {
		as, ok := n.(*ast.AssignStmt)
		if !ok || len(as.Lhs) != 1 || len(as.Rhs) != 1 {
			return true
		}
		call, ok := ast.Unparen(as.Rhs[0]).(*ast.CallExpr)
		if !ok || !c14isBuiltin(gi, call, "append") || len(call.Args) < 2 {
			return true
		}
		lo := c14obj(gi, as.Lhs[0])
		if lo == nil || c14obj(gi, call.Args[0]) != lo {
			return true
		}
		for _, a := range call.Args[1:] {
			if c14obj(gi, a) == child {
				descendAt[as] = true
				next = lo
			}
		}
		return true
	})
	var nextRoot types.Object
	if next != nil {
		nextRoot = rootOf(next)
	} else {
		for _, call := range calls(innerBody, false) {
			fo := c14calleeOf(gi, call)
			if fo == nil || fo.Pkg() != e.pkg.Types || e.collectors[fo] != nil {
				continue
			}
			for _, a := range call.Args {
				if c14obj(gi, a) == child {
					c.Undecide("R-C14-1", cons+"|frontier advance", pos(c, call), "the edge loop hands the child to "+fo.Name()+" and does not append it to a next frontier itself: the descend decision is taken in a shape this rule does not read")
					return
				}
			}
		}
	}
	isNext := func(g *flow.Func, x ast.Expr) bool {
		o := c14obj(g, x)
		return o != nil && nextRoot != nil && (o == next || rootOf(o) == nextRoot)
	}
	isFrontier := func(g *flow.Func, x ast.Expr) bool {
		o := plc(g, x)
		return o != nil && o == frontier
	}
	// every spelling of the frontier in the matcher and its helpers (m.frontier in step and in finish ...)
	frontierRenders := map[string]bool{}
	for _, g := range rfs {
		g := g
		ast.Inspect(g.Body, func(n ast.Node) bool {
			if x, ok := n.(ast.Expr); ok {
				switch x.(type) {
				case *ast.Ident, *ast.SelectorExpr:
					if isFrontier(g, x) {
						frontierRenders[g.Render(x)] = true
					}
				}
			}
			return true
		})
	}

	// ---- the loop over the final frontier: after the level loop in the matcher, or in a helper
	// that the matcher calls after the level loop with the frontier
	var posts []ast.Stmt
	var postIt *c14iter
	gp := f
	for _, g := range rfs {
		for _, l := range c14loops(g.Body) {
			if l == mid.stmt || (g == f && l.Pos() <= L.End()) {
				continue
			}
			it := c14iterOf(g, l)
			if it == nil || !isFrontier(g, it.slice) {
				continue
			}
			if g != f {
				// g must be entered from the matcher after the level loop
				after := false
				gd, _ := g.Node.(*ast.FuncDecl)
				for _, call := range calls(f.Body, false) {
					if fo := c14calleeOf(f, call); fo != nil && gd != nil && fo == e.funcObj(gd) && call.Pos() > L.End() {
						after = true
					}
				}
				if !after {
					continue
				}
			}
			posts = append(posts, l)
			postIt, gp = it, g
		}
	}
	var post ast.Stmt
	if len(posts) == 1 {
		post = posts[0]
	} else if len(posts) > 1 {
		c.Undecide("R-C14-1", cons+"|parent-level '#'", pos(c, posts[1]), "more than one loop over the frontier after the level loop")
	}
	var postVal types.Object
	if post != nil {
		postVal = postIt.elem
	}
	standsFor := func(g *flow.Func, x ast.Expr, target types.Object) bool {
		o := plc(g, x)
		return o != nil && target != nil && o == target
	}
	isHashExpr := func(g *flow.Func, x ast.Expr) bool {
		ix, ok := ast.Unparen(x).(*ast.IndexExpr)
		if !ok || postVal == nil {
			return false
		}
		r, ok := c14fieldRecv(g, ix.X, e.nodesF)
		if !ok || !standsFor(g, r, postVal) {
			return false
		}
		s, isC := c14constStr(g, ix.Index)
		return isC && s == `"#"`
	}
	// variables bound to the '#' child of a final frontier node (anywhere in the reach)
	hashVals := map[types.Object]bool{}
	var absentKeys []string // facts that say "there is no '#' child"
	for _, g := range rfs {
		g := g
		ast.Inspect(g.Body, func(n ast.Node) bool {
			if as, ok := n.(*ast.AssignStmt); ok && len(as.Rhs) == 1 && isHashExpr(g, as.Rhs[0]) {
				if o := c14obj(g, as.Lhs[0]); o != nil {
					hashVals[o] = true
					absentKeys = append(absentKeys, "nil:"+c14varRender(g, o)+"=T")
				}
				if len(as.Lhs) == 2 {
					if o := c14obj(g, as.Lhs[1]); o != nil {
						absentKeys = append(absentKeys, "v:"+c14varRender(g, o)+"=F")
					}
				}
			}
			return true
		})
	}

	// ---- helpers the matcher hands the child / frontier node / result map to must be interpreted
	// in place; those that are not (method values, go/defer, variadic, recursion) hide decisions
	type handed struct {
		call *ast.CallExpr
		fo   *types.Func
		what string
	}
	var handedOver []handed
	scanHandOver := func(g *flow.Func, body *ast.BlockStmt, targets ...types.Object) {
		if body == nil {
			return
		}
		for _, call := range calls(body, false) {
			fo := c14calleeOf(g, call)
			if fo == nil || e.collectors[fo] != nil || fo.Pkg() == nil || fo.Pkg() != e.pkg.Types {
				continue
			}
			if _, isCollect := colAt[call]; isCollect {
				continue // an iterator call with a collecting closure: modelled as a collect site
			}
			exprs := append([]ast.Expr{}, call.Args...)
			if x := c14recvOf(g, call); x != nil {
				exprs = append(exprs, x)
			}
			for _, a := range exprs {
				o := c14obj(g, a)
				for _, t := range targets {
					if o != nil && t != nil && (o == t || rootOf(o) == t) {
						handedOver = append(handedOver, handed{call, fo, o.Name()})
					}
				}
			}
		}
	}
	scanHandOver(gi, innerBody, child, result)
	if post != nil {
		scanHandOver(gp, c14loopBody(post), postVal, result)
	}

	hashKey := "eq:" + c14varRender(gi, edge) + `=="#"`
	plusKey := "eq:" + c14varRender(gi, edge) + `=="+"`
	eqKey := ""
	if tlLocal != nil {
		a, b := c14varRender(gi, edge), c14varRender(gi, tlLocal)
		if b < a {
			a, b = b, a
		}
		eqKey = "eq:" + a + "==" + b
	}

	type rowStat struct {
		n   int
		bad *flow.State
		why string
	}
	rows := map[string]*rowStat{"'#'": {}, "'+'": {}, "equal": {}, "other": {}}
	var undetermined *flow.State
	undetWhy := ""
	var badAdvance, badNextNew, badRoot, badPost, badStray *flow.State
	badPostWhy := ""
	nL, nPost := 0, 0

	isRootLit := func(g *flow.Func, r ast.Expr) bool {
		cl, ok := ast.Unparen(r).(*ast.CompositeLit)
		if !ok || len(cl.Elts) != 1 {
			return false
		}
		_, isRoot := c14fieldRecv(g, cl.Elts[0], e.rootF)
		return isRoot
	}
	// structInit: r is a composite literal of a struct that initialises the frontier field
	structInit := func(g *flow.Func, r ast.Expr) (bool, bool) {
		if u, ok := r.(*ast.UnaryExpr); ok && u.Op == token.AND {
			r = ast.Unparen(u.X)
		}
		cl, ok := r.(*ast.CompositeLit)
		if !ok {
			return false, false
		}
		for _, el := range cl.Elts {
			kv, ok := el.(*ast.KeyValueExpr)
			if !ok {
				continue
			}
			if k, ok := kv.Key.(*ast.Ident); ok && g.Info.Uses[k] != nil && g.Info.Uses[k] == frontier {
				return isRootLit(g, kv.Value), true
			}
		}
		return false, false
	}
	collectEvent := func(st *flow.State, cs colSite) {
		// a copy into anything but the result map contributes nothing to the answer
		if d := cs.dst; result != nil {
			if v, ok := d.(*types.Var); ok && !v.IsField() {
				d = rootOf(d)
			}
			if d != result {
				return
			}
		}
		switch {
		case st.Is(c14evIn, flow.True):
			if standsFor(cs.g, cs.recv, child) {
				st.Set(c14evCollect, flow.True)
			} else {
				st.Set(c14evBadCol, flow.True)
			}
		case st.Is(c14evInP, flow.True):
			ro := c14obj(cs.g, cs.recv)
			switch {
			case standsFor(cs.g, cs.recv, postVal):
				st.Set(c14evSelf, flow.True)
			case (ro != nil && hashVals[ro]) || isHashExpr(cs.g, cs.recv):
				st.Set(c14evHash, flow.True)
			}
		default:
			st.Set(c14evStray, flow.True)
			if badStray == nil {
				badStray = st
			}
		}
	}
	except := append([]types.Object{}, collectorObjs...)
	for fo := range e.roles.sources {
		except = append(except, fo)
	}
	except = append(except, e.roles.split.obj)
	for fo, it := range e.iterators {
		if it.field == e.nodesF && iterLit != nil {
			continue // the edge loop lives there: interpreted in place, the closure with it
		}
		except = append(except, fo) // modelled (collect sites), not interpreted
	}

	// a `break` out of the level loop continues with the loop over the final frontier: like the
	// early return it is right only when the frontier is empty. The state at a break is read at the
	// condition of the if statement whose branch it ends.
	type brk struct {
		cond ast.Expr
		want bool
		at   ast.Node
	}
	var breaks []brk
	var badBreak *flow.State
	var badBreakAt ast.Node
	unclassified := []ast.Node{}
	{
		pm := parentMap(f.Body)
		for _, x := range breaksOut(f, L, labelOf(f.Body, L)) {
			if gi == f && contains(mid.stmt, x) {
				continue
			}
			if _, isRet := x.(*ast.ReturnStmt); isRet {
				continue
			}
			ok := false
			if bs, isBr := x.(*ast.BranchStmt); isBr && bs.Tok == token.BREAK {
				if blk, isBlk := pm[x].(*ast.BlockStmt); isBlk {
					if ifs, isIf := pm[blk].(*ast.IfStmt); isIf {
						breaks = append(breaks, brk{ifs.Cond, ifs.Body == blk, x})
						ok = true
					}
				}
			}
			if !ok {
				unclassified = append(unclassified, x)
			}
		}
	}
	frontierEmpty := func(st *flow.State) bool {
		for r := range frontierRenders {
			if c14lenZero(st, r) {
				return true
			}
		}
		return next != nil && c14lenZero(st, c14varRender(gi, next))
	}

	res := analyze(c, f, flow.Config{
		NoHavoc:        true,
		Inline:         inlineSamePkg(f, except...),
		InlineClosures: iterLit != nil,
		AfterAssume: func(st *flow.State, cond ast.Expr, outcome bool) {
			for _, b := range breaks {
				if b.cond == cond && b.want == outcome {
					if (!st.Is(c14evScanned, flow.True) || !frontierEmpty(st)) && badBreak == nil {
						badBreak, badBreakAt = st, b.at
					}
				}
			}
		},
		OnBlock: func(st *flow.State, b *cfg.Block) {
			if b.Stmt == nil {
				return
			}
			switch {
			case b.Stmt == L && c14isHead(b.Kind):
				if st.Is(c14evInL, flow.True) {
					nL++
					adv := st.Is(c14evAdvanced, flow.True) || (st.Is(c14evViaHelper, flow.True) && st.Is(c14evRetNext, flow.True))
					if !adv && badAdvance == nil {
						badAdvance = st
					}
				} else if !st.Is(c14evRootInit, flow.True) && badRoot == nil {
					badRoot = st
				}
				st.Set(c14evInL, flow.Unknown)
				st.Set(c14evScanned, flow.Unknown)
				st.Set(c14evAdvanced, flow.Unknown)
				st.Set(c14evViaHelper, flow.Unknown)
				st.Set(c14evRetNext, flow.Unknown)
			case b.Stmt == L && c14isBody(b.Kind):
				st.Set(c14evInL, flow.True)
				st.Set(c14evScanned, flow.False)
				st.Set(c14evAdvanced, flow.False)
				st.Set(c14evViaHelper, flow.False)
				st.Set(c14evRetNext, flow.False)
			case b.Stmt == mid.stmt && c14isHead(b.Kind):
				if !st.Is(c14evInMid, flow.True) && next != nil {
					// the scan of a level starts: the next frontier must be fresh
					if !st.Is(c14evNextNew, flow.True) && badNextNew == nil {
						badNextNew = st
					}
				}
				st.Set(c14evInMid, flow.Unknown)
			case b.Stmt == mid.stmt && c14isBody(b.Kind):
				st.Set(c14evInMid, flow.True)
			case b.Stmt == mid.stmt && c14isDone(b.Kind):
				st.Set(c14evScanned, flow.True)
			case b.Stmt == ast.Stmt(inner) && c14isBody(b.Kind):
				st.Set(c14evIn, flow.True)
				st.Set(c14evCollect, flow.False)
				st.Set(c14evDescend, flow.False)
				st.Set(c14evBadCol, flow.False)
			case b.Stmt == ast.Stmt(inner) && c14isHead(b.Kind):
				if st.Is(c14evIn, flow.True) {
					hash, plus := st.Get(hashKey), st.Get(plusKey)
					eq := flow.Unknown
					if eqKey != "" {
						eq = st.Get(eqKey)
					}
					if hash == flow.Unknown && (plus == flow.True || eq == flow.True) {
						// '+' excludes '#'; an edge equal to the topic level is '#' only for a topic
						// name that itself contains '#', where descending and collecting after the
						// last level gives the same result
						hash = flow.False
					}
					collect, descend := st.Is(c14evCollect, flow.True), st.Is(c14evDescend, flow.True)
					row, wantC, wantD := "", false, false
					switch {
					case hash == flow.True:
						// descending into a '#' child in addition is tolerated: validated filters
						// end at '#', so that node has no children and is only collected once more
						// after the last level (same map, same value)
						row, wantC, wantD = "'#'", true, descend
					case plus == flow.True:
						row, wantC, wantD = "'+'", false, true
					case eq == flow.True:
						row, wantC, wantD = "equal", false, true
					case hash == flow.False && plus == flow.False && eq == flow.False:
						row, wantC, wantD = "other", false, false
					default:
						if undetermined == nil {
							undetermined = st
							miss := "'#'"
							if hash != flow.Unknown {
								miss = "'+'"
								if plus != flow.Unknown {
									miss = "equality with the topic level"
								}
							}
							undetWhy = "the decision for a child edge is taken without consulting " + miss
						}
					}
					if row != "" {
						r := rows[row]
						r.n++
						if r.bad == nil {
							switch {
							case st.Is(c14evBadCol, flow.True):
								r.bad, r.why = st, "clients of a node other than the child under this edge are collected"
							case wantC && !collect:
								r.bad, r.why = st, "a '#' edge does not contribute its clients: subscribers of 'prefix/#' miss every topic below the prefix"
							case !wantC && collect:
								r.bad, r.why = st, "the child's clients are collected although the edge is not '#': subscribers of a longer filter receive a topic that only matches a prefix of it"
							case wantD && !descend:
								r.bad, r.why = st, "the child is not added to the next frontier although the edge is '+' or equals the topic level: matching subscriptions below it are never found"
							case !wantD && descend:
								r.bad, r.why = st, "the child is added to the next frontier although its edge neither is '+' nor equals the topic level: subscribers of unrelated filters receive the topic"
							}
						}
					}
				}
				st.Set(c14evIn, flow.Unknown)
				st.Set(c14evCollect, flow.Unknown)
				st.Set(c14evDescend, flow.Unknown)
				st.Set(c14evBadCol, flow.Unknown)
			case post != nil && b.Stmt == post && c14isBody(b.Kind):
				st.Set(c14evInP, flow.True)
				st.Set(c14evSelf, flow.False)
				st.Set(c14evHash, flow.False)
			case post != nil && b.Stmt == post && c14isHead(b.Kind):
				if st.Is(c14evInP, flow.True) {
					nPost++
					if badPost == nil {
						absent := false
						have := map[string]bool{}
						for _, k := range st.Facts() {
							have[k] = true
						}
						for _, k := range absentKeys {
							if have[k] {
								absent = true
							}
						}
						switch {
						case !st.Is(c14evSelf, flow.True):
							badPost, badPostWhy = st, "after the last level a frontier node's own clients are not collected: exact-match and '+' subscriptions are lost"
						case !st.Is(c14evHash, flow.True) && !absent:
							badPost, badPostWhy = st, "after the last level the clients of the frontier node's '#' child are not collected (MQTT 3.1.1 §4.7.1.2: 'sport/#' also matches 'sport')"
						}
					}
				}
				st.Set(c14evInP, flow.Unknown)
				st.Set(c14evSelf, flow.Unknown)
				st.Set(c14evHash, flow.Unknown)
			}
		},
		OnCall: func(st *flow.State, call *ast.CallExpr, callee types.Object, d bool) {
			if cs, ok := colAt[call]; ok {
				collectEvent(st, cs)
			}
		},
		OnNode: func(st *flow.State, n ast.Node) {
			if cs, ok := colAt[n]; ok && cs.call == nil {
				collectEvent(st, cs)
			}
			switch t := n.(type) {
			case *ast.ReturnStmt:
				// the helper that scanned the level hands the next frontier back
				if st.Is(c14evScanned, flow.True) && contains(gi.Body, t) && gi != f {
					for _, r := range t.Results {
						if isNext(gi, r) {
							st.Set(c14evRetNext, flow.True)
						}
					}
				}
			case *ast.AssignStmt:
				if descendAt[t] {
					st.Set(c14evDescend, flow.True)
					st.Set(c14evNextNew, flow.False)
					return
				}
				if len(t.Lhs) != len(t.Rhs) {
					// frontier, x = h(..)
					if len(t.Rhs) == 1 && contains(L, t) {
						for _, l := range t.Lhs {
							if c14obj(f, l) == frontier {
								if _, isCall := ast.Unparen(t.Rhs[0]).(*ast.CallExpr); isCall {
									st.Set(c14evViaHelper, flow.True)
								}
							}
						}
					}
					return
				}
				g := gi
				if contains(f.Body, t) {
					g = f
				}
				inL := st.Is(c14evInL, flow.True)
				for i, l := range t.Lhs {
					r := ast.Unparen(t.Rhs[i])
					// a state struct initialised with the frontier: m := topicMatch{frontier: []*node{root}, ..}
					if !inL {
						if v, ok := structInit(g, r); ok {
							st.Set(c14evRootInit, c14boolToVal(v))
						}
					}
					lo := plc(g, l)
					if lo == nil {
						continue
					}
					if lo == frontier {
						if inL {
							_, isCall := r.(*ast.CallExpr)
							switch {
							case isNext(g, r) && st.Is(c14evScanned, flow.True):
								st.Set(c14evAdvanced, flow.True)
							case isCall && gi != f && g == f:
								st.Set(c14evViaHelper, flow.True)
							default:
								st.Set(c14evAdvanced, flow.False)
							}
						} else if !st.Is(c14evInP, flow.True) && !st.Is(c14evScanned, flow.True) {
							st.Set(c14evRootInit, c14boolToVal(isRootLit(g, r)))
						}
					}
					if next != nil && (lo == next || (nextRoot != nil && lo == nextRoot)) {
						st.Set(c14evNextNew, c14boolToVal(c14emptySlice(g, r)))
					}
				}
			case *ast.ValueSpec:
				for i, nm := range t.Names {
					o := f.Info.Defs[nm]
					if next != nil && o != nil && (o == next || rootOf(o) == nextRoot) {
						empty := len(t.Values) == 0 || (i < len(t.Values) && c14emptySlice(f, t.Values[i]))
						st.Set(c14evNextNew, c14boolToVal(empty))
					}
					if o == frontier && t.Pos() < L.Pos() && contains(f.Body, t) {
						st.Set(c14evRootInit, c14boolToVal(i < len(t.Values) && isRootLit(f, t.Values[i])))
					}
					if i < len(t.Values) && !st.Is(c14evInL, flow.True) {
						if v, ok := structInit(f, ast.Unparen(t.Values[i])); ok {
							st.Set(c14evRootInit, c14boolToVal(v))
						}
					}
				}
			}
		},
	})
	if res == nil {
		return
	}
	inlined := map[string]bool{}
	for _, n := range res.Inlined {
		inlined[n] = true
	}
	for _, h := range handedOver {
		hd := declOf(e.pkg, h.fo)
		if hd == nil || !inlined[flow.NewFunc(e.pkg, hd).Name] {
			c.Undecide("R-C14-1", cons+"|matcher split across helpers", pos(c, h.call), "the matcher hands "+h.what+" to "+h.fo.Name()+", which the flow engine could not interpret in place (method value, go/defer, variadic or recursive call): collect/descend decisions taken there are not visible to the table extraction")
			return
		}
	}

	// ---- collect sites only at '#' edges and after the last level
	if badStray == nil {
		c.Discharge("R-C14-1", cons+"|collect sites only at edges and after the last level", pos(c, L), sprintf("%d collect sites, all reached inside an edge iteration or an iteration over the final frontier", nCols))
	} else {
		c.Violate("R-C14-1", cons+"|collect sites only at edges and after the last level", pos(c, L),
			"a node's clients are collected outside the edge loop and outside the loop over the final frontier: nodes on the way (prefixes of the topic) or unrelated nodes contribute subscribers", witness(badStray)...)
	}
	c.RequireCount("R-C14-1", "collect sites in findSubscribers", nCols, 1)

	// ---- the table
	c.RequireCount("R-C14-1", "abstract level iterations explored", nL, 1)
	for _, row := range []string{"'#'", "'+'", "equal", "other"} {
		r := rows[row]
		want := map[string]string{"'#'": "collect child", "'+'": "descend only", "equal": "descend only", "other": "neither"}[row]
		switch {
		case r.bad != nil:
			c.Violate("R-C14-1", cons+"|row "+row, pos(c, inner), "edge "+row+" must "+want+": "+r.why, witness(r.bad)...)
		case r.n == 0 && undetermined != nil:
			c.Violate("R-C14-1", cons+"|row "+row, pos(c, inner), "no path decides this row: "+undetWhy, witness(undetermined)...)
		case r.n == 0:
			c.Violate("R-C14-1", cons+"|row "+row, pos(c, inner), "no path through the edge loop establishes this case ("+want+" expected)")
		default:
			c.Discharge("R-C14-1", cons+"|row "+row, pos(c, inner), sprintf("%d abstract edge iterations: %s", r.n, want))
		}
	}
	if undetermined != nil {
		c.Violate("R-C14-1", cons+"|decision depends on all three atoms", pos(c, inner), undetWhy+" (some edge value gets the wrong treatment whatever the outcome)", witness(undetermined)...)
	} else {
		c.Discharge("R-C14-1", cons+"|decision depends on all three atoms", pos(c, inner), "every abstract edge iteration ends with '#', '+' and equality decided or implied")
	}

	// ---- frontier
	c.Check(badRoot == nil, "R-C14-1", cons+"|frontier starts at the root", pos(c, L),
		"the frontier is initialised with exactly {mgr.root} on every path into the level loop",
		"the level loop is entered with a frontier that is not exactly the trie root", witness(badRoot)...)
	if next == nil {
		c.Violate("R-C14-1", cons+"|frontier advance", pos(c, inner), "no `next = append(next, child)` in the edge loop: nothing is ever descended into")
	} else {
		ok := badAdvance == nil && badNextNew == nil
		why := "an iteration of the level loop ends without replacing the frontier by the next frontier after all frontier nodes were scanned: the following level is matched against the wrong nodes"
		w := witness(badAdvance)
		if badAdvance == nil && badNextNew != nil {
			why = "the next frontier is not a fresh empty slice when a level is scanned: nodes reached for an earlier level stay in the frontier (a filter matches a topic with repeated or skipped levels)"
			w = witness(badNextNew)
		}
		c.Check(ok, "R-C14-1", cons+"|frontier advance", pos(c, L), sprintf("%d abstract level iterations: next frontier fresh at scan, frontier = next after the scan", nL), why, w...)
	}

	// ---- after the last level
	switch {
	case post == nil && len(posts) == 0:
		c.Violate("R-C14-1", cons+"|parent-level '#'", pos(c, L), "there is no loop over the final frontier after the level loop: no exact-match / '+' subscription is ever delivered")
	case post != nil:
		ok := badPost == nil && nPost > 0
		if nPost == 0 && badPost == nil {
			badPostWhy = "the loop over the final frontier is unreachable"
		}
		c.Check(ok, "R-C14-1", cons+"|parent-level '#'", pos(c, post),
			sprintf("%d abstract iterations over the final frontier: own clients collected, '#' child collected or absent", nPost), badPostWhy, witness(badPost)...)
		if ex := breaksOut(gp, post, labelOf(gp.Body, post)); len(ex) > 0 {
			c.Violate("R-C14-1", cons+"|final frontier fully visited", pos(c, ex[0]), "a statement leaves the loop over the final frontier early: subscribers under the frontier nodes not yet visited (map/slice order) are dropped")
		} else {
			c.Discharge("R-C14-1", cons+"|final frontier fully visited", pos(c, post), "no return/break/goto/panic inside the loop over the final frontier")
		}
	}
	ex := breaksOut(gi, mid.stmt, labelOf(gi.Body, mid.stmt))
	ex = append(ex, breaksOut(gInner, inner, labelOf(gInner.Body, inner))...)
	if len(ex) > 0 {
		c.Violate("R-C14-1", cons+"|every edge of every frontier node visited", pos(c, ex[0]), "a statement leaves the frontier/edge loops early: the remaining children (map order) are neither collected nor descended into")
	} else {
		c.Discharge("R-C14-1", cons+"|every edge of every frontier node visited", pos(c, mid.stmt), "no return/break/goto/panic inside the frontier and edge loops")
	}

	// ---- exits
	for _, x := range unclassified {
		c.Undecide("R-C14-1", cons+"|early return only with empty frontier", pos(c, x), "the level loop is left by goto/panic or a break that does not end the branch of an if statement; only returns and such breaks are classified")
	}
	errNil := f.NilKey(src.errID)
	var badEarly, badResult *flow.Exit
	early, succ := 0, 0
	for _, ex := range res.Exits {
		if ex.Kind != flow.ExitReturn || ex.Return == nil {
			continue
		}
		if !ex.State.Is(errNil, flow.True) {
			continue // error path: R-C14-2
		}
		succ++
		rets := ex.Return.Results
		if result != nil && (len(rets) != 2 || !standsFor(f, rets[0], result) || !f.Info.Types[rets[1]].IsNil()) {
			// named results with a bare return
			named := false
			if len(rets) == 0 && f.Type.Results != nil && len(f.Type.Results.List) >= 1 && len(f.Type.Results.List[0].Names) == 1 {
				if o := f.Info.Defs[f.Type.Results.List[0].Names[0]]; o != nil && o == result {
					named = true
				}
			}
			if !named {
				badResult = ex
			}
		}
		if contains(L, ex.Return) {
			early++
			st := ex.State
			empty := frontierEmpty(st)
			scanned := st.Is(c14evScanned, flow.True)
			if !scanned || !empty {
				badEarly = ex
			}
		}
	}
	c.RequireCount("R-C14-1", "success exits of findSubscribers", succ, 1)
	exitW := func(ex *flow.Exit) []string {
		if ex == nil {
			return nil
		}
		return append([]string{"return at " + pos(c, ex.Return)}, witness(ex.State)...)
	}
	if badBreak != nil && badEarly == nil {
		c.Violate("R-C14-1", cons+"|early return only with empty frontier", pos(c, badBreakAt),
			"the level loop is left by break although the frontier is not known to be empty (or before the level was scanned): the remaining levels are not matched, and the nodes reached so far are treated as the final frontier — subscribers of a prefix of the topic receive it", witness(badBreak)...)
	} else {
		c14findEarly(c, cons, L, badEarly, early, len(breaks), exitW)
	}
	if result == nil {
		c.Violate("R-C14-1", cons+"|success returns the result map", pos(c, f.Body), "no collect site writes into a result map")
	} else {
		c.Check(badResult == nil, "R-C14-1", cons+"|success returns the result map", pos(c, f.Body),
			sprintf("%d success exits return (%s, nil)", succ, result.Name()),
			"a success exit does not return the map the matcher collected into (with a nil error): clients collected so far (e.g. through '#') are dropped, or the broker treats the topic as having no subscribers", exitW(badResult)...)
	}
}

func c14boolToVal(b bool) flow.Val {
	if b {
		return flow.True
	}
	return flow.False
}

func c14findEarly(c *core.Ctx, cons string, L ast.Node, badEarly *flow.Exit, early, breaks int, exitW func(*flow.Exit) []string) {
	c.Check(badEarly == nil, "R-C14-1", cons+"|early return only with empty frontier", pos(c, L),
		sprintf("%d abstract exits inside the level loop (%d break(s)), all after the scan of the level with len(frontier)==0 established", early, breaks),
		"findSubscribers returns from inside the level loop although the frontier is not known to be empty (or before the level was scanned): the remaining levels are not matched and exact/'+' subscriptions below are lost", exitW(badEarly)...)
}
