package rules

import (
	"go/ast"
	"go/token"
	"go/types"

	"golang.org/x/tools/go/cfg"

	"verif/internal/flow"
)

// R-C14-1: decision-table extraction on the level loop of findSubscribers.
//
// Roles (all by object identity):
//   levels            first result of the level source call
//   L                 the range loop over levels; its value variable is the topic level
//   mid               the range loop (inside L) over the frontier variable
//   inner             the range loop (inside mid) over <mid value>.nodes; key = edge label, value = child
//   descend           `next = append(next, ..., child, ...)` inside inner; next = the next frontier
//   advance           `frontier = next` inside L after mid has been exhausted
//   post              the range loop after L over the frontier
//   collect           a collector call / inline copy loop (see c14env.collects)

const (
	c14evInL      = "ev:c14:inL"
	c14evScanned  = "ev:c14:scanned"
	c14evAdvanced = "ev:c14:advanced"
	c14evNextNew  = "ev:c14:nextEmpty"
	c14evRootInit = "ev:c14:rootInit"
	c14evIn       = "ev:c14:inEdge"
	c14evCollect  = "ev:c14:collect"
	c14evDescend  = "ev:c14:descend"
	c14evBadCol   = "ev:c14:collectOther"
	c14evInP      = "ev:c14:inPost"
	c14evSelf     = "ev:c14:self"
	c14evHash     = "ev:c14:hashChild"
)

// c14emptySlice reports whether x evaluates to an empty (fresh) slice.
func c14emptySlice(f *flow.Func, x ast.Expr) bool {
	x = ast.Unparen(x)
	switch t := x.(type) {
	case *ast.CompositeLit:
		return len(t.Elts) == 0
	case *ast.Ident:
		_, isNil := f.Info.Uses[t].(*types.Nil)
		return isNil
	case *ast.CallExpr:
		if c14isBuiltin(f, t, "make") && len(t.Args) >= 2 {
			if tv, ok := f.Info.Types[t.Args[1]]; ok && tv.Value != nil && tv.Value.ExactString() == "0" {
				return true
			}
		}
		// conversion []T(nil)
		if tv, ok := f.Info.Types[t.Fun]; ok && tv.IsType() && len(t.Args) == 1 {
			return c14emptySlice(f, t.Args[0])
		}
	}
	return false
}

// c14lenZero reports whether the state knows len(<rendered expr>) == 0.
func c14lenZero(st *flow.State, r string) bool {
	l := "len(" + r + ")"
	return st.Is("eq:"+l+"==0", flow.True) || st.Is("lt:"+l+"<1", flow.True) || st.Is("lt:0<"+l, flow.False)
}

func c14Find(e *c14env) {
	c := e.c
	f := fn(c, mq, "TopicManager", "findSubscribers")
	if f == nil {
		return
	}
	cons := fname(mq, "TopicManager", "findSubscribers")
	src := e.levelSource(f, cons)
	if src == nil {
		return
	}
	all := c14ranges(f.Body)

	// ---- resolve the loops
	var Ls []*ast.RangeStmt
	for _, rs := range all {
		if c14obj(f, rs.X) == src.levels {
			Ls = append(Ls, rs)
		}
	}
	if len(Ls) != 1 {
		c.Errorf("R-C14-1: anchor: %s has %d loops over the validated levels, expected exactly 1", cons, len(Ls))
		return
	}
	L := Ls[0]
	topicLevelID, _ := L.Value.(*ast.Ident)
	if topicLevelID == nil || topicLevelID.Name == "_" {
		c.Undecide("R-C14-1", cons+"|level loop", pos(c, L), "the level loop does not bind the topic level to a value variable")
		return
	}
	topicLevel := f.Info.Defs[topicLevelID]
	if topicLevel == nil {
		topicLevel = f.Info.Uses[topicLevelID]
	}
	var inner, mid *ast.RangeStmt
	nInner := 0
	for _, rs := range all {
		if !contains(L.Body, rs) {
			continue
		}
		x, ok := c14fieldRecv(f, rs.X, e.nodesF)
		if !ok {
			continue
		}
		ro := c14obj(f, x)
		for _, m := range all {
			if m != rs && contains(L.Body, m) && contains(m.Body, rs) && ro != nil && c14obj(f, m.Value) == ro {
				inner, mid = rs, m
				nInner++
			}
		}
	}
	if nInner != 1 {
		c.Errorf("R-C14-1: anchor: %s: found %d loops over <frontier node>.nodes inside the level loop, expected exactly 1 (matcher rewritten? the rule must be revisited)", cons, nInner)
		return
	}
	frontier := c14obj(f, mid.X)
	edgeID, _ := inner.Key.(*ast.Ident)
	childID, _ := inner.Value.(*ast.Ident)
	if frontier == nil || edgeID == nil || childID == nil || edgeID.Name == "_" || childID.Name == "_" {
		c.Undecide("R-C14-1", cons+"|edge loop", pos(c, inner), "cannot identify frontier variable / edge label / child variables of the edge loop")
		return
	}
	edge, child := c14obj(f, edgeID), c14obj(f, childID)
	c.Count("R-C14-1:loops resolved (level, frontier, edge)", 3)

	// ---- the levels are consulted only through the three comparisons
	usesOK := true
	pm := parentMap(f.Body)
	ast.Inspect(L.Body, func(n ast.Node) bool {
		id, ok := n.(*ast.Ident)
		if !ok {
			return true
		}
		o := f.Info.Uses[id]
		if o == nil || (o != edge && o != topicLevel) {
			return true
		}
		p := pm[id]
		for {
			if pe, ok := p.(*ast.ParenExpr); ok {
				p = pm[pe]
				continue
			}
			break
		}
		switch pt := p.(type) {
		case *ast.BinaryExpr:
			if pt.Op == token.EQL || pt.Op == token.NEQ {
				other := pt.X
				if ast.Unparen(pt.X) == ast.Expr(id) {
					other = pt.Y
				}
				oo := c14obj(f, other)
				if s, isC := c14constStr(f, other); isC && (s == `"#"` || s == `"+"`) && o == edge {
					return true
				}
				if (o == edge && oo == topicLevel) || (o == topicLevel && oo == edge) {
					return true
				}
			}
		case *ast.SwitchStmt:
			if pt.Tag != nil && ast.Unparen(pt.Tag) == ast.Expr(id) {
				return true
			}
		case *ast.CaseClause:
			return true
		}
		usesOK = false
		c.Undecide("R-C14-1", cons+"|levels used only in the three comparisons", pos(c, id),
			"the level value "+id.Name+" is used outside a comparison with '#', '+' or the other level ("+f.Render(id)+"): the transition table is no longer the matcher's complete local semantics")
		return true
	})
	if usesOK {
		c.Discharge("R-C14-1", cons+"|levels used only in the three comparisons", pos(c, L), "edge label and topic level occur only as operands of ==/!=/switch against '#', '+' and each other")
	}

	// ---- collect / descend / advance sites
	cols := e.collects(f, f.Body)
	colAt := map[ast.Node]c14collect{}
	var result types.Object
	oneResult := true
	for _, cl := range cols {
		colAt[cl.at] = cl
		if cl.dst != nil {
			if result != nil && result != cl.dst {
				oneResult = false
			}
			result = cl.dst
		}
	}
	if !oneResult {
		c.Violate("R-C14-1", cons+"|success returns the result map", pos(c, f.Body), "the collect sites write into different maps: part of the matching subscribers never reaches the returned result")
		return
	}
	var next types.Object
	descendAt := map[ast.Node]bool{}
	ast.Inspect(inner.Body, func(n ast.Node) bool {
		as, ok := n.(*ast.AssignStmt)
		if !ok || len(as.Lhs) != 1 || len(as.Rhs) != 1 {
			return true
		}
		call, ok := ast.Unparen(as.Rhs[0]).(*ast.CallExpr)
		if !ok || !c14isBuiltin(f, call, "append") || len(call.Args) < 2 {
			return true
		}
		lo := c14obj(f, as.Lhs[0])
		if lo == nil || c14obj(f, call.Args[0]) != lo {
			return true
		}
		for _, a := range call.Args[1:] {
			if c14obj(f, a) == child {
				descendAt[as] = true
				next = lo
			}
		}
		return true
	})

	var posts []*ast.RangeStmt
	for _, rs := range all {
		if rs.Pos() > L.End() && c14obj(f, rs.X) == frontier {
			posts = append(posts, rs)
		}
	}
	var post *ast.RangeStmt
	if len(posts) == 1 {
		post = posts[0]
	} else if len(posts) > 1 {
		c.Undecide("R-C14-1", cons+"|parent-level '#'", pos(c, posts[1]), "more than one loop over the frontier after the level loop")
	}
	var postVal types.Object
	var hashVal, hashOK types.Object
	isHashExpr := func(x ast.Expr) bool {
		ix, ok := ast.Unparen(x).(*ast.IndexExpr)
		if !ok {
			return false
		}
		r, ok := c14fieldRecv(f, ix.X, e.nodesF)
		if !ok || c14obj(f, r) != postVal || postVal == nil {
			return false
		}
		s, isC := c14constStr(f, ix.Index)
		return isC && s == `"#"`
	}
	if post != nil {
		postVal = c14obj(f, post.Value)
		ast.Inspect(post.Body, func(n ast.Node) bool {
			if as, ok := n.(*ast.AssignStmt); ok && len(as.Rhs) == 1 && isHashExpr(as.Rhs[0]) {
				hashVal = c14obj(f, as.Lhs[0])
				if len(as.Lhs) == 2 {
					hashOK = c14obj(f, as.Lhs[1])
				}
			}
			return true
		})
	}

	// a helper that receives the child / frontier node / result map may collect on the
	// matcher's behalf: the table cannot be read off this function alone
	for _, body := range []*ast.BlockStmt{inner.Body, func() *ast.BlockStmt {
		if post != nil {
			return post.Body
		}
		return nil
	}()} {
		if body == nil {
			continue
		}
		for _, call := range calls(body, false) {
			fo, ok := f.Callee(call).(*types.Func)
			if !ok || e.collectors[fo] != nil || fo.Pkg() == nil || fo.Pkg() != e.pkg.Types {
				continue
			}
			exprs := append([]ast.Expr{}, call.Args...)
			if sel, ok := ast.Unparen(call.Fun).(*ast.SelectorExpr); ok {
				exprs = append(exprs, sel.X)
			}
			for _, a := range exprs {
				if o := c14obj(f, a); o != nil && (o == child || o == postVal || o == result) {
					c.Undecide("R-C14-1", cons+"|matcher split across helpers", pos(c, call), "the matcher hands "+o.Name()+" to "+fo.Name()+": collect/descend decisions taken there are not visible to the table extraction")
					return
				}
			}
		}
	}

	hashKey := "eq:" + f.Render(edgeID) + `=="#"`
	plusKey := "eq:" + f.Render(edgeID) + `=="+"`
	eqKey := f.EqKey(edgeID, topicLevelID)

	type rowStat struct {
		n   int
		bad *flow.State
		why string
	}
	rows := map[string]*rowStat{"'#'": {}, "'+'": {}, "equal": {}, "other": {}}
	var undetermined *flow.State
	undetWhy := ""
	var badAdvance, badNextNew, badRoot, badPost *flow.State
	badPostWhy := ""
	nL, nPost := 0, 0

	res := analyze(c, f, flow.Config{
		NoHavoc: true,
		OnBlock: func(st *flow.State, b *cfg.Block) {
			rs, _ := b.Stmt.(*ast.RangeStmt)
			if rs == nil {
				return
			}
			switch {
			case rs == L && b.Kind == cfg.KindRangeLoop:
				if st.Is(c14evInL, flow.True) {
					nL++
					if !st.Is(c14evAdvanced, flow.True) && badAdvance == nil {
						badAdvance = st
					}
				} else if !st.Is(c14evRootInit, flow.True) && badRoot == nil {
					badRoot = st
				}
				st.Set(c14evInL, flow.Unknown)
				st.Set(c14evScanned, flow.Unknown)
				st.Set(c14evAdvanced, flow.Unknown)
			case rs == L && b.Kind == cfg.KindRangeBody:
				st.Set(c14evInL, flow.True)
				st.Set(c14evScanned, flow.False)
				st.Set(c14evAdvanced, flow.False)
			case rs == mid && b.Kind == cfg.KindRangeDone:
				st.Set(c14evScanned, flow.True)
			case rs == inner && b.Kind == cfg.KindRangeBody:
				st.Set(c14evIn, flow.True)
				st.Set(c14evCollect, flow.False)
				st.Set(c14evDescend, flow.False)
				st.Set(c14evBadCol, flow.False)
			case rs == inner && b.Kind == cfg.KindRangeLoop:
				if st.Is(c14evIn, flow.True) {
					hash, plus, eq := st.Get(hashKey), st.Get(plusKey), st.Get(eqKey)
					if hash == flow.Unknown && (plus == flow.True || eq == flow.True) {
						// '+' excludes '#'; an edge equal to the topic level is '#' only for a topic
						// name that itself contains '#', where descending and collecting after the
						// last level gives the same result
						hash = flow.False
					}
					collect, descend := st.Is(c14evCollect, flow.True), st.Is(c14evDescend, flow.True)
					row, wantC, wantD := "", false, false
					switch {
					case hash == flow.True:
						// descending into a '#' child in addition is tolerated: validated filters
						// end at '#', so that node has no children and is only collected once more
						// after the last level (same map, same value)
						row, wantC, wantD = "'#'", true, descend
					case plus == flow.True:
						row, wantC, wantD = "'+'", false, true
					case eq == flow.True:
						row, wantC, wantD = "equal", false, true
					case hash == flow.False && plus == flow.False && eq == flow.False:
						row, wantC, wantD = "other", false, false
					default:
						if undetermined == nil {
							undetermined = st
							miss := "'#'"
							if hash != flow.Unknown {
								miss = "'+'"
								if plus != flow.Unknown {
									miss = "equality with the topic level"
								}
							}
							undetWhy = "the decision for a child edge is taken without consulting " + miss
						}
					}
					if row != "" {
						r := rows[row]
						r.n++
						if r.bad == nil {
							switch {
							case st.Is(c14evBadCol, flow.True):
								r.bad, r.why = st, "clients of a node other than the child under this edge are collected"
							case wantC && !collect:
								r.bad, r.why = st, "a '#' edge does not contribute its clients: subscribers of 'prefix/#' miss every topic below the prefix"
							case !wantC && collect:
								r.bad, r.why = st, "the child's clients are collected although the edge is not '#': subscribers of a longer filter receive a topic that only matches a prefix of it"
							case wantD && !descend:
								r.bad, r.why = st, "the child is not added to the next frontier although the edge is '+' or equals the topic level: matching subscriptions below it are never found"
							case !wantD && descend:
								r.bad, r.why = st, "the child is added to the next frontier although its edge neither is '+' nor equals the topic level: subscribers of unrelated filters receive the topic"
							}
						}
					}
				}
				st.Set(c14evIn, flow.Unknown)
				st.Set(c14evCollect, flow.Unknown)
				st.Set(c14evDescend, flow.Unknown)
				st.Set(c14evBadCol, flow.Unknown)
			case post != nil && rs == post && b.Kind == cfg.KindRangeBody:
				st.Set(c14evInP, flow.True)
				st.Set(c14evSelf, flow.False)
				st.Set(c14evHash, flow.False)
			case post != nil && rs == post && b.Kind == cfg.KindRangeLoop:
				if st.Is(c14evInP, flow.True) {
					nPost++
					if badPost == nil {
						absent := false
						if hashOK != nil && st.Is("v:"+c14varRender(f, hashOK), flow.False) {
							absent = true
						}
						if hashVal != nil && st.Is("nil:"+c14varRender(f, hashVal), flow.True) {
							absent = true
						}
						switch {
						case !st.Is(c14evSelf, flow.True):
							badPost, badPostWhy = st, "after the last level a frontier node's own clients are not collected: exact-match and '+' subscriptions are lost"
						case !st.Is(c14evHash, flow.True) && !absent:
							badPost, badPostWhy = st, "after the last level the clients of the frontier node's '#' child are not collected (MQTT 3.1.1 §4.7.1.2: 'sport/#' also matches 'sport')"
						}
					}
				}
				st.Set(c14evInP, flow.Unknown)
				st.Set(c14evSelf, flow.Unknown)
				st.Set(c14evHash, flow.Unknown)
			}
		},
		OnCall: func(st *flow.State, call *ast.CallExpr, callee types.Object, d bool) {
			if cl, ok := colAt[call]; ok {
				c14collectEvent(f, st, cl, inner, post, child, postVal, hashVal, isHashExpr)
			}
		},
		OnNode: func(st *flow.State, n ast.Node) {
			if cl, ok := colAt[n]; ok && cl.call == nil {
				c14collectEvent(f, st, cl, inner, post, child, postVal, hashVal, isHashExpr)
			}
			if n == ast.Node(mid.X) && next != nil {
				if !st.Is(c14evNextNew, flow.True) && badNextNew == nil {
					badNextNew = st
				}
			}
			switch t := n.(type) {
			case *ast.AssignStmt:
				if descendAt[t] {
					st.Set(c14evDescend, flow.True)
					st.Set(c14evNextNew, flow.False)
					return
				}
				if len(t.Lhs) != len(t.Rhs) {
					return
				}
				for i, l := range t.Lhs {
					lo := c14obj(f, l)
					if lo == nil {
						continue
					}
					r := ast.Unparen(t.Rhs[i])
					if lo == frontier {
						if contains(L, t) {
							if next != nil && c14obj(f, r) == next && st.Is(c14evScanned, flow.True) {
								st.Set(c14evAdvanced, flow.True)
							} else {
								st.Set(c14evAdvanced, flow.False)
							}
						} else if t.Pos() < L.Pos() {
							rootInit := false
							if cl, ok := r.(*ast.CompositeLit); ok && len(cl.Elts) == 1 {
								if _, isRoot := c14fieldRecv(f, cl.Elts[0], e.rootF); isRoot {
									rootInit = true
								}
							}
							st.Set(c14evRootInit, c14boolToVal(rootInit))
						}
					}
					if next != nil && lo == next {
						st.Set(c14evNextNew, c14boolToVal(c14emptySlice(f, r)))
					}
				}
			case *ast.ValueSpec:
				for i, nm := range t.Names {
					o := f.Info.Defs[nm]
					if next != nil && o == next {
						empty := len(t.Values) == 0 || (i < len(t.Values) && c14emptySlice(f, t.Values[i]))
						st.Set(c14evNextNew, c14boolToVal(empty))
					}
					if o == frontier && t.Pos() < L.Pos() {
						rootInit := false
						if i < len(t.Values) {
							if cl, ok := ast.Unparen(t.Values[i]).(*ast.CompositeLit); ok && len(cl.Elts) == 1 {
								if _, isRoot := c14fieldRecv(f, cl.Elts[0], e.rootF); isRoot {
									rootInit = true
								}
							}
						}
						st.Set(c14evRootInit, c14boolToVal(rootInit))
					}
				}
			}
		},
	})
	if res == nil {
		return
	}

	// ---- collect sites only at '#' edges and after the last level
	stray := 0
	for _, cl := range cols {
		if contains(inner.Body, cl.at) || (post != nil && contains(post.Body, cl.at)) {
			continue
		}
		stray++
		c.Violate("R-C14-1", cons+"|collect sites only at edges and after the last level", pos(c, cl.at),
			"clients of "+f.Render(cl.recv)+" are collected outside the edge loop and outside the loop over the final frontier: nodes on the way (prefixes of the topic) or unrelated nodes contribute subscribers")
	}
	if stray == 0 {
		c.Discharge("R-C14-1", cons+"|collect sites only at edges and after the last level", pos(c, L), sprintf("%d collect sites, all inside the edge loop or the loop over the final frontier", len(cols)))
	}
	c.RequireCount("R-C14-1", "collect sites in findSubscribers", len(cols), 1)

	// ---- the table
	c.RequireCount("R-C14-1", "abstract level iterations explored", nL, 1)
	for _, row := range []string{"'#'", "'+'", "equal", "other"} {
		r := rows[row]
		want := map[string]string{"'#'": "collect child", "'+'": "descend only", "equal": "descend only", "other": "neither"}[row]
		switch {
		case r.bad != nil:
			c.Violate("R-C14-1", cons+"|row "+row, pos(c, inner), "edge "+row+" must "+want+": "+r.why, witness(r.bad)...)
		case r.n == 0 && undetermined != nil:
			c.Violate("R-C14-1", cons+"|row "+row, pos(c, inner), "no path decides this row: "+undetWhy, witness(undetermined)...)
		case r.n == 0:
			c.Violate("R-C14-1", cons+"|row "+row, pos(c, inner), "no path through the edge loop establishes this case ("+want+" expected)")
		default:
			c.Discharge("R-C14-1", cons+"|row "+row, pos(c, inner), sprintf("%d abstract edge iterations: %s", r.n, want))
		}
	}
	if undetermined != nil {
		c.Violate("R-C14-1", cons+"|decision depends on all three atoms", pos(c, inner), undetWhy+" (some edge value gets the wrong treatment whatever the outcome)", witness(undetermined)...)
	} else {
		c.Discharge("R-C14-1", cons+"|decision depends on all three atoms", pos(c, inner), "every abstract edge iteration ends with '#', '+' and equality decided or implied")
	}

	// ---- frontier
	c.Check(badRoot == nil, "R-C14-1", cons+"|frontier starts at the root", pos(c, L),
		"the frontier is initialised with exactly {mgr.root} on every path into the level loop",
		"the level loop is entered with a frontier that is not exactly the trie root", witness(badRoot)...)
	if next == nil {
		c.Violate("R-C14-1", cons+"|frontier advance", pos(c, inner), "no `next = append(next, child)` in the edge loop: nothing is ever descended into")
	} else {
		ok := badAdvance == nil && badNextNew == nil
		why := "an iteration of the level loop ends without replacing the frontier by the next frontier after all frontier nodes were scanned: the following level is matched against the wrong nodes"
		w := witness(badAdvance)
		if badAdvance == nil && badNextNew != nil {
			why = "the next frontier is not a fresh empty slice when a level is scanned: nodes reached for an earlier level stay in the frontier (a filter matches a topic with repeated or skipped levels)"
			w = witness(badNextNew)
		}
		c.Check(ok, "R-C14-1", cons+"|frontier advance", pos(c, L), sprintf("%d abstract level iterations: next frontier fresh at scan, frontier = next after the scan", nL), why, w...)
	}

	// ---- after the last level
	switch {
	case post == nil && len(posts) == 0:
		c.Violate("R-C14-1", cons+"|parent-level '#'", pos(c, L), "there is no loop over the final frontier after the level loop: no exact-match / '+' subscription is ever delivered")
	case post != nil:
		ok := badPost == nil && nPost > 0
		if nPost == 0 && badPost == nil {
			badPostWhy = "the loop over the final frontier is unreachable"
		}
		c.Check(ok, "R-C14-1", cons+"|parent-level '#'", pos(c, post),
			sprintf("%d abstract iterations over the final frontier: own clients collected, '#' child collected or absent", nPost), badPostWhy, witness(badPost)...)
		if ex := breaksOut(f, post, labelOf(f.Body, post)); len(ex) > 0 {
			c.Violate("R-C14-1", cons+"|final frontier fully visited", pos(c, ex[0]), "a statement leaves the loop over the final frontier early: subscribers under the frontier nodes not yet visited (map/slice order) are dropped")
		} else {
			c.Discharge("R-C14-1", cons+"|final frontier fully visited", pos(c, post), "no return/break/goto/panic inside the loop over the final frontier")
		}
	}
	ex := breaksOut(f, mid, labelOf(f.Body, mid))
	ex = append(ex, breaksOut(f, inner, labelOf(f.Body, inner))...)
	if len(ex) > 0 {
		c.Violate("R-C14-1", cons+"|every edge of every frontier node visited", pos(c, ex[0]), "a statement leaves the frontier/edge loops early: the remaining children (map order) are neither collected nor descended into")
	} else {
		c.Discharge("R-C14-1", cons+"|every edge of every frontier node visited", pos(c, mid), "no return/break/goto/panic inside the frontier and edge loops")
	}

	// ---- exits
	for _, x := range breaksOut(f, L, labelOf(f.Body, L)) {
		if contains(mid, x) {
			continue
		}
		if _, isRet := x.(*ast.ReturnStmt); !isRet {
			c.Undecide("R-C14-1", cons+"|early return only with empty frontier", pos(c, x), "the level loop is left by break/goto/panic; only returns are classified")
		}
	}
	errNil := f.NilKey(src.errID)
	var badEarly, badResult *flow.Exit
	early, succ := 0, 0
	for _, ex := range res.Exits {
		if ex.Kind != flow.ExitReturn || ex.Return == nil {
			continue
		}
		if !ex.State.Is(errNil, flow.True) {
			continue // error path: R-C14-2
		}
		succ++
		if result != nil && (len(ex.Return.Results) != 2 || c14obj(f, ex.Return.Results[0]) != result || !f.Info.Types[ex.Return.Results[1]].IsNil()) {
			badResult = ex
		}
		if contains(L, ex.Return) {
			early++
			st := ex.State
			empty := c14lenZero(st, c14varRender(f, frontier)) || (next != nil && c14lenZero(st, c14varRender(f, next)))
			if !st.Is(c14evScanned, flow.True) || !empty {
				badEarly = ex
			}
		}
	}
	c.RequireCount("R-C14-1", "success exits of findSubscribers", succ, 1)
	exitW := func(ex *flow.Exit) []string {
		if ex == nil {
			return nil
		}
		return append([]string{"return at " + pos(c, ex.Return)}, witness(ex.State)...)
	}
	c.Check(badEarly == nil, "R-C14-1", cons+"|early return only with empty frontier", pos(c, L),
		sprintf("%d abstract exits inside the level loop, all after the scan of the level with len(frontier)==0 established", early),
		"findSubscribers returns from inside the level loop although the frontier is not known to be empty (or before the level was scanned): the remaining levels are not matched and exact/'+' subscriptions below are lost", exitW(badEarly)...)
	if result == nil {
		c.Violate("R-C14-1", cons+"|success returns the result map", pos(c, f.Body), "no collect site writes into a result map")
	} else {
		c.Check(badResult == nil, "R-C14-1", cons+"|success returns the result map", pos(c, f.Body),
			sprintf("%d success exits return (%s, nil)", succ, result.Name()),
			"a success exit does not return the map the matcher collected into (with a nil error): clients collected so far (e.g. through '#') are dropped, or the broker treats the topic as having no subscribers", exitW(badResult)...)
	}
}

func c14boolToVal(b bool) flow.Val {
	if b {
		return flow.True
	}
	return flow.False
}

// c14collectEvent classifies a collect site reached in the current state.
func c14collectEvent(f *flow.Func, st *flow.State, cl c14collect, inner, post *ast.RangeStmt, child, postVal, hashVal types.Object, isHashExpr func(ast.Expr) bool) {
	ro := c14obj(f, cl.recv)
	switch {
	case contains(inner.Body, cl.at):
		if ro != nil && ro == child {
			st.Set(c14evCollect, flow.True)
		} else {
			st.Set(c14evBadCol, flow.True)
		}
	case post != nil && contains(post.Body, cl.at):
		switch {
		case ro != nil && ro == postVal:
			st.Set(c14evSelf, flow.True)
		case (ro != nil && ro == hashVal) || isHashExpr(cl.recv):
			st.Set(c14evHash, flow.True)
		}
	}
}
