package rules

// R-C16-6 — persistence chain of a session. A client that reconnects with cleanSession=false
// after its old connection is completely gone gets the session rebuilt from storage, so every
// acknowledged change of the subscription set must reach the store:
//
//	(a) Session.subscribe / Session.unsubscribe: on every exit the last change of info.Topics is
//	    followed by store();
//	(b) Session.store: every exit on which encoding did not fail has handed the snapshot to the
//	    store channel — a send on Session.storeCh, directly or in a spawned literal / in-package
//	    function all of whose paths end in that send. The send may only be abandoned for a signal
//	    that also stops the receiver (SessionManager.done): a `default:` clause drops the snapshot
//	    whenever doStore is busy; a `<-s.done` clause drops it at every connection teardown, because
//	    delLocal closes the session on every teardown, also for cleanSession=false sessions;
//	(c) SessionManager.doStore: every received snapshot is put under sessionStoreKey(kv.key) with
//	    kv.value, and the loop only ends on SessionManager.done.
//
// Round-2 seeded change C16/b (`select { case s.storeCh <- ss: case <-s.done: }`) → (b) violated.
// Further mutants of the same kind: `default:` clause; `time.After` clause; early return in the
// literal when the session is closed; store() dropped from Session.subscribe; doStore returning on
// a put error. Behaviour-preserving variants that stay silent: channel copied into a local before
// the goroutine; the literal replaced by `go s.handOff(ss)`; abandon clause on
// s.broker.sessMgr.done.

import (
	"go/ast"
	"go/types"

	"golang.org/x/tools/go/cfg"

	"verif/internal/flow"
)

type c16Persist struct {
	e         *c16Env
	storeChF  *types.Var // Session.storeCh
	smStoreF  *types.Var // SessionManager.storeCh
	smDoneF   *types.Var // SessionManager.done
	sessDoneF *types.Var // Session.done
	kvKeyF    *types.Var // SessionStore.key
	kvValF    *types.Var // SessionStore.value
}

// isStoreChan: x denotes the channel doStore receives from.
func (p *c16Persist) isStoreChan(f *flow.Func, x ast.Expr, depth int) bool {
	if c16Sel(f, x, p.storeChF) || c16Sel(f, x, p.smStoreF) {
		return true
	}
	// by type: any channel of SessionStore is the store channel (parameters, copies)
	if tv, ok := f.Info.Types[x]; ok && tv.Type != nil {
		if ch, ok := tv.Type.Underlying().(*types.Chan); ok {
			if n, ok := ch.Elem().(*types.Named); ok && n.Obj().Name() == "SessionStore" && n.Obj().Pkg() != nil && n.Obj().Pkg().Path() == Mod+mq {
				return true
			}
		}
	}
	if o := c16Obj(f, x); o != nil && depth < 2 {
		rhs := c16DefRHS(f, o)
		if len(rhs) == 0 {
			return false
		}
		for _, r := range rhs {
			if !p.isStoreChan(f, r, depth+1) {
				return false
			}
		}
		return true
	}
	return false
}

// recvFrom reports whether the comm statement of a select clause receives from field fld.
func c16RecvFrom(f *flow.Func, comm ast.Stmt, fld *types.Var) bool {
	if comm == nil {
		return false
	}
	found := false
	ast.Inspect(comm, func(n ast.Node) bool {
		if u, ok := n.(*ast.UnaryExpr); ok && u.Op.String() == "<-" && c16Sel(f, u.X, fld) {
			found = true
		}
		return !found
	})
	return found
}

// sender analyses a function body (store itself, the spawned literal or an in-package function):
// every exit must have sent on the store channel (or have been told that the receiver stopped).
// okExit lets the caller excuse exits (encode error).
func (p *c16Persist) sender(f *flow.Func, okExit func(st *flow.State) bool, depth int) (ok bool, why string, bad *flow.State) {
	if f == nil || depth > 2 {
		return false, "hand-off too deep to follow", nil
	}
	pm := parentMap(f.Body)
	sendClause := map[ast.Stmt]bool{} // select clauses whose comm is the send
	stopClause := map[ast.Stmt]bool{} // select clauses receiving SessionManager.done
	var plainSends []*ast.SendStmt
	why = ""
	ast.Inspect(f.Body, func(n ast.Node) bool {
		if _, isLit := n.(*ast.FuncLit); isLit {
			return false
		}
		s, isSend := n.(*ast.SendStmt)
		if !isSend || !p.isStoreChan(f, s.Chan, 0) {
			return true
		}
		cc, inSel := pm[s].(*ast.CommClause)
		if !inSel || cc.Comm != ast.Stmt(s) {
			plainSends = append(plainSends, s)
			return true
		}
		sendClause[cc] = true
		if blk, isB := pm[cc].(*ast.BlockStmt); isB {
			for _, other := range blk.List {
				oc := other.(*ast.CommClause)
				switch {
				case oc == cc:
				case oc.Comm == nil:
					why = "the send of the snapshot sits in a select with a default clause: the snapshot is dropped whenever the single doStore goroutine is busy (slow storage), so an acknowledged SUBSCRIBE may never be persisted"
				case c16RecvFrom(f, oc.Comm, p.smDoneF):
					stopClause[oc] = true
				case c16RecvFrom(f, oc.Comm, p.sessDoneF):
					why = "the send of the snapshot is abandoned when the session's own done channel is closed: Session.close() runs in every connection teardown (delLocal), also for cleanSession=false sessions, so a snapshot still queued behind a slow store.put is silently dropped and the session reloaded from storage lacks a subscription the broker already acknowledged"
				default:
					why = "the send of the snapshot can be abandoned (" + pos(p.e.c, oc) + ") for a reason other than the shutdown of the store goroutine: the snapshot may never be persisted"
				}
			}
		}
		return true
	})
	if why != "" {
		return false, why, nil
	}
	const evSent, evStopped = "ev:c16sent", "ev:c16storeStopped"
	subOK := map[*ast.GoStmt]string{}
	res := analyze(p.e.c, f, flow.Config{
		NoHavoc: true,
		OnNode: func(st *flow.State, n ast.Node) {
			switch s := n.(type) {
			case *ast.SendStmt:
				for _, ps := range plainSends {
					if ps == s {
						st.Set(evSent, flow.True)
					}
				}
			case *ast.GoStmt:
				w, seen := subOK[s]
				if !seen {
					w = "-"
					if lit, isLit := ast.Unparen(s.Call.Fun).(*ast.FuncLit); isLit {
						if ok2, why2, _ := p.sender(f.Lit(lit), nil, depth+1); ok2 {
							w = ""
						} else if why2 != "" {
							w = why2
						}
					} else if fo, isF := c16FnOK(f, s.Call); isF {
						if d := p.e.decls[fo]; d != nil {
							if ok2, why2, _ := p.sender(flow.NewFunc(p.e.pkg, d), nil, depth+1); ok2 {
								w = ""
							} else if why2 != "" {
								w = why2
							}
						}
					}
					subOK[s] = w
				}
				if w == "" {
					st.Set(evSent, flow.True)
				}
			}
		},
		OnCall: func(st *flow.State, call *ast.CallExpr, callee types.Object, deferred bool) {
			// synchronous hand-off through an in-package helper
			if fo, isF := callee.(*types.Func); isF && depth < 2 {
				if d := p.e.decls[fo]; d != nil && d.Body != f.Body && c16HasStoreSend(p, flow.NewFunc(p.e.pkg, d)) {
					if ok2, _, _ := p.sender(flow.NewFunc(p.e.pkg, d), nil, depth+1); ok2 {
						st.Set(evSent, flow.True)
					}
				}
			}
		},
		OnBlock: func(st *flow.State, b *cfg.Block) {
			if b.Kind == cfg.KindSelectCaseBody {
				if sendClause[b.Stmt] {
					st.Set(evSent, flow.True)
				}
				if stopClause[b.Stmt] {
					st.Set(evStopped, flow.True)
				}
			}
		},
	})
	if res == nil {
		return false, "analysis failed", nil
	}
	n := 0
	for _, ex := range res.Exits {
		if !c16RealExit(ex) {
			continue
		}
		n++
		st := ex.State
		if st.Is(evSent, flow.True) || st.Is(evStopped, flow.True) || (okExit != nil && okExit(st)) {
			continue
		}
		for _, w := range subOK {
			if w != "" && w != "-" {
				return false, w, st
			}
		}
		return false, "a path ends without the snapshot having been sent on the store channel: that state of the session is never persisted", st
	}
	if n == 0 {
		return false, "no exit", nil
	}
	return true, "", nil
}

func c16HasStoreSend(p *c16Persist, f *flow.Func) bool {
	found := false
	ast.Inspect(f.Body, func(n ast.Node) bool {
		if s, ok := n.(*ast.SendStmt); ok && p.isStoreChan(f, s.Chan, 0) {
			found = true
		}
		return !found
	})
	return found
}

func c16PersistRule(e *c16Env) {
	c := e.c
	p := &c16Persist{e: e}
	p.storeChF = structField(c, mq, "Session", "storeCh")
	p.smStoreF = structField(c, mq, "SessionManager", "storeCh")
	p.smDoneF = structField(c, mq, "SessionManager", "done")
	p.sessDoneF = structField(c, mq, "Session", "done")
	p.kvKeyF = structField(c, mq, "SessionStore", "key")
	p.kvValF = structField(c, mq, "SessionStore", "value")
	for _, v := range []*types.Var{p.storeChF, p.smStoreF, p.smDoneF, p.sessDoneF, p.kvKeyF, p.kvValF} {
		if v == nil {
			return
		}
	}

	// (a) topic changes are followed by store()
	for _, m := range []string{"subscribe", "unsubscribe"} {
		f := fn(c, mq, "Session", m)
		if f == nil {
			continue
		}
		cons := fname(mq, "Session", m) + "|topic change persisted"
		isMut := func(n ast.Node) bool {
			switch s := n.(type) {
			case *ast.AssignStmt:
				for _, l := range s.Lhs {
					if ix, ok := ast.Unparen(l).(*ast.IndexExpr); ok && c16Sel(f, ix.X, e.topicsF) {
						return true
					}
					if c16Sel(f, l, e.topicsF) {
						return true
					}
				}
			case *ast.ExprStmt:
				if call, ok := s.X.(*ast.CallExpr); ok {
					if calleeFull(f, call) == "builtin.delete" && len(call.Args) == 2 && c16Sel(f, call.Args[0], e.topicsF) {
						return true
					}
					// the map itself handed to a function value / helper that changes it
					// (`update(s.info.Topics)`): from here on the stored copy may be stale
					if _, isBuiltin := f.Callee(call).(*types.Builtin); !isBuiltin {
						for _, a := range call.Args {
							if c16Sel(f, a, e.topicsF) {
								return true
							}
						}
					}
				}
			}
			return false
		}
		muts := 0
		for _, g := range reach(f, 2) {
			if fd, ok := g.Node.(*ast.FuncDecl); ok && g.Body != f.Body && !c16RecvIs(fd, "Session") {
				continue // helpers of the session only
			}
			ast.Inspect(g.Body, func(n ast.Node) bool {
				if isMut(n) {
					muts++
				}
				return true
			})
		}
		if !c.RequireCount("R-C16-6", "changes of info.Topics in Session."+m, muts, 1) {
			continue
		}
		const evDirty = "ev:c16dirty"
		res := analyze(c, f, flow.Config{NoHavoc: true, InlineClosures: true,
			Inline: e.inlineWhere(f, func(g *flow.Func, n ast.Node) bool {
				if isMut(n) {
					return true
				}
				call, ok := n.(*ast.CallExpr)
				return ok && c16Is(g, call, "(*"+mq+".Session).store")
			}),
			OnNode: func(st *flow.State, n ast.Node) {
				if isMut(n) {
					st.Set(evDirty, flow.True)
				}
			},
			OnCall: func(st *flow.State, call *ast.CallExpr, callee types.Object, d bool) {
				if c16Is(f, call, "(*"+mq+".Session).store") {
					st.Set(evDirty, flow.False)
				}
			}})
		if res == nil {
			continue
		}
		var bad *flow.State
		n := 0
		for _, ex := range res.Exits {
			if !c16RealExit(ex) {
				continue
			}
			n++
			if ex.State.Is(evDirty, flow.True) && bad == nil {
				bad = ex.State
			}
		}
		c.Check(bad == nil && n > 0, "R-C16-6", cons, pos(c, f.Body), sprintf("%d exits, none with a change of info.Topics that is not followed by store()", n),
			"Session."+m+" can return with a change of the subscription set that is not handed to store(): the stored session, from which a cleanSession=false reconnect is rebuilt once the old connection is gone, does not reflect what the broker acknowledged", witness(bad)...)
	}

	// (b) store() always hands the snapshot over
	if f := fn(c, mq, "Session", "store"); f != nil {
		cons := fname(mq, "Session", "store") + "|snapshot always handed to the store channel"
		var errKeys []string
		ast.Inspect(f.Body, func(n ast.Node) bool {
			if as, ok := n.(*ast.AssignStmt); ok && len(as.Rhs) == 1 && len(as.Lhs) == 2 {
				if _, isCall := ast.Unparen(as.Rhs[0]).(*ast.CallExpr); isCall {
					if tv, ok := f.Info.Types[as.Lhs[1]]; ok && isErrorTypeC16(tv.Type) {
						errKeys = append(errKeys, f.NilKey(as.Lhs[1]))
					} else if o := c16Obj(f, as.Lhs[1]); o != nil && isErrorTypeC16(o.Type()) {
						errKeys = append(errKeys, f.NilKey(as.Lhs[1]))
					}
				}
			}
			return true
		})
		ok, why, bad := p.sender(f, func(st *flow.State) bool {
			for _, k := range errKeys {
				if st.Is(k, flow.False) {
					return true
				}
			}
			return false
		}, 0)
		c.Check(ok, "R-C16-6", cons, pos(c, f.Body), "every exit on which encoding succeeded has sent the snapshot on the store channel (directly or in the spawned function); the send cannot be abandoned except for the store goroutine's shutdown", why, witness(bad)...)
	}

	// (c) doStore puts every snapshot
	if f := fn(c, mq, "SessionManager", "doStore"); f != nil {
		cons := fname(mq, "SessionManager", "doStore") + "|every snapshot is put under its session key until shutdown"
		var puts []*ast.CallExpr
		for _, call := range calls(f.Body, false) {
			if ifaceMethodCall(f, call, mq, "storage", "put") {
				puts = append(puts, call)
			}
		}
		if !c.RequireCount("R-C16-6", "store.put call sites in doStore", len(puts), 1) {
			return
		}
		put := puts[0]
		pm := parentMap(f.Body)
		var clause *ast.CommClause
		for n := pm[ast.Node(put)]; n != nil; n = pm[n] {
			if cc, ok := n.(*ast.CommClause); ok {
				clause = cc
				break
			}
		}
		var kvObj types.Object
		if clause != nil {
			if as, ok := clause.Comm.(*ast.AssignStmt); ok && len(as.Lhs) >= 1 && c16RecvFrom(f, as, p.smStoreF) {
				kvObj = c16Obj(f, as.Lhs[0])
			}
		}
		shape, why := true, ""
		switch {
		case kvObj == nil:
			shape, why = false, "store.put is not in the select clause that receives a snapshot from the store channel"
		case len(put.Args) != 2:
			shape, why = false, "unexpected put signature"
		default:
			kc, isC := ast.Unparen(put.Args[0]).(*ast.CallExpr)
			if !isC || !c16Is(f, kc, mq+".sessionStoreKey") || len(kc.Args) != 1 || !c16Sel(f, kc.Args[0], p.kvKeyF) || c16Obj(f, c16Root(kc.Args[0])) != kvObj {
				shape, why = false, "the snapshot is not put under sessionStoreKey(<received>.key): sessMgr.get would not find it on reconnect"
			} else if !c16Sel(f, put.Args[1], p.kvValF) || c16Obj(f, c16Root(put.Args[1])) != kvObj {
				shape, why = false, "the value put is not the received snapshot's value"
			}
		}
		if !shape {
			c.Violate("R-C16-6", cons, pos(c, put), why)
			return
		}
		loops := enclosingLoops(f.Body, put)
		var outer ast.Stmt
		if len(loops) > 0 {
			outer = loops[0]
		}
		const evDone, evPut, evGot = "ev:c16smDone", "ev:c16put", "ev:c16got"
		var badIter *flow.State
		res := analyze(c, f, flow.Config{NoHavoc: true,
			OnBlock: func(st *flow.State, b *cfg.Block) {
				switch {
				case outer != nil && b.Stmt == outer && b.Kind == cfg.KindForBody:
					if st.Is(evGot, flow.True) && !st.Is(evPut, flow.True) && badIter == nil {
						badIter = st
					}
					st.Set(evGot, flow.Unknown)
					st.Set(evPut, flow.Unknown)
					st.Set(evDone, flow.Unknown)
				case b.Kind == cfg.KindSelectCaseBody && b.Stmt == ast.Stmt(clause):
					st.Set(evGot, flow.True)
				case b.Kind == cfg.KindSelectCaseBody:
					if cc, ok := b.Stmt.(*ast.CommClause); ok && c16RecvFrom(f, cc.Comm, p.smDoneF) {
						st.Set(evDone, flow.True)
					}
				}
			},
			OnCall: func(st *flow.State, call *ast.CallExpr, callee types.Object, d bool) {
				if call == put {
					st.Set(evPut, flow.True)
				}
			}})
		if res == nil {
			return
		}
		var bad *flow.State
		why = ""
		for _, ex := range res.Exits {
			if !c16RealExit(ex) {
				continue
			}
			if !ex.State.Is(evDone, flow.True) && bad == nil {
				bad, why = ex.State, "doStore can return for a reason other than the session manager's shutdown: from then on no session change is persisted (and every store() goroutine blocks forever)"
			}
		}
		if bad == nil && badIter != nil {
			bad, why = badIter, "a snapshot received from the store channel is not put into the storage on some path"
		}
		c.Check(bad == nil, "R-C16-6", cons, pos(c, put), "put(sessionStoreKey(kv.key), kv.value) for every received snapshot; the loop ends only on SessionManager.done", why, witness(bad)...)
	}
}

func isErrorTypeC16(t types.Type) bool {
	return t != nil && types.Identical(t, types.Universe.Lookup("error").Type())
}
