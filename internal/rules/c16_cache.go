package rules

// R-C16-7 — the session cache holds only sessions of live connections. SessionManager.get reads
// sessionMap before the storage, so an entry that survives the teardown of its connection makes
// a session that was discarded elsewhere in the meantime (cleanSession=true connect on another
// member, admin delete while the client is offline) come back on the next cleanSession=false
// connect. Necessary structural condition: along the call chain from the read loop's deferred
// teardown to the removal of the sessionMap entry, every function executes the next link on every
// exit - except exits on which it has established that the connection no longer owns the id
// (registered connection is another one / supersession mark set) or that nothing is cached.
// No condition on the session's content (clean flag, pending messages ...) may skip the removal.

import (
	"go/ast"
	"go/types"

	"verif/internal/flow"
)

type c16CacheAn struct {
	e       *c16Env
	w       *c16Walker
	reachM  map[*ast.FuncDecl]int
	visited map[string]bool
	n       int
	prims   int // removal primitives found at the end of the chain
}

func (a *c16CacheAn) isRemoval(f *flow.Func, call *ast.CallExpr) bool {
	return a.w.primitive(f, call) == c16OpLive
}

func (a *c16CacheAn) reaches(d *ast.FuncDecl, depth int) bool {
	if v := a.reachM[d]; v != 0 {
		return v == 2
	}
	a.reachM[d] = 1
	f := flow.NewFunc(a.e.pkg, d)
	yes := false
	for _, call := range calls(d.Body, true) { // closures included: `b.withLock(func() {...})`
		if a.isRemoval(f, call) {
			yes = true
			break
		}
		if fo, ok := c16FnOK(f, call); ok && depth < 4 {
			if cd := a.e.decls[fo]; cd != nil && cd != d && a.reaches(cd, depth+1) {
				yes = true
				break
			}
		}
	}
	if yes {
		a.reachM[d] = 2
	}
	return yes
}

func (a *c16CacheAn) check(f *flow.Func, name string, depth int) {
	if a.visited[name] || depth > 5 {
		return
	}
	a.visited[name] = true
	c := a.e.c
	cons := name + "|owner's teardown always removes the cached session"
	var sites []*ast.CallExpr
	var next []*ast.FuncDecl
	for _, call := range calls(f.Body, false) {
		if a.isRemoval(f, call) {
			sites = append(sites, call)
			a.prims++
			continue
		}
		if fo, ok := c16FnOK(f, call); ok {
			if d := a.e.decls[fo]; d != nil && a.reaches(d, 0) {
				sites = append(sites, call)
				next = append(next, d)
			}
		}
	}
	// a closure handed to a helper that always runs it (`b.withLock(func() {...})`) is the next link
	var nextLits []*ast.FuncLit
	for _, call := range calls(f.Body, false) {
		fo, ok := c16FnOK(f, call)
		if !ok || a.e.decls[fo] == nil {
			continue
		}
		for i, arg := range call.Args {
			lit, ok := ast.Unparen(arg).(*ast.FuncLit)
			if !ok {
				continue
			}
			lf := f.Lit(lit)
			litReaches := false
			for _, c2 := range calls(lit.Body, true) {
				if a.isRemoval(lf, c2) {
					litReaches = true
				} else if fo2, ok := c16FnOK(lf, c2); ok && a.e.decls[fo2] != nil && a.reaches(a.e.decls[fo2], 0) {
					litReaches = true
				}
			}
			if !litReaches {
				continue
			}
			if always, _ := a.w.runsParam(a.e.decls[fo], i); !always {
				c.Undecide("R-C16-7", cons, pos(c, call), "the removal of the cached session sits in a closure handed to a helper that does not call it on every path; the rule cannot follow that")
				return
			}
			sites = append(sites, call)
			nextLits = append(nextLits, lit)
		}
	}
	if len(sites) == 0 {
		c.Violate("R-C16-7", cons, pos(c, f.Body), "the teardown never removes the connection's entry from the session cache (sessionMap): get() keeps handing the cached session to later connections although the stored session may have been discarded or deleted meanwhile")
		return
	}
	a.n++
	g := a.w.guards(f, false) // identity / supersession facts of this function
	var lookupOK []string
	ast.Inspect(f.Body, func(n ast.Node) bool {
		if as, ok := n.(*ast.AssignStmt); ok && len(as.Lhs) == 2 && len(as.Rhs) == 1 {
			if call, ok := ast.Unparen(as.Rhs[0]).(*ast.CallExpr); ok && c16Is(f, call, "(*sync.Map).Load") && c16Sel(f, c16Recv(call), a.e.sessMapF) {
				if id, ok := as.Lhs[1].(*ast.Ident); ok && c16Obj(f, id) != nil {
					lookupOK = append(lookupOK, f.VarKey(id))
				}
			}
		}
		return true
	})
	const evRemoved = "ev:c16cacheRemoved"
	_, inline := a.w.ownerHelpers(f)
	res := analyze(c, f, flow.Config{NoHavoc: true, Inline: inline, OnCall: func(st *flow.State, call *ast.CallExpr, callee types.Object, d bool) {
		for _, s := range sites {
			if s == call {
				st.Set(evRemoved, flow.True)
			}
		}
	}})
	if res != nil {
		var bad *flow.State
		n := 0
		for _, ex := range res.Exits {
			if !c16RealExit(ex) {
				continue
			}
			n++
			st := ex.State
			excused := st.Is(evRemoved, flow.True)
			for _, k := range g.idKeys {
				excused = excused || st.Is(k, flow.False)
			}
			for _, sf := range g.sup {
				excused = excused || (sf.supWhen != flow.Unknown && st.Get(sf.key) == sf.supWhen)
			}
			for _, k := range lookupOK {
				excused = excused || st.Is(k, flow.False)
			}
			if !excused && bad == nil {
				bad = st
			}
		}
		c.Check(bad == nil && n > 0, "R-C16-7", cons, pos(c, sites[0]), sprintf("%d exits: each removed the cache entry (or called the function that does), or established that the connection does not own the id any more / nothing is cached", n),
			"a path of the teardown ends without removing the connection's session from the session cache although the connection still owns its client id: SessionManager.get reads the cache before the storage, so a session discarded on another member or deleted through the admin endpoint while the client is offline comes back on the next cleanSession=false connect", witness(bad)...)
	}
	for _, d := range next {
		a.check(flow.NewFunc(a.e.pkg, d), declName(a.e.pkg, d), depth+1)
	}
	for _, lit := range nextLits {
		a.check(f.Lit(lit), name+"$func", depth+1)
	}
}

func c16Cache(e *c16Env) {
	c := e.c
	f := e.anchor("readLoop")
	if f == nil {
		return
	}
	a := &c16CacheAn{e: e, w: &c16Walker{e: e, visited: map[string]bool{}, ops: map[string]*c16Op{}}, reachM: map[*ast.FuncDecl]int{}, visited: map[string]bool{}}
	name := e.fnameOf(f)
	roots := 0
	ast.Inspect(f.Body, func(n ast.Node) bool {
		d, ok := n.(*ast.DeferStmt)
		if !ok {
			return true
		}
		if lit, ok := ast.Unparen(d.Call.Fun).(*ast.FuncLit); ok {
			roots++
			a.check(f.Lit(lit), name+"$deferred", 0)
		} else if fo, ok := c16FnOK(f, d.Call); ok {
			if dd := e.decls[fo]; dd != nil {
				roots++
				a.check(flow.NewFunc(e.pkg, dd), declName(e.pkg, dd), 0)
			}
		}
		return false
	})
	if roots == 0 {
		c.Violate("R-C16-7", name+"$deferred|owner's teardown always removes the cached session", pos(c, f.Body), "the read loop has no deferred teardown: nothing removes the connection's session from the cache when the connection ends")
		return
	}
	c.RequireCount("R-C16-7", "functions on the chain from the read loop's teardown to the session cache", a.n, 1)
	c.RequireCount("R-C16-7", "removals of the session-cache entry at the end of that chain", a.prims, 1)
}
