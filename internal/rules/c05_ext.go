package rules

import (
	"go/ast"
	"go/types"

	"golang.org/x/tools/go/cfg"

	"verif/internal/core"
	"verif/internal/flow"
)

// Rules added after the second and third round of independently seeded changes (see DESIGN.md §8).
// Each is a structural necessary condition stated independently of the seeded patch's text;
// the mutants and behaviour-preserving edits they were tested with are in selftest/mutants/C05.json.

// R-C05-5 (extension): every successfully parsed entry is inserted.

func c05EveryEntryInserted(c *core.Ctx) {
	f := fn(c, ipf, "", "New")
	if f == nil {
		return
	}
	cons := fname(ipf, "", "New")
	var lit *ast.FuncLit
	ast.Inspect(f.Body, func(n ast.Node) bool {
		if l, ok := n.(*ast.FuncLit); ok && lit == nil {
			for _, call := range calls(l.Body, false) {
				if methodName(call) == "Insert" {
					lit = l
				}
			}
		}
		return true
	})
	body := f
	if lit != nil {
		body = f.Lit(lit)
	}
	var loop *ast.RangeStmt
	ast.Inspect(body.Body, func(n ast.Node) bool {
		if rs, ok := n.(*ast.RangeStmt); ok && loop == nil {
			for _, call := range calls(rs.Body, false) {
				if methodName(call) == "Insert" {
					loop = rs
				}
			}
		}
		return true
	})
	if loop == nil {
		c.Undecide("R-C05-5", cons+"|every parsed entry is inserted", pos(c, body.Body), "no loop over the configured entries inserts into the ranger")
		return
	}
	var ipID, errID *ast.Ident
	ast.Inspect(loop.Body, func(n ast.Node) bool {
		as, ok := n.(*ast.AssignStmt)
		if !ok || len(as.Rhs) != 1 {
			return true
		}
		if call, ok := ast.Unparen(as.Rhs[0]).(*ast.CallExpr); ok {
			switch calleeFull(f, call) {
			case "net.ParseIP":
				ipID, _ = as.Lhs[0].(*ast.Ident)
			case "net.ParseCIDR":
				if len(as.Lhs) == 3 {
					errID, _ = as.Lhs[2].(*ast.Ident)
				}
			}
		}
		return true
	})
	if ipID == nil || errID == nil {
		return // reported by the first half of R-C05-5
	}
	ipNil, errNil := body.NilKey(ipID), body.NilKey(errID)
	var bad *flow.State
	iters := 0
	res := analyze(c, body, flow.Config{NoHavoc: true,
		OnCall: func(st *flow.State, call *ast.CallExpr, callee types.Object, deferred bool) {
			if methodName(call) == "Insert" && contains(loop, call) {
				st.Set("ev:inserted", flow.True)
			}
		},
		OnBlock: func(st *flow.State, b *cfg.Block) {
			if b.Stmt != loop {
				return
			}
			switch b.Kind {
			case cfg.KindRangeBody:
				st.Set("ev:inbody", flow.True)
				st.Set("ev:inserted", flow.Unknown)
			case cfg.KindRangeLoop:
				if st.Is("ev:inbody", flow.True) {
					iters++
					parsed := st.Is(ipNil, flow.False) || (st.Is(ipNil, flow.True) && st.Is(errNil, flow.True))
					if parsed && !st.Is("ev:inserted", flow.True) {
						bad = st
					}
				}
				st.Set("ev:inbody", flow.Unknown)
				st.Set("ev:inserted", flow.Unknown)
				st.Set(ipNil, flow.Unknown)
				st.Set(errNil, flow.Unknown)
			}
		},
	})
	if res == nil {
		return
	}
	c.RequireCount("R-C05-5", "abstract iterations over the configured entries", iters, 2)
	c.Check(bad == nil, "R-C05-5", cons+"|every parsed entry is inserted", pos(c, loop), sprintf("%d abstract iteration ends: a successfully parsed address or CIDR always reaches Insert", iters),
		"an entry that parsed successfully is skipped without being inserted into the ranger: a configured address/CIDR is silently ignored (e.g. a wider CIDR listed after a narrower one)", witness(bad)...)
	exits := breaksOut(body, loop, labelOf(body.Body, loop))
	c.Check(len(exits) == 0, "R-C05-5", cons+"|all entries are visited", pos(c, loop), "the loop over the configured entries has no early exit", "the loop over the configured entries can be left early: later entries are ignored")
}

// R-C05-3 (extension): an own-level filter is omitted only for an absent spec.
func c05NewIPFilter(c *core.Ctx) {
	f := fn(c, hs, "", "newIPFilter")
	if f == nil {
		return
	}
	cons := fname(hs, "", "newIPFilter")
	if f.Type.Params == nil || len(f.Type.Params.List) != 1 || len(f.Type.Params.List[0].Names) != 1 {
		c.Undecide("R-C05-3", cons+"|signature", pos(c, f.Body), "unexpected signature")
		return
	}
	specNil := f.NilKey(f.Type.Params.List[0].Names[0])
	res := analyze(c, f, flow.Config{NoHavoc: true})
	if res == nil {
		return
	}
	var bad *flow.State
	n := 0
	for _, ex := range res.Exits {
		if ex.Kind != flow.ExitReturn || ex.Return == nil || len(ex.Return.Results) != 1 {
			continue
		}
		n++
		if f.Info.Types[ex.Return.Results[0]].IsNil() && !ex.State.Is(specNil, flow.True) {
			bad = ex.State
		}
		if !f.Info.Types[ex.Return.Results[0]].IsNil() {
			// must be ipfilter.New(spec)
			call, ok := ast.Unparen(ex.Return.Results[0]).(*ast.CallExpr)
			if !ok || !calleeIs(f, call, "pkg/util/ipfilter.New") {
				bad = ex.State
			}
		}
	}
	c.Check(bad == nil && n >= 2, "R-C05-3", cons+"|no filter only for an absent spec", pos(c, f.Body), sprintf("%d exits: nil iff spec == nil, otherwise ipfilter.New(spec)", n),
		"a configured IP filter spec yields no filter (e.g. a deny-all filter {blockByDefault: true} without entries is ignored on the uncached path while the cached path's chain still applies it)", witness(bad)...)
}
