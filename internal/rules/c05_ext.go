package rules

import (
	"go/ast"
	"go/types"

	"golang.org/x/tools/go/cfg"

	"verif/internal/core"
	"verif/internal/flow"
)

// Rules added after the second and third round of independently seeded changes (see DESIGN.md §8).
// Each is a structural necessary condition stated independently of the seeded patch's text;
// the mutants and behaviour-preserving edits they were tested with are in selftest/mutants/C05.json.

// R-C05-5 (extension): every successfully parsed entry is inserted.

func c05EveryEntryInserted(c *core.Ctx) {
	f := fn(c, ipf, "", "New")
	if f == nil {
		return
	}
	cons := fname(ipf, "", "New")
	body := c05RangerBuilder(f)
	vf := newMuxFlow([]*flow.Func{body})
	sinks, stagingOK, partial := c05SinksX(body)
	if partial != nil {
		c.Violate("R-C05-5", cons+"|all entries are visited", pos(c, partial), "the loop that inserts the staged entries into the ranger does not visit every entry (it starts late, steps unevenly or can be left early): configured addresses/CIDRs are ignored")
	}
	isSink := map[*ast.CallExpr]bool{}
	for _, s := range sinks {
		isSink[s] = true
	}
	// the loop over the configured entries: the range / counting loop over a []string whose body commits entries
	var loop *muxLoop
	for _, l := range vf.loops("entries", func(x ast.Expr) bool {
		tv, ok := f.Info.Types[x]
		return ok && tv.Type != nil && tv.Type.String() == "[]string"
	}) {
		for _, call := range calls(l.body(), false) {
			if isSink[call] && loop == nil {
				loop = l
			}
		}
	}
	if loop == nil || !stagingOK {
		c.Undecide("R-C05-5", cons+"|every parsed entry is inserted", pos(c, body.Body), "no loop over the configured entries inserts into the ranger")
		return
	}
	ipID, errID := c05ParseVars(body)
	if ipID == nil || errID == nil {
		return // reported by the first half of R-C05-5
	}
	ipNil, errNil := body.NilKey(ipID), body.NilKey(errID)
	var bad *flow.State
	iters := 0
	res := muxAnalyzeInl(c, body, flow.Config{NoHavoc: true,
		OnCall: func(st *flow.State, call *ast.CallExpr, callee types.Object, deferred bool) {
			if isSink[call] {
				st.Set("ev:inserted", flow.True)
			}
			if calleeFull(f, call) == "net.ParseCIDR" {
				st.Set("ev:cidrTried", flow.True)
			}
		},
		OnBlock: func(st *flow.State, b *cfg.Block) {
			switch {
			case loop.isBody(b):
				st.Set("ev:inbody", flow.True)
				st.Set("ev:inserted", flow.Unknown)
				st.Set("ev:cidrTried", flow.Unknown)
			case loop.isHead(b):
				if st.Is("ev:inbody", flow.True) {
					iters++
					// a single address that is sent through ParseCIDR as well counts as parsed only
					// when that succeeded
					parsed := (st.Is(ipNil, flow.False) && !st.Is("ev:cidrTried", flow.True)) || (st.Is("ev:cidrTried", flow.True) && st.Is(errNil, flow.True))
					if parsed && !st.Is("ev:inserted", flow.True) {
						bad = st
					}
				}
				st.Set("ev:inbody", flow.Unknown)
				st.Set("ev:inserted", flow.Unknown)
				st.Set(ipNil, flow.Unknown)
				st.Set(errNil, flow.Unknown)
			}
		},
	})
	if res == nil {
		return
	}
	c.RequireCount("R-C05-5", "abstract iterations over the configured entries", iters, 2)
	c.Check(bad == nil, "R-C05-5", cons+"|every parsed entry is inserted", pos(c, loop.stmt), sprintf("%d abstract iteration ends: a successfully parsed address or CIDR always reaches Insert", iters),
		"an entry that parsed successfully is skipped without being inserted into the ranger: a configured address/CIDR is silently ignored (e.g. a wider CIDR listed after a narrower one)", witness(bad)...)
	exits := breaksOut(body, loop.stmt, labelOf(body.Body, loop.stmt))
	c.Check(len(exits) == 0 && loop.ordered, "R-C05-5", cons+"|all entries are visited", pos(c, loop.stmt), "the loop over the configured entries has no early exit", "the loop over the configured entries can be left early (or does not visit every index): later entries are ignored")
}

// R-C05-3 (extension): an own-level filter is omitted only for an absent spec.
func c05NewIPFilter(c *core.Ctx) {
	ro := muxRolesOf(c, "R-C05-3")
	if ro == nil {
		return
	}
	mc := muxCtorsOf(c, ro, "R-C05-3")
	if mc == nil {
		return
	}
	f := mc.filterCtor
	cons := muxFuncConstruct(f)
	if f.Type.Params == nil || len(f.Type.Params.List) != 1 || len(f.Type.Params.List[0].Names) != 1 {
		c.Undecide("R-C05-3", cons+"|signature", pos(c, f.Body), "unexpected signature")
		return
	}
	specNil := f.NilKey(f.Type.Params.List[0].Names[0])
	vf := newMuxFlow([]*flow.Func{f})
	res := analyze(c, f, flow.Config{NoHavoc: true})
	if res == nil {
		return
	}
	var bad *flow.State
	n := 0
	for _, ex := range res.Exits {
		if ex.Kind != flow.ExitReturn {
			continue
		}
		r := muxRetExpr(f, vf, ex)
		if r == nil {
			continue
		}
		n++
		isNil := f.Info.Types[r].IsNil()
		if id := muxIdentOf(r); id != nil && !isNil && ex.State.Is(f.NilKey(id), flow.True) {
			isNil = true
		}
		if isNil && !ex.State.Is(specNil, flow.True) {
			bad = ex.State
		}
		if !isNil {
			// must be ipfilter.New(spec)
			call, ok := vf.through(r).(*ast.CallExpr)
			if !ok || !calleeIs(f, call, "pkg/util/ipfilter.New") {
				bad = ex.State
			}
		}
	}
	c.Check(bad == nil && n >= 2, "R-C05-3", cons+"|no filter only for an absent spec", pos(c, f.Body), sprintf("%d exits: nil iff spec == nil, otherwise ipfilter.New(spec)", n),
		"a configured IP filter spec yields no filter (e.g. a deny-all filter {blockByDefault: true} without entries is ignored on the uncached path while the cached path's chain still applies it)", witness(bad)...)
}
