package rules

import (
	"go/ast"
	"go/token"
	"go/types"
	"sort"
	"strings"

	"verif/internal/core"
	"verif/internal/flow"
)

// R-C13-7: sized buffers. A struct field that receives `make([]T, n)` with a run-time n and is
// later indexed with something that is not the variable of an enclosing loop (a cursor, a
// computed slot) is a ring buffer / slot table: indexing it panics when n was 0. Every such
// (function, field) pair needs a proof that the buffer is not empty: a dominating length test
// in the function, or a reviewed reason — for the circuit breaker windows the reason is checked
// mechanically: every size handed to the constructor comes from a spec field with schema
// minimum >= 1, or the code that lets a result be recorded has established that the size is
// positive (half-open admission `calls < permitted`).

type c13BufEntry struct {
	reason string
	check  func(c *core.Ctx, g *c13Graph, sf *c13SpecFields, field *types.Var) (bool, string)
}

var c13BufTable = map[string]c13BufEntry{
	c13CB + ".(CountBasedWindow).Push|index into sized buffer CountBasedWindow.bucket": {
		reason: "the window is sized by slidingWindowSize (schema minimum=1) in closed state and by permittedNumberOfCallsInHalfOpenState (no minimum) in half-open state, where a call is admitted — and its result pushed — only after `numberOfCallsInHalfOpen < permitted`, i.e. permitted >= 1",
		check:  c13CheckWindowSizes},
	c13CB + ".(TimeBasedWindow).Push|index into sized buffer TimeBasedWindow.bucket": {
		reason: "the window is sized by slidingWindowSize, schema minimum=1", check: c13CheckWindowSizes},
	c13CB + ".(TimeBasedWindow).evict|index into sized buffer TimeBasedWindow.bucket": {
		reason: "the window is sized by slidingWindowSize, schema minimum=1", check: c13CheckWindowSizes},
	"pkg/util/sampler.(DurationSampler).Update|index into sized buffer DurationSampler.durations": {
		reason: "1 + the sum of the slots of the constant segments table; the slot index stays below that sum",
		check: func(c *core.Ctx, g *c13Graph, sf *c13SpecFields, _ *types.Var) (bool, string) {
			return c13CheckSegments(c, g, sf)
		}},
}

type c13MakeSite struct {
	node *c13Node
	size ast.Expr
}

// c13IsSizedMake: make([]T, n) with a non-constant n.
func c13IsSizedMake(n *c13Node, e ast.Expr) (ast.Expr, bool) {
	call, ok := ast.Unparen(e).(*ast.CallExpr)
	if !ok || len(call.Args) < 2 {
		return nil, false
	}
	id, ok := ast.Unparen(call.Fun).(*ast.Ident)
	if !ok {
		return nil, false
	}
	info := n.pkg.TypesInfo
	if b, ok := info.Uses[id].(*types.Builtin); !ok || b.Name() != "make" {
		return nil, false
	}
	tv, ok := info.Types[call.Args[0]]
	if !ok || tv.Type == nil {
		return nil, false
	}
	if _, ok := tv.Type.Underlying().(*types.Slice); !ok {
		return nil, false
	}
	if info.Types[call.Args[1]].Value != nil {
		return nil, false
	}
	return call.Args[1], true
}

// c13SizedFields finds the struct fields that receive a sized make in reachable code.
func c13SizedFields(g *c13Graph) map[*types.Var][]c13MakeSite {
	out := map[*types.Var][]c13MakeSite{}
	for _, n := range g.reachedFuncs() {
		info := n.pkg.TypesInfo
		ast.Inspect(n.body, func(x ast.Node) bool {
			switch e := x.(type) {
			case *ast.KeyValueExpr:
				if id, ok := e.Key.(*ast.Ident); ok {
					if size, ok := c13IsSizedMake(n, e.Value); ok {
						if v, ok := info.Uses[id].(*types.Var); ok && v.IsField() {
							out[v.Origin()] = append(out[v.Origin()], c13MakeSite{n, size})
						}
					}
				}
			case *ast.AssignStmt:
				if len(e.Lhs) == len(e.Rhs) {
					for i, l := range e.Lhs {
						if size, ok := c13IsSizedMake(n, e.Rhs[i]); ok {
							if v := c13FieldOf(n, l); v != nil {
								out[v] = append(out[v], c13MakeSite{n, size})
							}
						}
					}
				}
			}
			return true
		})
	}
	return out
}

// c13LoopVars returns the objects declared by for / range statements of the body.
func c13LoopVars(n *c13Node) map[types.Object]bool {
	info := n.pkg.TypesInfo
	out := map[types.Object]bool{}
	ast.Inspect(n.body, func(x ast.Node) bool {
		switch s := x.(type) {
		case *ast.RangeStmt:
			for _, e := range []ast.Expr{s.Key, s.Value} {
				if id, ok := e.(*ast.Ident); ok {
					if o := info.Defs[id]; o != nil {
						out[o] = true
					}
				}
			}
		case *ast.CallExpr:
			// a callback iterator: the parameters of a function literal handed to a call
			// (`forEachToken(tokens, func(i, token int) bool {...})`) are iteration variables
			for _, a := range s.Args {
				if lit, ok := ast.Unparen(a).(*ast.FuncLit); ok && lit.Type.Params != nil {
					for _, fl := range lit.Type.Params.List {
						for _, nm := range fl.Names {
							if o := info.Defs[nm]; o != nil {
								out[o] = true
							}
						}
					}
				}
			}
		case *ast.ForStmt:
			if as, ok := s.Init.(*ast.AssignStmt); ok && as.Tok == token.DEFINE {
				for _, l := range as.Lhs {
					if id, ok := l.(*ast.Ident); ok {
						if o := info.Defs[id]; o != nil {
							out[o] = true
						}
					}
				}
			}
		}
		return true
	})
	return out
}

func c13Buffers(c *core.Ctx, g *c13Graph, sf *c13SpecFields) {
	sized := c13SizedFields(g)
	type group struct {
		node  *c13Node
		field *types.Var
		sites []*ast.IndexExpr
	}
	groups := map[string]*group{}
	nSites := 0
	for _, n := range g.reachedFuncs() {
		info := n.pkg.TypesInfo
		var loopVars map[types.Object]bool
		ast.Inspect(n.body, func(x ast.Node) bool {
			ix, ok := x.(*ast.IndexExpr)
			if !ok {
				return true
			}
			v := c13FieldOf(n, ix.X)
			if v == nil || len(sized[v]) == 0 || info.Types[ix.Index].Value != nil {
				return true
			}
			if id, ok := ast.Unparen(ix.Index).(*ast.Ident); ok {
				if loopVars == nil {
					loopVars = c13LoopVars(n)
				}
				if loopVars[info.Uses[id]] {
					return true // iteration over the buffer, bounded by the loop
				}
			}
			nSites++
			cons := g.owner(n).name + "|index into sized buffer " + strings.TrimPrefix(sf.name(v), n.pkg.Types.Name()+".")
			gr := groups[cons]
			if gr == nil {
				gr = &group{node: n, field: v}
				groups[cons] = gr
			}
			gr.sites = append(gr.sites, ix)
			return true
		})
	}
	for _, cons := range sortedKeys(groups) {
		gr := groups[cons]
		n := gr.node
		at := gr.sites[0]
		// 1. dominating length test in the function
		proved := n.decl != nil
		for _, ix := range gr.sites {
			if proved && !c13ProveNonEmpty(c, n, ix) {
				proved = false
			}
		}
		if proved {
			c.Discharge("R-C13-7", cons, pos(c, at), "the buffer is known non-empty (or the index below its length) on every path")
			continue
		}
		e, ok := c13BufTable[cons]
		switch {
		case !ok:
			c.Violate("R-C13-7", cons, pos(c, at),
				sprintf("a buffer created with make([]T, n) (n not constant) is indexed by a cursor / computed slot in code reachable from %s, without a dominating length test and without a reviewed reason why n >= 1: a configuration that makes n = 0 panics with index out of range", n.root),
				n.chain()...)
		case e.check != nil:
			okc, detail := e.check(c, g, sf, gr.field)
			c.Check(okc, "R-C13-7", cons, pos(c, at), e.reason+" — checked: "+detail,
				"reviewed reason no longer holds ("+e.reason+"): "+detail, n.chain()...)
		default:
			c.Discharge("R-C13-7", cons, pos(c, at), "reviewed: "+e.reason)
		}
	}
	c.RequireCount("R-C13-7", "cursor / slot index sites into sized buffers", nSites, 3)
}

// c13ProveNonEmpty: in every state reaching the index expression, len(buffer) > 0 or
// index < len(buffer) is known.
func c13ProveNonEmpty(c *core.Ctx, n *c13Node, ix *ast.IndexExpr) bool {
	top := n.flowFunc()
	if top == nil {
		return false
	}
	f := c13Innermost(top, ix)
	l := "len(" + f.Render(ix.X) + ")"
	keys := []string{"eq:" + l + "==0", "lt:0<" + l, "lt:" + l + "<1", "lt:" + f.Render(ix.Index) + "<" + l}
	good := func(st *flow.State) bool {
		return st.Is(keys[0], flow.False) || st.Is(keys[1], flow.True) || st.Is(keys[2], flow.False) || st.Is(keys[3], flow.True)
	}
	states, seen := c13StatesAt(c, f, ix, flow.Config{
		Track: func(k string) bool {
			for _, w := range keys {
				if k == w {
					return true
				}
			}
			return strings.HasPrefix(k, "v:")
		},
		Pure: c13PureFor(f, c13BaseObj(f, ix.X)),
	}, good)
	if !seen {
		return false
	}
	for _, st := range states {
		if !good(st) {
			return false
		}
	}
	return true
}

// ---------------------------------------------------------------------------------------
// the circuit breaker windows

// c13CheckWindowSizes: every size that reaches the make of the window's bucket field is a
// circuitbreaker.Policy field copied from a CircuitBreakerPolicy spec field with schema
// minimum >= 1, or one whose positivity is established before a call is admitted.
func c13CheckWindowSizes(c *core.Ctx, g *c13Graph, sf *c13SpecFields, field *types.Var) (bool, string) {
	sized := c13SizedFields(g)
	var details []string
	nSources := 0
	for _, ms := range sized[field] {
		k := ms.node
		core := c13Core(k, ms.size)
		if arg, ok := c13IsLen(k, core); ok && c13FieldOf(k, arg) == field {
			continue // re-creation with the same length (Reset)
		}
		id, ok := core.(*ast.Ident)
		param := -1
		if ok && k.decl != nil {
			obj := k.pkg.TypesInfo.Uses[id]
			idx := 0
			for _, p := range k.decl.Type.Params.List {
				for _, nm := range p.Names {
					if k.pkg.TypesInfo.Defs[nm] == obj {
						param = idx
					}
					idx++
				}
			}
		}
		if param < 0 {
			// the buffer is made where the window is installed (constructor inlined): the size
			// expression itself is the source
			nSources++
			okSrc, detail := c13SizeSourceOK(c, g, sf, k, ms.size)
			if !okSrc {
				return false, detail
			}
			details = append(details, detail)
			continue
		}
		// call sites of the constructor
		for _, caller := range g.nodes {
			if caller.decl == nil && caller.body == nil {
				continue
			}
			info := caller.pkg.TypesInfo
			var bad string
			ast.Inspect(caller.body, func(x ast.Node) bool {
				call, ok := x.(*ast.CallExpr)
				if !ok || bad != "" || len(call.Args) <= param {
					return true
				}
				cid := c13CalleeIdent(call)
				if cid == nil || info.Uses[cid] != k.obj {
					return true
				}
				nSources++
				okSrc, detail := c13SizeSourceOK(c, g, sf, caller, call.Args[param])
				if !okSrc {
					bad = detail
				} else {
					details = append(details, detail)
				}
				return true
			})
			if bad != "" {
				return false, bad
			}
		}
	}
	if nSources == 0 {
		return false, "no call site of the window constructor found"
	}
	sort.Strings(details)
	return true, strings.Join(c13Uniq(details), "; ")
}

func c13Uniq(ss []string) []string {
	var out []string
	for i, s := range ss {
		if i == 0 || s != ss[i-1] {
			out = append(out, s)
		}
	}
	return out
}

// c13SizeSourceOK decides one size argument of a window constructor.
func c13SizeSourceOK(c *core.Ctx, g *c13Graph, sf *c13SpecFields, caller *c13Node, arg ast.Expr) (bool, string) {
	p := c13FieldOf(caller, c13Core(caller, arg))
	where := pos(c, arg)
	if p == nil {
		return false, sprintf("%s sizes a window with an expression that is not a policy field (%s): it cannot be traced to the schema", caller.name, where)
	}
	if sf.isSpec(p) {
		if sf.schemaMinAtLeast(p, 1) {
			return true, sf.name(p) + " has schema minimum >= 1"
		}
		return false, sprintf("%s sizes a window with spec field %s, which has no schema minimum >= 1", caller.name, sf.name(p))
	}
	// a derived policy struct: the spec field it is copied from
	var src *types.Var
	conflicting := false
	// classify one stored value: a spec field (remembered), a positive constant (harmless), a
	// parameter (followed to the call sites of the function, one level), anything else: unknown
	var classify func(n *c13Node, val ast.Expr, depth int)
	classify = func(n *c13Node, val ast.Expr, depth int) {
		core := c13Core(n, val)
		if tv := n.pkg.TypesInfo.Types[core]; tv.Value != nil {
			if v := tv.Value.ExactString(); v == "0" || strings.HasPrefix(v, "-") {
				conflicting = true
			}
			return
		}
		if s := c13FieldOf(n, core); s != nil {
			if !sf.isSpec(s) || (src != nil && src != s) {
				conflicting = true
			} else {
				src = s
			}
			return
		}
		id, ok := core.(*ast.Ident)
		if !ok || n.decl == nil || depth > 0 {
			conflicting = true
			return
		}
		obj := n.pkg.TypesInfo.Uses[id]
		param, idx := -1, 0
		for _, p := range n.decl.Type.Params.List {
			for _, nm := range p.Names {
				if n.pkg.TypesInfo.Defs[nm] == obj {
					param = idx
				}
				idx++
			}
		}
		if param < 0 {
			conflicting = true
			return
		}
		for _, caller := range g.nodes {
			cinfo := caller.pkg.TypesInfo
			ast.Inspect(caller.body, func(x ast.Node) bool {
				if call, ok := x.(*ast.CallExpr); ok && len(call.Args) > param {
					if cid := c13CalleeIdent(call); cid != nil && cinfo.Uses[cid] == n.obj {
						classify(caller, call.Args[param], depth+1)
					}
				}
				return true
			})
		}
	}
	for _, n := range g.nodes {
		info := n.pkg.TypesInfo
		ast.Inspect(n.body, func(x ast.Node) bool {
			var val ast.Expr
			switch e := x.(type) {
			case *ast.KeyValueExpr:
				if id, ok := e.Key.(*ast.Ident); ok {
					if v, ok := info.Uses[id].(*types.Var); ok && v.Origin() == p {
						val = e.Value
					}
				}
			case *ast.AssignStmt:
				if len(e.Lhs) == len(e.Rhs) {
					for i, l := range e.Lhs {
						if c13FieldOf(n, l) == p {
							val = e.Rhs[i]
						}
					}
				}
			}
			if val == nil {
				return true
			}
			classify(n, val, 0)
			return true
		})
	}
	if src == nil || conflicting {
		return false, sprintf("%s sizes a window with %s, whose value cannot be traced to a single spec field", caller.name, sf.name(p))
	}
	if sf.schemaMinAtLeast(src, 1) {
		return true, sf.name(p) + " <- " + sf.name(src) + " (schema minimum >= 1)"
	}
	// no schema minimum: results may only be recorded after the size was seen positive
	okAdm, detail := c13CheckAdmission(c, p)
	if !okAdm {
		return false, sprintf("%s sizes a window with %s <- %s, which validation lets be 0 (no schema minimum), and %s", caller.name, sf.name(p), sf.name(src), detail)
	}
	return true, sf.name(p) + " <- " + sf.name(src) + " (no minimum; " + detail + ")"
}

// c13CheckAdmission: (*CircuitBreaker).AcquirePermission returns permitted = true only in a
// state other than half-open (the window then has the closed-state size) or after a strict
// test `x < size` (x unsigned) / `size > 0` has succeeded on the path.
func c13CheckAdmission(c *core.Ctx, size *types.Var) (bool, string) {
	return c13Memo(c, "admission:"+size.Name(), func() (bool, string) { return c13Admission(c, size) })
}

func c13Admission(c *core.Ctx, size *types.Var) (bool, string) {
	pkg := c.Prog.Pkg(c13CB)
	cbT := namedType(c, c13CB, "CircuitBreaker")
	stT := namedType(c, c13CB, "State")
	if pkg == nil || cbT == nil || stT == nil {
		return true, "anchor unresolved (checker error recorded)"
	}
	// the state field by role: the field of CircuitBreaker whose type is State
	var stateF *types.Var
	if st, ok := cbT.Underlying().(*types.Struct); ok {
		for i := 0; i < st.NumFields(); i++ {
			if types.Identical(st.Field(i).Type(), stT) {
				if stateF != nil {
					c.Errorf("R-C13-7: anchor: CircuitBreaker has two fields of type State")
					return true, "anchor ambiguous (checker error recorded)"
				}
				stateF = st.Field(i)
			}
		}
	}
	half, ok := pkg.Types.Scope().Lookup("StateHalfOpen").(*types.Const)
	if stateF == nil || !ok {
		c.Errorf("R-C13-7: anchor: CircuitBreaker state field / StateHalfOpen not found")
		return true, "anchor unresolved (checker error recorded)"
	}
	halfVal := half.Val().ExactString()
	// the admission decider by role: the function of the package whose code (with the
	// same-package functions it calls) reads the state field, changes the breaker and answers with
	// a boolean (or a struct carrying one), and none of whose callees does so too (the innermost such function: AcquirePermission today, a helper
	// like acquire() after a split)
	readsBoth := func(f *flow.Func) bool {
		st, sz := false, false
		for _, h := range reach(f, 3) {
			ast.Inspect(h.Body, func(x ast.Node) bool {
				if sel, ok := x.(*ast.SelectorExpr); ok {
					if s := h.Info.Selections[sel]; s != nil {
						if v, ok := s.Obj().(*types.Var); ok {
							if v.Origin() == stateF {
								st = true
							}
							if v.Origin() == size {
								sz = true
							}
						}
					}
				}
				return true
			})
		}
		if !st {
			return false
		}
		_ = sz
		// ... and changes the breaker (counts the admitted call, moves the state): a field of
		// CircuitBreaker is incremented / assigned in that code. (The comparison with the size
		// field is the protective construct the check demands — not part of the role.)
		written := false
		for _, h := range reach(f, 3) {
			ast.Inspect(h.Body, func(x ast.Node) bool {
				var targets []ast.Expr
				switch e := x.(type) {
				case *ast.IncDecStmt:
					targets = []ast.Expr{e.X}
				case *ast.AssignStmt:
					targets = e.Lhs
				}
				for _, t := range targets {
					if sel, ok := ast.Unparen(t).(*ast.SelectorExpr); ok {
						if s := h.Info.Selections[sel]; s != nil {
							if recv := s.Recv(); recv != nil {
								if p, ok := recv.(*types.Pointer); ok {
									recv = p.Elem()
								}
								if types.Identical(recv, cbT) {
									written = true
								}
							}
						}
					}
				}
				return true
			})
		}
		return written
	}
	var cands []*flow.Func
	for _, file := range pkg.Syntax {
		for _, d := range file.Decls {
			if fd, ok := d.(*ast.FuncDecl); ok && fd.Body != nil {
				if f := flow.NewFunc(pkg, fd); readsBoth(f) && c13ReturnsBoolish(f) {
					cands = append(cands, f)
				}
			}
		}
	}
	var deciders []*flow.Func
	for _, f := range cands {
		inner := false
		for _, h := range reach(f, 3)[1:] {
			for _, o := range cands {
				if o.Node == h.Node {
					inner = true
				}
			}
		}
		if !inner {
			deciders = append(deciders, f)
		}
	}
	if len(deciders) != 1 {
		c.Errorf("R-C13-7: anchor: %d functions of %s decide the half-open admission against %s (expected 1)", len(deciders), c13CB, size.Name())
		return true, "admission decider not identified (checker error recorded)"
	}
	f := deciders[0]
	var nodes []*c13Node
	for _, h := range reach(f, 4) {
		if fd, ok := h.Node.(*ast.FuncDecl); ok {
			nodes = append(nodes, &c13Node{pkg: h.Pkg, decl: fd, body: fd.Body})
		}
	}
	nodeAt := func(x ast.Node) *c13Node {
		for _, n := range nodes {
			if contains(n.body, x) {
				return n
			}
		}
		return nodes[0]
	}
	isStateFact := func(fact string) (string, bool) {
		if !strings.HasPrefix(fact, "eq:") || !strings.HasSuffix(fact, "=T") {
			return "", false
		}
		body := fact[3 : len(fact)-2]
		i := strings.LastIndex(body, "==")
		if i < 0 || !strings.HasSuffix(body[:i], "."+stateF.Name()) {
			return "", false
		}
		return body[i+2:], true
	}
	var base types.Object
	ast.Inspect(f.Body, func(x ast.Node) bool {
		if sel, ok := x.(*ast.SelectorExpr); ok && base == nil && c13FieldOf(nodes[0], sel) == stateF {
			base = c13BaseObj(f, sel)
		}
		return true
	})
	const ev = "ev:size-positive"
	res := analyze(c, f, flow.Config{
		Inline: inlineSamePkg(f),
		Pure:   c13PureFor(f, base),
		AfterAssume: func(st *flow.State, cond ast.Expr, outcome bool) {
			if c13ShowsPositive(nodeAt(cond), cond, outcome, size) {
				st.Set(ev, flow.True)
			}
		},
	})
	if res == nil {
		return true, "the admission decider could not be analysed (checker error recorded)"
	}
	admits := 0
	for _, ex := range res.Exits {
		if ex.Kind != flow.ExitReturn || ex.Return == nil || len(ex.Return.Results) == 0 {
			continue
		}
		switch c13Admits(f, ex) {
		case flow.False:
			continue
		case flow.Unknown:
			c.Errorf("R-C13-7: cannot tell whether the return at %s admits the call", pos(c, ex.Ret()))
			return true, "admission not recognisable (checker error recorded)"
		}
		admits++
		if ex.State.Is(ev, flow.True) {
			continue
		}
		other := false
		for _, fact := range ex.State.Facts() {
			if v, ok := isStateFact(fact); ok && v != halfVal {
				other = true
			}
		}
		if !other {
			return false, sprintf("%s admits a call at %s on a path where the circuit breaker may be half-open and no strict test has shown %s > 0: the result is pushed into a window of %s buckets — index out of range when it is 0", f.Name, pos(c, ex.Ret()), size.Name(), size.Name())
		}
	}
	if admits == 0 {
		c.Errorf("R-C13-7: %s has no admitting return (cannot judge)", f.Name)
		return true, "no admitting return found (checker error recorded)"
	}
	return true, sprintf("%s admits calls in half-open state only after a strict test against %s (inlined: %s)", f.Name, size.Name(), strings.Join(res.Inlined, ", "))
}

// c13ReturnsBoolish: the first result is a bool or a struct with a bool field (a permission).
func c13ReturnsBoolish(f *flow.Func) bool {
	fd, ok := f.Node.(*ast.FuncDecl)
	if !ok || fd.Type.Results == nil || len(fd.Type.Results.List) == 0 {
		return false
	}
	t := f.Info.Types[fd.Type.Results.List[0].Type].Type
	if t == nil {
		return false
	}
	if b, ok := t.Underlying().(*types.Basic); ok {
		return b.Info()&types.IsBoolean != 0
	}
	if st, ok := t.Underlying().(*types.Struct); ok {
		for i := 0; i < st.NumFields(); i++ {
			if b, ok := st.Field(i).Type().Underlying().(*types.Basic); ok && b.Info()&types.IsBoolean != 0 {
				return true
			}
		}
	}
	return false
}

// c13Admits classifies the first returned value of an exit: a boolean constant, a boolean
// variable / inlined call with a known value, a call handed a single boolean constant
// (`answer(true)`), a struct literal with a constant boolean field.
func c13Admits(f *flow.Func, ex *flow.Exit) flow.Val {
	constBool := func(e ast.Expr) flow.Val {
		if tv := f.Info.Types[e]; tv.Value != nil {
			switch tv.Value.ExactString() {
			case "true":
				return flow.True
			case "false":
				return flow.False
			}
		}
		return flow.Unknown
	}
	r0 := ast.Unparen(ex.Return.Results[0])
	if v := constBool(r0); v != flow.Unknown {
		return v
	}
	switch x := r0.(type) {
	case *ast.Ident:
		return ex.State.Get(f.VarKey(x))
	case *ast.CallExpr:
		if v := ex.State.Get(f.CallKey(x)); v != flow.Unknown {
			return v
		}
		found := flow.Unknown
		nb := 0
		for _, a := range x.Args {
			if v := constBool(a); v != flow.Unknown {
				found = v
				nb++
			} else if id, ok := ast.Unparen(a).(*ast.Ident); ok {
				if v := ex.State.Get(f.VarKey(id)); v != flow.Unknown {
					found = v
					nb++
				}
			}
		}
		if nb == 1 {
			return found
		}
	case *ast.CompositeLit:
		found := flow.Unknown
		nb := 0
		for _, el := range x.Elts {
			if kv, ok := el.(*ast.KeyValueExpr); ok {
				el = kv.Value
			}
			if v := constBool(el); v != flow.Unknown {
				found = v
				nb++
			}
		}
		if nb == 1 {
			return found
		}
	}
	return flow.Unknown
}

// c13ShowsPositive: the branch outcome implies that the field `size` is > 0.
func c13ShowsPositive(n *c13Node, cond ast.Expr, outcome bool, size *types.Var) bool {
	cond = ast.Unparen(cond)
	info := n.pkg.TypesInfo
	switch e := cond.(type) {
	case *ast.Ident:
		// `admitted := calls < permitted; if admitted {` — a boolean local defined once
		if def := c13SingleDef(n, e); def != nil {
			if _, again := ast.Unparen(def).(*ast.Ident); !again {
				return c13ShowsPositive(n, def, outcome, size)
			}
		}
	case *ast.UnaryExpr:
		if e.Op == token.NOT {
			return c13ShowsPositive(n, e.X, !outcome, size)
		}
	case *ast.BinaryExpr:
		switch e.Op {
		case token.LAND:
			if outcome {
				return c13ShowsPositive(n, e.X, true, size) || c13ShowsPositive(n, e.Y, true, size)
			}
			return false
		case token.LOR:
			if !outcome {
				return c13ShowsPositive(n, e.X, false, size) || c13ShowsPositive(n, e.Y, false, size)
			}
			return false
		}
		isSize := func(x ast.Expr) bool { return c13FieldOf(n, c13Core(n, x)) == size }
		nonNeg := func(x ast.Expr) bool {
			tv := info.Types[x]
			if tv.Value != nil {
				return !strings.HasPrefix(tv.Value.ExactString(), "-")
			}
			if tv.Type == nil {
				return false
			}
			b, ok := tv.Type.Underlying().(*types.Basic)
			return ok && b.Info()&types.IsUnsigned != 0
		}
		isZero := func(x ast.Expr) bool {
			tv := info.Types[x]
			return tv.Value != nil && tv.Value.ExactString() == "0"
		}
		// normalise to "small < big" being known true
		var small, big ast.Expr
		switch {
		case e.Op == token.LSS && outcome, e.Op == token.GEQ && !outcome:
			small, big = e.X, e.Y
		case e.Op == token.GTR && outcome, e.Op == token.LEQ && !outcome:
			small, big = e.Y, e.X
		case e.Op == token.NEQ && outcome, e.Op == token.EQL && !outcome:
			// size != 0 with an unsigned size
			if isSize(e.X) && isZero(e.Y) && nonNeg(e.X) || isSize(e.Y) && isZero(e.X) && nonNeg(e.Y) {
				return true
			}
			return false
		default:
			return false
		}
		return isSize(big) && nonNeg(small)
	}
	return false
}
