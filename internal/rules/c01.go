package rules

import (
	"go/ast"
	"go/token"
	"go/types"
	"strings"

	"verif/internal/core"
	"verif/internal/flow"
)

func init() { Registry["C01"] = c01 }

// c01 — HTTP routing: first match wins; 400 > 405 > 404; 503 for an unknown backend.
//
// Mutants tried while writing (scratch worktree, each compiles):
//
//	swap the 400/405 tests after the loops            → R-C01-4
//	single `mismatch` variable, last mismatch wins     → R-C01-4
//	drop the method test                               → R-C01-1
//	`continue` → `return methodNotAllowed` in the loop → R-C01-3
//	move the success return after the inner loop       → R-C01-1/R-C01-2
//	strip the port with LastIndexByte(':')             → R-C01-6
//	dispatch when GetHandler's ok is false             → R-C01-5
//	rewrite after Handle                               → R-C01-5
//
// Robustness pass (behaviour-preserving refactorings the rules see through; muxsearch.go has the
// machinery): search and serveHTTP are resolved by role from mux.ServeHTTP and analysed with their
// same-package helpers interpreted in place (tail / cached branch / rule walk / path walk extracted,
// serveHTTP split into dispatch + fetch + handle, rt.failed() instead of a comparison); loops may be
// range or counting loops with element locals; "inside the loop" is a dynamic event (break + return
// after the loop is accepted, falling out of the loop is not); routes, flags and paths may travel
// through locals, parameters, named results and a scratch struct; types and fields are resolved by
// their types / the spec field they are initialised from. Mutants re-tried on the refactored forms:
// 405 before 400 in the extracted tail → R-C01-4; method flag set on a path mismatch in the
// extracted path walk → R-C01-4; failed() inverted → R-C01-5; last match wins → R-C01-1.
//
// Second iteration: the flags may live in a scratch struct (value or pointer) handed to a per-rule
// helper that returns nil when the rule does not decide; a route that comes back from such a helper
// is recognised as a fresh success route by a path-sensitive source tracker (muxSrc, c07.go); the
// port may be stripped in a helper (R-C01-6 follows the first result of SplitHostPort through
// results and parameters); predicates (isFailure, matchAnyHost, isExactPath ..) are interpreted in
// place; the deferred write-out may be a method of a struct of the captured variables. Mutants
// re-tried: helper that never strips → R-C01-6; method flag set on a path mismatch in searchRule
// → R-C01-4.
//
// Round-4 seeded change C01/g (one per-header helper with the any-mode semantics called by both
// modes): R-C01-9 follows the header value handed straight to a helper, and R-C01-11 (c01_ext.go)
// states how the two modes combine the value-list test and the expression test, all paths, helpers
// interpreted in place. Same kind, also reported: all-mode skipping the expression when the value is
// in the list; any-mode demanding both; final answer not matchAllHeader. One helper taking the mode,
// or two helpers (satisfiedBy / matchedBy), stay silent.
func c01(c *core.Ctx) string {
	c.Rule("R-C01-1", "success-return gate: every (uncached) return of a success route for path p is reached only with host-match, path-match, method-match true and (p has no header conditions or header-match true), all established in the current iteration")
	c.Rule("R-C01-2", "first match: the search ranges over rules then paths in index order; loop variables are not reassigned; no goto / goroutine; the success return is inside the inner loop")
	c.Rule("R-C01-3", "inside the loops the search only returns a success route or the 403 route (a mismatch never ends the search early)")
	c.Rule("R-C01-4", "precedence table at the uncached exits after the loops: 400 iff some entry matched path+method but failed headers; else 405 iff some entry matched the path but not the method; else 404 (status codes read from the route variables)")
	c.Rule("R-C01-5", "dispatch discipline in serveHTTP: non-zero route code ⇒ failure response with that code and no dispatch; unknown backend ⇒ 503 and no dispatch; the handler is invoked only with a found backend, after rewrite, for the backend named by the matched path")
	c.Rule("R-C01-6", "host port stripping: the host compared against the rule flows from net.SplitHostPort's first result whenever the split succeeded")
	c.Rule("R-C01-7", "configured order is preserved: reload builds runtime rule i from spec rule i and runtime path j from spec path j, visiting every element once in order")
	c.NotDecided = []string{"value semantics of exact/prefix/regexp matching", "the three rewrite modes' string arithmetic", "header value matching semantics", "route cache (C12)", "IP filters (C05)"}

	if s := analyzeSearch(c, "R-C01"); s != nil {
		c01Search(c, s)
	}
	c01Serve(c)
	c01Host(c)
	muxBuildChecks(c, "", "R-C01-7")
	c01Rewrite(c)
	c01HeaderValue(c)
	c01HeaderModes(c)
	c01PathValue(c)
	c01LookupFirst(c)
	return "Path-sensitive analysis of muxInstance.search (all paths, disjunctive states): success returns are gated by the four matchers of the current entry, mismatches never end the search, and the 400>405>404 table holds at the exits as a function of sticky mismatch events (independent of how the implementation stores the flags); serveHTTP dispatches only a found backend after rewrite; the host matcher strips the port via net.SplitHostPort. Not decided: value semantics of matching and rewriting."
}

const (
	evHdrMis  = "ev:saw-header-mismatch"
	evMethMis = "ev:saw-method-mismatch"
)

// successReturn reports whether the exit returns a success route for the current inner-loop path.
func (s *searchInfo) successReturn(ex *flow.Exit) bool { return s.exitKind(ex) == "path" }

// returnedCode resolves the status code of a returned failure route ("" if unknown).
func (s *searchInfo) returnedCode(ex *flow.Exit) string {
	k := s.exitKind(ex)
	if k == "path" || k == "cached" {
		return ""
	}
	return k
}

func c01Search(c *core.Ctx, s *searchInfo) {
	f := s.f
	res := s.res
	inl := ""
	if len(res.Inlined) > 0 {
		inl = sprintf(" (helpers interpreted in place: %d)", len(res.Inlined))
	}

	// ---- R-C01-1 / R-C01-3: exits inside the loops
	success, inLoopOther := 0, 0
	var bad *flow.State
	why := ""
	var badAt ast.Node
	for _, ex := range res.Exits {
		if ex.Kind != flow.ExitReturn || ex.Return == nil || ex.State.Is(evHit, flow.True) {
			continue
		}
		st := ex.State
		if s.successReturn(ex) {
			success++
			if !s.inner.current(st) || !s.outer.current(st) {
				bad, why, badAt = st, "a success route is returned outside the loop over the rule's paths (not the first matching entry)", ex.Ret()
				continue
			}
			switch {
			case s.val(st, s.hostMatch) != flow.True:
				bad, why, badAt = st, "success route returned without the rule's host having matched", ex.Ret()
			case s.val(st, s.pathMatch) != flow.True:
				bad, why, badAt = st, "success route returned without the path having matched", ex.Ret()
			case s.val(st, s.methodMatch) != flow.True:
				bad, why, badAt = st, "success route returned without the method having matched", ex.Ret()
			case !s.noHeaders(st) && s.val(st, s.headerMatch) != flow.True:
				bad, why, badAt = st, "success route returned for an entry with header conditions without the headers having matched", ex.Ret()
			}
			continue
		}
		if s.outer.current(st) {
			inLoopOther++
			if code := s.returnedCode(ex); code != "403" {
				c.Violate("R-C01-3", s.cons+"|in-loop returns", pos(c, ex.Ret()),
					"inside the search loops something other than a success route or the 403 route is returned (status "+code+"): a mismatching entry ends the search although a later entry may match", witness(st)...)
				inLoopOther = -1000
				break
			}
		}
	}
	c.RequireCount("R-C01-1", "success-route exits of search", success, 1)
	c.Check(bad == nil, "R-C01-1", s.cons+"|success return gate", pos(c, badAt),
		sprintf("%d success exits, all with host, path, method and header conditions established in the current iteration%s", success, inl), why, witness(bad)...)
	if inLoopOther >= 0 {
		c.Discharge("R-C01-3", s.cons+"|in-loop returns", pos(c, s.outer.stmt), sprintf("%d in-loop failure exits, all 403", inLoopOther))
	}

	// ---- R-C01-2: loop shape
	shapeOK := true
	shapeWhy := ""
	if !s.outer.ordered || !s.inner.ordered {
		shapeOK, shapeWhy = false, "a search loop does not visit the elements in index order from the first one (for i := 0; i < len(xs); i++ / range)"
	}
	for _, l := range []*muxLoop{s.outer, s.inner} {
		if len(l.elems) == 0 && l.idx == nil {
			shapeOK, shapeWhy = false, "the loops do not bind the current element"
		}
		for o := range l.elems {
			if len(s.vf.defs[o]) != 1 {
				shapeOK, shapeWhy = false, "a loop variable is reassigned ("+o.Name()+")"
			}
		}
	}
	for _, g := range s.fns {
		ast.Inspect(g.Body, func(n ast.Node) bool {
			switch x := n.(type) {
			case *ast.BranchStmt:
				if x.Tok == token.GOTO {
					shapeOK, shapeWhy = false, "goto at "+pos(c, x)
				}
			case *ast.GoStmt:
				shapeOK, shapeWhy = false, "goroutine started in search at "+pos(c, x)
			case *ast.CallExpr:
				full := calleeFull(g, x)
				if len(full) > 5 && (full[:5] == "sort." || full == "slices.Reverse" || full == "slices.Sort" || full == "slices.SortFunc") {
					shapeOK, shapeWhy = false, "the rule/path order is changed by "+full
				}
			}
			return true
		})
	}
	c.Check(shapeOK, "R-C01-2", s.cons+"|loop order", pos(c, s.outer.stmt), "loops over the rules then the rule's paths in index order, loop variables untouched", shapeWhy)

	// ---- R-C01-4: the table at post-loop exits
	seen := map[string]int{}
	tableOK := true
	for _, ex := range res.Exits {
		if ex.Kind != flow.ExitReturn || ex.Return == nil || ex.State.Is(evHit, flow.True) {
			continue
		}
		st := ex.State
		if s.outer.current(st) || s.successReturn(ex) {
			continue
		}
		code := s.returnedCode(ex)
		if code == "403" {
			continue // IP denial before the loops (C05)
		}
		want := "404"
		if st.Is(evHdrMis, flow.True) {
			want = "400"
		} else if st.Is(evMethMis, flow.True) {
			want = "405"
		}
		if code == "" {
			c.Undecide("R-C01-4", s.cons+"|precedence table", pos(c, ex.Ret()), "cannot resolve the status of the returned route")
			tableOK = false
			break
		}
		seen[want]++
		if code != want {
			tableOK = false
			c.Violate("R-C01-4", s.cons+"|precedence table", pos(c, ex.Ret()),
				sprintf("the search answers %s where the property demands %s (header mismatch seen: %v, method mismatch seen: %v)", code, want, st.Is(evHdrMis, flow.True), st.Is(evMethMis, flow.True)), witness(st)...)
			break
		}
	}
	if tableOK {
		if seen["400"] == 0 || seen["405"] == 0 || seen["404"] == 0 {
			c.Errorf("R-C01-4: vacuity guard: the post-loop exits do not cover all of 400/405/404 (%v)", seen)
		} else {
			c.Discharge("R-C01-4", s.cons+"|precedence table", pos(c, s.outer.stmt), sprintf("exit states per expected status %v all return the expected route", seen))
		}
	}
	_ = f
}

// serveInfo is the shared analysis of the instance's request handler (serveHTTP and the
// same-package helpers it is split into), used by C01, C05 and C07.
type serveInfo struct {
	f          *flow.Func
	cons       string
	res        *flow.Result
	ro         *muxRoles
	vf         *muxFlow
	fns        []*flow.Func
	dispatch   []*ast.CallExpr
	search     *ast.CallExpr
	routeVar   *ast.Ident
	getHandler *ast.CallExpr
	okVar      *ast.Ident
	rewrite    []*ast.CallExpr
	fetch      *ast.CallExpr
	errVar     *ast.Ident
	fails      []*ast.CallExpr
	failCode   map[*ast.CallExpr]ast.Expr
	opaque     []types.Object

	routeAliases []*ast.Ident
	codeCopies   []*ast.Ident    // locals defined once as <search result>.code (`if failureCode := matched.code; failureCode != 0`)
	errAliases   []*ast.Ident    // parameters / locals that alias the fetch error
	errIsCalls   []*ast.CallExpr // errors.Is(<fetch error>, ErrRequestEntityTooLarge)
}

// errNil reports what st knows about "FetchPayload's error is nil".
func (s *serveInfo) errNil(st *flow.State) flow.Val {
	for _, id := range append([]*ast.Ident{s.errVar}, s.errAliases...) {
		if v := st.Get(s.f.NilKey(id)); v != flow.Unknown {
			return v
		}
	}
	return flow.Unknown
}

// errTooLarge reports whether st knows FetchPayload's error to be the too-large sentinel
// (err == ErrRequestEntityTooLarge or errors.Is(err, ErrRequestEntityTooLarge)).
func (s *serveInfo) errTooLarge(st *flow.State) bool {
	for _, id := range append([]*ast.Ident{s.errVar}, s.errAliases...) {
		if st.Is("eq:"+s.f.Render(id)+"==@"+Mod+"pkg/protocols/httpprot.ErrRequestEntityTooLarge", flow.True) {
			return true
		}
	}
	for _, call := range s.errIsCalls {
		if st.Is(s.f.CallKey(call), flow.True) {
			return true
		}
	}
	return false
}

const evRewritten = "ev:rewritten"

// isRouteVar: the object is the variable holding the search result.
func (s *serveInfo) isRouteVar(o types.Object) bool {
	return o != nil && (s.f.Info.Defs[s.routeVar] == o || s.f.Info.Uses[s.routeVar] == o)
}

func (s *serveInfo) codeKey() string {
	return "eq:" + s.f.Render(s.routeVar) + "." + s.ro.codeF.Name() + "==0"
}

// codeZero reports what st knows about "the route found has code 0", asked about the variable
// holding the search result and about the parameters / locals that alias it (a test moved into a
// bool helper such as rt.failed() is learned in the helper's vocabulary).
func (s *serveInfo) codeZero(st *flow.State) flow.Val {
	if v := st.Get(s.codeKey()); v != flow.Unknown {
		return v
	}
	for _, id := range s.routeAliases {
		if v := st.Get("eq:" + s.f.Render(id) + "." + s.ro.codeF.Name() + "==0"); v != flow.Unknown {
			return v
		}
	}
	for _, id := range s.codeCopies {
		if v := st.Get("eq:" + s.f.Render(id) + "==0"); v != flow.Unknown {
			return v
		}
	}
	return flow.Unknown
}

func isDispatchCall(g *flow.Func, call *ast.CallExpr) bool {
	return ifaceMethodCall(g, call, "pkg/context", "Handler", "Handle") || calleeIs(g, call, "(*pkg/object/globalfilter.GlobalFilter).Handle")
}

// muxServeFn resolves the instance's request handler: the method of the instance type that
// mux.ServeHTTP forwards to.
func muxServeFn(c *core.Ctx, ro *muxRoles, rule string) *flow.Func {
	entry := fnOpt(c, hs, "mux", "ServeHTTP")
	var cands []*flow.Func
	if entry != nil {
		for _, call := range calls(entry.Body, true) {
			fo, ok := entry.Callee(call).(*types.Func)
			if !ok || fo.Pkg() != entry.Pkg.Types || !muxSameNamed(muxRecvNamed(fo), ro.instT) {
				continue
			}
			if fd := declOf(entry.Pkg, fo); fd != nil {
				cands = append(cands, flow.NewFunc(entry.Pkg, fd))
			}
		}
	}
	if len(cands) == 1 {
		c.Count("functions_analysed", 1)
		return cands[0]
	}
	if f := fnOpt(c, hs, ro.instT.Obj().Name(), "serveHTTP"); f != nil {
		return f
	}
	c.Errorf("%s: anchor: cannot resolve the instance's request handler (the %s method mux.ServeHTTP forwards to; %d candidates)", rule, ro.instT.Obj().Name(), len(cands))
	return nil
}

func analyzeServe(c *core.Ctx, rule string) *serveInfo {
	ro := muxRolesOf(c, rule)
	if ro == nil {
		return nil
	}
	f := muxServeFn(c, ro, rule)
	if f == nil {
		return nil
	}
	s := &serveInfo{f: f, ro: ro, cons: muxFuncConstruct(f), failCode: map[*ast.CallExpr]ast.Expr{}}
	searchFn := muxSearchFn(c, ro, rule)
	if searchFn == nil {
		return nil
	}
	searchObj := muxFuncObj(searchFn)

	// roles of the same-package callees
	all := reach(f, 4)
	kind := map[types.Object]string{}
	intIdx := map[types.Object]int{}
	for _, g := range all[1:] {
		fo := muxFuncObj(g)
		if fo == nil {
			continue
		}
		sig := fo.Type().(*types.Signature)
		switch {
		case fo == searchObj:
			kind[fo] = "search"
		case muxSameNamed(muxRecvNamed(fo), ro.pathT) && sig.Results().Len() == 0 && sig.Params().Len() == 1 && muxIsPtrTo(sig.Params().At(0).Type(), ro.requestT) &&
			muxRequestMethodUsed(g, "SetPath"):
			kind[fo] = "rewrite"
		case muxRecvNamed(fo) == nil && muxOwnCalls(g, func(call *ast.CallExpr) bool {
			return calleeIs(g, call, "(*pkg/protocols/httpprot.Response).SetStatusCode")
		}):
			for i := 0; i < sig.Params().Len(); i++ {
				if b, ok := sig.Params().At(i).Type().Underlying().(*types.Basic); ok && b.Info()&types.IsInteger != 0 {
					kind[fo] = "fail"
					intIdx[fo] = i
				}
			}
		}
	}
	isRole := func(g *flow.Func, call *ast.CallExpr) bool {
		if fo, ok := g.Callee(call).(*types.Func); ok && kind[fo.Origin()] != "" {
			return true
		}
		return isDispatchCall(g, call) || ifaceMethodCall(g, call, "pkg/context", "MuxMapper", "GetHandler") || calleeIs(g, call, "(*pkg/protocols/httpprot.Request).FetchPayload")
	}
	opaque := map[types.Object]bool{}
	for _, g := range all[1:] {
		fo := muxFuncObj(g)
		if fo == nil {
			continue
		}
		// helpers that neither contain one of the role calls nor speak about the route found
		// (predicates such as rt.failed()) stay uninterpreted
		sig := fo.Type().(*types.Signature)
		aboutRoute := sig.Recv() != nil && muxSameNamed(muxDerefNamed(sig.Recv().Type()), ro.routeT)
		for i := 0; i < sig.Params().Len(); i++ {
			if muxSameNamed(muxDerefNamed(sig.Params().At(i).Type()), ro.routeT) {
				aboutRoute = true
			}
		}
		// small predicates (isEntityTooLarge(err), route.isFailure()) are interpreted too: what they
		// test is what the rules ask about
		predicate := false
		if fd, ok := g.Node.(*ast.FuncDecl); ok && sig.Results().Len() == 1 && types.Identical(sig.Results().At(0).Type(), types.Typ[types.Bool]) && len(fd.Body.List) <= 4 {
			predicate = true
			ast.Inspect(fd.Body, func(n ast.Node) bool {
				switch n.(type) {
				case *ast.ForStmt, *ast.RangeStmt, *ast.GoStmt, *ast.DeferStmt:
					predicate = false
				}
				return predicate
			})
		}
		if kind[fo] != "" || (!muxReachCalls(g, 3, isRole) && !aboutRoute && !predicate) {
			opaque[fo] = true
		}
	}
	s.opaque = muxObjList(opaque)
	s.fns = muxReach(f, 4, opaque)
	s.vf = newMuxFlow(s.fns)
	for _, g := range s.fns {
		for _, call := range calls(g.Body, true) {
			fo, _ := g.Callee(call).(*types.Func)
			if fo != nil {
				fo = fo.Origin()
			}
			switch {
			case kind[fo] == "search":
				s.search = call
			case kind[fo] == "rewrite":
				s.rewrite = append(s.rewrite, call)
			case kind[fo] == "fail":
				s.fails = append(s.fails, call)
				if i := intIdx[fo]; i < len(call.Args) {
					s.failCode[call] = call.Args[i]
				}
			case ifaceMethodCall(g, call, "pkg/context", "MuxMapper", "GetHandler"):
				s.getHandler = call
			case calleeIs(g, call, "(*pkg/protocols/httpprot.Request).FetchPayload"):
				s.fetch = call
			case isDispatchCall(g, call):
				s.dispatch = append(s.dispatch, call)
			}
		}
	}
	if s.search == nil || s.getHandler == nil || s.fetch == nil || len(s.dispatch) == 0 {
		c.Errorf("%s: anchor: the request handler %s (helpers included) lacks search/GetHandler/FetchPayload/dispatch calls (search=%v getHandler=%v fetch=%v dispatch=%d)", rule, s.cons, s.search != nil, s.getHandler != nil, s.fetch != nil, len(s.dispatch))
		return nil
	}
	for _, g := range s.fns {
		ast.Inspect(g.Body, func(n ast.Node) bool {
			as, ok := n.(*ast.AssignStmt)
			if !ok || len(as.Rhs) != 1 {
				return true
			}
			switch ast.Unparen(as.Rhs[0]) {
			case ast.Expr(s.search):
				s.routeVar, _ = as.Lhs[0].(*ast.Ident)
			case ast.Expr(s.getHandler):
				if len(as.Lhs) == 2 {
					s.okVar, _ = as.Lhs[1].(*ast.Ident)
				}
			case ast.Expr(s.fetch):
				s.errVar, _ = as.Lhs[0].(*ast.Ident)
			}
			return true
		})
	}
	if s.routeVar == nil || s.okVar == nil || s.errVar == nil {
		c.Errorf("%s: anchor: results of search/GetHandler/FetchPayload are not bound to variables", rule)
		return nil
	}
	s.vf.stop[s.vf.obj(s.routeVar)] = true
	s.vf.stop[s.vf.obj(s.errVar)] = true
	isErrVar := func(o types.Object) bool { return o == s.vf.obj(s.errVar) }
	for o, id := range s.vf.ident {
		if v, ok := o.(*types.Var); ok && !v.IsField() && !isErrVar(o) && types.Identical(v.Type(), types.Universe.Lookup("error").Type()) && s.vf.allPaths(id, false, isErrVar) {
			s.errAliases = append(s.errAliases, id)
		}
	}
	for _, g := range s.fns {
		for _, call := range calls(g.Body, true) {
			if calleeFull(g, call) == "errors.Is" && len(call.Args) == 2 && s.vf.allPaths(call.Args[0], false, isErrVar) {
				if vs := s.vf.flat(call.Args[1]); len(vs) == 1 && vs[0].root != nil && vs[0].root.Name() == "ErrRequestEntityTooLarge" {
					s.errIsCalls = append(s.errIsCalls, call)
				}
			}
		}
	}
	for o, id := range s.vf.ident {
		if v, ok := o.(*types.Var); !ok || v.IsField() || !muxIsPtrTo(v.Type(), ro.routeT) || s.isRouteVar(o) {
			continue
		}
		if s.vf.allPaths(id, false, s.isRouteVar) {
			s.routeAliases = append(s.routeAliases, id)
		}
	}
	for o, id := range s.vf.ident {
		if v, ok := o.(*types.Var); !ok || v.IsField() {
			continue
		}
		sel, ok := ast.Unparen(s.vf.singleDef(o)).(*ast.SelectorExpr)
		if !ok {
			continue
		}
		if sl := f.Info.Selections[sel]; sl != nil && sl.Obj() == types.Object(ro.codeF) && s.vf.allPaths(sel.X, false, s.isRouteVar) {
			s.codeCopies = append(s.codeCopies, id)
		}
	}
	s.res = muxAnalyzeInl(c, f, flow.Config{
		NoHavoc: true,
		OnCall: func(st *flow.State, call *ast.CallExpr, callee types.Object, deferred bool) {
			for _, r := range s.rewrite {
				if call == r {
					st.Set(evRewritten, flow.True)
				}
			}
			for _, fl := range s.fails {
				if call != fl {
					continue
				}
				if code := s.failCode[call]; code != nil {
					k := "ev:fail:" + f.Render(code)
					if tv, ok := f.Info.Types[code]; ok && tv.Value != nil {
						k = "ev:fail:" + tv.Value.ExactString()
					} else if s.vf.allPaths(code, false, s.isRouteVar, s.ro.codeF) {
						k = "ev:fail:route-code"
					} else if id := muxIdentOf(code); id != nil {
						// a status chosen into a local: its constant value on this path
						pre := "eq:" + f.Render(id) + "=="
						for _, fact := range st.Facts() {
							if strings.HasPrefix(fact, pre) && strings.HasSuffix(fact, "=T") {
								if v := fact[len(pre) : len(fact)-2]; v != "" && v[0] >= '1' && v[0] <= '9' {
									k = "ev:fail:" + v
								}
							}
						}
					}
					st.Set(k, flow.True)
				}
				st.Set("ev:failed", flow.True)
			}
			for _, d := range s.dispatch {
				if call == d {
					st.Set("ev:dispatched", flow.True)
				}
			}
		},
	}, s.opaque...)
	if s.res == nil {
		return nil
	}
	return s
}

func c01Serve(c *core.Ctx) {
	s := analyzeServe(c, "R-C01-5")
	if s == nil {
		return
	}
	f := s.f
	codeKey := s.codeKey()
	okKey := f.VarKey(s.okVar)
	// dispatch sites
	for _, d := range s.dispatch {
		states := s.res.At[d]
		var bad *flow.State
		why := ""
		for _, st := range states {
			switch {
			case s.codeZero(st) != flow.True:
				bad, why = st, "the pipeline is invoked although the search returned a failure route (4xx) — fact "+codeKey+" is "+s.codeZero(st).String()
			case !st.Is(okKey, flow.True):
				bad, why = st, "the pipeline is invoked although the backend lookup did not succeed (should be 503)"
			case !st.Is(evRewritten, flow.True):
				bad, why = st, "the pipeline is invoked before the path has been rewritten as rewriteTarget specifies"
			case st.Is("ev:failed", flow.True):
				bad, why = st, "the pipeline is invoked after a failure response was already built"
			}
		}
		if len(states) == 0 {
			c.Violate("R-C01-5", s.cons+"|dispatch "+methodName(d), pos(c, d), "dispatch call is unreachable")
			continue
		}
		c.Check(bad == nil, "R-C01-5", s.cons+"|dispatch "+recvType(f, d), pos(c, d),
			sprintf("%d states: route.code==0, backend found, rewritten, no failure response", len(states)), why, witness(bad)...)
	}
	// backend argument: route.path.backend
	argOK := false
	if len(s.getHandler.Args) == 1 {
		if s.ro.backendF != nil {
			argOK = s.vf.allPaths(s.getHandler.Args[0], false, s.isRouteVar, s.ro.rpathF, s.ro.backendF)
		} else {
			vs := s.vf.flat(s.getHandler.Args[0])
			argOK = len(vs) > 0
			for _, v := range vs {
				if v.root == nil || !s.isRouteVar(v.root) || len(v.fields) != 2 || v.fields[0] != s.ro.rpathF || v.fields[1].Name() != "backend" {
					argOK = false
				}
			}
		}
	}
	c.Check(argOK, "R-C01-5", s.cons+"|backend of the matched path", pos(c, s.getHandler), "GetHandler(route.path.backend)", "the handler looked up is not the backend named by the matched path entry")
	// rewrite receiver: route.path
	for _, r := range s.rewrite {
		rok := false
		if sel, ok := ast.Unparen(r.Fun).(*ast.SelectorExpr); ok {
			rok = s.vf.allPaths(sel.X, false, s.isRouteVar, s.ro.rpathF)
		}
		c.Check(rok, "R-C01-5", s.cons+"|rewrite by the matched path", pos(c, r), "route.path.rewrite(req)", "the rewrite applied is not the matched path entry's")
	}
	// exits: failure codes
	var bad *flow.State
	why := ""
	n := 0
	for _, ex := range s.res.Exits {
		if ex.Kind != flow.ExitReturn {
			continue
		}
		st := ex.State
		n++
		switch {
		case s.codeZero(st) == flow.False:
			if !st.Is("ev:fail:route-code", flow.True) || st.Is("ev:dispatched", flow.True) {
				bad, why = st, "a failure route does not end in a failure response carrying the route's status code (or the pipeline ran)"
			}
		case st.Is(okKey, flow.False):
			if !st.Is("ev:fail:503", flow.True) || st.Is("ev:dispatched", flow.True) {
				bad, why = st, "an unknown backend does not yield 503 Service Unavailable without dispatch"
			}
		}
	}
	c.Check(bad == nil, "R-C01-5", s.cons+"|failure exits", pos(c, f.Body), sprintf("%d exits checked: failure route ⇒ its code, unknown backend ⇒ 503, no dispatch", n), why, witness(bad)...)
}

// recvType names a dispatch call by its receiver type (stable construct name).
func recvType(f *flow.Func, call *ast.CallExpr) string {
	if sel, ok := ast.Unparen(call.Fun).(*ast.SelectorExpr); ok {
		if tv, ok := f.Info.Types[sel.X]; ok && tv.Type != nil {
			return types.TypeString(tv.Type, func(p *types.Package) string { return p.Name() }) + "." + sel.Sel.Name
		}
	}
	return methodName(call)
}

// muxMatcherFn resolves a matcher by role: the bool method of the rule / path type taking the
// request and reading the given request attribute(s).
func muxMatcherFn(c *core.Ctx, ro *muxRoles, recv *types.Named, prefer string, attrs ...string) *flow.Func {
	g, n := muxFuncByRole(c, hs, prefer, func(g *flow.Func, fd *ast.FuncDecl) bool {
		fo := muxFuncObj(g)
		if fo == nil || !muxSameNamed(muxRecvNamed(fo), recv) {
			return false
		}
		sig := fo.Type().(*types.Signature)
		if sig.Results().Len() != 1 || !types.Identical(sig.Results().At(0).Type(), types.Typ[types.Bool]) || sig.Params().Len() != 1 || !muxIsPtrTo(sig.Params().At(0).Type(), ro.requestT) {
			return false
		}
		return muxRequestMethodUsed(g, attrs...)
	})
	if g == nil {
		c.Errorf("anchor: cannot resolve the %s matcher of %s (bool method taking the request and reading %v; %d candidates)", prefer, recv.Obj().Name(), attrs, n)
		return nil
	}
	c.Count("functions_analysed", 1)
	return g
}

func c01Host(c *core.Ctx) {
	ro := muxRolesOf(c, "R-C01-6")
	if ro == nil {
		return
	}
	f := muxMatcherFn(c, ro, ro.ruleT, "match", "Host")
	if f == nil {
		return
	}
	cons := muxFuncConstruct(f)
	fns := reach(f, 2)
	vf := newMuxFlow(fns)
	var split *ast.CallExpr
	for _, g := range fns {
		for _, call := range calls(g.Body, true) {
			if calleeFull(g, call) == "net.SplitHostPort" {
				split = call
			}
		}
	}
	if split == nil {
		c.Violate("R-C01-6", cons+"|port stripped via net.SplitHostPort", pos(c, f.Body), "the host matcher does not use net.SplitHostPort: bracketed IPv6 literals and ports are not separated correctly (\"[::1]:8080\" must compare as \"::1\")")
		return
	}
	// h, _, err := net.SplitHostPort(host)
	var errID *ast.Ident
	for _, g := range fns {
		ast.Inspect(g.Body, func(n ast.Node) bool {
			if as, ok := n.(*ast.AssignStmt); ok && len(as.Rhs) == 1 && ast.Unparen(as.Rhs[0]) == ast.Expr(split) && len(as.Lhs) == 3 {
				if id := muxIdentOf(as.Lhs[2]); id != nil && id.Name != "_" {
					errID = id
				}
			}
			return true
		})
	}
	// the value split must be the request's Host
	srcOK := false
	if len(split.Args) == 1 {
		vs := vf.flat(split.Args[0])
		srcOK = len(vs) > 0
		for _, v := range vs {
			call, ok := v.expr.(*ast.CallExpr)
			if ok && call == split {
				continue // the variable is overwritten with the stripped host later
			}
			if v.root != nil || !ok || !calleeIs(f, call, "(*pkg/protocols/httpprot.Request).Host") {
				srcOK = false
			}
		}
	}
	c.Check(srcOK, "R-C01-6", cons+"|host taken from the request", pos(c, split), "SplitHostPort(r.Host())", "the value split is not the request's Host")
	if errID == nil {
		c.Violate("R-C01-6", cons+"|compare the stripped host", pos(c, split), "the error of SplitHostPort is never tested: the stripped host is not used when the split succeeds")
		return
	}
	// which variables hold the first result of the split: followed through assignments, parameters
	// and results of helpers (hostWithoutPort(r.Host()))
	t := newMuxSrc(f, fns, "hs:", func(e ast.Expr) flow.Val { return flow.Unknown }, inlineSamePkg(f))
	t.classifyTuple = func(call *ast.CallExpr, idx int) flow.Val {
		if call == split && idx == 0 {
			return flow.True
		}
		return flow.Unknown
	}
	res := muxAnalyzeInl(c, f, t.config(flow.Config{NoHavoc: true}))
	if res == nil {
		return
	}
	errNil := f.NilKey(errID)
	isRuleField := func(e ast.Expr) bool {
		sel, ok := ast.Unparen(e).(*ast.SelectorExpr)
		if !ok {
			return false
		}
		sl := f.Info.Selections[sel]
		return sl != nil && sl.Kind() == types.FieldVal && muxSameNamed(muxDerefNamed(sl.Recv()), ro.ruleT)
	}
	uses := 0
	var bad *flow.State
	for n, sts := range res.At {
		e, ok := n.(ast.Expr)
		if !ok {
			continue
		}
		if _, isCall := n.(*ast.CallExpr); isCall {
			continue
		}
		// the host values this condition compares with the rule's host / host expression
		var compared []*ast.Ident
		ast.Inspect(e, func(x ast.Node) bool {
			switch b := x.(type) {
			case *ast.BinaryExpr:
				if b.Op == token.EQL || b.Op == token.NEQ {
					for i, side := range []ast.Expr{b.X, b.Y} {
						other := b.Y
						if i == 1 {
							other = b.X
						}
						if id := muxIdentOf(side); id != nil && isRuleField(other) {
							if _, isVar := vf.obj(id).(*types.Var); isVar {
								compared = append(compared, id)
							}
						}
					}
				}
			case *ast.CallExpr:
				if methodName(b) == "MatchString" {
					if sel, ok := ast.Unparen(b.Fun).(*ast.SelectorExpr); ok && isRuleField(sel.X) {
						for _, a := range b.Args {
							if id := muxIdentOf(a); id != nil {
								compared = append(compared, id)
							}
						}
					}
				}
			}
			return true
		})
		if len(compared) == 0 {
			continue
		}
		uses++
		for _, st := range sts {
			for _, id := range compared {
				if t.get(st, id) != flow.True && !st.Is(errNil, flow.False) {
					bad = st
				}
			}
		}
	}
	c.RequireCount("R-C01-6", "host comparisons in muxRule.match", uses, 1)
	c.Check(bad == nil, "R-C01-6", cons+"|compare the stripped host", pos(c, split),
		sprintf("%d comparison conditions, all reached with the port stripped or no port present", uses),
		"the rule's host is compared against a Host value that may still carry its port", witness(bad)...)
}
