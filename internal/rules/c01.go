package rules

import (
	"go/ast"
	"go/token"
	"go/types"

	"verif/internal/core"
	"verif/internal/flow"
)

func init() { Registry["C01"] = c01 }

// c01 — HTTP routing: first match wins; 400 > 405 > 404; 503 for an unknown backend.
//
// Mutants tried while writing (scratch worktree, each compiles):
//
//	swap the 400/405 tests after the loops            → R-C01-4
//	single `mismatch` variable, last mismatch wins     → R-C01-4
//	drop the method test                               → R-C01-1
//	`continue` → `return methodNotAllowed` in the loop → R-C01-3
//	move the success return after the inner loop       → R-C01-1/R-C01-2
//	strip the port with LastIndexByte(':')             → R-C01-6
//	dispatch when GetHandler's ok is false             → R-C01-5
//	rewrite after Handle                               → R-C01-5
func c01(c *core.Ctx) string {
	c.Rule("R-C01-1", "success-return gate: every (uncached) return of a success route for path p is reached only with host-match, path-match, method-match true and (p has no header conditions or header-match true), all established in the current iteration")
	c.Rule("R-C01-2", "first match: the search ranges over rules then paths in index order; loop variables are not reassigned; no goto / goroutine; the success return is inside the inner loop")
	c.Rule("R-C01-3", "inside the loops the search only returns a success route or the 403 route (a mismatch never ends the search early)")
	c.Rule("R-C01-4", "precedence table at the uncached exits after the loops: 400 iff some entry matched path+method but failed headers; else 405 iff some entry matched the path but not the method; else 404 (status codes read from the route variables)")
	c.Rule("R-C01-5", "dispatch discipline in serveHTTP: non-zero route code ⇒ failure response with that code and no dispatch; unknown backend ⇒ 503 and no dispatch; the handler is invoked only with a found backend, after rewrite, for the backend named by the matched path")
	c.Rule("R-C01-6", "host port stripping: the host compared against the rule flows from net.SplitHostPort's first result whenever the split succeeded")
	c.Rule("R-C01-7", "configured order is preserved: reload builds runtime rule i from spec rule i and runtime path j from spec path j, visiting every element once in order")
	c.NotDecided = []string{"value semantics of exact/prefix/regexp matching", "the three rewrite modes' string arithmetic", "header value matching semantics", "route cache (C12)", "IP filters (C05)"}

	if s := analyzeSearch(c, "R-C01"); s != nil {
		c01Search(c, s)
	}
	c01Serve(c)
	c01Host(c)
	muxBuildChecks(c, "", "R-C01-7")
	c01Rewrite(c)
	c01HeaderValue(c)
	c01PathValue(c)
	c01LookupFirst(c)
	return "Path-sensitive analysis of muxInstance.search (all paths, disjunctive states): success returns are gated by the four matchers of the current entry, mismatches never end the search, and the 400>405>404 table holds at the exits as a function of sticky mismatch events (independent of how the implementation stores the flags); serveHTTP dispatches only a found backend after rewrite; the host matcher strips the port via net.SplitHostPort. Not decided: value semantics of matching and rewriting."
}

const (
	evHdrMis  = "ev:saw-header-mismatch"
	evMethMis = "ev:saw-method-mismatch"
)

// successReturn reports whether ret returns a success route for the current inner-loop path.
func (s *searchInfo) successReturn(ret *ast.ReturnStmt) bool {
	if ret == nil || len(ret.Results) != 1 {
		return false
	}
	fake := &ast.CallExpr{Args: []ast.Expr{nil, ret.Results[0]}}
	return s.putValueKind(fake) == "path"
}

// returnedCode resolves the status code of a returned failure route ("" if unknown).
func (s *searchInfo) returnedCode(ex *flow.Exit) string {
	if ex.Return == nil || len(ex.Return.Results) != 1 {
		return ""
	}
	f := s.f
	e := ast.Unparen(ex.Return.Results[0])
	id, ok := e.(*ast.Ident)
	if !ok {
		return ""
	}
	obj := f.Info.Uses[id]
	if code, ok := s.routeCodes[obj]; ok {
		return code
	}
	// local variable known to equal one of the route variables
	for g, code := range s.routeCodes {
		if ex.State.Is("eq:"+f.Render(id)+"==@"+g.Pkg().Path()+"."+g.Name(), flow.True) {
			return code
		}
	}
	return ""
}

func c01Search(c *core.Ctx, s *searchInfo) {
	f := s.f

	// re-run the engine with the sticky mismatch events added on top of the shared hooks
	// (cheap: the function is small). We reuse s.res for the success gate and run a
	// second analysis for the table.
	res := analyze(c, f, flow.Config{
		NoHavoc: true,
		AfterAssume: func(st *flow.State, cond ast.Expr, outcome bool) {
			if s.getVar != nil && st.Get(evHit) == flow.Unknown {
				ast.Inspect(cond, func(n ast.Node) bool {
					if id, ok := n.(*ast.Ident); ok && f.Info.Uses[id] == s.getVar {
						switch st.Get(f.NilKey(id)) {
						case flow.True:
							st.Set(evHit, flow.False)
						case flow.False:
							st.Set(evHit, flow.True)
						}
					}
					return true
				})
			}
			pm, mm, hm := s.val(st, s.pathMatch), s.val(st, s.methodMatch), s.val(st, s.headerMatch)
			host := s.val(st, s.hostMatch)
			if host == flow.False {
				return
			}
			if pm == flow.True && mm == flow.False {
				st.Set(evMethMis, flow.True)
			}
			noHeaders := s.lenHeaders != "" && st.Is(s.lenHeaders, flow.True)
			if pm == flow.True && mm == flow.True && hm == flow.False && !noHeaders {
				st.Set(evHdrMis, flow.True)
			}
		},
	})
	if res == nil {
		return
	}

	// ---- R-C01-1 / R-C01-3: exits inside the loops
	success, inLoopOther := 0, 0
	var bad *flow.State
	why := ""
	var badAt ast.Node
	for _, ex := range res.Exits {
		if ex.Kind != flow.ExitReturn || ex.Return == nil || ex.State.Is(evHit, flow.True) {
			continue
		}
		st := ex.State
		if s.successReturn(ex.Return) {
			success++
			if !contains(s.inner, ex.Return) {
				bad, why, badAt = st, "a success route is returned outside the loop over the rule's paths (not the first matching entry)", ex.Return
				continue
			}
			switch {
			case s.val(st, s.hostMatch) != flow.True:
				bad, why, badAt = st, "success route returned without the rule's host having matched", ex.Return
			case s.val(st, s.pathMatch) != flow.True:
				bad, why, badAt = st, "success route returned without the path having matched", ex.Return
			case s.val(st, s.methodMatch) != flow.True:
				bad, why, badAt = st, "success route returned without the method having matched", ex.Return
			case !(s.lenHeaders != "" && st.Is(s.lenHeaders, flow.True)) && s.val(st, s.headerMatch) != flow.True:
				bad, why, badAt = st, "success route returned for an entry with header conditions without the headers having matched", ex.Return
			}
			continue
		}
		if contains(s.outer, ex.Return) {
			inLoopOther++
			if code := s.returnedCode(ex); code != "403" {
				c.Violate("R-C01-3", s.cons+"|in-loop returns", pos(c, ex.Return),
					"inside the search loops something other than a success route or the 403 route is returned (status "+code+"): a mismatching entry ends the search although a later entry may match", witness(st)...)
				inLoopOther = -1000
			}
		}
	}
	c.RequireCount("R-C01-1", "success-route exits of search", success, 1)
	c.Check(bad == nil, "R-C01-1", s.cons+"|success return gate", pos(c, badAt),
		sprintf("%d success exits, all with host, path, method and header conditions established in the current iteration", success), why, witness(bad)...)
	if inLoopOther >= 0 {
		c.Discharge("R-C01-3", s.cons+"|in-loop returns", pos(c, s.outer), sprintf("%d in-loop failure exits, all 403", inLoopOther))
	}

	// ---- R-C01-2: loop shape
	shapeOK := true
	shapeWhy := ""
	var hostObj, pathObj types.Object
	if id, ok := s.outer.Value.(*ast.Ident); ok && s.outer.Tok == token.DEFINE {
		hostObj = f.Info.Defs[id]
	}
	if id, ok := s.inner.Value.(*ast.Ident); ok && s.inner.Tok == token.DEFINE {
		pathObj = f.Info.Defs[id]
	}
	if hostObj == nil || pathObj == nil {
		shapeOK, shapeWhy = false, "the loops do not bind fresh value variables"
	}
	// the inner loop must range over the outer loop variable's paths
	if sel, ok := ast.Unparen(s.inner.X).(*ast.SelectorExpr); ok {
		if id, ok := ast.Unparen(sel.X).(*ast.Ident); !ok || f.Info.Uses[id] != hostObj {
			shapeOK, shapeWhy = false, "the inner loop does not range over the current rule's paths"
		}
	}
	ast.Inspect(f.Body, func(n ast.Node) bool {
		switch x := n.(type) {
		case *ast.AssignStmt:
			for _, l := range x.Lhs {
				if id, ok := l.(*ast.Ident); ok && (f.Info.Uses[id] == hostObj || f.Info.Uses[id] == pathObj) && hostObj != nil {
					shapeOK, shapeWhy = false, "a loop variable is reassigned at "+pos(c, x)
				}
			}
		case *ast.BranchStmt:
			if x.Tok == token.GOTO {
				shapeOK, shapeWhy = false, "goto at "+pos(c, x)
			}
		case *ast.GoStmt:
			shapeOK, shapeWhy = false, "goroutine started in search at "+pos(c, x)
		case *ast.CallExpr:
			full := calleeFull(f, x)
			if len(full) > 5 && (full[:5] == "sort." || full == "slices.Reverse" || full == "slices.Sort" || full == "slices.SortFunc") {
				shapeOK, shapeWhy = false, "the rule/path order is changed by "+full
			}
		}
		return true
	})
	c.Check(shapeOK, "R-C01-2", s.cons+"|loop order", pos(c, s.outer), "range over mi.rules then host.paths in index order, loop variables untouched", shapeWhy)

	// ---- R-C01-4: the table at post-loop exits
	seen := map[string]int{}
	tableOK := true
	for _, ex := range res.Exits {
		if ex.Kind != flow.ExitReturn || ex.Return == nil || ex.State.Is(evHit, flow.True) {
			continue
		}
		if contains(s.outer, ex.Return) || s.successReturn(ex.Return) {
			continue
		}
		st := ex.State
		code := s.returnedCode(ex)
		if code == "403" {
			continue // IP denial before the loops (C05)
		}
		want := "404"
		if st.Is(evHdrMis, flow.True) {
			want = "400"
		} else if st.Is(evMethMis, flow.True) {
			want = "405"
		}
		if code == "" {
			c.Undecide("R-C01-4", s.cons+"|precedence table", pos(c, ex.Return), "cannot resolve the status of the returned route")
			tableOK = false
			continue
		}
		seen[want]++
		if code != want {
			tableOK = false
			c.Violate("R-C01-4", s.cons+"|precedence table", pos(c, ex.Return),
				sprintf("the search answers %s where the property demands %s (header mismatch seen: %v, method mismatch seen: %v)", code, want, st.Is(evHdrMis, flow.True), st.Is(evMethMis, flow.True)), witness(st)...)
			break
		}
	}
	if tableOK {
		if seen["400"] == 0 || seen["405"] == 0 || seen["404"] == 0 {
			c.Errorf("R-C01-4: vacuity guard: the post-loop exits do not cover all of 400/405/404 (%v)", seen)
		} else {
			c.Discharge("R-C01-4", s.cons+"|precedence table", pos(c, s.outer), sprintf("exit states per expected status %v all return the expected route", seen))
		}
	}
}

// dispatch calls in serveHTTP: handler.Handle(ctx) / globalFilter.Handle(ctx, handler)
func c01DispatchCalls(f *flow.Func) []*ast.CallExpr {
	var out []*ast.CallExpr
	for _, call := range calls(f.Body, false) {
		if ifaceMethodCall(f, call, "pkg/context", "Handler", "Handle") || calleeIs(f, call, "(*pkg/object/globalfilter.GlobalFilter).Handle") {
			out = append(out, call)
		}
	}
	return out
}

// serveInfo is the shared analysis of muxInstance.serveHTTP (C01, C07).
type serveInfo struct {
	f          *flow.Func
	cons       string
	res        *flow.Result
	dispatch   []*ast.CallExpr
	search     *ast.CallExpr
	routeVar   *ast.Ident
	getHandler *ast.CallExpr
	okVar      *ast.Ident
	rewrite    []*ast.CallExpr
	fetch      *ast.CallExpr
	errVar     *ast.Ident
	fails      []*ast.CallExpr
}

const evRewritten = "ev:rewritten"

func analyzeServe(c *core.Ctx, rule string) *serveInfo {
	f := fn(c, hs, "muxInstance", "serveHTTP")
	if f == nil {
		return nil
	}
	s := &serveInfo{f: f, cons: fname(hs, "muxInstance", "serveHTTP")}
	s.dispatch = c01DispatchCalls(f)
	for _, call := range calls(f.Body, false) {
		switch {
		case calleeIs(f, call, "(*"+hs+".muxInstance).search"):
			s.search = call
		case ifaceMethodCall(f, call, "pkg/context", "MuxMapper", "GetHandler"):
			s.getHandler = call
		case calleeIs(f, call, "(*"+hs+".MuxPath).rewrite"):
			s.rewrite = append(s.rewrite, call)
		case calleeIs(f, call, "(*pkg/protocols/httpprot.Request).FetchPayload"):
			s.fetch = call
		case calleeIs(f, call, hs+".buildFailureResponse"):
			s.fails = append(s.fails, call)
		}
	}
	if s.search == nil || s.getHandler == nil || s.fetch == nil || len(s.dispatch) == 0 {
		c.Errorf("%s: anchor: serveHTTP lacks search/GetHandler/FetchPayload/dispatch calls (search=%v getHandler=%v fetch=%v dispatch=%d)", rule, s.search != nil, s.getHandler != nil, s.fetch != nil, len(s.dispatch))
		return nil
	}
	ast.Inspect(f.Body, func(n ast.Node) bool {
		as, ok := n.(*ast.AssignStmt)
		if !ok || len(as.Rhs) != 1 {
			return true
		}
		switch as.Rhs[0] {
		case ast.Expr(s.search):
			s.routeVar, _ = as.Lhs[0].(*ast.Ident)
		case ast.Expr(s.getHandler):
			if len(as.Lhs) == 2 {
				s.okVar, _ = as.Lhs[1].(*ast.Ident)
			}
		case ast.Expr(s.fetch):
			s.errVar, _ = as.Lhs[0].(*ast.Ident)
		}
		return true
	})
	if s.routeVar == nil || s.okVar == nil || s.errVar == nil {
		c.Errorf("%s: anchor: results of search/GetHandler/FetchPayload are not bound to variables", rule)
		return nil
	}
	s.res = analyze(c, f, flow.Config{
		NoHavoc: true,
		OnCall: func(st *flow.State, call *ast.CallExpr, callee types.Object, deferred bool) {
			for _, r := range s.rewrite {
				if call == r {
					st.Set(evRewritten, flow.True)
				}
			}
			for _, fl := range s.fails {
				if call == fl && len(call.Args) == 2 {
					k := "ev:fail:" + f.Render(call.Args[1])
					if tv, ok := f.Info.Types[call.Args[1]]; ok && tv.Value != nil {
						k = "ev:fail:" + tv.Value.ExactString()
					}
					st.Set(k, flow.True)
					st.Set("ev:failed", flow.True)
				}
			}
			for _, d := range s.dispatch {
				if call == d {
					st.Set("ev:dispatched", flow.True)
				}
			}
		},
	})
	if s.res == nil {
		return nil
	}
	return s
}

func c01Serve(c *core.Ctx) {
	s := analyzeServe(c, "R-C01-5")
	if s == nil {
		return
	}
	f := s.f
	codeKey := "eq:" + f.Render(s.routeVar) + ".code==0"
	okKey := f.VarKey(s.okVar)
	// dispatch sites
	for _, d := range s.dispatch {
		states := s.res.At[d]
		var bad *flow.State
		why := ""
		for _, st := range states {
			switch {
			case !st.Is(codeKey, flow.True):
				bad, why = st, "the pipeline is invoked although the search returned a failure route (4xx) — fact "+codeKey+" is "+st.Get(codeKey).String()
			case !st.Is(okKey, flow.True):
				bad, why = st, "the pipeline is invoked although the backend lookup did not succeed (should be 503)"
			case !st.Is(evRewritten, flow.True):
				bad, why = st, "the pipeline is invoked before the path has been rewritten as rewriteTarget specifies"
			case st.Is("ev:failed", flow.True):
				bad, why = st, "the pipeline is invoked after a failure response was already built"
			}
		}
		if len(states) == 0 {
			c.Violate("R-C01-5", s.cons+"|dispatch "+methodName(d), pos(c, d), "dispatch call is unreachable")
			continue
		}
		c.Check(bad == nil, "R-C01-5", s.cons+"|dispatch "+recvType(f, d), pos(c, d),
			sprintf("%d states: route.code==0, backend found, rewritten, no failure response", len(states)), why, witness(bad)...)
	}
	// backend argument: route.path.backend
	argOK := false
	if len(s.getHandler.Args) == 1 {
		if sel, ok := ast.Unparen(s.getHandler.Args[0]).(*ast.SelectorExpr); ok && sel.Sel.Name == "backend" {
			if sel2, ok := ast.Unparen(sel.X).(*ast.SelectorExpr); ok && sel2.Sel.Name == "path" {
				if id, ok := ast.Unparen(sel2.X).(*ast.Ident); ok && f.Info.Uses[id] == f.Info.Defs[s.routeVar] {
					argOK = true
				}
			}
		}
	}
	c.Check(argOK, "R-C01-5", s.cons+"|backend of the matched path", pos(c, s.getHandler), "GetHandler(route.path.backend)", "the handler looked up is not the backend named by the matched path entry")
	// rewrite receiver: route.path
	for _, r := range s.rewrite {
		rok := false
		if sel, ok := ast.Unparen(r.Fun).(*ast.SelectorExpr); ok {
			if sel2, ok := ast.Unparen(sel.X).(*ast.SelectorExpr); ok && sel2.Sel.Name == "path" {
				if id, ok := ast.Unparen(sel2.X).(*ast.Ident); ok && f.Info.Uses[id] == f.Info.Defs[s.routeVar] {
					rok = true
				}
			}
		}
		c.Check(rok, "R-C01-5", s.cons+"|rewrite by the matched path", pos(c, r), "route.path.rewrite(req)", "the rewrite applied is not the matched path entry's")
	}
	// exits: failure codes
	var bad *flow.State
	why := ""
	n := 0
	for _, ex := range s.res.Exits {
		if ex.Kind != flow.ExitReturn {
			continue
		}
		st := ex.State
		n++
		switch {
		case st.Is(codeKey, flow.False):
			if !st.Is("ev:fail:"+f.Render(s.routeVar)+".code", flow.True) || st.Is("ev:dispatched", flow.True) {
				bad, why = st, "a failure route does not end in a failure response carrying the route's status code (or the pipeline ran)"
			}
		case st.Is(okKey, flow.False):
			if !st.Is("ev:fail:503", flow.True) || st.Is("ev:dispatched", flow.True) {
				bad, why = st, "an unknown backend does not yield 503 Service Unavailable without dispatch"
			}
		}
	}
	c.Check(bad == nil, "R-C01-5", s.cons+"|failure exits", pos(c, f.Body), sprintf("%d exits checked: failure route ⇒ its code, unknown backend ⇒ 503, no dispatch", n), why, witness(bad)...)
}

// recvType names a dispatch call by its receiver type (stable construct name).
func recvType(f *flow.Func, call *ast.CallExpr) string {
	if sel, ok := ast.Unparen(call.Fun).(*ast.SelectorExpr); ok {
		if tv, ok := f.Info.Types[sel.X]; ok && tv.Type != nil {
			return types.TypeString(tv.Type, func(p *types.Package) string { return p.Name() }) + "." + sel.Sel.Name
		}
	}
	return methodName(call)
}

func c01Host(c *core.Ctx) {
	f := fn(c, hs, "muxRule", "match")
	if f == nil {
		return
	}
	cons := fname(hs, "muxRule", "match")
	var split *ast.CallExpr
	for _, call := range calls(f.Body, false) {
		if calleeFull(f, call) == "net.SplitHostPort" {
			split = call
		}
	}
	if split == nil {
		c.Violate("R-C01-6", cons+"|port stripped via net.SplitHostPort", pos(c, f.Body), "the host matcher does not use net.SplitHostPort: bracketed IPv6 literals and ports are not separated correctly (\"[::1]:8080\" must compare as \"::1\")")
		return
	}
	// h, _, err := net.SplitHostPort(host)
	var hObj, errObj, srcObj types.Object
	ast.Inspect(f.Body, func(n ast.Node) bool {
		if as, ok := n.(*ast.AssignStmt); ok && len(as.Rhs) == 1 && as.Rhs[0] == split && len(as.Lhs) == 3 {
			if id, ok := as.Lhs[0].(*ast.Ident); ok {
				hObj = f.Info.Defs[id]
				if hObj == nil {
					hObj = f.Info.Uses[id]
				}
			}
			if id, ok := as.Lhs[2].(*ast.Ident); ok {
				errObj = f.Info.Defs[id]
				if errObj == nil {
					errObj = f.Info.Uses[id]
				}
			}
		}
		return true
	})
	if len(split.Args) == 1 {
		if id, ok := ast.Unparen(split.Args[0]).(*ast.Ident); ok {
			srcObj = f.Info.Uses[id]
		}
	}
	if hObj == nil || errObj == nil || srcObj == nil {
		c.Undecide("R-C01-6", cons+"|port stripped via net.SplitHostPort", pos(c, split), "unrecognised use of net.SplitHostPort")
		return
	}
	// the source must be assigned from r.Host()
	srcOK := false
	ast.Inspect(f.Body, func(n ast.Node) bool {
		if as, ok := n.(*ast.AssignStmt); ok && len(as.Rhs) == 1 && len(as.Lhs) == 1 {
			if id, ok := as.Lhs[0].(*ast.Ident); ok && f.Info.Defs[id] == srcObj {
				if call, ok := as.Rhs[0].(*ast.CallExpr); ok && calleeIs(f, call, "(*pkg/protocols/httpprot.Request).Host") {
					srcOK = true
				}
			}
		}
		return true
	})
	c.Check(srcOK, "R-C01-6", cons+"|host taken from the request", pos(c, split), "SplitHostPort(r.Host())", "the value split is not the request's Host")
	// uses of the compared host: every comparison/MatchString on srcObj must be in a state where
	// either the split failed (err != nil) or srcObj was overwritten by h.
	var errID *ast.Ident
	ast.Inspect(f.Body, func(n ast.Node) bool {
		if id, ok := n.(*ast.Ident); ok && f.Info.Uses[id] == errObj && errID == nil {
			errID = id
		}
		return true
	})
	res := analyze(c, f, flow.Config{NoHavoc: true,
		OnNode: func(st *flow.State, n ast.Node) {
			as, ok := n.(*ast.AssignStmt)
			if !ok || len(as.Lhs) != 1 || len(as.Rhs) != 1 {
				return
			}
			l, ok1 := as.Lhs[0].(*ast.Ident)
			r, ok2 := ast.Unparen(as.Rhs[0]).(*ast.Ident)
			if ok1 && f.Info.Uses[l] == srcObj {
				if ok2 && f.Info.Uses[r] == hObj {
					st.Set("ev:stripped", flow.True)
				} else {
					st.Set("ev:stripped", flow.False)
				}
			}
		},
	})
	if res == nil || errID == nil {
		if errID == nil {
			c.Violate("R-C01-6", cons+"|compare the stripped host", pos(c, split), "the error of SplitHostPort is never tested: the stripped host is not used when the split succeeds")
		}
		return
	}
	errNil := f.NilKey(errID)
	uses := 0
	var bad *flow.State
	for n, sts := range res.At {
		e, ok := n.(ast.Expr)
		if !ok {
			continue
		}
		// node uses srcObj in a comparison or MatchString call?
		usesSrc := false
		ast.Inspect(e, func(x ast.Node) bool {
			switch t := x.(type) {
			case *ast.BinaryExpr:
				if t.Op == token.EQL || t.Op == token.NEQ {
					for _, side := range []ast.Expr{t.X, t.Y} {
						if id, ok := ast.Unparen(side).(*ast.Ident); ok && f.Info.Uses[id] == srcObj {
							usesSrc = true
						}
					}
				}
			case *ast.CallExpr:
				if methodName(t) == "MatchString" {
					for _, a := range t.Args {
						if id, ok := ast.Unparen(a).(*ast.Ident); ok && f.Info.Uses[id] == srcObj {
							usesSrc = true
						}
					}
				}
			}
			return true
		})
		if _, isCall := n.(*ast.CallExpr); isCall || !usesSrc {
			continue
		}
		uses++
		for _, st := range sts {
			if !st.Is("ev:stripped", flow.True) && !st.Is(errNil, flow.False) {
				bad = st
			}
		}
	}
	c.RequireCount("R-C01-6", "host comparisons in muxRule.match", uses, 1)
	c.Check(bad == nil, "R-C01-6", cons+"|compare the stripped host", pos(c, split),
		sprintf("%d comparison conditions, all reached with the port stripped or no port present", uses),
		"the rule's host is compared against a Host value that may still carry its port", witness(bad)...)
}
