package rules

// C20 — objects are initialised, inherited and closed exactly once as config changes.
//
// Rules (DESIGN.md §3 C20):
//
//	R-C20-1  lifecycle callbacks (Init/Inherit/Close of supervisor.Object kinds, dynamic calls) are
//	         made only in loop-free wrappers whose deferred function recovers every panic, or by a
//	         method of an Object kind on a parameter it was handed (previousGeneration.Close()
//	         in Inherit — already under a wrapper)                                     [c20.go]
//	R-C20-2  diff classification of ObjectRegistry.applyConfig as a decision table over all paths
//	         of one loop iteration + the per-watcher view                               [c20_diff.go]
//	R-C20-3  "updated" (hence Inherit(new, old)) only when the two kinds are equal      [c20_diff.go]
//	R-C20-4  handler order and idempotence of Supervisor.handleEvent,
//	         RawConfigTrafficController.handleEvent and the TrafficController
//	         Create/Update/Apply/Delete methods (under tc.mutex)                        [c20_handlers.go]
//	R-C20-5  a namespace leaves TrafficController.namespaces only when every entity map of it is
//	         known empty (own probe per map) or drained, under tc.mutex                 [c20_namespace.go]
//	R-C20-6  event maps and bookkeeping maps (registry/watcher entities) are never aliased   [c20_registry.go]
//	R-C20-7  every snapshot received from configSyncChan reaches applyConfig, whole           [c20_registry.go]
//
// Verdict on today's tree: R-C20-3 is violated (genuine defect, triaged: a name whose kind
// changes is filed under "updated"; Inherit type-asserts the old instance → recovered panic,
// uninitialised object registered, old object never closed). Everything else is discharged.
//
// Mutants tried in /tmp/vw/C20/repo (one at a time, script /tmp/vw/C20/out/mutants.py) → obligation that fires:
//
//	M1  CloseWithRecovery: delete the deferred recover                      → R-C20-1 panic of the callback is recovered
//	M2  Supervisor.close: entity.Instance().Close() instead of the wrapper  → R-C20-1 Object.Close callback (function literal)
//	M3  InheritWithRecovery: recover handler re-panics                      → R-C20-1 panic of the callback is recovered
//	M26 TrafficController.Close: entity.Instance().Close() in the Range     → R-C20-1 Object.Close callback
//	M29 CloseWithRecovery: callback moved into a loop                       → R-C20-1 Object.Close callback (loop)
//	W1  CloseWithRecovery: `if e.generation == 0 { return }` (round-2 a)    → R-C20-1 callback reached exactly once on every non-panicking path
//	W2  InheritWithRecovery: early return when the predecessor's generation is 0 → same obligation
//	W3  CloseWithRecovery: Close only in an `if c, ok := e.instance.(Controller)` branch → same
//	W4  InitWithRecovery: TrafficObject case logs instead of calling Init   → same
//	W5  CloseWithRecovery: e.instance.Close() twice                         → same (more than once)
//	    preserving: W6 `if e.instance == nil { return }` guard, W7 local `inst := e.instance; inst.Close()`, P7 → silent
//	M4  applyConfig: drop `continue` after the build error                  → R-C20-2 failed spec leaves entry untouched
//	M5  applyConfig: `!exists` → `exists` in the deletion loop              → R-C20-2 deleted iff registered and absent
//	M6  applyConfig: drop delete(or.entities, name)                         → R-C20-2 deleted iff registered and absent
//	M7  applyConfig: drop the Equals guard                                  → R-C20-2 unchanged spec is skipped
//	M8  applyConfig: prev.Spec().Equals(prev.Spec())  (wrong variable)      → R-C20-2 unchanged spec is skipped
//	M9  applyConfig: `prevEntity != nil` → `prevEntity == nil`              → R-C20-2 updated iff predecessor
//	M10 applyConfig: drop or.entities[name] = entity                        → R-C20-2 classified entity is registered
//	M11 applyConfig: updated[name] = prevEntity (wrong variable)            → R-C20-2 stores use the classified name and entity
//	M12 notify closure: drop delete(watcher.entities, name)                 → R-C20-2 watcher view follows events
//	M24 notify closure: event never sent                                    → R-C20-2 event sent after all classes
//	M28 notify closure: created loop before deleted loop                    → R-C20-2 watcher applies deletions before creations
//	M13 handleEvent: Create loop moved before Delete loop                   → R-C20-4 Create loop: after the Delete loop
//	M14 handleEvent: LoadAndDelete → Load in the Delete loop                → R-C20-4 Delete loop: close iff removed
//	M27 handleEvent: Close moved before the `!exists` test                  → R-C20-4 Delete loop: ... only when found
//	M15 handleEvent: drop `continue` in `if exists` of the Create loop      → R-C20-4 Create loop: init only for an absent name
//	M16 handleEvent: drop Store after InheritWithRecovery                   → R-C20-4 Update loop: inherited entity is stored
//	M17 handleEvent: Inherit predecessor = the new entity itself            → R-C20-4 Update loop: inherit only from the loaded live predecessor
//	M18 UpdateTrafficGate: drop the `!exists` return                        → R-C20-4 update: inherit only from the loaded live predecessor
//	M19 DeletePipeline: unlock before CloseWithRecovery (early unlock)      → R-C20-4 delete: under tc.mutex
//	M21 ApplyPipeline: drop the Equals early return                         → R-C20-4 apply: ... unchanged spec untouched
//	M23 ApplyPipeline: drop Store after InitWithRecovery                    → R-C20-4 apply: initialised/inherited entity is stored
//	M20 rctc.handleEvent: Update loop calls CreateTrafficGate               → R-C20-4 Update loop: dispatch
//	M22 rctc.handleEvent: `kind == pipeline.Kind` → `!=` in the Create loop → R-C20-4 Create loop: dispatch
//
// Fix variants of R-C20-3 (script /tmp/vw/C20/out/fixvariants.py): if/else-if, tagless switch,
// nested if with local kind variables → exit 0; "kind change only under created", "new kind compared
// with itself", "kind change deletes the new entity" → violated.
//
// Behaviour-preserving edits tried (no finding besides the known R-C20-3 violation): P1 deletion
// loop rewritten with renamed locals, early `continue` and swapped statements; P2 `prevEntity != nil`
// → `exists`; P3 Equals guard extracted into a local bool with swapped operands; P4 Load + Delete
// in an if/else instead of LoadAndDelete + continue; P5 Store before InitWithRecovery; P6 tagless
// switch and entities store first; P7 InitWithRecovery with comma-ok assertions instead of the type
// switch; P8 UpdateTrafficGate with if/else and a typed local; P9 Delete loop closing
// event.Delete[name] (same pointer as the live one) instead of the loaded value.
//
// Robustness pass (behaviour-preserving refactorings /verif/preserving/C20/r1..r4, C11/r4, C13/r4 → all
// exit 0; detection re-checked with mutants on top of r2/r3/r4, script /tmp/vw/C20/out/mutants8.py):
//   - a wrapper may `defer` a named same-package function/method (also via a method value bound once
//     to a local) instead of a literal: c20DeferKind analyses that function entered while panicking
//     and accepts it iff every path calls recover() itself and returns normally (re-panic, a
//     conditional recover or a missing defer are still violations; an unreadable function value is
//     undecided);
//   - the per-watcher copy loops may live in a closure, in applyConfig itself or in a same-package
//     function that receives the three maps (buckets = the arguments, matched by parameter position);
//   - the Delete/Create/Update loops of a handler may live in same-package helpers that receive the
//     event or one of its maps; the handler is analysed with the relevant helpers interpreted in
//     place (flow.Config.Inline), so order, lookup outcome and store/removal pairing are still
//     decided on paths; live-map operations and wrapper calls are searched over the reach;
//   - wrapper / sync.Map calls through a method value bound once to a local are resolved.
//
// Second robustness set (/verif/preserving/C20/r5..r8, C11/r6 → all exit 0; detection re-checked with 18
// mutants on top of r5/r6/r8, script /tmp/vw/C20/out/mutants9.py):
//   - operands of Equals / Kind comparisons are followed through named locals (`newSpec := entity.Spec()`),
//     through same-package predicates (kindChanged(prev, entity)) and closures held in a local: they are
//     read with the parameters standing for the arguments and interpreted in place; a comparison hidden
//     in a function the rule cannot read makes the table undecided, not violated;
//   - the diff may live in a same-package function applyConfig calls (found by role: ranges over
//     ObjectRegistry.entities and over its own map parameter); the three classification maps may be
//     locals, parameters or fields of a struct carried from the diff to the notification;
//   - callbacks moved out of a wrapper into an unexported helper: the helper's same-package callers
//     (call outside loops and literals) are judged as the wrappers, with the helper interpreted in place;
//   - a handler may receive the three maps instead of the event (class = what the callers pass); the
//     entity keeps its identity across the parameters of same-package helpers it is handed to
//     (UpdateTrafficGate → updateObject(kind, namespace, entity)); a live map reached through an
//     accessor/local is identified by its receiver expression.
//
// Third robustness set (/verif/preserving/C20/r9..r12, C11/r10, C11/r11 → all exit 0; detection re-checked with
// 15 mutants on top of them, script /tmp/vw/C20/out/mutants10.py):
//   - tc.mutex at the removal of a namespace may be held any number (≤3) of non-locking "…Locked" helpers up;
//   - Range probes / drains may be closures bound once to a named local; a zero test made before the probe
//     runs is forgotten when the probe runs;
//   - the three classification maps may travel from the diff function to the caller as positional (or named)
//     results before they are handed to the notification;
//   - the snapshot channel may be read through a local defined once from the field;
//   - fields are resolved by role (type), the name being a tie-breaker: the entity maps of ObjectRegistry /
//     ObjectEntityWatcher, the event channel, the snapshot channel (also inside a sub-struct), the
//     TrafficController mutex (Mutex or RWMutex) and namespaces map.
//
// Fourth robustness set (/verif/preserving/C20/r13..r16 → all exit 0; detection re-checked with 13 mutants on
// top of them, script /tmp/vw/C20/out/mutants11.py):
//   - a bookkeeping map bound to a local alias (`registered := or.entities`) or passed to a same-package
//     function is not an escape as long as every use of the alias / parameter is itself a non-escaping use;
//     the diff rules see the registry map through such an alias;
//   - the lifecycle step may be a function literal handed to a same-package recovering runner
//     (e.withRecovery("Init", func() {…})): the enclosing function is judged as the wrapper with the
//     runner and the bound literal interpreted in place;
//   - RawConfigTrafficController may pick the TrafficController verb from a table of bound method values:
//     the table's literals are read (one sort per literal, built under the matching kind test);
//   - the per-watcher loops may be callbacks of a same-package iterator (range over its map parameter calling
//     its func parameter with key and value): same three obligations on the literals and the call order;
//   - a live-map lookup may go through a same-package accessor (takeBusinessController / GetBusinessController).
//
// Known not to be caught (not claimed): TrafficController.Create* for an already existing name;
// dropping the watcher.filter test; Update loop before Create loop; anything inside a kind's own
// Init/Inherit/Close.

import (
	"go/ast"
	"go/types"
	"strings"

	"golang.org/x/tools/go/cfg"
	"golang.org/x/tools/go/packages"

	"verif/internal/core"
	"verif/internal/flow"
)

const (
	c20sv = "pkg/supervisor"
	c20tc = "pkg/object/trafficcontroller"
	c20rc = "pkg/object/rawconfigtrafficcontroller"
)

func init() { Registry["C20"] = c20 }

func c20(c *core.Ctx) string {
	c.Rule("R-C20-1", "lifecycle only under per-object recovery: every dynamic call of Init/Inherit/Close on a supervisor.Object interface value is made either in a wrapper (call outside any loop and function literal, every panic exit of the wrapper is recovered by a deferred function, and every normally returning path of the wrapper invokes the callback exactly once — no state-dependent early return before it) or by a method of an Object kind on one of its own parameters outside any loop (previousGeneration.Close() inside Inherit, which the supervisor only enters through a wrapper); all other code (loops over entities in handleEvent, TrafficController.Close/Clean, Supervisor.close) must go through the *WithRecovery wrappers, so one panicking object cannot abort the reconciliation of the others")
	c.Rule("R-C20-2", "diff classification of ObjectRegistry.applyConfig (decision table over all paths of one iteration): deleted ⇔ registered ∧ absent from config (and removed from entities); a spec that fails to build touches nothing; an unchanged spec (Equals) touches nothing; otherwise predecessor ⇒ updated, none ⇒ created (or deleted+created when the kind changed), entities[name] set to the new entity in both; per watcher the event maps and watcher.entities move together, deletions before creations, and the event is sent after all three classes")
	c.Rule("R-C20-3", "kind change is close + init: a name is filed under 'updated' (hence Inherit(new, old)) only in states where the equality of the previous and the new kind has been established")
	c.Rule("R-C20-4", "handler order and idempotence: handleEvent finishes Delete before Create and Update; Delete closes exactly the entity it removed from the live map (close ⇔ removed, only when found); Create initialises only an absent name and stores the initialised entity; Update inherits only from the loaded live predecessor and stores the new entity under the same key; same shapes for TrafficController Create/Update/Apply/Delete with tc.mutex held; RawConfigTrafficController dispatches each event class to the matching TrafficController verb, pipelines and traffic gates by kind")
	c.NotDecided = []string{
		"exactly-once over arbitrary snapshot histories as a whole (needs the conjunction of the rules plus an induction over snapshots, given only informally)",
		"what each kind's Init/Inherit/Close does (that Inherit really closes or takes over the previous generation)",
		"lifecycle methods called statically on a concrete kind (x.Init(spec) inside x.Inherit), only dynamic calls through the supervisor interfaces are audited",
		"TrafficController.Create* overwriting an existing name without closing it (not reachable from config snapshots once R-C20-3 holds)",
		"watcher event channel capacity / blocking, NewWatcher's first event, Supervisor.close and TrafficController.Clean/Close loops beyond their use of the wrappers",
		"interleavings between the registry goroutine and the handler goroutines",
	}

	c20Recovery(c)
	c20Diff(c)
	c20Handlers(c)
	c20Namespaces(c)
	c20Aliasing(c)
	c20Snapshots(c)
	return "Static shape rules on the object lifecycle machinery: who may call lifecycle callbacks and that the wrappers recover every panic (whole-module call-site scan + path-sensitive panic exits); the registry diff as an exhaustive decision table over the abstract paths of one applyConfig iteration (facts: build error, predecessor found, Equals outcome, kind equality; events: stores to deleted/created/updated/entities); handler loops and TrafficController methods as typestate rules (lookup outcome → lifecycle wrapper → map store/removal, lock held). Not decided: exactly-once over whole snapshot histories (conjunction + induction is informal), what each kind's callbacks do, goroutine interleavings."
}

// ---------------------------------------------------------------------------------------
// small helpers (resolution by role)

// c20Var returns the variable an identifier expression denotes (nil otherwise).
func c20Var(f *flow.Func, e ast.Expr) *types.Var {
	id, ok := ast.Unparen(e).(*ast.Ident)
	if !ok || id.Name == "_" {
		return nil
	}
	if o, ok := f.Info.Uses[id].(*types.Var); ok {
		return o
	}
	if o, ok := f.Info.Defs[id].(*types.Var); ok {
		return o
	}
	return nil
}

// c20Root strips parentheses, type assertions, selectors, method calls, stars and address-of
// down to the root identifier and returns its variable.
func c20Root(f *flow.Func, e ast.Expr) *types.Var {
	for e != nil {
		switch x := ast.Unparen(e).(type) {
		case *ast.TypeAssertExpr:
			e = x.X
		case *ast.SelectorExpr:
			e = x.X
		case *ast.StarExpr:
			e = x.X
		case *ast.UnaryExpr:
			e = x.X
		case *ast.CallExpr:
			sel, ok := ast.Unparen(x.Fun).(*ast.SelectorExpr)
			if !ok {
				return nil
			}
			e = sel.X
		case *ast.Ident:
			return c20Var(f, x)
		default:
			return nil
		}
	}
	return nil
}

// c20FieldOf returns the struct field a selector expression selects (nil otherwise).
func c20FieldOf(f *flow.Func, e ast.Expr) *types.Var {
	sel, ok := ast.Unparen(e).(*ast.SelectorExpr)
	if !ok {
		return nil
	}
	s := f.Info.Selections[sel]
	if s == nil || s.Kind() != types.FieldVal {
		return nil
	}
	v, _ := s.Obj().(*types.Var)
	return v
}

// c20Def is one definition/assignment of a variable.
type c20Def struct {
	stmt ast.Node
	rhs  ast.Expr // the expression assigned (nil for multi-value assignments, ranges, inc/dec)
}

// c20Defs lists every assignment to v inside root (function literals included).
func c20Defs(f *flow.Func, root ast.Node, v *types.Var) []c20Def {
	var out []c20Def
	if v == nil {
		return nil
	}
	ast.Inspect(root, func(n ast.Node) bool {
		switch s := n.(type) {
		case *ast.AssignStmt:
			for i, l := range s.Lhs {
				if c20Var(f, l) == v {
					var rhs ast.Expr
					if len(s.Lhs) == len(s.Rhs) {
						rhs = s.Rhs[i]
					}
					out = append(out, c20Def{s, rhs})
				}
			}
		case *ast.ValueSpec:
			for i, id := range s.Names {
				if f.Info.Defs[id] == v {
					var rhs ast.Expr
					if len(s.Names) == len(s.Values) {
						rhs = s.Values[i]
					}
					out = append(out, c20Def{s, rhs})
				}
			}
		case *ast.RangeStmt:
			if (s.Key != nil && c20Var(f, s.Key) == v) || (s.Value != nil && c20Var(f, s.Value) == v) {
				out = append(out, c20Def{s, nil})
			}
		case *ast.IncDecStmt:
			if c20Var(f, s.X) == v {
				out = append(out, c20Def{s, nil})
			}
		}
		return true
	})
	return out
}

// c20Origin follows single-definition copies `w := v` / `w := v.(T)` back to the variable the
// value came from.
func c20Origin(f *flow.Func, v *types.Var) *types.Var {
	for depth := 0; v != nil && depth < 4; depth++ {
		defs := c20Defs(f, c20DeclNodeOf(f, v), v)
		if len(defs) != 1 || defs[0].rhs == nil {
			return v
		}
		r := ast.Unparen(defs[0].rhs)
		if ta, ok := r.(*ast.TypeAssertExpr); ok {
			r = ast.Unparen(ta.X)
		}
		w := c20Var(f, r)
		if w == nil {
			return v
		}
		v = w
	}
	return v
}

// c20DerivRoot is the variable a value is derived from: the root variable of e, followed through
// locals that are defined once from an expression rooted at another variable
// (`newSpec := entity.Spec()` → entity; `prev := loaded.(*ObjectEntity)` → loaded). For operands
// of comparisons (Equals, Kind) — not for the identity of an entity.
func c20DerivRoot(f *flow.Func, e ast.Expr) *types.Var {
	v := c20Root(f, e)
	for depth := 0; v != nil && depth < 4; depth++ {
		defs := c20Defs(f, c20DeclNodeOf(f, v), v)
		if len(defs) != 1 || defs[0].rhs == nil {
			return v
		}
		w := c20Root(f, defs[0].rhs)
		if w == nil || w == v {
			return v
		}
		v = w
	}
	return v
}

// c20RootOrigin = origin of the root variable of an expression.
func c20RootOrigin(f *flow.Func, e ast.Expr) *types.Var {
	return c20Origin(f, c20Root(f, e))
}

// c20Lookup is a map lookup whose result is bound to variables:
// `v, ok := m[k]`, `v := m[k]`, `v, ok := m.Load(k)`, `v, ok := m.LoadAndDelete(k)` (sync.Map).
type c20Lookup struct {
	id      int
	stmt    *ast.AssignStmt
	val, ok *types.Var
	valID   *ast.Ident
	okID    *ast.Ident
	m       ast.Expr
	mField  *types.Var // field selected by m (nil if m is not a field selector)
	mVar    *types.Var // variable m denotes (nil if m is not an identifier)
	key     ast.Expr
	op      string // "index" | "Load" | "LoadAndDelete"
}

// c20SyncMapOp classifies a call as a sync.Map method call and returns the method name and the
// receiver expression.
func c20SyncMapOp(f *flow.Func, call *ast.CallExpr) (string, ast.Expr) {
	fnObj, recv := c20MethodCall(f, call)
	if fnObj == nil || recv == nil || fnObj.Pkg() == nil || fnObj.Pkg().Path() != "sync" {
		return "", nil
	}
	sig, _ := fnObj.Type().(*types.Signature)
	if sig == nil || sig.Recv() == nil {
		return "", nil
	}
	rt := sig.Recv().Type()
	if p, ok := rt.(*types.Pointer); ok {
		rt = p.Elem()
	}
	n, ok := rt.(*types.Named)
	if !ok || n.Obj().Name() != "Map" {
		return "", nil
	}
	return fnObj.Name(), recv
}

// c20MethodCall resolves the method a call invokes and its receiver expression, also through a
// method value bound once to a local (`closeIt := entity.CloseWithRecovery; closeIt()`).
func c20MethodCall(f *flow.Func, call *ast.CallExpr) (*types.Func, ast.Expr) {
	if fnObj, ok := f.Callee(call).(*types.Func); ok {
		if sel, ok := ast.Unparen(call.Fun).(*ast.SelectorExpr); ok {
			return fnObj, sel.X
		}
		// resolved through a method value held in a local: the receiver is in its definition
		if sel, ok := ast.Unparen(f.FuncValue(call.Fun)).(*ast.SelectorExpr); ok {
			return fnObj, sel.X
		}
		return fnObj, nil
	}
	v := c20Var(f, call.Fun)
	if v == nil {
		return nil, nil
	}
	defs := c20Defs(f, c20DeclNodeOf(f, v), v)
	if len(defs) != 1 || defs[0].rhs == nil {
		return nil, nil
	}
	sel, ok := ast.Unparen(defs[0].rhs).(*ast.SelectorExpr)
	if !ok {
		return nil, nil
	}
	s := f.Info.Selections[sel]
	if s == nil || s.Kind() != types.MethodVal {
		return nil, nil
	}
	fnObj, _ := s.Obj().(*types.Func)
	return fnObj, sel.X
}

// c20Wrapper classifies a call of a lifecycle wrapper ("init" | "inherit" | "close") and returns
// the entity expression it is invoked on.
func c20Wrapper(f *flow.Func, call *ast.CallExpr) (string, ast.Expr) {
	fnObj, recv := c20MethodCall(f, call)
	if fnObj == nil || recv == nil {
		return "", nil
	}
	switch strings.ReplaceAll(fnObj.FullName(), Mod, "") {
	case c20WInit:
		return "init", recv
	case c20WInherit:
		return "inherit", recv
	case c20WClose:
		return "close", recv
	}
	return "", nil
}

func c20Lookups(f *flow.Func, root ast.Node) []*c20Lookup {
	var out []*c20Lookup
	ast.Inspect(root, func(n ast.Node) bool {
		as, ok := n.(*ast.AssignStmt)
		if !ok || len(as.Rhs) != 1 || len(as.Lhs) < 1 || len(as.Lhs) > 2 {
			return true
		}
		l := &c20Lookup{stmt: as}
		switch r := ast.Unparen(as.Rhs[0]).(type) {
		case *ast.IndexExpr:
			tv, ok := f.Info.Types[r.X]
			if !ok || tv.Type == nil {
				return true
			}
			if _, isMap := tv.Type.Underlying().(*types.Map); !isMap {
				return true
			}
			l.m, l.key, l.op = r.X, r.Index, "index"
		case *ast.CallExpr:
			op, recv := c20SyncMapOp(f, r)
			if op == "" && len(as.Lhs) == 2 && len(r.Args) == 1 {
				// an accessor in front of the live map: entity, ok := s.takeBusinessController(name)
				// (a same-package function with exactly one Load/LoadAndDelete, two results)
				if fo, ok := f.Callee(r).(*types.Func); ok && fo.Pkg() == f.Pkg.Types {
					if hfd := declOf(f.Pkg, fo); hfd != nil && hfd != root && hfd.Type.Results != nil && hfd.Type.Results.NumFields() == 2 {
						var inner []*c20Lookup
						for _, il := range c20Lookups(flow.NewFunc(f.Pkg, hfd), hfd.Body) {
							if il.op == "Load" || il.op == "LoadAndDelete" {
								inner = append(inner, il)
							}
						}
						if len(inner) == 1 {
							op, recv = inner[0].op, inner[0].m
						}
					}
				}
			}
			if (op != "Load" && op != "LoadAndDelete") || len(r.Args) != 1 || len(as.Lhs) != 2 {
				return true
			}
			l.m, l.key, l.op = recv, r.Args[0], op
		default:
			return true
		}
		l.mField = c20FieldOf(f, l.m)
		l.mVar = c20Var(f, l.m)
		l.val = c20Var(f, as.Lhs[0])
		l.valID, _ = ast.Unparen(as.Lhs[0]).(*ast.Ident)
		if len(as.Lhs) == 2 {
			l.ok = c20Var(f, as.Lhs[1])
			l.okID, _ = ast.Unparen(as.Lhs[1]).(*ast.Ident)
		}
		l.id = len(out)
		out = append(out, l)
		return true
	})
	return out
}

// c20Tri is the three-valued reading of a fact with optional negation.
func c20Tri(st *flow.State, key string, neg bool) flow.Val {
	if key == "" {
		return flow.Unknown
	}
	v := st.Get(key)
	if !neg || v == flow.Unknown {
		return v
	}
	if v == flow.True {
		return flow.False
	}
	return flow.True
}

// c20Finding collects the first failing state of one obligation.
type c20Finding struct {
	n       int // states examined
	why     string
	witness []string
	at      ast.Node
}

func (v *c20Finding) fail(st *flow.State, at ast.Node, why string) {
	if v.why != "" {
		return
	}
	v.why, v.at = why, at
	if st != nil {
		v.witness = append(append([]string{}, st.Trace()...), "facts: "+sprintf("%v", st.Facts()))
	}
}

func (v *c20Finding) report(c *core.Ctx, rule, construct string, at ast.Node, okDetail string) bool {
	if v.why != "" && v.at != nil {
		at = v.at
	}
	return c.Check(v.why == "", rule, construct, pos(c, at), okDetail, v.why, v.witness...)
}

// ---------------------------------------------------------------------------------------
// R-C20-1

// c20LifecycleCall reports whether call dynamically invokes Init/Inherit/Close on a value whose
// static type is an interface that includes supervisor.Object; it returns "Iface.Method".
func c20LifecycleCall(f *flow.Func, call *ast.CallExpr, objI *types.Interface) string {
	sel, ok := ast.Unparen(call.Fun).(*ast.SelectorExpr)
	if !ok {
		return ""
	}
	switch sel.Sel.Name {
	case "Init", "Inherit", "Close":
	default:
		return ""
	}
	s := f.Info.Selections[sel]
	if s == nil || s.Kind() != types.MethodVal {
		return ""
	}
	rt := s.Recv()
	if !types.IsInterface(rt) {
		return ""
	}
	it, ok := rt.Underlying().(*types.Interface)
	if !ok || !types.Implements(it, objI) && !types.Implements(rt, objI) {
		return ""
	}
	name := "interface"
	if n, ok := rt.(*types.Named); ok {
		name = n.Obj().Name()
	}
	return name + "." + sel.Sel.Name
}

func c20Recovery(c *core.Ctx) {
	objT := namedType(c, c20sv, "Object")
	if objT == nil {
		return
	}
	objI, ok := objT.Underlying().(*types.Interface)
	if !ok {
		c.Errorf("R-C20-1: anchor: %s.Object is not an interface", c20sv)
		return
	}
	perMethod := map[string]int{} // wrapper sites per callback name
	own := 0
	type wrapper struct {
		pkg   *packages.Package
		fd    *ast.FuncDecl
		sites []*ast.CallExpr
		// helpers: same-package functions between the wrapper and the sites (the callbacks were
		// moved into an unexported helper the wrapper calls once, outside any loop); they are
		// interpreted in place
		helpers map[*types.Func]bool
	}
	var wrappers []*wrapper
	eachFunc(c, func(pkg *packages.Package, fd *ast.FuncDecl) {
		f := flow.NewFunc(pkg, fd)
		var w *wrapper
		pm := map[ast.Node]ast.Node(nil)
		for _, call := range calls(fd.Body, true) {
			role := c20LifecycleCall(f, call, objI)
			if role == "" {
				continue
			}
			cons := declName(pkg, fd) + "|" + role + " callback"
			if pm == nil {
				pm = parentMap(fd)
			}
			inLit := false
			for p := pm[call]; p != nil; p = pm[p] {
				if _, ok := p.(*ast.FuncLit); ok {
					inLit = true
				}
			}
			inLoop := len(enclosingLoops(fd.Body, call)) > 0
			// (b) an object handling the generation it was handed: a method of an Object kind
			// calling the callback on one of its own parameters (previousGeneration.Close() in Inherit)
			if c20IsObjectMethod(pkg, fd, objI) {
				sel := ast.Unparen(call.Fun).(*ast.SelectorExpr)
				if c20IsParam(f, fd, c20Root(f, sel.X)) && !inLoop {
					own++
					c.Discharge("R-C20-1", cons, pos(c, call), "an object's own "+fd.Name.Name+" handles the generation it was handed (the supervisor enters it only through a recovering wrapper)")
					continue
				}
			}
			// (a') the step is a function literal handed to a same-package runner that recovers
			// (e.withRecovery("Init", func() { … instance.Init(…) … })): the enclosing function is
			// the wrapper, the runner is interpreted in place with the literal bound to its parameter
			if inLit && !inLoop {
				if runner := c20RunnerOf(f, fd, pm, call); runner != nil {
					if w == nil {
						w = &wrapper{pkg: pkg, fd: fd, helpers: map[*types.Func]bool{}}
						wrappers = append(wrappers, w)
					}
					if w.helpers == nil {
						w.helpers = map[*types.Func]bool{}
					}
					w.helpers[runner] = true
					w.sites = append(w.sites, call)
					continue
				}
			}
			// (a) candidate wrapper: not in a loop, not in a function literal
			switch {
			case inLit:
				c.Violate("R-C20-1", cons, pos(c, call), "lifecycle callback "+role+" is invoked from a function literal, not from a per-object recovering wrapper: a panic of this object propagates into "+declName(pkg, fd)+" and prevents the remaining objects from being reconciled (or kills the goroutine)")
			case inLoop:
				c.Violate("R-C20-1", cons, pos(c, call), "lifecycle callback "+role+" is invoked inside a loop: even with a function-level recover, the first panicking object ends the loop and the remaining objects are never initialised/inherited/closed")
			default:
				if w == nil {
					w = &wrapper{pkg: pkg, fd: fd}
					wrappers = append(wrappers, w)
				}
				w.sites = append(w.sites, call)
			}
		}
	})
	// judge analyses one wrapper; quiet = only tell whether every panic is recovered
	judge := func(w *wrapper, quiet bool) bool {
		f := flow.NewFunc(w.pkg, w.fd)
		c.Count("functions_analysed", 1)
		var inline func(*ast.CallExpr, *types.Func) *flow.Func
		if len(w.helpers) > 0 {
			inline = inlineIf(f, func(callee *types.Func, g *flow.Func) bool { return w.helpers[callee] })
		}
		isSite := map[*ast.CallExpr]bool{}
		for _, s := range w.sites {
			isSite[s] = true
		}
		const evCb, evCb2 = "ev:callback", "ev:callback-twice"
		const evRecDefer, evOpaqueDefer = "ev:recovering-defer", "ev:opaque-defer"
		res := analyze(c, f, flow.Config{
			Inline:         inline,
			InlineClosures: inline != nil,
			NoHavoc:        true,
			MayPanic:       func(call *ast.CallExpr, callee types.Object) bool { return isSite[call] },
			OnNode: func(st *flow.State, n ast.Node) {
				// `defer e.recoverFrom("Init")`: a deferred named function that calls recover()
				// itself recovers exactly like a deferred literal (the engine only interprets literals)
				if d, ok := n.(*ast.DeferStmt); ok {
					switch c20DeferKind(c, f, w.fd, d) {
					case "recovers":
						st.Set(evRecDefer, flow.True)
					case "opaque":
						st.Set(evOpaqueDefer, flow.True)
					}
				}
			},
			OnCall: func(st *flow.State, call *ast.CallExpr, callee types.Object, deferred bool) {
				if isSite[call] {
					if st.Is(evCb, flow.True) {
						st.Set(evCb2, flow.True)
					}
					st.Set(evCb, flow.True)
				}
			},
		})
		if res == nil {
			return false
		}
		if quiet {
			for _, ex := range res.Exits {
				if ex.Kind == flow.ExitPanic && !ex.State.Is(evRecDefer, flow.True) {
					return false
				}
			}
			return true
		}
		// the wrapper is the only way the handlers reach the callback: every path that does not
		// end in a (recovered) panic must have invoked it exactly once. A guard on the callback's
		// receiver being nil is the one harmless skip (the call would panic and be recovered).
		var reach c20Finding
		what := w.sites[0].Fun.(*ast.SelectorExpr).Sel.Name
		for _, ex := range res.Exits {
			if ex.Kind != flow.ExitReturn || ex.State.Is(flow.Recovered, flow.True) {
				continue
			}
			reach.n++
			st := ex.State
			if st.Is(evCb2, flow.True) {
				reach.fail(st, ex.At, declName(w.pkg, w.fd)+" invokes the object's "+what+" more than once on one path: the object is initialised/inherited/closed twice for one configuration change")
				continue
			}
			if st.Is(evCb, flow.True) {
				continue
			}
			nilRecv := false
			for _, s := range w.sites {
				if st.Is(f.NilKey(s.Fun.(*ast.SelectorExpr).X), flow.True) {
					nilRecv = true
				}
			}
			if !nilRecv {
				reach.fail(st, ex.At, declName(w.pkg, w.fd)+" returns normally on a path that never invokes the object's "+what+" (state-dependent early return / branch without the callback): the handlers treat the step as done, so "+map[string]string{
					"Init":    "an object that was never initialised is stored as live",
					"Inherit": "the new generation is stored as live although it neither took over nor closed the previous one, which keeps running",
					"Close":   "an object whose name disappeared is dropped from the live map without ever being closed (e.g. one whose earlier Init/Inherit panicked and was recovered): its listeners, goroutines and ports leak",
				}[what])
			}
		}
		if reach.n == 0 {
			reach.fail(nil, w.fd, declName(w.pkg, w.fd)+" has no normally returning path at all")
		}
		reach.report(c, "R-C20-1", declName(w.pkg, w.fd)+"|callback reached exactly once on every non-panicking path", w.fd,
			sprintf("%d normally returning paths all invoke the object's %s exactly once", reach.n, what))
		var bad c20Finding
		var opaque *flow.Exit
		for _, ex := range res.Exits {
			bad.n++
			if ex.Kind == flow.ExitPanic && ex.State.Is(evRecDefer, flow.True) {
				continue // recovered by the deferred named function
			}
			if ex.Kind == flow.ExitPanic && ex.State.Is(evOpaqueDefer, flow.True) {
				opaque = ex
				continue
			}
			if ex.Kind == flow.ExitPanic {
				why := "a panic raised by the object's lifecycle callback leaves " + declName(w.pkg, w.fd) + " unrecovered: the caller's loop over the snapshot's objects is aborted (and the supervisor goroutine dies), so the other objects of the same snapshot are not reconciled"
				if call, ok := ex.At.(*ast.CallExpr); ok && !isSite[call] {
					why = "an explicit panic leaves " + declName(w.pkg, w.fd) + " unrecovered (no deferred recover on this path): the caller's loop over the snapshot's objects is aborted"
				}
				bad.fail(ex.State, ex.At, why)
			}
		}
		if bad.why == "" && opaque != nil {
			c.Undecide("R-C20-1", declName(w.pkg, w.fd)+"|panic of the callback is recovered", pos(c, w.fd),
				"the wrapper defers a function value / a function outside the package that the rule cannot inspect for recover()")
			return false
		}
		recovered := bad.report(c, "R-C20-1", declName(w.pkg, w.fd)+"|panic of the callback is recovered", w.fd,
			sprintf("%d exits (normal and panicking callback) all end in a normal return after the deferred recover", bad.n))
		for _, s := range w.sites {
			role := c20LifecycleCall(f, s, objI)
			c.Check(recovered, "R-C20-1", declName(w.pkg, w.fd)+"|"+role+" callback", pos(c, s),
				"called outside any loop in a function that recovers every panic of the callback",
				"lifecycle callback "+role+" is invoked without per-object recovery: a panicking object aborts the reconciliation of the other objects of the snapshot")
			if recovered {
				perMethod[s.Fun.(*ast.SelectorExpr).Sel.Name]++
			}
		}
		return recovered
	}
	// lift: a function that holds callback sites but does not recover itself, is unexported and is
	// only called (outside loops and literals) from same-package functions, is a helper of those
	// callers — they are the wrappers (two levels at most)
	for round := 0; round < 2; round++ {
		var next []*wrapper
		for _, w := range wrappers {
			if judge(w, true) {
				next = append(next, w)
				continue
			}
			fnObj, _ := w.pkg.TypesInfo.Defs[w.fd.Name].(*types.Func)
			var callers []*wrapper
			liftable := fnObj != nil && !fnObj.Exported()
			if liftable {
				for _, file := range w.pkg.Syntax {
					for _, d := range file.Decls {
						fd2, ok := d.(*ast.FuncDecl)
						if !ok || fd2.Body == nil || fd2 == w.fd {
							continue
						}
						g := flow.NewFunc(w.pkg, fd2)
						for _, call := range calls(fd2.Body, true) {
							if fo, ok := g.Callee(call).(*types.Func); !ok || fo != fnObj {
								continue
							}
							inLit := false
							pm := parentMap(fd2)
							for p := pm[call]; p != nil; p = pm[p] {
								if _, ok := p.(*ast.FuncLit); ok {
									inLit = true
								}
							}
							if inLit || len(enclosingLoops(fd2.Body, call)) > 0 {
								liftable = false
							}
							helpers := map[*types.Func]bool{fnObj: true}
							for h := range w.helpers {
								helpers[h] = true
							}
							callers = append(callers, &wrapper{pkg: w.pkg, fd: fd2, sites: w.sites, helpers: helpers})
						}
					}
				}
			}
			if liftable && len(callers) > 0 {
				next = append(next, callers...)
			} else {
				next = append(next, w)
			}
		}
		wrappers = next
	}
	for _, w := range wrappers {
		judge(w, false)
	}
	// vacuity: each callback has at least one wrapper site today (Init 2, Inherit 2, Close 1), and
	// 15 kinds close their predecessor in Inherit
	viol := 0
	for _, o := range c.Obligations {
		if o.Rule == "R-C20-1" && o.Verdict == core.Violated {
			viol++
		}
	}
	if viol == 0 {
		c.RequireCount("R-C20-1", "recovering wrapper sites of Init", perMethod["Init"], 1)
		c.RequireCount("R-C20-1", "recovering wrapper sites of Inherit", perMethod["Inherit"], 1)
		c.RequireCount("R-C20-1", "recovering wrapper sites of Close", perMethod["Close"], 1)
	}
	c.Count("R-C20-1:callbacks inside own lifecycle methods", own)
}

// c20IsObjectMethod: fd is a method of a type implementing supervisor.Object.
func c20IsObjectMethod(pkg *packages.Package, fd *ast.FuncDecl, objI *types.Interface) bool {
	if fd.Recv == nil || len(fd.Recv.List) != 1 {
		return false
	}
	fnObj, ok := pkg.TypesInfo.Defs[fd.Name].(*types.Func)
	if !ok {
		return false
	}
	recv := fnObj.Type().(*types.Signature).Recv()
	if recv == nil {
		return false
	}
	t := recv.Type()
	if types.Implements(t, objI) {
		return true
	}
	if _, isPtr := t.(*types.Pointer); !isPtr {
		return types.Implements(types.NewPointer(t), objI)
	}
	return false
}

// c20IsParam: v is a parameter (not the receiver) of fd.
func c20IsParam(f *flow.Func, fd *ast.FuncDecl, v *types.Var) bool {
	if v == nil || fd.Type.Params == nil {
		return false
	}
	for _, fld := range fd.Type.Params.List {
		for _, id := range fld.Names {
			if f.Info.Defs[id] == v {
				return true
			}
		}
	}
	return false
}

// c20DeferKind classifies a defer statement of a wrapper: "lit" (function literal, interpreted by
// the engine), "recovers" (a named same-package function/method — also through a method value bound
// once to a local — every path of which, entered while panicking, calls recover() itself and
// returns normally), "norecover" (a named function the rule can read that does not), "opaque".
func c20DeferKind(c *core.Ctx, f *flow.Func, fd *ast.FuncDecl, d *ast.DeferStmt) string {
	fun := ast.Unparen(d.Call.Fun)
	if _, ok := fun.(*ast.FuncLit); ok {
		return "lit"
	}
	fnObj, _ := f.Callee(d.Call).(*types.Func)
	if fnObj == nil {
		// method value / function bound once to a local: rec := e.recoverFrom; defer rec("Init")
		if v := c20Var(f, fun); v != nil {
			if defs := c20Defs(f, fd, v); len(defs) == 1 && defs[0].rhs != nil {
				switch r := ast.Unparen(defs[0].rhs).(type) {
				case *ast.SelectorExpr:
					fnObj, _ = f.Info.Uses[r.Sel].(*types.Func)
				case *ast.Ident:
					fnObj, _ = f.Info.Uses[r].(*types.Func)
				case *ast.FuncLit:
					return "opaque"
				}
			}
		}
	}
	if fnObj == nil {
		return "opaque"
	}
	if fnObj.Pkg() == nil || fnObj.Pkg() != f.Pkg.Types {
		if fnObj.Pkg() != nil && fnObj.Pkg().Path() == "sync" {
			return "norecover" // mutex unlocks and the like
		}
		return "opaque"
	}
	decl := declOf(f.Pkg, fnObj)
	if decl == nil {
		return "opaque"
	}
	g := flow.NewFunc(f.Pkg, decl)
	entered := false
	res, err := flow.Analyze(g, flow.Config{NoHavoc: true, OnBlock: func(st *flow.State, b *cfg.Block) {
		if b.Index == 0 && !st.Is("ev:entered", flow.True) {
			st.Set("ev:entered", flow.True)
			st.Set(flow.Panicking, flow.True)
			entered = true
		}
	}})
	if err != nil || res == nil || !entered || len(res.Exits) == 0 {
		return "opaque"
	}
	c.Count("functions_analysed", 1)
	for _, ex := range res.Exits {
		if ex.Kind != flow.ExitReturn || !ex.State.Is(flow.Recovered, flow.True) {
			return "norecover"
		}
	}
	return "recovers"
}

// c20DeclNodeOf returns the function declaration of f's package in which the local v is declared
// (f.Node when it is not found): code moved into a same-package helper is searched there.
func c20DeclNodeOf(f *flow.Func, v *types.Var) ast.Node {
	if v != nil && f.Node != nil && (v.Pos() < f.Node.Pos() || v.Pos() > f.Node.End()) {
		for _, file := range f.Pkg.Syntax {
			if v.Pos() < file.Pos() || v.Pos() > file.End() {
				continue
			}
			for _, d := range file.Decls {
				if fd, ok := d.(*ast.FuncDecl); ok && fd.Pos() <= v.Pos() && v.Pos() <= fd.End() {
					return fd
				}
			}
		}
	}
	return f.Node
}

// c20Reach is reach(f, depth) without the lifecycle wrappers themselves (they are modelled as
// events, never searched or interpreted in place) and returns their objects for inlineSamePkg's
// except list.
func c20Reach(f *flow.Func, depth int) ([]*flow.Func, []types.Object) {
	var out []*flow.Func
	var wrappers []types.Object
	seen := map[types.Object]bool{}
	for _, g := range reach(f, depth) {
		if fd, ok := g.Node.(*ast.FuncDecl); ok && g.Body != f.Body {
			o := g.Info.Defs[fd.Name]
			if fo, ok := o.(*types.Func); ok {
				full := strings.ReplaceAll(fo.FullName(), Mod, "")
				if full == c20WInit || full == c20WInherit || full == c20WClose {
					if !seen[o] {
						seen[o] = true
						wrappers = append(wrappers, o)
					}
					continue
				}
			}
		}
		out = append(out, g)
	}
	return out, wrappers
}

// ---------------------------------------------------------------------------------------
// fields by role (type), the current name being only a tie-breaker: an unexported field may be
// renamed or moved into a sub-struct of the same type without losing the anchor

// c20RoleField finds in struct rel.typ the field whose type satisfies match (one level into
// struct-typed fields of the same package when nested). The field called name wins when it
// matches; otherwise the match must be unique.
func c20RoleField(c *core.Ctx, rel, typ, name, role string, nested bool, match func(types.Type) bool) *types.Var {
	n := namedType(c, rel, typ)
	if n == nil {
		return nil
	}
	st, ok := n.Underlying().(*types.Struct)
	if !ok {
		c.Errorf("anchor: %s.%s is not a struct", rel, typ)
		return nil
	}
	var found []*types.Var
	var walk func(st *types.Struct, depth int)
	walk = func(st *types.Struct, depth int) {
		for i := 0; i < st.NumFields(); i++ {
			fld := st.Field(i)
			if match(fld.Type()) {
				found = append(found, fld)
				continue
			}
			if nested && depth == 0 {
				t := fld.Type()
				if p, ok := t.(*types.Pointer); ok {
					t = p.Elem()
				}
				if nn, ok := t.(*types.Named); ok && nn.Obj().Pkg() != nil && nn.Obj().Pkg().Path() == Mod+rel {
					if sub, ok := nn.Underlying().(*types.Struct); ok {
						walk(sub, depth+1)
					}
				}
			}
		}
	}
	walk(st, 0)
	for _, fld := range found {
		if fld.Name() == name {
			return fld
		}
	}
	if len(found) == 1 {
		return found[0]
	}
	c.Errorf("anchor: %s.%s: %d fields fit the role %q (%s)", rel, typ, len(found), role, name)
	return nil
}

func c20NamedIs(t types.Type, pkgPath, name string) bool {
	if p, ok := t.(*types.Pointer); ok {
		t = p.Elem()
	}
	n, ok := t.(*types.Named)
	return ok && n.Obj().Name() == name && n.Obj().Pkg() != nil && n.Obj().Pkg().Path() == pkgPath
}

// c20IsEntityMap: map[string]*supervisor.ObjectEntity.
func c20IsEntityMap(t types.Type) bool {
	m, ok := t.Underlying().(*types.Map)
	return ok && c20IsEntityPtr(m.Elem())
}

func c20IsMutex(t types.Type) bool {
	return c20NamedIs(t, "sync", "Mutex") || c20NamedIs(t, "sync", "RWMutex")
}

func c20EntitiesField(c *core.Ctx, typ string) *types.Var {
	return c20RoleField(c, c20sv, typ, "entities", "name → entity bookkeeping map", false, c20IsEntityMap)
}

func c20EventChanField(c *core.Ctx) *types.Var {
	return c20RoleField(c, c20sv, "ObjectEntityWatcher", "eventChan", "channel of watcher events", false, func(t types.Type) bool {
		ch, ok := t.Underlying().(*types.Chan)
		return ok && c20NamedIs(ch.Elem(), Mod+c20sv, "ObjectEntityWatcherEvent")
	})
}

func c20SnapshotChanField(c *core.Ctx) *types.Var {
	return c20RoleField(c, c20sv, "ObjectRegistry", "configSyncChan", "channel of configuration snapshots", true, func(t types.Type) bool {
		ch, ok := t.Underlying().(*types.Chan)
		if !ok {
			return false
		}
		m, ok := ch.Elem().Underlying().(*types.Map)
		if !ok {
			return false
		}
		k, kok := m.Key().Underlying().(*types.Basic)
		e, eok := m.Elem().Underlying().(*types.Basic)
		return kok && eok && k.Kind() == types.String && e.Kind() == types.String
	})
}

func c20TCMutexField(c *core.Ctx) *types.Var {
	return c20RoleField(c, c20tc, "TrafficController", "mutex", "mutex guarding the namespaces", false, c20IsMutex)
}

func c20TCNamespacesField(c *core.Ctx) *types.Var {
	return c20RoleField(c, c20tc, "TrafficController", "namespaces", "name → namespace map", false, func(t types.Type) bool {
		m, ok := t.Underlying().(*types.Map)
		return ok && c20NamedIs(m.Elem(), Mod+c20tc, "Namespace")
	})
}

// c20RunnerOf: site sits in a function literal that is directly an argument of a call — outside
// loops and other literals of fd — to a same-package function; returns that function.
func c20RunnerOf(f *flow.Func, fd *ast.FuncDecl, pm map[ast.Node]ast.Node, site *ast.CallExpr) *types.Func {
	var lit *ast.FuncLit
	for p := pm[site]; p != nil; p = pm[p] {
		if l, ok := p.(*ast.FuncLit); ok {
			if lit != nil {
				return nil // nested literals
			}
			lit = l
		}
	}
	if lit == nil {
		return nil
	}
	// no loop between the literal's body and the site
	if len(enclosingLoops(lit.Body, site)) > 0 {
		return nil
	}
	call, ok := pm[lit].(*ast.CallExpr)
	if !ok {
		return nil
	}
	isArg := false
	for _, a := range call.Args {
		if a == ast.Expr(lit) {
			isArg = true
		}
	}
	if !isArg || len(enclosingLoops(fd.Body, call)) > 0 {
		return nil
	}
	fo, ok := f.Callee(call).(*types.Func)
	if !ok || fo.Pkg() != f.Pkg.Types || declOf(f.Pkg, fo) == nil {
		return nil
	}
	return fo
}
