package rules

// Property C10 — Retry and time-limit policies bound attempts and waiting.
//
// Files: c10.go (registration, the retry wrapper: R-C10-1, R-C10-2), c10_pool.go (the proxy
// side: R-C10-3, R-C10-4, R-C10-5), c10_util.go (private helpers).
//
// GENUINE FINDING of the first round (repaired in /repo by 6d3be8e, the obligation now holds):
//   R-C10-5|pkg/filters/proxy.(ServerPool).doHandle|response-read failure under the deadline
//   A backend that sent the header in time and then stalled the body past the pool timeout
//   yielded (500, internalError) instead of (408, timeout).
// Seeded regressions /verif/seeded/C10: a (growth factor `3 / 2` == 1) -> R-C10-2 exponential
// growth; b (`spCtx.resp = nil` dropped) -> R-C10-4 response reset per attempt.
//
// Tested both ways in a scratch worktree, one edit at a time, each compiles
// (go build ./pkg/resilience ./pkg/filters/proxy); edit scripts kept next to the triage files.
//
// MUTANTS -> obligation that fires (exit 1); every one of them was caught
//   M1  retry.go  `attempt < p.MaxAttempts` -> `<=`                      R-C10-1 attempt loop bound
//   M19 retry.go  `attempt := 1` with `<`                                R-C10-1 attempt loop bound (MaxAttempts-1)
//   M27 retry.go  `if attempt == 0 { attempt-- }` in the body            R-C10-1 attempt loop bound (counter written)
//   M2  retry.go  drop `if err == nil { return nil }`                    R-C10-1 retry only after failure
//   M5  retry.go  Done case `return ctx.Err()`                           R-C10-1 returns last attempt's error
//   M21 retry.go  final `return err` -> `return nil`                     R-C10-1 returns last attempt's error
//   M8  retry.go  `minimum=1` dropped from MaxAttempts' jsonschema tag   R-C10-1 schema minimum
//   M3  retry.go  Done case body emptied (cancellation falls through)    R-C10-2 no attempt after cancellation
//   M22 retry.go  Done case `continue`                                   R-C10-2 no attempt after cancellation
//   M4  retry.go  select replaced by plain `<-time.After(...)`           R-C10-2 back-off between attempts (+2 follow-ups)
//   M6  retry.go  growth test `==` -> `!=` "exponential"                 R-C10-2 exponential growth
//   M20 retry.go  `base *= 1.5` made unconditional                       R-C10-2 exponential growth
//   M25 retry.go  `base *= 0.5`                                          R-C10-2 exponential growth
//   M7  retry.go  `time.After(time.Millisecond)`                         R-C10-2 wait derives from waitDuration
//   M16 pool.go   `sp.retryWrapper = policy` (no CreateWrapper)          R-C10-2 retryWrapper created by CreateWrapper
//   M17 pool.go   `handler(stdcontext.Background())`                     R-C10-2 client context handed to the handler
//   M9  pool.go   wrap order swapped (breaker first, retry outside)      R-C10-3 retry inside breaker
//   M10 pool.go   `&& !spCtx.req.IsStream()` removed                     R-C10-3 no retry for stream bodies
//   M11 pool.go   `spCtx.resp = nil` removed from the attempt closure    R-C10-4 response reset per attempt
//   M12 pool.go   `sp.timeout > 0` -> `>= 0`                             R-C10-4 deadline iff timeout configured
//   M24 pool.go   WithTimeout(stdcontext.Background(), sp.timeout)       R-C10-4 attempt context derived from wrapper ctx
//   M15 pool.go   http.NewRequestWithContext -> http.NewRequest          R-C10-4 deadline reaches the backend request
//   M13 pool.go   DeadlineExceeded row returns (503, serverError)        R-C10-5 send-failure table
//   M23 pool.go   `== DeadlineExceeded` -> `== Canceled`                 R-C10-5 send-failure table
//   M14 pool.go   classification reads spCtx.req.Context().Err()         R-C10-5 classified by the outgoing request's context
//   M18 pool.go   `if spCtx.resp == nil` guard dropped in handle         R-C10-5 failure response iff no response
//   M26 pool.go   `return resultInternalError` instead of spe.Result()   R-C10-5 result from serverPoolError
//   M28 pool.go   (on the fixed tree) fix-1's `==` -> `!=`               R-C10-5 response-read failure under the deadline
//
// BEHAVIOUR-PRESERVING EDITS (exit 0 on the tree with fix-1 applied; on today's tree only the
// genuine finding above is reported)
//   P1 retry.go  `p.MaxAttempts > attempt`; `nil == err`
//   P2 retry.go  `for n := 1; n <= p.MaxAttempts; n++`, err renamed lastErr
//   P7 retry.go  `for left := p.MaxAttempts; left > 0; left--`
//   P3 retry.go  `exp := p.BackOffPolicy == "exponential"` hoisted out of the closure; `if exp {...}`
//   P4 retry.go  `done := ctx.Done()` hoisted before the loop; time.NewTimer(d).C, cases reordered, timer.Stop()
//   P5 pool.go   `stream := spCtx.req.IsStream()` computed before the cache lookup; `&& !stream`
//   P6 pool.go   `0 < sp.timeout`; resets reordered; send-failure classification rewritten as a
//                switch on Err() returning keyed literals serverPoolError{code: ..., result: ...}
//   P8 pool.go   `wrapped := resilience.HandlerFunc(handler)`; `if rw := sp.retryWrapper; rw != nil`
//                nested under `if !IsStream()`; `if cb := sp.circuitBreakerWrapper; cb != nil`
//
// Engine note: an earlier engine reported the "no case taken" block of a select without default
// as a fall-off exit; that is fixed in the engine. The exit loop below still skips exits
// without a return statement (the closure cannot fall off its end), which is harmless.

import (
	"fmt"
	"go/ast"
	"go/token"
	"go/types"
	"os"
	"strconv"
	"strings"

	"golang.org/x/tools/go/cfg"

	"verif/internal/core"
	"verif/internal/flow"
	"verif/internal/load"
)

const (
	c10rs = "pkg/resilience"
	c10px = "pkg/filters/proxy"
	c10hp = "pkg/protocols/httpprot"
)

func init() { Registry["C10"] = c10 }

func c10(c *core.Ctx) string {
	c.Rule("R-C10-1", "attempt bound: the retry closure calls the handler only inside one loop whose counter runs over exactly MaxAttempts values (counter stepped once between two attempts, never otherwise written; schema minimum >= 1); a further attempt is made only when the previous attempt's error is known non-nil (stop at first success); every exit returns the last attempt's own error value, `nil` only when that error is nil")
	c.Rule("R-C10-2", "back-off and cancellation: between two handler calls every path takes the timer case of a select that also offers <-ctx.Done(), never the Done case; the timer duration flows from RetryPolicy.waitDuration, which CreateWrapper parses from WaitDuration and defaults only when non-positive; the wait grows (constant factor > 1) exactly when BackOffPolicy == \"exponential\"; ServerPool.retryWrapper is only ever created by RetryPolicy.CreateWrapper; the client's request context is what the wrapped handler receives and each wrapper passes its ctx on")
	c.Rule("R-C10-3", "wrapper order and stream exclusion in ServerPool.handle: retry.Wrap is applied only to a handler not yet wrapped by the circuit breaker (breaker outermost, hence one record per client request) and only with retryWrapper != nil and Request.IsStream() false; at the invocation the retry/breaker wrappers are present exactly when configured")
	c.Rule("R-C10-4", "per-attempt state and time limit: the attempt closure clears serverPoolContext.resp before doHandle on every path; doHandle gets a context derived from the closure's ctx that carries WithTimeout(ctx, sp.timeout) exactly when sp.timeout > 0; inside doHandle/prepareRequest that context reaches http.NewRequestWithContext, the request so built is stored in stdReq and is the one sent")
	c.Rule("R-C10-5", "error classification: on a failed send doHandle decides by the outgoing request's context error: nil => (503, serverError), DeadlineExceeded => (408, timeout), otherwise (499, clientError); a failed response read (buildResponse) under an expired deadline is a timeout too: DeadlineExceeded => (408, timeout); handle returns the serverPoolError's result and builds a failure response with its code exactly when the last attempt left no response")
	c.NotDecided = []string{
		"actual durations and the randomisation distribution (d = base - delta + rand(2*delta+1) is arithmetic; only its dependence on waitDuration is decided)",
		"that the growth factor is 1.5 (only: constant > 1, applied iff exponential)",
		"the final back-off wait after the last failed attempt (present today, allowed by the statement)",
		"select fairness when the timer and ctx.Done() are ready together (randomizationFactor = 1 may give a zero wait)",
		"the deferred cancel() of the timeout context (not a necessary condition of C10; it aborts streamed response bodies after handle returns, see C03)",
		"one RecordResult per admitted call inside circuitBreakerWrapper.Wrap (R-C08-6) and the ErrShortCircuited mapping (R-C08-7)",
	}
	c.Assumptions = append(c.Assumptions,
		"policy and pool fields (MaxAttempts, BackOffPolicy, waitDuration, timeout, retryWrapper, circuitBreakerWrapper) and Request.IsStream() do not change during one call of the analysed function (flow analyses run with NoHavoc)",
		"a select without default blocks until one case is ready")

	c10Retry(c)
	c10Schema(c)
	c10CreateWrapper(c)
	c10Inject(c)
	c10BreakerCtx(c)
	c10Handle(c)
	c10Attempt(c)
	c10DoHandle(c)
	c10Prepare(c)
	if os.Getenv("VERIF_C10_DEBUG") != "" {
		for _, o := range c.Obligations {
			fmt.Fprintf(os.Stderr, "%-10s %-10s %s @%s\n           %s\n", o.Verdict, o.Rule, o.Construct, o.Pos, o.Detail)
		}
	}
	// shared rules: the client sees the last attempt's outcome only if a half-read response is never
	// published (R-C07-5), and the breaker records one outcome per call (R-C08-6)
	c.Alias("R-C07-5", "R-C10-6")
	c.Rule("R-C07-5", "the outcome of an attempt is its classification: a backend response is published (spCtx.resp / SetOutputResponse) only after its body was fetched; a failed fetch leaves no response behind, so that handle() builds the 408/5xx (shared with R-C07-5)")
	c07Resp(c)
	c.Alias("R-C07-5", "")
	if v := c08resolve(c); v != nil {
		c.Alias("R-C08-6", "R-C10-7")
		c.Rule("R-C08-6", "exactly one outcome per client request: the breaker wrapper records once per admitted call on the return and on the panic exit, never for a rejected call (shared with R-C08-6)")
		c08Wrap(v)
		c.Alias("R-C08-6", "")
	}
	return "Static shape and path rules on the retry wrapper and its use by the proxy server pool. Path-sensitive (flow engine, all paths of the closure returned by RetryPolicy.Wrap): a 2nd+ attempt happens only after the counter was stepped, the previous error is known non-nil, the timer case of a select with a ctx.Done() alternative was taken and the Done case was not; growth iff exponential; exits return the last attempt's error. AST/type rules: loop header bounds the counter to exactly MaxAttempts values, schema minimum 1, wait derives from waitDuration. In ServerPool.handle (path-sensitive): retry wraps only an unwrapped handler, only for non-stream requests; wrappers present iff configured; attempt closure resets resp and applies WithTimeout iff timeout > 0; doHandle's send-failure exits form the table nil/DeadlineExceeded/other -> 503/408/499, and exits after a failed response read must map DeadlineExceeded to 408/timeout. Not decided: durations, randomisation, timing, breaker internals (C08)."
}

// c10retry holds the resolved roles of the closure returned by RetryPolicy.Wrap.
type c10retry struct {
	f         *flow.Func     // the declared function that contains the unit (RetryPolicy.Wrap, or the method the closure became)
	lit       *ast.FuncLit   // the unit when it is a closure (nil when it is a declared method)
	lf        *flow.Func     // the unit: the function that runs the attempt loop
	body      *ast.BlockStmt // the unit's body
	ftype     *ast.FuncType  // the unit's signature
	fs        []*flow.Func   // the unit and the same-package helpers it calls
	cset      c10flowSet     // the variables / parameters holding the unit's ctx
	hset      c10flowSet     // the variables / parameters / fields holding the wrapped handler
	cons      string
	handler   types.Object // the wrapped handler (parameter of Wrap)
	ctx       types.Object // the closure's context parameter
	calls     []*ast.CallExpr
	loop      *ast.ForStmt
	rloop     *ast.RangeStmt // the attempt loop when it ranges over a per-policy schedule
	sched     *c10sched      // ... and where that schedule is built
	pmHelpers map[ast.Node]ast.Node
	peeled    int64 // attempts made in front of the loop
	inLoop    map[*ast.CallExpr]bool
	steps     map[ast.Node]bool // the statements that step the attempt counter (post statement or in the body)
	resVar    types.Object      // variable receiving the handler's error
	resKey    string            // nil-key of resVar
	pm        map[ast.Node]ast.Node
}

// note describes the peeled attempts for obligation details.
func (r *c10retry) note() string {
	if r.peeled > 0 {
		return sprintf(" after %d attempt(s) made in front of the loop", r.peeled)
	}
	return ""
}

// pmUnit returns the parent of n in the unit or one of its helpers.
func (r *c10retry) pmUnit(n ast.Node) ast.Node {
	if p, ok := r.pm[n]; ok {
		return p
	}
	if r.pmHelpers == nil {
		r.pmHelpers = map[ast.Node]ast.Node{}
		for _, g := range r.fs {
			for k, v := range parentMap(g.Body) {
				r.pmHelpers[k] = v
			}
		}
	}
	return r.pmHelpers[n]
}

// loopStmt / loopBody return the attempt loop (counting or ranging over a schedule).
func (r *c10retry) loopStmt() ast.Stmt {
	if r.loop != nil {
		return r.loop
	}
	return r.rloop
}

func (r *c10retry) loopBody() *ast.BlockStmt {
	if r.loop != nil {
		return r.loop.Body
	}
	return r.rloop.Body
}

func c10Retry(c *core.Ctx) {
	f := fn(c, c10rs, "RetryPolicy", "Wrap")
	if f == nil {
		return
	}
	r := &c10retry{f: f, cons: fname(c10rs, "RetryPolicy", "Wrap")}
	r.handler = c10paramObj(f, f.Type, 0)
	if r.handler == nil || !c10isHandlerSig(r.handler.Type()) {
		c.Errorf("R-C10-1: anchor: RetryPolicy.Wrap has no named handler parameter of type func(context.Context) error")
		return
	}
	// subject: the invocations of the wrapped handler. It may be called by the closure Wrap returns, or
	// - when that closure was turned into a method - through a struct field / a parameter it was handed to
	all := c10reachRefs(f, 3)
	r.hset = c10flow(f, all, r.handler)
	pmAll := map[ast.Node]ast.Node{}
	for _, g := range all {
		for k, v := range parentMap(g.Body) {
			pmAll[k] = v
		}
	}
	var unitBody *ast.BlockStmt
	var outside []*ast.CallExpr
	for _, g := range all {
		for _, call := range calls(g.Body, true) {
			if !r.hset.holds(f, call.Fun) {
				continue
			}
			eg, body, typ, lit := c10enclosingFunc(all, call)
			if unitBody == nil {
				unitBody, r.f, r.body, r.ftype, r.lit = body, eg, body, typ, lit
			}
			if body == unitBody {
				r.calls = append(r.calls, call)
			} else {
				outside = append(outside, call)
			}
		}
	}
	if !c.RequireCount("R-C10-1", "handler call sites in the closure returned by RetryPolicy.Wrap", len(r.calls), 1) {
		return
	}
	f = r.f
	r.pm = parentMap(f.Body)
	if r.lit != nil {
		r.lf = f.Lit(r.lit)
	} else {
		r.lf = f
	}
	r.fs = reach(r.lf, 3)
	for i := 0; i < 4; i++ {
		if o := c10paramObj(f, r.ftype, i); o != nil && c10isCtxType(o.Type()) && r.ctx == nil {
			r.ctx = o
		}
	}
	if r.ctx == nil {
		c.Errorf("R-C10-1: anchor: the function running the retry loop has no named context.Context parameter")
		return
	}
	r.cset = c10flow(f, r.fs, r.ctx)

	// every use of the handler value is one of those calls or hands it on to where they are (a
	// parameter, a struct field): it does not escape to a goroutine or to code where attempts
	// would not be counted
	var escapeAt ast.Node
	for _, g := range all {
		ast.Inspect(g.Body, func(n ast.Node) bool {
			id, ok := n.(*ast.Ident)
			if !ok || !r.hset[f.Info.Uses[id]] {
				return true
			}
			var e ast.Expr = id
			if sel, ok := pmAll[id].(*ast.SelectorExpr); ok && sel.Sel == id {
				e = sel
			}
			switch par := pmAll[e].(type) {
			case *ast.CallExpr:
				if par.Fun == e {
					return true // an invocation (counted or reported above)
				}
				if fo, ok := f.Callee(par).(*types.Func); ok && fo.Pkg() == f.Pkg.Types && declOf(f.Pkg, fo) != nil {
					if _, isGo := pmAll[par].(*ast.GoStmt); !isGo {
						return true // handed to a same-package function: followed by the flow set
					}
				}
			case *ast.KeyValueExpr, *ast.AssignStmt, *ast.ValueSpec:
				return true
			}
			escapeAt = id
			return true
		})
	}
	for _, o := range outside {
		escapeAt = o
	}
	c.Check(escapeAt == nil, "R-C10-1", r.cons+"|handler only called by the attempt loop", pos(c, r.calls[0]),
		sprintf("%d handler call site(s), all in the function that runs the attempt loop; the handler value is not used otherwise", len(r.calls)),
		"the wrapped handler is called or passed on outside the counted attempt loop: such attempts are not bounded by MaxAttempts", pos(c, escapeAt))

	// the loop: every attempt is made inside one loop, except attempts peeled off in front of it
	// (`err := handler(ctx); if err == nil {return nil}; for attempt := 1; ...`)
	var loopStmt ast.Stmt
	r.inLoop = map[*ast.CallExpr]bool{}
	var pre []*ast.CallExpr
	oneLoop := true
	for _, call := range r.calls {
		ls := enclosingLoops(r.body, call)
		switch {
		case len(ls) == 0:
			pre = append(pre, call)
		case len(ls) == 1 && (loopStmt == nil || loopStmt == ls[0]):
			loopStmt = ls[0]
			r.inLoop[call] = true
		default:
			oneLoop = false
		}
	}
	if loopStmt == nil {
		c.Violate("R-C10-1", r.cons+"|attempt loop bound", pos(c, r.calls[0]),
			"the handler is not called from a loop: a failing call is never retried although a Retry policy is configured (or attempts are bounded by something other than MaxAttempts)")
		return
	}
	if !oneLoop {
		c10shape(c, "R-C10-1", r.cons+"|attempt loop bound", pos(c, r.calls[0]), "handler calls are not in exactly one (non-nested) loop")
		return
	}
	for _, call := range pre {
		// a peeled attempt is an unconditional statement of the unit's body in front of the loop
		top := false
		for _, st := range r.body.List {
			if contains(st, call) && st.End() <= loopStmt.Pos() {
				switch x := st.(type) {
				case *ast.AssignStmt:
					top = len(x.Rhs) == 1 && ast.Unparen(x.Rhs[0]) == ast.Expr(call)
				case *ast.ExprStmt:
					top = ast.Unparen(x.X) == ast.Expr(call)
				}
			}
		}
		if !top {
			c10shape(c, "R-C10-1", r.cons+"|attempt loop bound", pos(c, call), "a handler call outside the attempt loop is not an unconditional statement in front of the loop")
			return
		}
		r.peeled++
	}
	switch l := loopStmt.(type) {
	case *ast.ForStmt:
		r.loop = l
		c10LoopBound(c, r).emit(c, "R-C10-1", r.cons+"|attempt loop bound")
	case *ast.RangeStmt:
		r.rloop = l
		c10Schedule(c, r)
	}

	// the variable holding the attempt's outcome
	for _, call := range r.calls {
		as, ok := r.pm[call].(*ast.AssignStmt)
		var id *ast.Ident
		if ok && len(as.Rhs) == 1 && as.Rhs[0] == call && len(as.Lhs) == 1 {
			id = c10ident(as.Lhs[0])
		}
		if id == nil || id.Name == "_" {
			c10shape(c, "R-C10-1", r.cons+"|retry only after failure", pos(c, call), "the handler's error is not assigned to a variable")
			return
		}
		o := c10obj(f, id)
		if r.resVar != nil && o != r.resVar {
			c10shape(c, "R-C10-1", r.cons+"|retry only after failure", pos(c, call), "handler results are assigned to different variables")
			return
		}
		r.resVar = o
		r.resKey = r.lf.NilKey(id)
	}
	// the outcome variable carries nothing but the handler's result
	var foreign ast.Node
	for _, w := range c10writes(f, r.body, r.resVar) {
		switch {
		case w.rhs == nil && w.tok == token.VAR && w.src == nil: // var err error
		case w.rhs != nil && f.Info.Types[w.rhs].IsNil():
		case w.rhs != nil && func() bool {
			call, ok := ast.Unparen(w.rhs).(*ast.CallExpr)
			if !ok {
				return false
			}
			for _, hc := range r.calls {
				if hc == call {
					return true
				}
			}
			return false
		}():
		default:
			foreign = w.at
		}
	}

	c10RetryFlow(c, r, foreign)
}

// c10verdict is the outcome of one sub-check that is reported under a shared construct.
type c10verdict struct {
	kind   string // "ok", "violate", "shape", "" (nothing decided)
	at     ast.Node
	detail string
}

func (v *c10verdict) violate(at ast.Node, msg string) { *v = c10verdict{"violate", at, msg} }
func (v *c10verdict) shape(at ast.Node, msg string)   { *v = c10verdict{"shape", at, msg} }
func (v *c10verdict) check(ok bool, at ast.Node, okMsg, badMsg string) {
	if ok {
		*v = c10verdict{"ok", at, okMsg}
	} else {
		*v = c10verdict{"violate", at, badMsg}
	}
}

// emit reports the verdict as one obligation.
func (v c10verdict) emit(c *core.Ctx, rule, cons string) {
	switch v.kind {
	case "ok":
		c.Discharge(rule, cons, pos(c, v.at), v.detail)
	case "violate":
		c.Violate(rule, cons, pos(c, v.at), v.detail)
	case "shape":
		c10shape(c, rule, cons, pos(c, v.at), v.detail)
	}
}

// c10LoopBound decides the header of a counting loop (AST + types): r.loop must run exactly
// MaxAttempts - r.peeled times (r.peeled = attempts made in front of the loop). It sets r.steps.
func c10LoopBound(c *core.Ctx, r *c10retry) (em c10verdict) {
	f, loop := r.f, r.loop
	maxF := structField(c, c10rs, "RetryPolicy", "MaxAttempts")
	if maxF == nil {
		return
	}
	peeled := r.peeled
	if loop.Cond == nil {
		if c10mentions(f, loop.Body, maxF) {
			em.shape(loop, "unconditional for loop; the MaxAttempts test is inside the body")
		} else {
			em.violate(loop, "the attempt loop has no condition and never consults MaxAttempts: a persistently failing backend is retried for ever")
		}
		return
	}
	var conj []ast.Expr
	var split func(e ast.Expr)
	split = func(e ast.Expr) {
		if b, ok := isTok(e, token.LAND); ok {
			split(b.X)
			split(b.Y)
			return
		}
		conj = append(conj, ast.Unparen(e))
	}
	split(loop.Cond)

	isMax := func(e ast.Expr) bool { return c10fieldSel(f, c10alias(f, r.f.Body, e), maxF) }
	// counter-up form:  ctr OP MaxAttempts ; counter-down form: ctr OP const with ctr := MaxAttempts
	type shape struct {
		ctr   *ast.Ident
		op    token.Token // normalised to "ctr OP other"
		other ast.Expr
	}
	mirror := map[token.Token]token.Token{token.LSS: token.GTR, token.GTR: token.LSS, token.LEQ: token.GEQ, token.GEQ: token.LEQ, token.NEQ: token.NEQ}
	var cand []shape
	mentions := false
	for _, e := range conj {
		if c10mentions(f, e, maxF) {
			mentions = true
		}
		be, ok := e.(*ast.BinaryExpr)
		if !ok {
			continue
		}
		if _, isCmp := mirror[be.Op]; !isCmp {
			continue
		}
		x, y := c10strip(f, be.X), c10strip(f, be.Y)
		if id := c10ident(x); id != nil && !isMax(x) {
			if _, isVar := c10obj(f, id).(*types.Var); isVar {
				cand = append(cand, shape{id, be.Op, y})
			}
		}
		if id := c10ident(y); id != nil && !isMax(y) {
			if _, isVar := c10obj(f, id).(*types.Var); isVar {
				cand = append(cand, shape{id, mirror[be.Op], x})
			}
		}
	}
	// classify each candidate; the first fully understood one decides
	undecided := ""
	for _, s := range cand {
		ctr := c10obj(f, s.ctr)
		ws := c10writes(f, r.body, ctr)
		// exactly one initialisation (before the loop / in its init statement); every other
		// write is a unit step executed in the loop (post statement, or a statement of the body
		// — `for ctr < Max { ...; ctr++ }`); that exactly one step separates two attempts on
		// every path is decided by the flow analysis (c10RetryFlow)
		var init *c10write
		var steps []*c10write
		var extra ast.Node
		stepDir := func(w *c10write) int64 {
			switch st := w.at.(type) {
			case *ast.IncDecStmt:
				if st.Tok == token.INC {
					return 1
				}
				return -1
			case *ast.AssignStmt:
				if len(st.Rhs) != 1 || len(st.Lhs) != 1 {
					return 0
				}
				switch st.Tok {
				case token.ADD_ASSIGN, token.SUB_ASSIGN:
					if v, ok := c10constInt(f, st.Rhs[0]); ok && (v == 1 || v == -1) {
						if st.Tok == token.SUB_ASSIGN {
							return -v
						}
						return v
					}
				case token.ASSIGN:
					// ctr = ctr + 1 / ctr = 1 + ctr / ctr = ctr - 1
					if b, ok := ast.Unparen(st.Rhs[0]).(*ast.BinaryExpr); ok && (b.Op == token.ADD || b.Op == token.SUB) {
						xi, yi := c10ident(b.X), c10ident(b.Y)
						if xi != nil && c10obj(f, xi) == ctr {
							if v, ok := c10constInt(f, b.Y); ok && v == 1 {
								if b.Op == token.SUB {
									return -1
								}
								return 1
							}
						}
						if yi != nil && c10obj(f, yi) == ctr && b.Op == token.ADD {
							if v, ok := c10constInt(f, b.X); ok && v == 1 {
								return 1
							}
						}
					}
				}
			}
			return 0
		}
		for i := range ws {
			w := &ws[i]
			inLoop := (loop.Post != nil && w.at == ast.Node(loop.Post)) || (contains(loop.Body, w.at) && c10enclosingLit(r.pm, w.at) == r.lit)
			switch {
			case inLoop && stepDir(w) != 0:
				steps = append(steps, w)
			case !inLoop && (w.tok == token.DEFINE || w.tok == token.VAR || w.tok == token.ASSIGN) && init == nil && w.at.Pos() <= loop.Cond.Pos() && c10enclosingLit(r.pm, w.at) == r.lit:
				init = w
			default:
				extra = w.at
			}
		}
		up := isMax(s.other)
		var initMax bool
		if init != nil && init.rhs != nil {
			initMax = isMax(init.rhs)
		}
		if !up && !initMax {
			continue // this comparison is not about MaxAttempts
		}
		dir := int64(0)
		for _, w := range steps {
			d := stepDir(w)
			if dir != 0 && d != dir {
				extra = w.at
			}
			dir = d
		}
		if extra != nil {
			em.violate(extra, sprintf("the attempt counter %q is written inside the retry closure other than by its initialisation and a uniform unit step per iteration: the number of attempts is no longer MaxAttempts", s.ctr.Name))
			return
		}
		if init != nil && len(steps) == 0 {
			em.violate(loop.Cond, sprintf("the attempt counter %q is compared with MaxAttempts but never stepped in the loop: a persistently failing call is retried for ever", s.ctr.Name))
			return
		}
		if init == nil {
			undecided = sprintf("counter %q: cannot find its single initialisation before the loop", s.ctr.Name)
			continue
		}
		r.steps = map[ast.Node]bool{}
		for _, w := range steps {
			r.steps[w.at] = true
		}
		if dir != 1 && dir != -1 {
			undecided = sprintf("counter %q: step is not ++/--/+= 1/-= 1", s.ctr.Name)
			continue
		}
		if up {
			// ctr from K upwards while ctr OP MaxAttempts
			k, ok := int64(0), init.rhs == nil && init.tok == token.VAR
			if init.rhs != nil {
				k, ok = c10constInt(f, init.rhs)
			}
			if !ok || dir != 1 {
				undecided = sprintf("counter %q: initial value is not a constant or the counter does not count upwards", s.ctr.Name)
				continue
			}
			var extraAttempts int64 // iterations - MaxAttempts
			switch s.op {
			case token.LSS, token.NEQ:
				extraAttempts = peeled - k
			case token.LEQ:
				extraAttempts = peeled + 1 - k
			default:
				em.violate(loop.Cond, sprintf("the loop condition %s with an upward counter does not bound the attempts by MaxAttempts", f.Render(loop.Cond)))
				return
			}
			em.check(extraAttempts == 0, loop.Cond,
				sprintf("counter %q starts at %d, is stepped by one only in the loop and the loop runs while it is %s MaxAttempts: exactly MaxAttempts iterations%s", s.ctr.Name, k, s.op, r.note()),
				sprintf("counter %q starts at %d and the loop runs while it is %s MaxAttempts: a persistently failing call is attempted MaxAttempts%+d times", s.ctr.Name, k, s.op, extraAttempts))
			return
		}
		// down-counting: ctr := MaxAttempts; ctr OP K; ctr--
		k, ok := c10constInt(f, s.other)
		if !ok || dir != -1 {
			undecided = sprintf("counter %q starts at MaxAttempts but the loop is not `ctr > const; ctr--`", s.ctr.Name)
			continue
		}
		var extraAttempts int64
		switch s.op {
		case token.GTR, token.NEQ:
			extraAttempts = peeled - k
		case token.GEQ:
			extraAttempts = peeled + 1 - k
		default:
			em.violate(loop.Cond, sprintf("the loop condition %s with a downward counter does not bound the attempts by MaxAttempts", f.Render(loop.Cond)))
			return
		}
		em.check(extraAttempts == 0, loop.Cond,
			sprintf("counter %q starts at MaxAttempts, is decremented by one only in the loop and the loop runs while it is %s %d: exactly MaxAttempts iterations%s", s.ctr.Name, s.op, k, r.note()),
			sprintf("counter %q counts down from MaxAttempts while %s %d: a persistently failing call is attempted MaxAttempts%+d times", s.ctr.Name, s.op, k, extraAttempts))
		return
	}
	switch {
	case undecided != "":
		em.shape(loop.Cond, undecided)
	case mentions:
		em.violate(loop.Cond, sprintf("the loop condition %s mentions MaxAttempts but does not compare a counter with exactly MaxAttempts: the number of attempts differs from the configured maximum", types.ExprString(loop.Cond)))
	default:
		em.violate(loop.Cond, sprintf("the attempt loop's condition %s does not involve MaxAttempts: the configured maximum does not bound the attempts", types.ExprString(loop.Cond)))
	}
	return
}

// c10comm is the classification of one select clause of the retry closure.
type c10comm struct {
	kind  string   // "done", "timer", "default", "other"
	dur   ast.Expr // timer: the duration expression
	group *ast.SelectStmt
}

func c10RetryFlow(c *core.Ctx, r *c10retry, foreign ast.Node) {
	f, lf := r.f, r.lf
	wdF := c10waitField(c)
	bopF := structField(c, c10rs, "RetryPolicy", "BackOffPolicy")
	pol := namedType(c, c10rs, "RetryPolicy")
	if wdF == nil || bopF == nil || pol == nil {
		return
	}
	// role constant: the enum value that selects growth
	const expName = "exponential"
	hasEnum := false
	for _, it := range c10tag(pol, bopF, "jsonschema") {
		if it == "enum="+expName {
			hasEnum = true
		}
	}
	if !hasEnum {
		c.Errorf("R-C10-2: anchor: RetryPolicy.BackOffPolicy's jsonschema enum no longer lists %q", expName)
		return
	}

	// ---- classify the select clauses
	comms := map[*ast.CommClause]*c10comm{}
	recvChan := func(s ast.Stmt) ast.Expr {
		var x ast.Expr
		switch t := s.(type) {
		case *ast.ExprStmt:
			x = t.X
		case *ast.AssignStmt:
			if len(t.Rhs) == 1 {
				x = t.Rhs[0]
			}
		}
		if u, ok := ast.Unparen(x).(*ast.UnaryExpr); ok && u.Op == token.ARROW {
			return u.X
		}
		return nil
	}
	inspectUnit := func(visit func(g *flow.Func, n ast.Node) bool) {
		ast.Inspect(r.body, func(n ast.Node) bool { return n == nil || visit(r.lf, n) })
		for _, g := range r.fs[1:] {
			g := g
			ast.Inspect(g.Body, func(n ast.Node) bool { return n == nil || visit(g, n) })
		}
	}
	inspectUnit(func(g *flow.Func, n ast.Node) bool {
		sel, ok := n.(*ast.SelectStmt)
		if !ok {
			return true
		}
		root := ast.Node(f.Body)
		if g != r.lf {
			root = g.Body
		}
		for _, cl := range sel.Body.List {
			cc := cl.(*ast.CommClause)
			k := &c10comm{kind: "other", group: sel}
			comms[cc] = k
			if cc.Comm == nil {
				k.kind = "default"
				continue
			}
			ch := recvChan(cc.Comm)
			if ch == nil {
				continue
			}
			ch = c10alias(f, root, ch)
			switch x := ast.Unparen(ch).(type) {
			case *ast.CallExpr:
				switch calleeFull(f, x) {
				case "(context.Context).Done":
					// on the unit's ctx, or on the parameter of a helper (sleep(ctx, d)) that receives it
					if r.cset.holds(f, c10recv(x)) {
						k.kind = "done"
					}
				case "time.After":
					if len(x.Args) == 1 {
						k.kind, k.dur = "timer", x.Args[0]
					}
				}
			case *ast.SelectorExpr:
				// timer.C with timer := time.NewTimer(d), possibly inline time.NewTimer(d).C
				if x.Sel.Name == "C" {
					if call, ok := ast.Unparen(c10alias(f, root, x.X)).(*ast.CallExpr); ok && calleeFull(f, call) == "time.NewTimer" && len(call.Args) == 1 {
						k.kind, k.dur = "timer", call.Args[0]
					}
				}
			}
		}
		return true
	})
	hasSibling := func(cc *ast.CommClause, kind string) bool {
		k := comms[cc]
		for o, ok := range comms {
			if o != cc && ok.group == k.group && ok.kind == kind {
				return true
			}
		}
		return false
	}

	// ---- backward slice of the timer durations over the closure's local variables
	var durs []ast.Expr
	for _, k := range comms {
		if k.kind == "timer" {
			durs = append(durs, k.dur)
		}
	}
	slice := map[types.Object]bool{}
	reachesWD := false
	// a parameter of a helper of the unit gets its value from the arguments at the helper's call sites
	type site struct {
		arg  ast.Expr
		root ast.Node
	}
	paramSites := map[types.Object][]site{}
	inspectUnit(func(g *flow.Func, n ast.Node) bool {
		call, ok := n.(*ast.CallExpr)
		if !ok {
			return true
		}
		fo, ok := f.Callee(call).(*types.Func)
		if !ok || fo.Pkg() != f.Pkg.Types {
			return true
		}
		fd := declOf(f.Pkg, fo)
		if fd == nil || fd.Type.Params == nil {
			return true
		}
		root := ast.Node(f.Body)
		if g != r.lf {
			root = g.Body
		}
		k := 0
		for _, fld := range fd.Type.Params.List {
			if len(fld.Names) == 0 {
				k++
				continue
			}
			for _, name := range fld.Names {
				if k < len(call.Args) {
					o := f.Info.Defs[name]
					paramSites[o] = append(paramSites[o], site{call.Args[k], root})
				}
				k++
			}
		}
		return true
	})
	// visit follows values backwards: locals through their writes (searched under root), calls
	// of same-package functions through the callee's return expressions and from there to the
	// arguments of exactly those parameters the result depends on (`wait := p.randomize(base)`)
	var visit func(e ast.Node, root ast.Node, depth int)
	var visitField func(sel *ast.SelectorExpr, depth int)
	visit = func(e ast.Node, root ast.Node, depth int) {
		if e == nil {
			return
		}
		ast.Inspect(e, func(n ast.Node) bool {
			switch x := n.(type) {
			case *ast.FuncLit:
				return false
			case *ast.CallExpr:
				fo, ok := f.Callee(x).(*types.Func)
				if !ok || fo.Pkg() != f.Pkg.Types || depth >= 3 {
					return true
				}
				fd := declOf(f.Pkg, fo)
				if fd == nil {
					return true
				}
				ast.Inspect(fd.Body, func(m ast.Node) bool {
					switch r := m.(type) {
					case *ast.FuncLit:
						return false
					case *ast.ReturnStmt:
						for _, res := range r.Results {
							visit(res, fd.Body, depth+1)
						}
						if len(r.Results) == 0 && fd.Type.Results != nil {
							for _, fld := range fd.Type.Results.List {
								for _, name := range fld.Names {
									visit(name, fd.Body, depth+1)
								}
							}
						}
					}
					return true
				})
				k := 0
				if fd.Type.Params != nil {
					for _, fld := range fd.Type.Params.List {
						if len(fld.Names) == 0 {
							k++
							continue
						}
						for _, name := range fld.Names {
							if k < len(x.Args) && slice[f.Info.Defs[name]] {
								visit(x.Args[k], root, depth)
							}
							k++
						}
					}
				}
				if fd.Recv != nil && len(fd.Recv.List) == 1 && len(fd.Recv.List[0].Names) == 1 && slice[f.Info.Defs[fd.Recv.List[0].Names[0]]] {
					if rcv := c10recv(x); rcv != nil {
						visit(rcv, root, depth)
					}
				}
				return false
			case *ast.SelectorExpr:
				if c10fieldSel(f, x, wdF) {
					reachesWD = true
				} else {
					visitField(x, depth)
				}
			case *ast.Ident:
				v, ok := c10obj(f, x).(*types.Var)
				if !ok || v.IsField() || v.Pkg() == nil || v.Parent() == v.Pkg().Scope() || slice[v] {
					return true
				}
				slice[v] = true
				for _, ps := range paramSites[v] {
					visit(ps.arg, ps.root, depth)
				}
				for _, w := range c10writes(f, root, v) {
					if w.rhs != nil {
						visit(w.rhs, root, depth)
					}
					if w.src != nil {
						visit(w.src, root, depth)
					}
					if rs, ok := w.at.(*ast.RangeStmt); ok && w.tok == token.RANGE {
						visit(rs.X, root, depth) // the element of what is ranged over
					}
				}
			}
			return true
		})
	}
	// a slice-typed field (a per-policy schedule): its elements are the values stored into it
	// anywhere in the package
	seenField := map[types.Object]bool{}
	visitField = func(sel *ast.SelectorExpr, depth int) {
		s := f.Info.Selections[sel]
		if s == nil || depth >= 3 {
			return
		}
		fld, ok := s.Obj().(*types.Var)
		if !ok || !fld.IsField() || seenField[fld] {
			return
		}
		if _, isSlice := fld.Type().Underlying().(*types.Slice); !isSlice {
			return
		}
		seenField[fld] = true
		for _, g := range funcsByRole(c, c10rs, func(*flow.Func, *ast.FuncDecl) bool { return true }) {
			ast.Inspect(g.Body, func(n ast.Node) bool {
				as, ok := n.(*ast.AssignStmt)
				if !ok || len(as.Lhs) != len(as.Rhs) {
					return true
				}
				for i, l := range as.Lhs {
					target := ast.Unparen(l)
					if ix, ok := target.(*ast.IndexExpr); ok {
						target = ast.Unparen(ix.X)
					}
					if !c10fieldSel(f, target, fld) {
						continue
					}
					if call, ok := ast.Unparen(as.Rhs[i]).(*ast.CallExpr); ok {
						if b, ok := f.Callee(call).(*types.Builtin); ok && b.Name() == "append" && len(call.Args) >= 1 {
							for _, a := range call.Args[1:] {
								visit(a, g.Body, depth+1)
							}
							continue
						}
					}
					visit(as.Rhs[i], g.Body, depth+1)
				}
				return true
			})
		}
	}
	for _, d := range durs {
		visit(d, f.Body, 0)
	}

	// ---- growth statements: writes, inside the loop, to slice variables declared outside it
	growth := map[ast.Node]bool{}
	growthBad := ""
	var growthBadAt ast.Node
	growthShape := ""
	// the loop in which successive waits are produced: the attempt loop, or - when the attempt loop
	// ranges over a precomputed schedule - the loop that builds the schedule
	var waitLoop ast.Stmt = r.loopStmt()
	var waitBody *ast.BlockStmt = r.loopBody()
	if r.sched != nil && r.sched.loop != nil {
		waitLoop, waitBody = r.sched.loop, r.sched.loop.Body
	}
	// scale classifies `x *= K` / `x = x * K` for variable x: the constant factor, or nil
	scaleOf := func(as *ast.AssignStmt, x types.Object) ast.Expr {
		if len(as.Lhs) != 1 || len(as.Rhs) != 1 {
			return nil
		}
		switch as.Tok {
		case token.MUL_ASSIGN:
			return as.Rhs[0]
		case token.ASSIGN:
			if b, ok := isTok(as.Rhs[0], token.MUL); ok {
				if id := c10ident(b.X); id != nil && c10obj(f, id) == x {
					return b.Y
				} else if id := c10ident(b.Y); id != nil && c10obj(f, id) == x {
					return b.X
				}
			}
		}
		return nil
	}
	grade := func(at ast.Node, factor ast.Expr, name string) {
		k, isConst := 0.0, false
		if factor != nil {
			k, isConst = c10constFloat(f, factor)
		}
		switch {
		case factor == nil || !isConst:
			growthShape = "write to the loop-carried wait variable " + name + " is not a multiplication by a constant"
			growthBadAt = at
		case k <= 1:
			growthBad = sprintf("the loop-carried wait variable %s is multiplied by %v (not > 1): the back-off does not grow", name, k)
			growthBadAt = at
		default:
			growth[at] = true
		}
	}
	classifyHelper := func(fd *ast.FuncDecl, call *ast.CallExpr, v types.Object) bool {
		// the parameter bound to v
		var param types.Object
		k := 0
		if fd.Type.Params != nil {
			for _, fld := range fd.Type.Params.List {
				if len(fld.Names) == 0 {
					k++
					continue
				}
				for _, name := range fld.Names {
					if k < len(call.Args) {
						if id := c10ident(call.Args[k]); id != nil && c10obj(f, id) == v {
							param = f.Info.Defs[name]
						}
					}
					k++
				}
			}
		}
		if param == nil || fd.Type.Results == nil || len(fd.Type.Results.List) != 1 {
			return false
		}
		okAll := true
		ast.Inspect(fd.Body, func(n ast.Node) bool {
			switch x := n.(type) {
			case *ast.FuncLit:
				return false
			case *ast.AssignStmt:
				for _, l := range x.Lhs {
					if id := c10ident(l); id != nil && c10obj(f, id) == param {
						grade(x, scaleOf(x, param), v.Name())
					}
				}
			case *ast.IncDecStmt:
				if id := c10ident(x.X); id != nil && c10obj(f, id) == param {
					okAll = false
				}
			case *ast.ReturnStmt:
				if len(x.Results) != 1 {
					okAll = false
					return true
				}
				res := ast.Unparen(x.Results[0])
				if id := c10ident(res); id != nil && c10obj(f, id) == param {
					return true // returns the (possibly scaled) parameter
				}
				if b, ok := isTok(res, token.MUL); ok {
					if id := c10ident(b.X); id != nil && c10obj(f, id) == param {
						grade(x, b.Y, v.Name())
						return true
					}
					if id := c10ident(b.Y); id != nil && c10obj(f, id) == param {
						grade(x, b.X, v.Name())
						return true
					}
				}
				okAll = false
			}
			return true
		})
		return okAll
	}
	for v := range slice {
		if v.Pos() >= waitLoop.Pos() && v.Pos() < waitLoop.End() {
			continue // per-iteration variable
		}
		if _, isSlice := v.Type().Underlying().(*types.Slice); isSlice {
			continue // the schedule itself (appended to), not a wait
		}
		for _, w := range c10writes(f, waitBody, v) {
			as, ok := w.at.(*ast.AssignStmt)
			if ok && len(as.Lhs) == 1 && len(as.Rhs) == 1 && as.Tok == token.ASSIGN {
				// base = p.nextBase(base): the growth statements are the writes to (and scaled returns
				// of) the helper's parameter that receives the variable
				if call, isCall := ast.Unparen(as.Rhs[0]).(*ast.CallExpr); isCall {
					if fo, isFn := f.Callee(call).(*types.Func); isFn && fo.Pkg() == f.Pkg.Types {
						if fd := declOf(f.Pkg, fo); fd != nil {
							if classifyHelper(fd, call, v) {
								continue
							}
						}
					}
				}
			}
			if !ok || len(as.Lhs) != 1 || len(as.Rhs) != 1 {
				growthShape = "write to the loop-carried wait variable " + v.Name() + " is not a simple assignment"
				growthBadAt = w.at
				continue
			}
			var factor ast.Expr
			switch as.Tok {
			case token.MUL_ASSIGN:
				factor = as.Rhs[0]
			case token.ASSIGN:
				if b, ok := isTok(as.Rhs[0], token.MUL); ok {
					if id := c10ident(b.X); id != nil && c10obj(f, id) == v {
						factor = b.Y
					} else if id := c10ident(b.Y); id != nil && c10obj(f, id) == v {
						factor = b.X
					}
				}
			}
			k, isConst := 0.0, false
			if factor != nil {
				k, isConst = c10constFloat(f, factor)
			}
			switch {
			case factor == nil || !isConst:
				growthShape = "write to the loop-carried wait variable " + v.Name() + " is not a multiplication by a constant"
				growthBadAt = w.at
			case k <= 1:
				growthBad = sprintf("the loop-carried wait variable %s is multiplied by %v (not > 1): the back-off does not grow", v.Name(), k)
				growthBadAt = w.at
			default:
				growth[w.at] = true
			}
		}
	}

	// ---- the atoms that mean "BackOffPolicy == exponential"
	type expAtom struct {
		key string
		neg bool // key true means NOT exponential
	}
	expAtomsOf := func(body *ast.BlockStmt, pm map[ast.Node]ast.Node) []expAtom {
		var expAtoms []expAtom
		ast.Inspect(body, func(n ast.Node) bool {
			// switch p.BackOffPolicy { case "exponential": ... }: the engine keys the case like the comparison
			if sw, ok := n.(*ast.SwitchStmt); ok && sw.Tag != nil && c10fieldSel(f, c10alias(f, body, sw.Tag), bopF) {
				for _, cl := range sw.Body.List {
					for _, x := range cl.(*ast.CaseClause).List {
						if s, ok := c10constString(f, x); ok && s == expName {
							expAtoms = append(expAtoms, expAtom{lf.EqKey(sw.Tag, x), false})
						}
					}
				}
				return true
			}
			be, ok := n.(*ast.BinaryExpr)
			if !ok || (be.Op != token.EQL && be.Op != token.NEQ) {
				return true
			}
			var other ast.Expr
			switch {
			case c10fieldSel(f, c10alias(f, body, be.X), bopF):
				other = be.Y
			case c10fieldSel(f, c10alias(f, body, be.Y), bopF):
				other = be.X
			default:
				return true
			}
			if s, ok := c10constString(f, other); !ok || s != expName {
				return true
			}
			// the key is the positive fact "BackOffPolicy == exponential" whatever the operator;
			// neg only matters for a boolean local defined as the (in)equality
			k, neg := lf.Atom(be)
			expAtoms = append(expAtoms, expAtom{k, false})
			// a boolean local defined as this comparison
			if as, ok := pm[be].(*ast.AssignStmt); ok && len(as.Lhs) == 1 && len(as.Rhs) == 1 && ast.Unparen(as.Rhs[0]) == ast.Expr(be) {
				if id := c10ident(as.Lhs[0]); id != nil {
					if ws := c10writes(f, body, c10obj(f, id)); len(ws) == 1 {
						expAtoms = append(expAtoms, expAtom{lf.VarKey(id), neg})
					}
				}
			}
			return true
		})
		return expAtoms
	}
	expAtoms := expAtomsOf(f.Body, r.pm)
	for _, g := range r.fs[1:] {
		// predicates / helpers of the unit (p.isExponential(), p.nextBase(base)): interpreted in place
		expAtoms = append(expAtoms, expAtomsOf(g.Body, parentMap(g.Body))...)
	}
	expValOf := func(atoms []expAtom) func(st *flow.State) flow.Val {
		return func(st *flow.State) flow.Val {
			for _, a := range atoms {
				v := st.Get(a.key)
				if v == flow.Unknown {
					continue
				}
				if (v == flow.True) != a.neg {
					return flow.True
				}
				return flow.False
			}
			return flow.Unknown
		}
	}
	expVal := expValOf(expAtoms)
	_ = func(st *flow.State) flow.Val {
		for _, a := range expAtoms {
			v := st.Get(a.key)
			if v == flow.Unknown {
				continue
			}
			if (v == flow.True) != a.neg {
				return flow.True
			}
			return flow.False
		}
		return flow.Unknown
	}

	// ---- the path-sensitive part
	isAttempt := map[*ast.CallExpr]bool{}
	for _, call := range r.calls {
		isAttempt[call] = true
	}
	const (
		evAttempted  = "ev:attempted"
		evStepped    = "ev:stepped"
		evOverstep   = "ev:overstepped"
		evWaited     = "ev:waited"
		evInterr     = "ev:interruptible"
		evCancel     = "ev:cancelled"
		evGrown      = "ev:grown"
		evPrevInLoop = "ev:prevInLoop"
	)
	// names (renderings) that hold ctx.Err() obtained after the Done case: testing them for nil has
	// only one feasible outcome
	doneErrNames := func(st *flow.State) []string {
		var out []string
		for _, kv := range st.Facts() {
			if strings.HasPrefix(kv, "ev:doneErr:") && strings.HasSuffix(kv, "=T") {
				out = append(out, strings.TrimSuffix(strings.TrimPrefix(kv, "ev:doneErr:"), "=T"))
			}
		}
		return out
	}
	res := analyze(c, lf, flow.Config{
		NoHavoc: true,
		Inline:  inlineSamePkg(lf),
		OnCall: func(st *flow.State, call *ast.CallExpr, callee types.Object, deferred bool) {
			// ctx.Err() after the Done case was taken is non-nil: remember which expression holds it
			if calleeFull(f, call) == "(context.Context).Err" && r.cset.holds(f, c10recv(call)) && st.Is(evCancel, flow.True) {
				st.Set("ev:doneErr:"+f.Render(call), flow.True)
			}
			if isAttempt[call] {
				st.Set(evAttempted, flow.True)
				st.Set(evPrevInLoop, map[bool]flow.Val{true: flow.True, false: flow.False}[r.inLoop[call]])
				st.Set(evStepped, flow.False)
				st.Set(evOverstep, flow.False)
				st.Set(evWaited, flow.False)
				st.Set(evInterr, flow.False)
				st.Set(evCancel, flow.False)
				st.Set(evGrown, flow.False)
			}
		},
		OnNode: func(st *flow.State, n ast.Node) {
			if r.steps[n] {
				if st.Is(evStepped, flow.True) {
					st.Set(evOverstep, flow.True)
				}
				st.Set(evStepped, flow.True)
			}
			if growth[n] {
				st.Set(evGrown, flow.True)
			}
		},
		OnInline: func(st *flow.State, ev *flow.InlineEvent) {
			// `return ctx.Err()` of a helper, assigned by the caller (e := sleep(ctx, d)): the name moves along
			if ev.Enter || len(ev.Results) == 0 {
				return
			}
			as, ok := r.pmUnit(ev.Call).(*ast.AssignStmt)
			if !ok || len(as.Rhs) != 1 || len(as.Lhs) != len(ev.Results) {
				return
			}
			for i, res := range ev.Results {
				if id := c10ident(as.Lhs[i]); id != nil && id.Name != "_" {
					st.Set("ev:doneErr:"+f.Render(id), st.Get("ev:doneErr:"+f.Render(res)))
				}
			}
		},
		AfterAssume: func(st *flow.State, cond ast.Expr, outcome bool) {
			for _, name := range doneErrNames(st) {
				if st.Is("nil:"+name, flow.True) {
					st.Infeasible() // ctx.Err() cannot be nil once ctx.Done() was received from
				}
			}
		},
		OnBlock: func(st *flow.State, b *cfg.Block) {
			if r.rloop != nil && b.Kind == cfg.KindRangeBody && b.Stmt == ast.Stmt(r.rloop) {
				// a schedule-driven loop: entering the body consumes one entry
				if st.Is(evStepped, flow.True) {
					st.Set(evOverstep, flow.True)
				}
				st.Set(evStepped, flow.True)
			}
			if b.Kind != cfg.KindSelectCaseBody {
				return
			}
			cc, ok := b.Stmt.(*ast.CommClause)
			if !ok || comms[cc] == nil {
				return
			}
			switch comms[cc].kind {
			case "done":
				st.Set(evCancel, flow.True)
			case "timer":
				st.Set(evWaited, flow.True)
				if hasSibling(cc, "done") && !hasSibling(cc, "default") {
					st.Set(evInterr, flow.True)
				}
			}
		},
	})
	if res == nil {
		return
	}

	// does the closure consult ctx.Err() (an idiom this rule does not model)?
	usesCtxErr := false
	inspectUnit(func(g *flow.Func, n ast.Node) bool {
		if call, ok := n.(*ast.CallExpr); ok && calleeFull(f, call) == "(context.Context).Err" {
			usesCtxErr = true
		}
		return true
	})

	type finding struct {
		st  *flow.State
		at  ast.Node
		why string
	}
	var badStep, badFail, badWait, badCancel, badGrow, badInterr *finding
	again := 0
	reached := 0
	for _, call := range r.calls {
		for _, st := range res.At[call] {
			reached++
			if !st.Is(evAttempted, flow.True) {
				continue
			}
			again++
			if !st.Is(evStepped, flow.True) && st.Is(evPrevInLoop, flow.True) && badStep == nil {
				badStep = &finding{st, call, "a further attempt is reachable without the attempt counter having been stepped since the previous one: more than MaxAttempts attempts are possible"}
			}
			if st.Is(evOverstep, flow.True) && st.Is(evPrevInLoop, flow.True) && badStep == nil {
				badStep = &finding{st, call, "the attempt counter is stepped more than once between two attempts on this path: fewer than MaxAttempts attempts are made (none at all for small values)"}
			}
			if !st.Is(r.resKey, flow.False) && badFail == nil {
				badFail = &finding{st, call, "a further attempt is reachable although the previous attempt is not known to have failed (its error is " + map[flow.Val]string{flow.True: "nil", flow.Unknown: "untested"}[st.Get(r.resKey)] + "): the retry does not stop at the first success and the backend receives the request again"}
			}
			if st.Is(evCancel, flow.True) && badCancel == nil {
				badCancel = &finding{st, call, "a further attempt is reachable after the <-ctx.Done() case was taken: the backend is called again for a client that has gone"}
			}
			if !st.Is(evWaited, flow.True) && !st.Is(evCancel, flow.True) && badWait == nil {
				badWait = &finding{st, call, "a further attempt is reachable without the back-off timer case having been taken since the previous attempt: retries hit the backend without waiting"}
			}
			if st.Is(evWaited, flow.True) && !st.Is(evInterr, flow.True) && badInterr == nil {
				badInterr = &finding{st, call, "the back-off wait before a further attempt is not a select that also offers <-ctx.Done() on the closure's context: a client cancelling during the wait is followed by another attempt"}
			}
			if r.sched != nil {
				continue // growth is decided where the schedule is built
			}
			ev := expVal(st)
			if st.Is(evGrown, flow.True) && ev != flow.True && badGrow == nil {
				badGrow = &finding{st, call, "the wait grows between two attempts although BackOffPolicy is not known to be \"exponential\": the random policy no longer waits the configured duration"}
			}
			if !st.Is(evGrown, flow.True) && ev != flow.False && badGrow == nil {
				badGrow = &finding{st, call, "a further attempt is reachable with BackOffPolicy == \"exponential\" (or untested) without the wait having grown since the previous attempt"}
			}
		}
	}
	if reached == 0 {
		c.Violate("R-C10-1", r.cons+"|retry only after failure", pos(c, r.calls[0]), "the handler call is unreachable in the retry closure")
		return
	}
	c.RequireCount("R-C10-1", "abstract states reaching the handler call as a 2nd+ attempt", again, 1)
	chk := func(rule, role string, b *finding, ok string) {
		if b == nil {
			c.Discharge(rule, r.cons+"|"+role, pos(c, r.calls[0]), ok)
			return
		}
		c.Violate(rule, r.cons+"|"+role, pos(c, b.at), b.why, witness(b.st)...)
	}
	chk("R-C10-1", "counter stepped between attempts", badStep, sprintf("%d abstract 2nd+ attempt states, all after exactly one step of the counter", again))
	chk("R-C10-1", "retry only after failure", badFail, sprintf("%d abstract 2nd+ attempt states, all with the previous error known non-nil", again))
	chk("R-C10-2", "no attempt after cancellation", badCancel, "no state reaches the handler after the Done case")
	chk("R-C10-2", "back-off between attempts", badWait, sprintf("%d abstract 2nd+ attempt states, all after the timer case of the select", again))
	if badInterr != nil && usesCtxErr {
		c10shape(c, "R-C10-2", r.cons+"|wait interruptible by cancellation", pos(c, badInterr.at), "the wait is not a select with a Done case but the closure consults ctx.Err()")
	} else {
		chk("R-C10-2", "wait interruptible by cancellation", badInterr, "every wait taken before a further attempt is the timer case of a select offering <-ctx.Done() (no default)")
	}
	switch {
	case growthShape != "":
		c10shape(c, "R-C10-2", r.cons+"|exponential growth", pos(c, growthBadAt), growthShape)
	case growthBad != "":
		c.Violate("R-C10-2", r.cons+"|exponential growth", pos(c, growthBadAt), growthBad)
	case r.sched != nil:
		// schedule-driven loop: growth between successive entries, decided in the builder
		gs := r.sched.g
		st, at, why := c10SchedGrowth(c, r, growth, expValOf(expAtomsOf(gs.Body, parentMap(gs.Body))))
		if st != nil {
			badGrow = &finding{st, at, why}
		}
		chk("R-C10-2", "exponential growth", badGrow, sprintf("%d growth statement(s) in %s; successive schedule entries grow iff BackOffPolicy == %q", len(growth), c10funcCons(gs), expName))
	default:
		// growth statements themselves only under the exponential test
		for n := range growth {
			for _, st := range res.At[n] {
				if expVal(st) != flow.True && badGrow == nil {
					badGrow = &finding{st, n, "the wait is multiplied on a path where BackOffPolicy is not known to be \"exponential\""}
				}
			}
		}
		if badGrow != nil && len(growth) == 0 {
			for v := range slice {
				if r.loop != nil && r.loop.Init != nil && v.Pos() >= r.loop.Init.Pos() && v.Pos() < r.loop.Init.End() {
					c10shape(c, "R-C10-2", r.cons+"|exponential growth", pos(c, durs[0]), "the wait is computed from the loop counter "+v.Name()+" instead of a loop-carried variable")
					badGrow = nil
					growthShape = "counter"
				}
			}
		}
		if growthShape == "counter" {
			break
		}
		chk("R-C10-2", "exponential growth", badGrow, sprintf("%d growth statement(s); grown before a further attempt iff BackOffPolicy == %q", len(growth), expName))
	}
	// the wait derives from the configured duration
	switch {
	case len(durs) == 0:
		c.Violate("R-C10-2", r.cons+"|wait derives from waitDuration", pos(c, r.loopStmt()), "the retry closure has no select case on time.After / time.NewTimer(...).C: there is no back-off wait")
	default:
		c.Check(reachesWD, "R-C10-2", r.cons+"|wait derives from waitDuration", pos(c, durs[0]),
			sprintf("the timer duration depends (through %d local variables) on RetryPolicy.waitDuration", len(slice)),
			"the duration handed to the back-off timer does not depend on RetryPolicy.waitDuration: the configured wait is ignored")
	}

	// ---- exits: the last attempt's outcome is what is returned
	var badExit *finding
	exits := 0
	for _, ex := range res.Exits {
		if ex.Kind != flow.ExitReturn {
			continue
		}
		if ex.Return == nil {
			// the closure returns an error, it cannot fall off its end
			continue
		}
		exits++
		var ret ast.Expr
		switch {
		case len(ex.Return.Results) == 1:
			ret = ast.Unparen(ex.Return.Results[0])
		case len(ex.Return.Results) == 0 && r.ftype.Results != nil && len(r.ftype.Results.List) == 1 && len(r.ftype.Results.List[0].Names) == 1:
			ret = r.ftype.Results.List[0].Names[0] // bare return of the named result
		default:
			continue
		}
		switch {
		case f.Info.Types[ret].IsNil():
			if !ex.State.Is(r.resKey, flow.True) && badExit == nil {
				badExit = &finding{ex.State, ex.Return, "the closure returns nil on a path where the last attempt's error is not known to be nil: a failed call is reported to the proxy as success (no failure result, circuit breaker records a success)"}
			}
		case c10ident(ret) != nil && c10obj(f, c10ident(ret)) == r.resVar:
		default:
			if badExit == nil {
				badExit = &finding{ex.State, ex.Return, "the closure returns " + types.ExprString(ret) + ", not the last attempt's own error: ServerPool.handle only understands serverPoolError values (anything else ends in panic \"should not reach here\") and the client does not see the last attempt's outcome"}
			}
		}
	}
	c.RequireCount("R-C10-1", "return exits of the retry closure", exits, 2)
	if foreign != nil && badExit == nil {
		c.Violate("R-C10-1", r.cons+"|returns last attempt's error", pos(c, foreign), "the variable that carries the attempt's error is also assigned something that is not the handler's result: what is returned is not the last attempt's own error value")
	} else {
		chk("R-C10-1", "returns last attempt's error", badExit, sprintf("%d abstract exits: each returns the handler's error variable, or nil with that error known nil", exits))
	}

	// ---- ctx handed on and watched is the closure's own
	okCtx := true
	var badCtx ast.Node
	for _, call := range r.calls {
		if len(call.Args) != 1 || c10ident(call.Args[0]) == nil || c10obj(f, c10ident(call.Args[0])) != r.ctx {
			okCtx, badCtx = false, call
		}
	}
	if ws := c10writes(f, r.body, r.ctx); len(ws) > 0 {
		okCtx, badCtx = false, ws[0].at
	}
	c.Check(okCtx, "R-C10-2", r.cons+"|ctx passed to the handler", pos(c, r.calls[0]),
		"every attempt receives the closure's own ctx parameter, which is never reassigned",
		"an attempt does not receive the closure's ctx parameter unchanged: cancellation / deadline of the client's request does not reach the backend call", pos(c, badCtx))
}

// c10Schema: accepted policies make at least one attempt.
func c10Schema(c *core.Ctx) {
	pol := namedType(c, c10rs, "RetryPolicy")
	maxF := structField(c, c10rs, "RetryPolicy", "MaxAttempts")
	if pol == nil || maxF == nil {
		return
	}
	min, has := int64(0), false
	for _, it := range c10tag(pol, maxF, "jsonschema") {
		if v, ok := strings.CutPrefix(it, "minimum="); ok {
			if n, err := strconv.ParseInt(v, 10, 64); err == nil {
				min, has = n, true
			}
		}
	}
	c.Check(has && min >= 1, "R-C10-1", c10rs+".RetryPolicy.MaxAttempts|schema minimum", c.Prog.Rel(maxF.Pos()),
		sprintf("jsonschema minimum=%d: every accepted policy makes at least one attempt", min),
		"MaxAttempts is not constrained to >= 1 by its jsonschema tag: an accepted policy with maxAttempts 0 makes the retry closure return nil without ever calling the backend (handle then reports success with no response)")
}

// c10CreateWrapper: the configured wait duration reaches the wrapper.
func c10CreateWrapper(c *core.Ctx) {
	f := fn(c, c10rs, "RetryPolicy", "CreateWrapper")
	wdF := c10waitField(c)
	cfgF := structField(c, c10rs, "RetryPolicy", "WaitDuration")
	if f == nil || wdF == nil || cfgF == nil {
		return
	}
	cons := fname(c10rs, "RetryPolicy", "CreateWrapper")
	parsed := false
	var defaults []ast.Node
	var parseAt ast.Node
	ast.Inspect(f.Body, func(n ast.Node) bool {
		as, ok := n.(*ast.AssignStmt)
		if !ok {
			return true
		}
		for i, l := range as.Lhs {
			if !c10fieldSel(f, l, wdF) {
				continue
			}
			var src ast.Expr
			if len(as.Rhs) == len(as.Lhs) {
				src = as.Rhs[i]
			} else if len(as.Rhs) == 1 && i == 0 {
				src = as.Rhs[0]
			}
			if call, ok := ast.Unparen(c10alias(f, f.Body, src)).(*ast.CallExpr); ok && calleeFull(f, call) == "time.ParseDuration" && len(call.Args) == 1 &&
				c10fieldSel(f, c10alias(f, f.Body, call.Args[0]), cfgF) {
				parsed = true
				parseAt = as
				continue
			}
			defaults = append(defaults, as)
		}
		return true
	})
	c.Check(parsed, "R-C10-2", cons+"|waitDuration parsed from WaitDuration", pos(c, func() ast.Node {
		if parseAt != nil {
			return parseAt
		}
		return f.Body
	}()),
		"waitDuration = time.ParseDuration(WaitDuration)",
		"CreateWrapper never stores time.ParseDuration(p.WaitDuration) into waitDuration: the configured back-off is ignored")
	if len(defaults) == 0 {
		return
	}
	tests := c10signTests(f, f.Body, wdF)
	res := analyze(c, f, flow.Config{NoHavoc: true})
	if res == nil {
		return
	}
	var bad *flow.State
	var badAt ast.Node
	for _, d := range defaults {
		for _, st := range res.At[d] {
			if c10positive(st, tests) != flow.False && bad == nil {
				bad, badAt = st, d
			}
		}
	}
	c.Check(bad == nil, "R-C10-2", cons+"|default only when non-positive", pos(c, defaults[0]),
		sprintf("%d other store(s) to waitDuration, each reachable only with waitDuration <= 0", len(defaults)),
		"waitDuration is overwritten on a path where it is not known to be <= 0: a configured positive wait is replaced", append([]string{"store at " + pos(c, badAt)}, witness(bad)...)...)
}

// c10Inject: ServerPool.retryWrapper only ever holds the result of RetryPolicy.CreateWrapper.
func c10Inject(c *core.Ctx) {
	rwF := structField(c, c10px, "ServerPool", "retryWrapper")
	if rwF == nil {
		return
	}
	stores := 0
	for _, pkg := range c.Prog.Module {
		for _, file := range pkg.Syntax {
			for _, d := range file.Decls {
				fd, ok := d.(*ast.FuncDecl)
				if !ok || fd.Body == nil {
					continue
				}
				f := flow.NewFunc(pkg, fd)
				check := func(rhs ast.Expr, at ast.Node) {
					stores++
					ok := false
					if rhs != nil {
						if f.Info.Types[rhs].IsNil() {
							ok = true
						} else if call, isCall := ast.Unparen(c10alias(f, fd.Body, rhs)).(*ast.CallExpr); isCall {
							ok = calleeIs(f, call, "(*"+c10rs+".RetryPolicy).CreateWrapper")
						}
					}
					c.Check(ok, "R-C10-2", declName(pkg, fd)+"|retryWrapper created by CreateWrapper", pos(c, at),
						"retryWrapper = (*RetryPolicy).CreateWrapper()",
						"ServerPool.retryWrapper is assigned a value that does not come from RetryPolicy.CreateWrapper: the policy's waitDuration is never parsed (zero wait between attempts)")
				}
				ast.Inspect(fd.Body, func(n ast.Node) bool {
					switch x := n.(type) {
					case *ast.AssignStmt:
						for i, l := range x.Lhs {
							if c10fieldSel(f, l, rwF) {
								if len(x.Rhs) == len(x.Lhs) {
									check(x.Rhs[i], x)
								} else {
									check(nil, x)
								}
							}
						}
					case *ast.KeyValueExpr:
						if id := c10ident(x.Key); id != nil && f.Info.Uses[id] == rwF {
							check(x.Value, x)
						}
					}
					return true
				})
			}
		}
	}
	c.RequireCount("R-C10-2", "stores to ServerPool.retryWrapper", stores, 1)
}

// c10BreakerCtx: the breaker wrapper hands its ctx to the inner handler unchanged (so the
// retry closure inside it watches the client's request context).
func c10BreakerCtx(c *core.Ctx) {
	// role: every implementation of resilience.Wrapper.Wrap in the package other than the retry
	// policy's (the exported interface fixes the method name and signature; the receiver type is
	// unexported and may be renamed)
	ws := funcsByRole(c, c10rs, func(g *flow.Func, fd *ast.FuncDecl) bool {
		if fd.Name.Name != "Wrap" || fd.Recv == nil || len(fd.Recv.List) != 1 || load.RecvName(fd.Recv.List[0].Type) == "RetryPolicy" {
			return false
		}
		sig, ok := g.Info.Defs[fd.Name].Type().(*types.Signature)
		return ok && sig.Params().Len() == 1 && sig.Results().Len() == 1 && c10isHandlerSig(sig.Params().At(0).Type()) && c10isHandlerSig(sig.Results().At(0).Type())
	})
	if !c.RequireCount("R-C10-2", "Wrapper.Wrap implementations besides RetryPolicy", len(ws), 1) {
		return
	}
	for _, f := range ws {
		c10BreakerCtxOne(c, f)
	}
}

func c10BreakerCtxOne(c *core.Ctx, f *flow.Func) {
	fd := f.Node.(*ast.FuncDecl)
	cons := fname(c10rs, load.RecvName(fd.Recv.List[0].Type), "Wrap")
	h := c10paramObj(f, f.Type, 0)
	if h == nil {
		c.Errorf("R-C10-2: anchor: %s has no named handler parameter", cons)
		return
	}
	// the wrapped handler may be called by the returned closure, by a method the closure delegates to
	// (handler passed as a parameter) or by a method of a struct that holds it in a field
	fs := c10reachRefs(f, 3)
	hset := c10flow(f, fs, h)
	n := 0
	ok := true
	var at ast.Node = f.Body
	for _, g := range fs {
		for _, call := range calls(g.Body, true) {
			if !hset.holds(f, call.Fun) {
				continue
			}
			n++
			at = call
			if len(call.Args) != 1 || !c10ownCtx(f, fs, call, call.Args[0], 0) {
				ok = false
			}
		}
	}
	if !c.RequireCount("R-C10-2", "handler call sites in circuitBreakerWrapper.Wrap", n, 1) {
		return
	}
	c.Check(ok, "R-C10-2", cons+"|ctx passed to the handler", pos(c, at),
		"the inner handler receives the ctx parameter of the function the wrapper returns",
		"the circuit-breaker wrapper does not hand its ctx parameter to the inner handler: the retry loop inside it no longer sees the client's cancellation")
}

// c10ownCtx reports whether arg (an argument of a call at node `at`) is the unmodified context
// parameter of the enclosing function and, when that function is not itself a handler
// (func(context.Context) error) but a helper, whether every call of the helper in fs hands it its
// own enclosing function's context parameter in turn.
func c10ownCtx(f *flow.Func, fs []*flow.Func, at ast.Node, arg ast.Expr, depth int) bool {
	_, body, typ, _ := c10enclosingFunc(fs, at)
	id := c10ident(arg)
	if body == nil || typ == nil || id == nil || depth > 3 {
		return false
	}
	// the context parameter of the enclosing function
	var ctxP types.Object
	idx, nparams := -1, 0
	if typ.Params != nil {
		for _, fld := range typ.Params.List {
			names := fld.Names
			if len(names) == 0 {
				nparams++
				continue
			}
			for _, name := range names {
				if o := f.Info.Defs[name]; o != nil && c10isCtxType(o.Type()) && ctxP == nil {
					ctxP, idx = o, nparams
				}
				nparams++
			}
		}
	}
	if ctxP == nil || c10obj(f, id) != ctxP || len(c10writes(f, body, ctxP)) > 0 {
		return false
	}
	if nparams == 1 && typ.Results != nil && len(typ.Results.List) == 1 && len(typ.Results.List[0].Names) <= 1 {
		if t := f.Info.TypeOf(typ.Results.List[0].Type); t != nil && types.Identical(t, types.Universe.Lookup("error").Type()) {
			return true // the enclosing function is itself a handler: func(context.Context) error
		}
	}
	// a helper: look at its callers
	callers := 0
	for _, g := range fs {
		for _, call := range calls(g.Body, true) {
			fo, ok := f.Callee(call).(*types.Func)
			if !ok {
				continue
			}
			if d := declOf(f.Pkg, fo); d == nil || d.Body != body {
				continue
			}
			callers++
			if idx >= len(call.Args) || !c10ownCtx(f, fs, call, call.Args[idx], depth+1) {
				return false
			}
		}
	}
	return callers > 0
}

// c10waitField resolves RetryPolicy's parsed wait duration by role: its (only) field of type
// time.Duration (the exported WaitDuration is the configured string); the name is the tie-breaker.
func c10waitField(c *core.Ctx) *types.Var {
	n := namedType(c, c10rs, "RetryPolicy")
	if n == nil {
		return nil
	}
	st, ok := n.Underlying().(*types.Struct)
	if !ok {
		c.Errorf("anchor: %s.RetryPolicy is not a struct", c10rs)
		return nil
	}
	var cands []*types.Var
	for i := 0; i < st.NumFields(); i++ {
		if f := st.Field(i); c10typeIs(f.Type(), false, "time", "Duration") {
			cands = append(cands, f)
		}
	}
	if len(cands) == 1 {
		return cands[0]
	}
	for _, f := range cands {
		if f.Name() == "waitDuration" {
			return f
		}
	}
	c.Errorf("anchor: cannot identify the parsed wait duration field (time.Duration) of RetryPolicy: %d candidates", len(cands))
	return nil
}
