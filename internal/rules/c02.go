package rules

// C02 — Pipeline executes filters in flow order with forward-only jumpIf and END.
//
// Files: c02.go (anchors, R-C02-1..6: the flow loop and its callers), c02_validate.go
// (R-C02-7: Spec.Validate / jump validation), c02_results.go (R-C02-8: declared results of
// every registered filter kind, SSA), c02_util.go (alias resolution, small helpers).
//
// Resolution by role: the flow loop is "the function containing the only dynamic call of
// filters.Filter.Handle"; FlowNode fields are resolved by yaml key (namespace, jumpIf, filter,
// alias) or by type (the filters.Filter field, Pipeline's []FlowNode field); the variables
// result/next/sawEnd are "the variable assigned from Handle", "the variable assigned from the
// JumpIf lookup", "the bool result of the function"; before/after are the *Pipeline parameters
// in the order GlobalFilter passes them. Only BuiltInFilterEnd (the END constant) and the
// Validate method (an interface contract) are resolved by declared name.
//
// Mutants tried (scratch worktree /tmp/vw/C02/repo, each compiles) → obligation that fires:
//   doHandle
//   M1  delete ctx.UseNamespace(node.Namespace)                  → R-C02-1 namespace before Handle
//   M5  UseNamespace moved after Handle                          → R-C02-1 namespace before Handle
//   M2  `next = ""` dropped in the result=="" branch             → R-C02-3 continue after a filter ran
//   M3  `next == "" ||` dropped from the end test                → R-C02-3 continue after a filter ran
//   M12 whole `if result == ""` guard dropped                    → R-C02-3 continue…, loop left early only at END…
//   M4  break→continue at the END node                           → R-C02-3 no Handle once END was seen, node passed over…, exhausted flow…
//   M20 END block dropped                                        → R-C02-3 Handle never on an END node
//   E0  END test hoisted above the skip test (seeded C02/a)      → R-C02-3 END node jumped over while another target is pending
//   E1  END honoured inside the skip branch                      → same
//   E2  skip test exempts END nodes (`&& node.FilterName != END`)→ same
//   E3  `if flow[i].FilterName == END { return …, true }` first  → same
//   M13 `sawEnd = true` dropped before the result break          → R-C02-3 END is reported to the caller
//   M6  next compared with node.FilterName instead of alias      → R-C02-3 jump target compared with the node's alias
//   M17 `next != alias` → `next == alias`                        → R-C02-3 Handle only when no other jump target is pending, node passed over…
//   M19 skip test dropped                                        → R-C02-3 Handle only when no other jump target is pending
//   M11 next = node.JumpIf[alias]                                → R-C02-3 jump lookup
//   M21 loop made `for i := len(flow)-1; i >= 0; i--`            → R-C02-2 single forward loop
//   M23 3-clause loop with `i -= 2` in the body                  → R-C02-2 loop variable i not assigned
//   M22 return next instead of result                            → R-C02-4 returned result
//   HandleWithBeforeAfter / GlobalFilter
//   M7  `!sawEnd &&` dropped from the after guard                → R-C02-5 after flow gated correctly
//   M16 main flow unguarded                                      → R-C02-5 main flow gated correctly
//   M8  before's sawEnd assigned to _                            → R-C02-5 END of the before flow is honoured
//   M9  main's result assigned to _                              → R-C02-4 result of the last flow run is returned
//   M10 after block runs before.flow                             → R-C02-5 before flow runs at most once, after flow runs
//   M18 after block deleted                                      → R-C02-5 after flow runs
//   G1  afterPipeline built from spec.BeforePipeline (copy/paste)→ R-C02-5 GlobalFilter.afterPipeline built from one spec key
//   G2  HandleWithBeforeAfter(ctx, after, before)                → R-C02-5 before and after pipelines passed in order
//   G3  after loaded from gf.beforePipeline                      → R-C02-5 before and after pipelines passed in order
//   G4  s.AfterPipeline.Validate() result dropped                → R-C02-7 afterPipeline spec validated
//   G5  before's err overwritten without test                    → R-C02-7 beforePipeline spec validated
//   Spec.Validate / ValidateJumpIf
//   V1  node loop made forward                                   → R-C02-7 targets counted from later nodes only
//   V2  count == 0 → count < 0                                   → R-C02-7 target is a unique later node ([0 1])
//   V3  count > 1 → count > 2                                    → R-C02-7 target is a unique later node ([1 2])
//   V4  StrInSlice(target, results)                              → R-C02-7 result declared by the filter kind
//   V5  reserved-name check dropped                              → R-C02-7 reserved filter name rejected
//   V6  specs[spec.Kind()] = spec                                → R-C02-7 spec registered under its name (+dup, reserved)
//   V8  increment moved before the jumpIf loop                   → R-C02-7 targets counted from later nodes only
//   V10 s.ValidateJumpIf(specs) dropped                          → R-C02-7 jumps validated on every accepting path
//   V11 NewSpec error assigned to _                              → R-C02-7 filter spec built and its error checked
//   V12 continue→break at END in the validator                   → R-C02-7 every node visited
//   V13 deferred recover does not set err                        → R-C02-7 a recovered rejection returns an error
//   V14 duplicate test inverted                                  → R-C02-7 duplicate filter names rejected
//   V15 unknown filter counted and continued                     → R-C02-7 unknown filter rejected
//   S1  extra method p.filters[name].Handle(ctx)                  → R-C02-6 (Pipeline).RunFilter|dynamic Filter.Handle call
//   filter kinds
//   R1  proxy/pool.go: serverPoolError{…, "prepareError"}        → R-C02-8 pkg/filters/proxy.Kind(Proxy)
//   R2  validator: return "unauthorized"                         → R-C02-8 pkg/filters/validator.Kind(Validator)
//   Not a violation by design: V9 (nil test of the looked-up spec dropped) — the following
//   spec.Kind() on a nil interface panics and Validate recovers it, the spec is still rejected;
//   V7 (counter increment deleted) is a checker error (subject of the rule gone), not a violation.
// Behaviour-preserving edits that stay at exit 0 (diffs in /tmp/vw/C02/out/preserving-B*.diff):
//   B1 doHandle rewritten: locals renamed, `var` block, skip condition extracted into a bool and
//      written !(a || b), END test as switch + early return, namespace via local alias, filter via
//      local alias, result test inverted (if/else), end test as switch setting the flag;
//      HandleWithBeforeAfter with nested ifs / early returns, `nil != before`, last flag to _.
//   B2 ValidateJumpIf: renamed, s.Flow via local, `k > -1`, comma-ok lookup, kind via local,
//      membership via local bool, `seen[tgt] < 1` / `>= 2` without count variable, `+= 1`;
//      Validate: duplicate test as `specs[spec.Name()] != nil`, reserved test inlined, reordered.
//   B3 GlobalFilter: Validate with if-init errors in the other order; Handle with renamed
//      locals, loads reordered, no comma-ok.
//   B4 flow loop as `for i := 0; i < len(flow); i++`.
//   Robustness pass (refactorings /verif/preserving/C02/r1..r4, all silent): rules are stated over the
//   loop function TOGETHER WITH the same-package helpers it calls (c02ReachDefs: parameters of a
//   helper with one call site name the call's operands; a helper-local handed out by return names
//   the caller's variable; flow engine with Inline). Further variants kept silent: skip test / END
//   test / filter-loop body / jumpIf loop and its body / Handle+namespace / jump lookup each moved
//   into a helper, flow loop called through a method value, named results with bare return.
//   Mutants re-run on the refactored shapes (r4 tree, helper tree) are still reported.
//   Second robustness iteration (r5..r8, C13/r7, all silent): loops recognised in all three forms
//   (c02LoopOf) with the element as range value or xs[i]; before/main/after as one loop over a literal
//   list of stages (c02CallerStaged); result and END flag kept in fields of a run-state struct with the
//   flow loop as its method (field form: c02CallerFields, fresh-literal initial flag); reserved-name
//   helper as a lookup in a never-written package-level set (c02TableHas); recover helper writing the
//   error result through a pointer; pipelines fetched by a helper with two results (c02Origins).
//   Fourth round of seeded slips: C02/g (guard clause for the before pipeline returns before the after
//   pipeline is built) → R-C02-5 "<builder>|after pipeline built whenever its flow is not empty"
//   (c02GlobalFilterBuild); C02/h (HasResult via sort.SearchStrings without the equality) → R-C02-7
//   "result declared by the filter kind": a project membership predicate is verified to answer true only
//   after an element of Results was found equal to the key (c02MemberHelper); correct variants (index
//   search with equality, equality loop, flag loop, StrInSlice wrapper, guard clauses per pipeline in
//   helpers, `&&` guard) stay silent.
//   Third robustness iteration (r9..r12, all silent): Handle delegating to the before/after handler with
//   (nil, nil); constructor writes of activeNs on a fresh literal; recover closure held in a local
//   (InlineClosures); reverse node loop as `n := len; n > 0; n--` with flow[n-1]; GlobalFilter builders
//   deduplicated into one helper parameterised by (spec, &holder) — holder ↔ spec key read per call site,
//   build rule follows the parameters through inlined calls (OnInline tags); GlobalFilter's Validate as
//   a loop over a literal table of the two specs (c02ValidateGlobalTable).
//   Fourth robustness iteration (r13..r16, all silent): node loop of the jump validator behind a callback
//   iterator (function literal bound to the helper's single invocation: c02Defs.bindLits / loopsOut);
//   active-namespace field of Context resolved by role (c02ActiveNsField); UseNamespace storing through
//   a verified ""→default mapping helper; END flag as an enum-like integer result (c02Flag: "ended" is
//   the one constant assigned besides the initial value; callers compare with it).
//   P5 END test precomputed into a bool before the skip test but acted on after it;
//   P6 skip and END tests as the cases of a tagless switch (in that order), END by early return.

import (
	"go/ast"
	"go/constant"
	"go/token"
	"go/types"
	"strings"

	"golang.org/x/tools/go/cfg"
	"golang.org/x/tools/go/packages"

	"verif/internal/core"
	"verif/internal/flow"
)

func init() { Registry["C02"] = c02 }

type c02Anchors struct {
	fFilter, fNS, fJump, fName, fAliasF, fFlow *types.Var
	endVal                                     string // value of BuiltInFilterEnd
	endExact                                   string // constant.ExactString of it (fact keys)
	endObj                                     types.Object
	loopFn                                     *flow.Func // the function with the flow loop
	loopCons                                   string
	loopObj                                    *types.Func
	handle                                     *ast.CallExpr // node.filter.Handle(ctx)
	siteFn                                     *flow.Func    // the function containing that call (loopFn or a helper it calls)
	handleSite                                 ast.Node      // handle, or the call in loopFn through which it is reached
	chain                                      []*flow.Func  // helpers between loopFn and the Handle call
	resField, sawField                         *types.Var    // field form: the run-state fields holding the result and the END flag
	endedExact                                 string        // enum form: the constant (ExactString) of the flag type that means "ended"
	aliasFn                                    *types.Func   // method of FlowNode naming a node at run time
}

func c02(c *core.Ctx) string {
	c.Rule("R-C02-1", "namespace before handle: every state reaching the dynamic call Filter.Handle(ctx) in the flow loop has, in the same iteration, last called ctx.UseNamespace(N.Namespace) with N the node whose filter is invoked; UseNamespace has no other call site and Context.activeNs no other writer")
	c.Rule("R-C02-2", "forward only: the flow loop is a single range loop (or i++ loop) over the []FlowNode argument, its key/value variables and the ranged slice are never assigned, no goto, no nested loop, no recursion, Handle is not called from a closure")
	c.Rule("R-C02-3", "loop invariant of jump/END (all paths): an iteration that ran a filter continues only with (result==\"\" ∧ next==\"\") or (result!=\"\" ∧ next==N.JumpIf[result] ∧ next!=\"\" ∧ next!=END); an iteration is passed over only with next!=\"\" ∧ next!=alias(N) and changes nothing; Handle is reached only with (next==\"\" ∨ next==alias(N)), N not an END node and sawEnd false; the loop is left early only at an END node that is reached (next==\"\" ∨ next==alias(N), not one being jumped over) or with result!=\"\" ∧ (next==\"\" ∨ next==END), and then the bool result is true; after exhaustion it is false; alias(N) is the same FlowNode method that validation counts jump targets by")
	c.Rule("R-C02-4", "returned result: the string result of the flow loop function is the variable assigned from Filter.Handle, which has no other writer than its \"\" initialisation; callers return the string result of the last flow they ran")
	c.Rule("R-C02-5", "before/main/after gating (all paths of every caller of the flow loop): order before → main → after, each flow at most once and with that pipeline's own flow, a flow is skipped only if its pipeline is nil or an earlier flow reported END, none runs after END was reported; GlobalFilter passes the pipelines built from the beforePipeline/afterPipeline spec keys in that order, and builds each of them whenever its flow is not empty, independently of the other")
	c.Rule("R-C02-6", "who may call Filter.Handle: the only dynamic call site of filters.Filter.Handle in production code is the one in the flow loop, and the flow loop is only called from Pipeline's handler methods")
	c.Rule("R-C02-7", "validation covers the runtime lookups: Spec.Validate builds every filter spec with filters.NewSpec (error → reject), rejects reserved and duplicate names before registering the spec under spec.Name(), then validates jumps with that map on every accepting path, and a recovered panic yields a non-nil error; jump validation visits every node in reverse order, rejects unknown filters, results not in Kind.Results and targets whose count among later nodes is not exactly 1, and counts a node (by the runtime alias method) only after its own jumps were checked; GlobalFilter's Validate validates both embedded pipeline specs and propagates their errors")
	c.Rule("R-C02-8", "declared results (every registered filter kind): every string constant that can flow to the result of the kind's Handle (returns, same-module static callees, struct fields, captured named results) is \"\" or a member of the kind's filters.Kind{Results: …}")
	c.NotDecided = []string{
		"that the visit sequence equals the reference sequence for every flow and result vector as a whole (conjunction of the rules plus an inductive argument, not machine-checked)",
		"stats-tag serialisation (serializeStats)",
		"results computed at run time (fmt.Sprintf in WasmHost, values read from maps/config/interfaces) are counted as dynamic sources, not compared with Results",
		"that reload binds FlowNode.filter to the instance named by FlowNode.FilterName (C11/C20 territory) and jsonschema-level validation of FlowNode",
		"uniqueness of aliases that are never the target of a jump (validation only rejects a duplicated alias when it is jumped to)",
		"filter kinds excluded by build tags (WasmHost needs -tags wasmhost) are not loaded, so R-C02-8 covers the 20 kinds of the default build",
	}
	expl := "Shape proof of the pipeline flow loop and of its validation: path-sensitive loop invariants of doHandle (namespace, skip, jump, END, sawEnd, returned result) over all abstract paths, gating of before/main/after flows in every caller, exclusive call site of Filter.Handle, order and completeness of Spec.Validate/ValidateJumpIf checks, and a sibling rule over all registered filter kinds that every constant result is declared. Not decided: equality of whole visit sequences (inductive argument), stats serialisation, run-time computed results."

	a := c02Resolve(c)
	if a == nil {
		return expl
	}
	c02FlowLoop(c, a)
	c02Callers(c, a)
	c02GlobalFilterWiring(c, a)
	c02Validate(c, a)
	c02UseNamespace(c)
	c02Results(c)
	return expl
}

// c02Resolve resolves the anchors and decides R-C02-6 (the subject of most other rules is
// the function found here).
func c02Resolve(c *core.Ctx) *c02Anchors {
	a := &c02Anchors{}
	a.fFilter = c02FieldByType(c, c02pl, "FlowNode", "filters.Filter", func(t types.Type) bool {
		return c02IsNamed(t, Mod+c02fl, "Filter")
	})
	a.fNS = c02FieldByYAML(c, c02pl, "FlowNode", "namespace")
	a.fJump = c02FieldByYAML(c, c02pl, "FlowNode", "jumpIf")
	a.fName = c02FieldByYAML(c, c02pl, "FlowNode", "filter")
	a.fAliasF = c02FieldByYAML(c, c02pl, "FlowNode", "alias")
	a.fFlow = c02FieldByType(c, c02pl, "Pipeline", "[]FlowNode", func(t types.Type) bool {
		s, ok := t.(*types.Slice)
		return ok && c02IsNamed(s.Elem(), Mod+c02pl, "FlowNode")
	})
	pkg := c.Prog.Pkg(c02pl)
	if pkg == nil || a.fFilter == nil || a.fNS == nil || a.fJump == nil || a.fName == nil || a.fAliasF == nil || a.fFlow == nil {
		return nil
	}
	if k, ok := pkg.Types.Scope().Lookup("BuiltInFilterEnd").(*types.Const); ok && k.Val().Kind() == constant.String {
		a.endObj, a.endVal, a.endExact = k, constant.StringVal(k.Val()), k.Val().ExactString()
	} else {
		c.Errorf("anchor: constant %s.BuiltInFilterEnd not found", c02pl)
		return nil
	}

	// R-C02-6: dynamic call sites (and method values) of filters.Filter.Handle in the module.
	type site struct {
		pkgRel, decl string
		fd           *ast.FuncDecl
		call         *ast.CallExpr
		at           ast.Node
		f            *flow.Func
	}
	var sites, values []site
	for _, p := range c.Prog.Module {
		for _, file := range p.Syntax {
			for _, d := range file.Decls {
				name := relPkg(p.PkgPath) + "|package-level initialiser"
				fd, _ := d.(*ast.FuncDecl)
				var f *flow.Func
				if fd != nil {
					if fd.Body == nil {
						continue
					}
					name = declName(p, fd)
					f = flow.NewFunc(p, fd)
				} else {
					f = &flow.Func{Pkg: p, Info: p.TypesInfo, Fset: p.Fset, Name: name, Node: d}
				}
				called := map[*ast.SelectorExpr]bool{}
				ast.Inspect(d, func(n ast.Node) bool {
					switch x := n.(type) {
					case *ast.CallExpr:
						if methodName(x) == "Handle" && ifaceMethodCall(f, x, c02fl, "Filter", "Handle") {
							sites = append(sites, site{relPkg(p.PkgPath), name, fd, x, x, f})
							called[ast.Unparen(x.Fun).(*ast.SelectorExpr)] = true
						}
					case *ast.SelectorExpr:
						if x.Sel.Name == "Handle" && !called[x] {
							if s := p.TypesInfo.Selections[x]; s != nil && s.Kind() == types.MethodVal {
								if m, ok := s.Obj().(*types.Func); ok && types.IsInterface(s.Recv()) {
									if r := m.Type().(*types.Signature).Recv(); r != nil && c02IsNamed(r.Type(), Mod+c02fl, "Filter") {
										values = append(values, site{relPkg(p.PkgPath), name, fd, nil, x, f})
									}
								}
							}
						}
					}
					return true
				})
			}
		}
	}
	if !c.RequireCount("R-C02-6", "dynamic call sites of filters.Filter.Handle", len(sites), 1) {
		return nil
	}
	// the flow loop is the site that invokes the filter field of a FlowNode from inside a loop
	var loopSite *site
	for pass := 0; pass < 2 && loopSite == nil; pass++ {
		for i := range sites {
			s := &sites[i]
			if s.pkgRel != c02pl || s.fd == nil || loopSite != nil {
				continue
			}
			if pass == 0 {
				sel := ast.Unparen(s.call.Fun).(*ast.SelectorExpr)
				if _, ok := c02NewDefs(s.f).fieldSel(sel.X, a.fFilter); !ok || len(enclosingLoops(s.fd.Body, s.call)) == 0 {
					continue
				}
			}
			loopSite = s
		}
	}
	for i := range sites {
		s := &sites[i]
		if s == loopSite {
			continue
		}
		c.Violate("R-C02-6", s.decl+"|dynamic Filter.Handle call", pos(c, s.at),
			"a second dynamic call of filters.Filter.Handle exists outside the flow loop: a filter invoked here runs without the configured namespace, without jumpIf/END handling and out of flow order")
	}
	for _, s := range values {
		c.Violate("R-C02-6", s.decl+"|Filter.Handle method value", pos(c, s.at),
			"filters.Filter.Handle is taken as a method value: the filter can be invoked outside the flow loop (no namespace, no jumpIf/END handling)")
	}
	if loopSite == nil {
		c.Errorf("R-C02-6: anchor: no dynamic call of filters.Filter.Handle inside %s (the flow loop was not found)", c02pl)
		return nil
	}
	a.loopFn, a.handle, a.loopCons = loopSite.f, loopSite.call, loopSite.decl
	a.siteFn, a.handleSite = loopSite.f, loopSite.call
	c.Count("functions_analysed", 1)
	a.loopObj, _ = pkg.TypesInfo.Defs[loopSite.fd.Name].(*types.Func)
	// "extract function": the call may sit in a helper (runFilter) that the loop function calls
	// from inside its loop. Walk up through single call sites until a loop encloses the site.
	for up := 0; up < 4 && len(enclosingLoops(a.loopFn.Body, a.handleSite)) == 0; up++ {
		callers := c02CallsOf(c, a.loopObj)
		total := 0
		for _, cl := range callers {
			total += len(cl.calls)
		}
		if total == 0 {
			break // an entry point without a loop: judged by R-C02-2
		}
		if total != 1 || relPkg(callers[0].f.Pkg.PkgPath) != c02pl || c02NonCallUses(c, a.loopObj) > 0 {
			c.Undecide("R-C02-6", a.loopCons+"|only dynamic Filter.Handle call", pos(c, a.handle),
				sprintf("Filter.Handle is called from helper %s, which has %d call sites (or is used as a value): cannot tell which loop drives it", a.loopCons, total))
			return nil
		}
		a.chain = append([]*flow.Func{a.loopFn}, a.chain...)
		cl := callers[0]
		a.loopFn, a.loopCons, a.handleSite = cl.f, cl.cons, cl.calls[0]
		a.loopObj, _ = pkg.TypesInfo.Defs[cl.f.Node.(*ast.FuncDecl).Name].(*types.Func)
		c.Count("functions_analysed", 1)
	}
	if len(sites) == 1 && len(values) == 0 {
		c.Discharge("R-C02-6", a.loopCons+"|only dynamic Filter.Handle call", pos(c, a.handle),
			"exactly one dynamic call site of filters.Filter.Handle in the module's production code")
	}
	return a
}

// c02CallsOf lists the static calls of fn in the module: caller declaration → calls.
type c02Caller struct {
	f     *flow.Func
	cons  string
	calls []*ast.CallExpr
}

// c02FuncValueLocals finds locals of fd that only ever hold fnObj as a function value and are only
// called (`h := p.doHandle; h(..)`): calling them is calling fnObj. defs are the identifier uses of
// fnObj that initialise such locals.
func c02FuncValueLocals(p *packages.Package, fd *ast.FuncDecl, fnObj *types.Func) (locals map[types.Object]bool, defs map[*ast.Ident]bool) {
	locals, defs = map[types.Object]bool{}, map[*ast.Ident]bool{}
	isFn := func(e ast.Expr) *ast.Ident {
		switch x := ast.Unparen(e).(type) {
		case *ast.SelectorExpr:
			if p.TypesInfo.Uses[x.Sel] == types.Object(fnObj) {
				return x.Sel
			}
		case *ast.Ident:
			if p.TypesInfo.Uses[x] == types.Object(fnObj) {
				return x
			}
		}
		return nil
	}
	cand := map[types.Object]*ast.Ident{}
	ast.Inspect(fd.Body, func(n ast.Node) bool {
		switch x := n.(type) {
		case *ast.AssignStmt:
			if len(x.Lhs) == len(x.Rhs) {
				for i, r := range x.Rhs {
					if use := isFn(r); use != nil {
						if id, ok := ast.Unparen(x.Lhs[i]).(*ast.Ident); ok && p.TypesInfo.Defs[id] != nil {
							cand[p.TypesInfo.Defs[id]] = use
						}
					}
				}
			}
		case *ast.ValueSpec:
			if len(x.Names) == len(x.Values) {
				for i, r := range x.Values {
					if use := isFn(r); use != nil && p.TypesInfo.Defs[x.Names[i]] != nil {
						cand[p.TypesInfo.Defs[x.Names[i]]] = use
					}
				}
			}
		}
		return true
	})
	if len(cand) == 0 {
		return
	}
	d := c02NewDefs(flow.NewFunc(p, fd))
	callFun := map[*ast.Ident]bool{}
	ast.Inspect(fd.Body, func(n ast.Node) bool {
		if call, ok := n.(*ast.CallExpr); ok {
			if id, ok := ast.Unparen(call.Fun).(*ast.Ident); ok {
				callFun[id] = true
			}
		}
		return true
	})
	for o, use := range cand {
		ok := d.n[o] == 1 && !d.taken[o]
		for id, uo := range p.TypesInfo.Uses {
			if uo == o && !callFun[id] {
				ok = false
			}
		}
		if ok {
			locals[o] = true
			defs[use] = true
		}
	}
	return
}

func c02CallsOf(c *core.Ctx, fnObj *types.Func) []*c02Caller {
	var out []*c02Caller
	for _, p := range c.Prog.Module {
		if p.Types != fnObj.Pkg() && !fnObj.Exported() {
			continue
		}
		for _, file := range p.Syntax {
			for _, d := range file.Decls {
				fd, ok := d.(*ast.FuncDecl)
				if !ok || fd.Body == nil {
					continue
				}
				locals, _ := c02FuncValueLocals(p, fd, fnObj)
				var cs []*ast.CallExpr
				ast.Inspect(fd.Body, func(n ast.Node) bool {
					if call, ok := n.(*ast.CallExpr); ok {
						if sel, ok := ast.Unparen(call.Fun).(*ast.SelectorExpr); ok && p.TypesInfo.Uses[sel.Sel] == types.Object(fnObj) {
							cs = append(cs, call)
						} else if id, ok := ast.Unparen(call.Fun).(*ast.Ident); ok && (p.TypesInfo.Uses[id] == types.Object(fnObj) || locals[p.TypesInfo.Uses[id]]) {
							cs = append(cs, call)
						}
					}
					return true
				})
				if len(cs) > 0 {
					out = append(out, &c02Caller{f: flow.NewFunc(p, fd), cons: declName(p, fd), calls: cs})
				}
			}
		}
	}
	return out
}

// c02NonCallUses counts identifier uses of a function in the module that are neither the callee
// of a call nor the initialisation of a local that is only ever called (function values escaping).
func c02NonCallUses(c *core.Ctx, fnObj *types.Func) int {
	n := 0
	for _, p := range c.Prog.Module {
		if p.Types != fnObj.Pkg() && !fnObj.Exported() {
			continue
		}
		callee := map[*ast.Ident]bool{}
		for _, file := range p.Syntax {
			ast.Inspect(file, func(x ast.Node) bool {
				if call, ok := x.(*ast.CallExpr); ok {
					switch fun := ast.Unparen(call.Fun).(type) {
					case *ast.SelectorExpr:
						callee[fun.Sel] = true
					case *ast.Ident:
						callee[fun] = true
					}
				}
				return true
			})
			for _, d := range file.Decls {
				if fd, ok := d.(*ast.FuncDecl); ok && fd.Body != nil {
					_, defs := c02FuncValueLocals(p, fd, fnObj)
					for id := range defs {
						callee[id] = true
					}
				}
			}
		}
		for id, o := range p.TypesInfo.Uses {
			if o == types.Object(fnObj) && !callee[id] {
				n++
			}
		}
	}
	return n
}

// ---------------------------------------------------------------------------------------
// R-C02-1..4: the flow loop
// ---------------------------------------------------------------------------------------

func c02FlowLoop(c *core.Ctx, a *c02Anchors) {
	f, cons, handle := a.loopFn, a.loopCons, a.handle
	// the loop function together with the same-package helpers it calls: parameters of helpers
	// with a single call site are names for the operands of that call
	d := c02ReachDefs(f, 3)
	hs := a.handleSite // the Handle call, or the call in f through which it is reached
	fd := f.Node.(*ast.FuncDecl)
	if d.lift(handle) != hs {
		c.Undecide("R-C02-2", cons+"|single forward loop", pos(c, handle), "the helper chain from the flow loop to Filter.Handle is not a chain of single call sites")
		return
	}

	// ---- the node whose filter is invoked, and the ctx handed to it
	hsel := ast.Unparen(handle.Fun).(*ast.SelectorExpr)
	nodeExpr, ok := d.fieldSel(hsel.X, a.fFilter)
	if !ok {
		c.Undecide("R-C02-1", cons+"|namespace before Handle", pos(c, handle), "the receiver of Filter.Handle is not the filter field of a FlowNode")
		return
	}
	N := d.norm(nodeExpr)
	if len(handle.Args) != 1 {
		c.Errorf("R-C02-1: anchor: Filter.Handle call does not have exactly one argument")
		return
	}
	ctxN := d.norm(handle.Args[0]) // the context handed to the filter (a variable or a field of the run state)

	// ---- R-C02-2: loop shape
	loops := enclosingLoops(f.Body, hs)
	shapeOK := true
	shape := func(ok bool, what, bad string, at ast.Node) {
		if !ok {
			shapeOK = false
			c.Violate("R-C02-2", cons+"|"+what, pos(c, at), bad)
		}
	}
	if len(loops) == 0 {
		c.Violate("R-C02-2", cons+"|single forward loop", pos(c, handle), "Filter.Handle is not called from a loop over the flow: at most one filter can run")
		return
	}
	shape(len(loops) == 1, "single forward loop", "Filter.Handle is called inside nested loops: a node can be visited more than once or out of order", loops[len(loops)-1])
	var allLoops, gotos, lits []ast.Node
	selfCalls := 0
	ast.Inspect(f.Body, func(n ast.Node) bool {
		switch x := n.(type) {
		case *ast.ForStmt, *ast.RangeStmt:
			allLoops = append(allLoops, n)
		case *ast.BranchStmt:
			if x.Tok == token.GOTO {
				gotos = append(gotos, x)
			}
		case *ast.FuncLit:
			if contains(x, hs) {
				lits = append(lits, x)
			}
		}
		return true
	})
	// helpers between the loop and the Handle call: no loop and no closure around the call chain
	nested := 0
	for _, g := range a.chain {
		var inner ast.Node = handle
		for _, h := range d.funcs {
			if d.siteFn[h] == g && contains(h.Node, handle) {
				inner = d.site[h]
			}
		}
		if g != a.siteFn && inner == ast.Node(handle) {
			continue
		}
		nested += len(enclosingLoops(g.Body, inner))
		ast.Inspect(g.Body, func(n ast.Node) bool {
			if x, ok := n.(*ast.FuncLit); ok && contains(x, inner) {
				lits = append(lits, x)
			}
			return true
		})
	}
	for _, g := range d.funcs {
		for _, call := range calls(g.Body, true) {
			if a.loopObj != nil && f.Callee(call) == types.Object(a.loopObj) {
				selfCalls++
			}
		}
	}
	shape(nested == 0, "single forward loop", "the helper that calls Filter.Handle does so from a loop of its own, inside the flow loop: a node can be run more than once", hs)
	shape(len(allLoops) == 1, "single forward loop", sprintf("the flow function contains %d loops: with a second loop nodes can be revisited (backward jump)", len(allLoops)), fd)
	shape(len(gotos) == 0, "no goto", "goto in the flow function: control can move backwards in the flow", firstNode(gotos, fd))
	shape(len(lits) == 0, "Handle not in closure", "Filter.Handle is called from a function literal: it can run outside the iteration that selected the node", firstNode(lits, fd))
	shape(selfCalls == 0, "no recursion", "the flow function calls itself: nodes can be revisited", fd)

	// the loop ranges over the []FlowNode argument in index order
	var rng ast.Stmt // the flow loop (range statement or for i := 0; i < len(flow); i++)
	var flowX ast.Expr
	var loopVars []types.Object
	var flowObj types.Object
	loopVarDefs := 1
	bodyKind, backKind := cfg.KindRangeBody, cfg.KindRangeLoop
	switch l := loops[0].(type) {
	case *ast.RangeStmt:
		rng, flowX = l, l.X
		if l.Key != nil {
			if o := c02Obj(f, l.Key); o != nil {
				loopVars = append(loopVars, o)
			}
		}
		if l.Value != nil {
			if o := c02Obj(f, l.Value); o != nil {
				loopVars = append(loopVars, o)
			}
		}
	case *ast.ForStmt:
		// accepted equivalent: for i := 0; i < len(flow); i++
		post, isIncDec := l.Post.(*ast.IncDecStmt)
		if isIncDec && post.Tok == token.DEC {
			c.Violate("R-C02-2", cons+"|single forward loop", pos(c, l), "the flow loop counts downwards: filters run in reverse flow order and jumps go backwards")
			return
		}
		okFor := false
		if init, ok := l.Init.(*ast.AssignStmt); ok && isIncDec && len(init.Lhs) == 1 && len(init.Rhs) == 1 && l.Cond != nil {
			iObj := c02Obj(f, init.Lhs[0])
			zero := f.Info.Types[init.Rhs[0]]
			if iObj != nil && c02Obj(f, post.X) == iObj && zero.Value != nil && zero.Value.ExactString() == "0" {
				if be, ok := ast.Unparen(l.Cond).(*ast.BinaryExpr); ok {
					lhs, rhs := be.X, be.Y
					if be.Op == token.GTR {
						lhs, rhs = rhs, lhs
					}
					if (be.Op == token.LSS || be.Op == token.GTR) && c02Obj(f, lhs) == iObj {
						if call, ok := ast.Unparen(rhs).(*ast.CallExpr); ok && len(call.Args) == 1 {
							if b, ok := f.Callee(call).(*types.Builtin); ok && b.Name() == "len" {
								okFor = true
								rng, flowX = l, call.Args[0]
								loopVars = append(loopVars, iObj)
								loopVarDefs = 2 // init and post
								bodyKind, backKind = cfg.KindForBody, cfg.KindForPost
							}
						}
					}
				}
			}
		}
		if !okFor {
			c.Undecide("R-C02-2", cons+"|single forward loop", pos(c, l), "the flow loop is neither a range statement nor `for i := 0; i < len(flow); i++`")
			return
		}
	}
	if tv := f.Info.Types[flowX]; tv.Type == nil {
		c.Undecide("R-C02-2", cons+"|ranges over the flow", pos(c, rng), "the looped-over expression has no type")
		return
	} else if sl, isSlice := tv.Type.Underlying().(*types.Slice); !isSlice || !c02IsNamed(sl.Elem(), Mod+c02pl, "FlowNode") {
		c.Undecide("R-C02-2", cons+"|ranges over the flow", pos(c, rng), "the loop around Filter.Handle does not run over a []FlowNode")
		return
	}
	flowObj = c02Obj(f, d.alias(flowX))
	if flowObj == nil {
		c.Undecide("R-C02-2", cons+"|ranges over the flow", pos(c, rng), "cannot identify the ranged flow variable")
		return
	}
	// the ranged flow must be a parameter of the function (callers decide which flow)
	isParam := false
	for _, fl := range fd.Type.Params.List {
		for _, id := range fl.Names {
			if f.Info.Defs[id] == flowObj {
				isParam = true
			}
		}
	}
	if !isParam {
		if base, ok := d.fieldSel(flowX, a.fFlow); ok {
			_ = base // ranging over p.flow directly is also fine
			isParam = true
		}
	}
	shape(isParam, "ranges over the flow", "the loop does not range over the flow handed in by the caller (parameter or Pipeline flow field)", rng)
	shape(d.n[flowObj] <= 1 && !d.taken[flowObj], "flow not reassigned", "the ranged flow variable is reassigned in the flow function: iteration order need not be the configured order", rng)
	for _, o := range loopVars {
		shape(d.n[o] == loopVarDefs && !d.taken[o], "loop variable "+o.Name()+" not assigned", "the loop variable "+o.Name()+" is assigned inside the loop: the node indexed afterwards is not the node of this iteration (backward or repeated visit)", rng)
	}
	// the node of the iteration is derived from the loop variables only
	nodeFromLoop := false
	ast.Inspect(d.aliasDeep(nodeExpr), func(n ast.Node) bool {
		if id, ok := n.(*ast.Ident); ok {
			for _, o := range loopVars {
				if f.Info.Uses[id] == o {
					nodeFromLoop = true
				}
			}
		}
		return true
	})
	shape(nodeFromLoop, "node of this iteration", "the node whose filter is invoked is not selected by the loop variables of this iteration", handle)
	if shapeOK {
		c.Discharge("R-C02-2", cons+"|single forward loop", pos(c, rng), "one forward loop over the []FlowNode argument, loop variables and flow never assigned, no goto/closure/recursion")
	} else {
		return
	}

	// ---- role variables
	// result: assigned from the Handle call
	var resultObj, resultIn types.Object
	var resultID *ast.Ident
	// field form: the result is kept in a field of a run-state struct (`run.result = …Handle(..)`)
	var resPathExpr ast.Expr
	resPath := ""
	switch as := d.parent(handle).(type) {
	case *ast.AssignStmt:
		if len(as.Rhs) == 1 && len(as.Lhs) == 1 {
			resultIn = c02Obj(f, as.Lhs[0])
			resultID, _ = ast.Unparen(as.Lhs[0]).(*ast.Ident)
			if sel, ok := ast.Unparen(as.Lhs[0]).(*ast.SelectorExpr); ok && resultIn == nil && d.owner(handle) == f {
				if s := f.Info.Selections[sel]; s != nil && s.Kind() == types.FieldVal {
					if root, ok := ast.Unparen(sel.X).(*ast.Ident); ok && d.n[c02Obj(f, root)] == 1 && !d.taken[c02Obj(f, root)] {
						resPathExpr, resPath = sel, d.norm(sel)
						a.resField, _ = s.Obj().(*types.Var)
					}
				}
			}
		}
	case *ast.ValueSpec:
		if len(as.Names) == 1 && len(as.Values) == 1 {
			resultIn, resultID = f.Info.Defs[as.Names[0]], as.Names[0]
		}
	}
	isRes := func(e ast.Expr) bool {
		if resPath != "" {
			_, isSel := ast.Unparen(e).(*ast.SelectorExpr)
			return isSel && d.norm(e) == resPath
		}
		o := d.rootObj(e)
		return o != nil && (o == resultObj || o == resultIn)
	}
	if resultIn == nil && resPath == "" {
		if _, isRet := d.parent(handle).(*ast.ReturnStmt); isRet && a.siteFn != f {
			c.Undecide("R-C02-4", cons+"|returned result", pos(c, handle), "the helper returns Filter.Handle(..) directly; the result variable of the flow loop cannot be traced")
			return
		}
		c.Violate("R-C02-4", cons+"|returned result", pos(c, handle), "the result of Filter.Handle is not assigned to a variable: it can neither select a jump nor become the pipeline result")
		return
	}
	// the variable of the loop function that receives it (the helper's local handed out by return)
	if resPath == "" {
		resultObj, resultID = d.outward(resultIn, resultID)
		if o := d.owner(resultID); o != f {
			c.Undecide("R-C02-4", cons+"|returned result", pos(c, handle), "the result of Filter.Handle stays inside helper "+a.siteFn.Name+": cannot identify the loop function's result variable")
			return
		}
	}
	// function results by type
	strIdx, boolIdx := -1, -1
	sig := a.loopObj.Type().(*types.Signature)
	for i := 0; i < sig.Results().Len(); i++ {
		if b, ok := sig.Results().At(i).Type().Underlying().(*types.Basic); ok {
			if b.Kind() == types.String && strIdx < 0 {
				strIdx = i
			}
			if b.Kind() == types.Bool && boolIdx < 0 {
				boolIdx = i
			}
		}
	}
	flagEnum := false
	if boolIdx < 0 {
		boolIdx, flagEnum = c02FlagResult(sig)
	}
	fieldForm := resPath != "" && sig.Results().Len() == 0
	if !fieldForm && (strIdx < 0 || boolIdx < 0 || resPath != "") {
		c.Undecide("R-C02-3", cons+"|flow function hands out result and END flag", pos(c, fd), "the flow function neither returns (string, …, bool) nor keeps both in fields of a run-state struct")
		return
	}

	// next: assigned from N.JumpIf[result]
	var nextObj types.Object
	var nextID *ast.Ident
	var lookups []*ast.AssignStmt
	isLookup := func(as *ast.AssignStmt) bool {
		if len(as.Rhs) != 1 {
			return false
		}
		ix, ok := ast.Unparen(as.Rhs[0]).(*ast.IndexExpr)
		if !ok {
			return false
		}
		base, ok := d.fieldSel(ix.X, a.fJump)
		if !ok || d.norm(base) != N {
			return false
		}
		return isRes(ix.Index)
	}
	anyJumpIndex := 0
	for _, g := range d.funcs {
		ast.Inspect(g.Body, func(n ast.Node) bool {
			switch x := n.(type) {
			case *ast.AssignStmt:
				if isLookup(x) {
					lookups = append(lookups, x)
				}
			case *ast.IndexExpr:
				if _, ok := d.fieldSel(x.X, a.fJump); ok {
					anyJumpIndex++
				}
			}
			return true
		})
	}
	if len(lookups) == 0 {
		if anyJumpIndex > 0 {
			c.Violate("R-C02-3", cons+"|jump lookup", pos(c, handle), "JumpIf is indexed, but not as N.JumpIf[result] of the node just run with the result just returned: the jump target is taken from the wrong node or key")
		} else {
			c.Violate("R-C02-3", cons+"|jump lookup", pos(c, handle), "the flow loop never looks the result up in the node's JumpIf: a non-empty result can never jump")
		}
		return
	}
	nextIn := c02Obj(f, lookups[0].Lhs[0])
	nextInID, _ := ast.Unparen(lookups[0].Lhs[0]).(*ast.Ident)
	for _, l := range lookups[1:] {
		if c02Obj(f, l.Lhs[0]) != nextIn {
			c.Undecide("R-C02-3", cons+"|jump lookup", pos(c, l), "JumpIf lookups are assigned to different variables")
			return
		}
	}
	if nextIn == nil || nextInID == nil {
		c.Undecide("R-C02-3", cons+"|jump lookup", pos(c, lookups[0]), "the JumpIf lookup is not assigned to a variable")
		return
	}
	// the loop function's variable that carries the pending target across iterations
	nextObj, nextID = d.outward(nextIn, nextInID)
	var nextHelperCalls []*ast.CallExpr // calls in the reach whose result is handed to next
	if nextObj != nextIn {
		if d.owner(nextID) != f {
			c.Undecide("R-C02-3", cons+"|jump lookup", pos(c, lookups[0]), "the looked-up target stays inside a helper: cannot identify the loop function's pending-target variable")
			return
		}
		// every value the helper(s) hand out for it must be "" or the looked-up target
		cur := d.owner(nextInID)
		for cur != nil && cur != f {
			call := d.site[cur]
			as, _ := d.parent(call).(*ast.AssignStmt)
			if as == nil {
				break
			}
			nextHelperCalls = append(nextHelperCalls, call)
			for k, l := range as.Lhs {
				lo := c02Obj(f, l)
				if o, _ := d.outward(lo, nil); lo == nil || (o != nextObj && lo != nextObj) {
					continue
				}
				rets, ok := d.returnsOf(cur, k)
				for _, r := range rets {
					if v, isConst := c02ConstString(f, r); isConst && v == "" {
						continue
					}
					if ro, _ := d.outward(c02Obj(f, r), nil); ro != nil && ro == nextObj {
						continue
					}
					ok = false
				}
				if !ok {
					c.Undecide("R-C02-3", cons+"|jump lookup", pos(c, call), "helper "+cur.Name+" hands out a pending target that is neither \"\" nor the JumpIf lookup")
					return
				}
			}
			cur = d.siteFn[cur]
		}
	}
	c.Discharge("R-C02-3", cons+"|jump lookup", pos(c, lookups[0]), "next is assigned from N.JumpIf[result] of the node just run")

	rRes, rNext := "", f.Render(nextID)
	if resPath != "" {
		rRes = f.Render(resPathExpr)
	} else {
		rRes = f.Render(resultID)
	}
	kResEmpty := "eq:" + rRes + `==""`
	kNextEmpty := "eq:" + rNext + `==""`
	kNextEnd := "eq:" + rNext + "==" + a.endExact
	// the helper-local name of the looked-up target (facts learned inside the helper)
	kNextInEmpty := "eq:" + f.Render(nextInID) + `==""`
	kNextInEnd := "eq:" + f.Render(nextInID) + "==" + a.endExact
	isNext := func(e ast.Expr) bool {
		o := d.rootObj(e)
		if o == nil {
			return false
		}
		if o == nextObj {
			return true
		}
		oo, _ := d.outward(o, nil)
		return oo == nextObj && o != nextIn
	}

	// alias comparisons: next ==/!= <non-constant operand>, or switch next { case operand }
	type aliasCmp struct {
		key     string
		operand ast.Expr
		at      ast.Node
	}
	var aliasCmps []aliasCmp
	var endKeys []string // keys of "N.FilterName == END"
	cmpVisit := func(n ast.Node) bool {
		switch x := n.(type) {
		case *ast.BinaryExpr:
			if x.Op != token.EQL && x.Op != token.NEQ {
				return true
			}
			for _, pair := range [][2]ast.Expr{{x.X, x.Y}, {x.Y, x.X}} {
				l, r := pair[0], pair[1]
				if isNext(l) {
					if _, isConst := c02ConstString(f, r); !isConst {
						aliasCmps = append(aliasCmps, aliasCmp{f.EqKey(x.X, x.Y), r, x})
					}
				}
				if base, ok := d.fieldSel(l, a.fName); ok && d.norm(base) == N {
					if v, isConst := c02ConstString(f, r); isConst && v == a.endVal {
						endKeys = append(endKeys, f.EqKey(x.X, x.Y))
					}
				}
			}
		case *ast.SwitchStmt:
			if x.Tag == nil {
				return true
			}
			for _, cl := range x.Body.List {
				for _, e := range cl.(*ast.CaseClause).List {
					if isNext(x.Tag) {
						if _, isConst := c02ConstString(f, e); !isConst {
							aliasCmps = append(aliasCmps, aliasCmp{f.EqKey(x.Tag, e), e, e})
						}
					}
					if base, ok := d.fieldSel(x.Tag, a.fName); ok && d.norm(base) == N {
						if v, isConst := c02ConstString(f, e); isConst && v == a.endVal {
							endKeys = append(endKeys, f.EqKey(x.Tag, e))
						}
					}
				}
			}
		}
		return true
	}
	for _, g := range d.funcs {
		ast.Inspect(g.Body, cmpVisit)
	}
	// the operand compared with next must be the node's alias method applied to N
	for _, ac := range aliasCmps {
		call, isCall := d.alias(ac.operand).(*ast.CallExpr)
		var m *types.Func
		if isCall {
			m, _ = f.Callee(call).(*types.Func)
		}
		okAlias := false
		if m != nil {
			if sel, ok := ast.Unparen(call.Fun).(*ast.SelectorExpr); ok && d.norm(sel.X) == N {
				if r := m.Type().(*types.Signature).Recv(); r != nil && c02IsNamed(r.Type(), Mod+c02pl, "FlowNode") {
					okAlias = true
					if a.aliasFn == nil {
						a.aliasFn = m
					} else if a.aliasFn != m {
						okAlias = false
					}
				}
			}
		}
		c.Check(okAlias, "R-C02-3", cons+"|jump target compared with the node's alias", pos(c, ac.at),
			"the pending jump target is compared with a FlowNode naming method applied to the node of this iteration",
			"the pending jump target is compared with `"+types.ExprString(ac.operand)+"`, which is not a FlowNode naming method applied to the node of this iteration: validation counts targets by alias, so a validated jump to an aliased node is never taken (every later filter is skipped)")
	}

	// ---- assignments to result (R-C02-4, static half)
	resWritersOK := true
	var checkWriters func(o types.Object, depth int)
	seenW := map[types.Object]bool{}
	checkWriters = func(o types.Object, depth int) {
		if o == nil || seenW[o] || depth > 4 {
			return
		}
		seenW[o] = true
		if d.taken[o] {
			resWritersOK = false
			c.Violate("R-C02-4", cons+"|writers of the result variable", pos(c, fd), "the result variable has its address taken or is assigned in a closure")
		}
		for _, g := range d.funcs {
			for _, as := range c02Assigns(f, g.Body, o) {
				for i, l := range as.Lhs {
					if c02Obj(f, l) != o {
						continue
					}
					good := false
					var r ast.Expr
					idx := 0
					if len(as.Lhs) == len(as.Rhs) {
						r = ast.Unparen(as.Rhs[i])
					} else if len(as.Rhs) == 1 {
						r, idx = ast.Unparen(as.Rhs[0]), i
					}
					if r != nil {
						if v, ok := c02ConstString(f, r); ok && v == "" {
							good = true
						}
						if r == ast.Expr(handle) {
							good = true
						}
						// a helper that hands out "" or the variable assigned from Handle
						if call, ok := r.(*ast.CallExpr); ok && !good {
							if h := d.calleeOf(call); h != nil {
								if rets, ok := d.returnsOf(h, idx); ok {
									good = true
									for _, x := range rets {
										if v, isConst := c02ConstString(f, x); isConst && v == "" {
											continue
										}
										ro := c02Obj(f, x)
										if ro == nil {
											good = false
											break
										}
										if d.rootObj(x) == o {
											continue // the caller's own value passed through
										}
										checkWriters(ro, depth+1)
									}
								}
							}
						}
					}
					if !good {
						resWritersOK = false
						c.Violate("R-C02-4", cons+"|writers of the result variable", pos(c, as), "the result variable is assigned something other than \"\" or the value returned by Filter.Handle: the pipeline result is no longer the result of the last filter run")
					}
				}
			}
		}
	}
	if resPath == "" {
		checkWriters(resultObj, 0)
	} else {
		// field form: every assignment to that field of the run state, in the reach
		for _, g := range d.funcs {
			ast.Inspect(g.Body, func(n ast.Node) bool {
				as, ok := n.(*ast.AssignStmt)
				if !ok {
					return true
				}
				for i, l := range as.Lhs {
					if !isRes(l) {
						continue
					}
					good := false
					if len(as.Lhs) == len(as.Rhs) {
						r := ast.Unparen(as.Rhs[i])
						if v, ok := c02ConstString(f, r); ok && v == "" {
							good = true
						}
						if r == ast.Expr(handle) {
							good = true
						}
					}
					if !good {
						resWritersOK = false
						c.Violate("R-C02-4", cons+"|writers of the result variable", pos(c, as), "the result field is assigned something other than \"\" or the value returned by Filter.Handle: the pipeline result is no longer the result of the last filter run")
					}
				}
				return true
			})
		}
	}
	if resWritersOK {
		c.Discharge("R-C02-4", cons+"|writers of the result variable", pos(c, handle), "result is written only by its \"\" initialisation and by Filter.Handle")
	}

	// ---- the path-sensitive part
	useNS := "(*" + Mod + "pkg/context.Context).UseNamespace"
	const (
		evIn      = "ev:inbody"
		evHandled = "ev:handled"
		evNS      = "ev:ns"
		evLookup  = "ev:lookup"
		evTouched = "ev:touched"
	)
	type bad struct {
		what, why string
		st        *flow.State
	}
	var bads []bad
	addBad := func(what, why string, st *flow.State) {
		for _, b := range bads {
			if b.what == what {
				return
			}
		}
		bads = append(bads, bad{what, why, st})
	}
	isTrue := func(st *flow.State, keys []string) bool {
		for _, k := range keys {
			if st.Is(k, flow.True) {
				return true
			}
		}
		return false
	}
	// the keys name the same comparison in the vocabularies of the loop function and of helpers:
	// false when at least one is known false and none is known true
	isFalseAll := func(st *flow.State, keys []string) bool {
		anyFalse := false
		for _, k := range keys {
			switch st.Get(k) {
			case flow.True:
				return false
			case flow.False:
				anyFalse = true
			}
		}
		return anyFalse
	}
	var aliasKeys []string
	for _, ac := range aliasCmps {
		aliasKeys = append(aliasKeys, ac.key)
	}
	// Parameters of helpers that are bound to next / result (`func pending(next, alias string) bool`):
	// what a helper's return expression establishes is learned under the parameter's name. Those
	// facts speak about the loop variable as long as it has not been assigned since the call
	// (ev:…Dirty is set by every assignment and cleared when such a helper is entered).
	const (
		evNextDirty = "ev:nextDirty"
		evResDirty  = "ev:resultDirty"
	)
	paramRenders := func(target types.Object) []string {
		var out []string
		for _, g := range d.funcs[1:] {
			if d.site[g] == nil || g.Type.Params == nil {
				continue
			}
			for _, fld := range g.Type.Params.List {
				for _, id := range fld.Names {
					if o := f.Info.Defs[id]; o != nil && o != target && d.n[o] == 1 && d.rootObj(id) == target {
						out = append(out, f.Render(id))
					}
				}
			}
		}
		return out
	}
	nextParams := paramRenders(nextObj)
	var resParams []string
	if resultObj != nil {
		resParams = paramRenders(resultObj)
	}
	viaParams := func(st *flow.State, k, outer string, params []string, dirty string) flow.Val {
		if len(params) == 0 || st.Is(dirty, flow.True) || !strings.HasPrefix(k, "eq:"+outer+"==") {
			return flow.Unknown
		}
		for _, pr := range params {
			if v := st.Get("eq:" + pr + "==" + k[len("eq:"+outer+"=="):]); v != flow.Unknown {
				return v
			}
		}
		return flow.Unknown
	}
	val := func(st *flow.State, k string) flow.Val {
		// next=="" implies next!=END and vice versa
		v := st.Get(k)
		if v != flow.Unknown {
			return v
		}
		if v := viaParams(st, k, rNext, nextParams, evNextDirty); v != flow.Unknown {
			return v
		}
		if v := viaParams(st, k, rRes, resParams, evResDirty); v != flow.Unknown {
			return v
		}
		if k == kNextEnd && viaParams(st, kNextEmpty, rNext, nextParams, evNextDirty) == flow.True ||
			k == kNextEmpty && viaParams(st, kNextEnd, rNext, nextParams, evNextDirty) == flow.True {
			return flow.False
		}
		if k == kNextEnd && st.Is(kNextEmpty, flow.True) || k == kNextEmpty && st.Is(kNextEnd, flow.True) {
			return flow.False
		}
		// the pending target was handed out by a helper in this iteration (ev:lookup is reset by
		// any other assignment): what the helper learned about its local holds for it
		if nextObj != nextIn && st.Is("ev:lookup", flow.True) {
			ki, ko := "", ""
			switch k {
			case kNextEmpty:
				ki, ko = kNextInEmpty, kNextInEnd
			case kNextEnd:
				ki, ko = kNextInEnd, kNextInEmpty
			}
			if ki != "" {
				if v := st.Get(ki); v != flow.Unknown {
					return v
				}
				if st.Is(ko, flow.True) {
					return flow.False
				}
			}
		}
		return flow.Unknown
	}
	iterations, skips := 0, 0
	nsCalls := 0
	// sawEnd: the variable returned as the bool result (if the function keeps one)
	var sawID *ast.Ident
	sawKey, sawName := "", ""
	if fieldForm {
		// the END flag: the bool field of the same run state that is assigned a constant
		var sawExpr ast.Expr
		ambiguous := false
		ast.Inspect(f.Body, func(n ast.Node) bool {
			as, ok := n.(*ast.AssignStmt)
			if !ok || len(as.Lhs) != len(as.Rhs) {
				return true
			}
			for i, l := range as.Lhs {
				sel, ok := ast.Unparen(l).(*ast.SelectorExpr)
				if !ok || d.norm(sel.X) != d.norm(resPathExpr.(*ast.SelectorExpr).X) {
					continue
				}
				tv := f.Info.Types[as.Rhs[i]]
				if b, isB := f.Info.Types[l].Type.Underlying().(*types.Basic); !isB || b.Kind() != types.Bool || tv.Value == nil {
					continue
				}
				if sawExpr != nil && d.norm(sawExpr) != d.norm(l) {
					ambiguous = true
				}
				sawExpr = l
			}
			return true
		})
		if sawExpr == nil || ambiguous {
			c.Undecide("R-C02-3", cons+"|END is reported to the caller", pos(c, fd), "cannot identify the field of the run state that reports END")
			return
		}
		sawKey, sawName = f.VarKey(sawExpr), types.ExprString(sawExpr)
		if s := f.Info.Selections[ast.Unparen(sawExpr).(*ast.SelectorExpr)]; s != nil {
			a.sawField, _ = s.Obj().(*types.Var)
		}
	}
	ast.Inspect(f.Body, func(n ast.Node) bool {
		switch x := n.(type) {
		case *ast.FuncLit:
			return false
		case *ast.ReturnStmt:
			if boolIdx >= 0 && len(x.Results) > boolIdx {
				if o := c02Obj(f, x.Results[boolIdx]); o != nil {
					if _, isVar := o.(*types.Var); isVar {
						sawID = ast.Unparen(x.Results[boolIdx]).(*ast.Ident)
					}
				}
			}
		}
		return true
	})
	if sawID != nil {
		sawKey, sawName = f.VarKey(sawID), sawID.Name
	}
	saw := c02Flag{key: sawKey}
	if flagEnum {
		// the flag is an enum: "ended" is the one constant it is assigned besides its initial value
		if sawID == nil {
			c.Undecide("R-C02-3", cons+"|END is reported to the caller", pos(c, fd), "the flow function reports END through an enum result without keeping it in a variable")
			return
		}
		so := c02Obj(f, sawID)
		initVal, vals := "", map[string]bool{}
		okEnum := true
		ast.Inspect(f.Body, func(n ast.Node) bool {
			switch x := n.(type) {
			case *ast.AssignStmt:
				for i, l := range x.Lhs {
					if c02Obj(f, l) != so {
						continue
					}
					if len(x.Lhs) != len(x.Rhs) || f.Info.Types[x.Rhs[i]].Value == nil {
						okEnum = false
						continue
					}
					v := f.Info.Types[x.Rhs[i]].Value.ExactString()
					if x.Tok == token.DEFINE && initVal == "" {
						initVal = v
					} else {
						vals[v] = true
					}
				}
			case *ast.ValueSpec:
				for i, id := range x.Names {
					if f.Info.Defs[id] == so {
						initVal = "0"
						if i < len(x.Values) && f.Info.Types[x.Values[i]].Value != nil {
							initVal = f.Info.Types[x.Values[i]].Value.ExactString()
						}
					}
				}
			}
			return true
		})
		delete(vals, initVal)
		if !okEnum || initVal == "" || len(vals) != 1 || d.taken[so] {
			c.Undecide("R-C02-3", cons+"|END is reported to the caller", pos(c, fd), "the flow function reports END through an enum whose 'ended' value cannot be identified (expected: an initial constant and exactly one other constant assigned)")
			return
		}
		for v := range vals {
			a.endedExact = v
		}
		saw = c02FlagOf(f, sawID, a.endedExact)
		sawKey = saw.key
	}
	// When Handle sits in a helper, the facts of the loop function are judged where the helper is
	// entered (the helper cannot assign the loop function's locals) and remembered as events.
	const (
		evSnapPending = "ev:snap:pendingOK"
		evSnapNotEnd  = "ev:snap:notEnd"
		evSnapSawF    = "ev:snap:sawEndFalse"
		// established by a branch earlier in this iteration; remembered as events because the node
		// of the iteration and (until it is assigned) the pending target do not change within an
		// iteration, whereas the engine forgets facts about `node` when a helper taking it is entered
		evNotEnd    = "ev:iter:notEnd"
		evPendingOK = "ev:iter:pendingOK"
	)
	isNextHelperCall := func(e ast.Expr) bool {
		for _, call := range nextHelperCalls {
			if ast.Unparen(e) == ast.Expr(call) {
				return true
			}
		}
		return false
	}
	onChain := func(e ast.Expr) bool { // the Handle call or a call through which it is reached
		var n ast.Node = handle
		for i := 0; i < 6 && n != nil; i++ {
			if ast.Unparen(e) == n {
				return true
			}
			g := d.owner(n)
			if g == nil || g == f {
				return false
			}
			if call := d.site[g]; call != nil {
				n = call
			} else {
				return false
			}
		}
		return false
	}
	res := analyze(c, f, flow.Config{
		NoHavoc: true,
		Inline:  inlineSamePkg(f),
		OnBlock: func(st *flow.State, b *cfg.Block) {
			if b.Stmt != rng {
				return
			}
			switch b.Kind {
			case bodyKind:
				st.Set(evIn, flow.True)
				st.Set(evHandled, flow.False)
				st.Set(evNS, flow.False)
				st.Set(evLookup, flow.False)
				st.Set(evTouched, flow.False)
				st.Set(evNotEnd, flow.False)
				st.Set(evPendingOK, flow.False)
				st.Set(evSnapPending, flow.False)
				st.Set(evSnapNotEnd, flow.False)
				st.Set(evSnapSawF, flow.False)
				// what was learned about the previous node's alias says nothing about this node
				for _, k := range aliasKeys {
					st.Set(k, flow.Unknown)
				}
			case backKind:
				if !st.Is(evIn, flow.True) {
					return
				}
				// an iteration ended and the loop goes on
				if st.Is(evHandled, flow.True) {
					iterations++
					d1 := val(st, kResEmpty) == flow.True && val(st, kNextEmpty) == flow.True
					d2 := val(st, kResEmpty) == flow.False && st.Is(evLookup, flow.True) &&
						val(st, kNextEmpty) == flow.False && val(st, kNextEnd) == flow.False
					if !d1 && !d2 {
						why := "after a filter ran, the loop continues in a state that is neither (result==\"\" ∧ next==\"\") nor (result!=\"\" ∧ next==JumpIf[result] ∧ next!=\"\" ∧ next!=END)"
						switch {
						case val(st, kResEmpty) == flow.True:
							why += ": with an empty result a stale jump target stays pending, so the following filters are skipped instead of run"
						case val(st, kResEmpty) == flow.False && !st.Is(evLookup, flow.True):
							why += ": a non-empty result does not select next from the node's JumpIf"
						case val(st, kResEmpty) == flow.False && val(st, kNextEmpty) != flow.False:
							why += ": a non-empty result that is not mapped by jumpIf does not end the pipeline — the next filter in the flow runs"
						case val(st, kResEmpty) == flow.False && val(st, kNextEnd) != flow.False:
							why += ": a result mapped to END does not end the pipeline — the loop goes on looking for a node called END"
						default:
							why += ": the result of the filter was not tested"
						}
						addBad("continue after a filter ran", why, st)
					}
				} else {
					skips++
					just := val(st, kNextEmpty) == flow.False && len(aliasKeys) > 0 && isFalseAll(st, aliasKeys)
					if !just {
						why := "a node is passed over without running its filter although no jump to another node is pending (next==\"\" or next==alias)"
						if isTrue(st, endKeys) {
							why = "an END node that is reached (not jumped over) does not end the pipeline: the nodes after END run"
						}
						addBad("node passed over only while jumping", why, st)
					}
					if st.Is(evTouched, flow.True) {
						addBad("passed-over node changes nothing", "an iteration that does not run its filter assigns result or next: the pending jump target or the pipeline result is lost", st)
					}
				}
				st.Set(evIn, flow.False)
			}
		},
		AfterAssume: func(st *flow.State, cond ast.Expr, outcome bool) {
			if !st.Is(evIn, flow.True) {
				return
			}
			if len(endKeys) > 0 && isFalseAll(st, endKeys) {
				st.Set(evNotEnd, flow.True)
			}
			if val(st, kNextEmpty) == flow.True || isTrue(st, aliasKeys) {
				st.Set(evPendingOK, flow.True)
			}
		},
		OnCall: func(st *flow.State, call *ast.CallExpr, callee types.Object, deferred bool) {
			if call == handle {
				st.Set(evHandled, flow.True)
				st.Set(evLookup, flow.False)
				return
			}
			if h := d.calleeOf(call); h != nil {
				for _, arg := range call.Args {
					switch d.rootObj(arg) {
					case nextObj:
						st.Set(evNextDirty, flow.False)
					case resultObj:
						if resultObj != nil {
							st.Set(evResDirty, flow.False)
						}
					}
				}
			}
			if ast.Node(call) == hs && st.Is(evIn, flow.True) {
				st.Set(evSnapPending, boolToVal(val(st, kNextEmpty) == flow.True || isTrue(st, aliasKeys)))
				st.Set(evSnapNotEnd, boolToVal(len(endKeys) > 0 && isFalseAll(st, endKeys)))
				st.Set(evSnapSawF, boolToVal(saw.is(st, flow.False)))
			}
			if fo, ok := callee.(*types.Func); ok && fo.FullName() == useNS {
				good := false
				if len(call.Args) == 1 {
					if base, ok := d.fieldSel(call.Args[0], a.fNS); ok && d.norm(base) == N {
						if sel, ok := ast.Unparen(call.Fun).(*ast.SelectorExpr); ok && d.norm(sel.X) == ctxN {
							good = true
						}
					}
				}
				st.Set(evNS, boolToVal(good))
			}
		},
		OnNode: func(st *flow.State, n ast.Node) {
			as, ok := n.(*ast.AssignStmt)
			if !ok {
				return
			}
			for i, l := range as.Lhs {
				lo := c02Obj(f, l)
				if lo == nil && !(resPath != "" && isRes(l)) {
					continue
				}
				switch {
				case lo == nextObj || lo == nextIn:
					st.Set(evNextDirty, flow.True)
					st.Set(evPendingOK, flow.False)
					switch {
					case isLookup(as) && i == 0:
						st.Set(evLookup, flow.True)
					case len(as.Rhs) == 1 && isNextHelperCall(as.Rhs[0]):
						// decided by the assignments inside the helper, which follow
					default:
						st.Set(evLookup, flow.False)
					}
					if !st.Is(evHandled, flow.True) && st.Is(evIn, flow.True) {
						st.Set(evTouched, flow.True)
					}
				case (lo != nil && (lo == resultObj || lo == resultIn)) || (lo == nil && isRes(l)):
					st.Set(evResDirty, flow.True)
					if !(len(as.Rhs) == 1 && onChain(as.Rhs[0])) && st.Is(evIn, flow.True) && !st.Is(evHandled, flow.True) {
						st.Set(evTouched, flow.True)
					}
				}
			}
		},
	})
	if res == nil {
		return
	}
	for _, g := range d.funcs {
		for _, call := range calls(g.Body, true) {
			if calleeFull(f, call) == useNS {
				nsCalls++
			}
		}
	}

	// at the Handle call
	states := res.At[handle]
	if len(states) == 0 {
		c.Violate("R-C02-3", cons+"|Handle reachable", pos(c, handle), "Filter.Handle is unreachable in the flow loop: no filter ever runs")
		return
	}
	var badNS, badPending, badEnd, badSaw *flow.State
	for _, st := range states {
		if !st.Is(evNS, flow.True) && badNS == nil {
			badNS = st
		}
		viaHelper := ast.Node(handle) != hs
		if !(val(st, kNextEmpty) == flow.True || isTrue(st, aliasKeys) || st.Is(evPendingOK, flow.True) || (viaHelper && st.Is(evSnapPending, flow.True))) && badPending == nil {
			badPending = st
		}
		if !((len(endKeys) > 0 && isFalseAll(st, endKeys)) || st.Is(evNotEnd, flow.True) || (viaHelper && st.Is(evSnapNotEnd, flow.True))) && badEnd == nil {
			badEnd = st
		}
		if sawKey != "" && !(saw.is(st, flow.False) || (viaHelper && st.Is(evSnapSawF, flow.True))) && badSaw == nil {
			badSaw = st
		}
	}
	nsWhy := "Filter.Handle is reachable without ctx.UseNamespace(N.Namespace) having been called for the node of this iteration: the filter reads and writes the requests/responses of the previous node's namespace (or the default one)"
	if nsCalls == 0 {
		nsWhy = "the flow loop never calls ctx.UseNamespace: every filter runs in the default namespace whatever the flow node configures"
	}
	c.Check(badNS == nil, "R-C02-1", cons+"|namespace before Handle", pos(c, handle),
		sprintf("all %d abstract states reaching Handle have called ctx.UseNamespace(%s.Namespace) in this iteration", len(states), N), nsWhy, witness(badNS)...)
	c.Check(badPending == nil, "R-C02-3", cons+"|Handle only when no other jump target is pending", pos(c, handle),
		sprintf("all %d states at Handle have next==\"\" or next==alias(N)", len(states)),
		"a filter runs although a jump to another node is pending: the nodes between the jumping node and its target are not skipped", witness(badPending)...)
	endWhy := "Filter.Handle is reachable for a node whose filter name is END (built-in, no filter instance bound): nil dereference instead of ending the pipeline"
	if len(endKeys) == 0 {
		endWhy = "the flow loop never tests the node's filter name against BuiltInFilterEnd: an END node does not end the pipeline (its nil filter is invoked)"
	}
	c.Check(badEnd == nil, "R-C02-3", cons+"|Handle never on an END node", pos(c, handle),
		sprintf("all %d states at Handle have N.FilterName != END", len(states)), endWhy, witness(badEnd)...)
	if sawKey != "" {
		c.Check(badSaw == nil, "R-C02-3", cons+"|no Handle once END was seen", pos(c, handle),
			sprintf("all %d states at Handle have %s == false", len(states), sawName),
			"a filter runs after the flow recorded END (sawEnd is true): something runs after END", witness(badSaw)...)
	}
	c.RequireCount("R-C02-3", "abstract iterations that ran a filter and continue", iterations, 1)
	c.Count("R-C02-3:abstract iterations that pass a node over", skips) // protective construct: no vacuity guard

	for _, what := range []string{"continue after a filter ran", "node passed over only while jumping", "passed-over node changes nothing"} {
		var hit *bad
		for i := range bads {
			if bads[i].what == what {
				hit = &bads[i]
			}
		}
		if hit == nil {
			c.Discharge("R-C02-3", cons+"|"+what, pos(c, rng), "holds in every abstract state at the loop's back edge")
		} else {
			c.Violate("R-C02-3", cons+"|"+what, pos(c, rng), hit.why, witness(hit.st)...)
		}
	}

	// exits: decision table
	var badEarly, badEarlyVal, badDoneVal, badRet, badEndJump *flow.Exit
	early, done := 0, 0
	for _, ex := range res.Exits {
		if ex.Kind != flow.ExitReturn {
			continue
		}
		st := ex.State
		bv := flow.Unknown
		if fieldForm {
			// the outputs are the fields themselves
			bv = saw.get(st)
		} else {
			if ex.Return == nil || len(ex.Return.Results) != sig.Results().Len() {
				badRet = ex
				continue
			}
			if c02Obj(f, ex.Return.Results[strIdx]) != resultObj {
				badRet = ex
			}
			be := ex.Return.Results[boolIdx]
			if tv := f.Info.Types[be]; tv.Value != nil {
				if flagEnum {
					bv = boolToVal(tv.Value.ExactString() == a.endedExact)
				} else {
					bv = boolToVal(constant.BoolVal(tv.Value))
				}
			} else if id, ok := ast.Unparen(be).(*ast.Ident); ok {
				bv = c02FlagOf(f, id, a.endedExact).get(st)
			}
		}
		if st.Is(evIn, flow.True) {
			early++
			jEnd := isTrue(st, endKeys) && !st.Is(evHandled, flow.True)
			jRes := st.Is(evHandled, flow.True) && val(st, kResEmpty) == flow.False && st.Is(evLookup, flow.True) &&
				(val(st, kNextEmpty) == flow.True || val(st, kNextEnd) == flow.True)
			if !jEnd && !jRes && badEarly == nil {
				badEarly = ex
			}
			// an END node ends the flow only when it is *reached*: with a jump to another
			// node pending it lies between the jumping node and its target and is skipped
			if jEnd && !(val(st, kNextEmpty) == flow.True || isTrue(st, aliasKeys) || st.Is(evPendingOK, flow.True)) && badEndJump == nil {
				badEndJump = ex
			}
			if bv != flow.True && badEarlyVal == nil {
				badEarlyVal = ex
			}
		} else {
			done++
			if bv != flow.False && badDoneVal == nil {
				badDoneVal = ex
			}
		}
	}
	exw := func(ex *flow.Exit) []string {
		if ex == nil {
			return nil
		}
		return append([]string{"exit at " + pos(c, ex.At)}, witness(ex.State)...)
	}
	c.Count("R-C02-3:abstract exits leaving the loop early", early) // protective construct: no vacuity guard
	c.RequireCount("R-C02-3", "abstract exits after the flow is exhausted", done, 1)
	c.Check(badEarly == nil, "R-C02-3", cons+"|loop left early only at END or unmapped/END-mapped result", pos(c, rng),
		sprintf("%d early exits, each at an END node or with result!=\"\" ∧ (JumpIf[result]==\"\" ∨ ==END)", early),
		"the flow loop is left before the flow is exhausted on a path that is neither an END node nor a non-empty result that is unmapped or mapped to END: the remaining filters do not run", exw(badEarly)...)
	c.Check(badEndJump == nil, "R-C02-3", cons+"|END node jumped over while another target is pending", pos(c, rng),
		"every exit at an END node has next==\"\" or next==alias(N): an END node between a jumping node and its target is skipped like any other node",
		"the flow ends at an END node although a jump to another node is pending (neither next==\"\" nor next==alias(N) is established when the END test fires): an END node lying between a jumping filter and its jumpIf target stops the pipeline instead of being skipped, the target never runs and END is reported to the caller", exw(badEndJump)...)
	c.Check(badEarlyVal == nil, "R-C02-3", cons+"|END is reported to the caller", pos(c, rng),
		"every early exit returns sawEnd == true",
		"the flow ends at END / an unmapped result but does not report it (bool result not true): the caller goes on with the main/after flow although the pipeline ended", exw(badEarlyVal)...)
	c.Check(badDoneVal == nil, "R-C02-3", cons+"|exhausted flow does not report END", pos(c, rng),
		"every exit after exhausting the flow returns sawEnd == false",
		"the flow was run to its end without END, but the bool result is not false: the caller skips the main/after flow", exw(badDoneVal)...)
	c.Check(badRet == nil, "R-C02-4", cons+"|returned result", pos(c, fd),
		"every return hands back the variable assigned from Filter.Handle",
		"a return statement of the flow function does not return the variable assigned from Filter.Handle as its string result: the pipeline result is not the result of the last filter run", exw(badRet)...)

	// R-C02-1 second half: UseNamespace call sites and writers of Context.activeNs
	c02Namespace(c, a, useNS)
}

func firstNode(ns []ast.Node, dflt ast.Node) ast.Node {
	if len(ns) > 0 {
		return ns[0]
	}
	return dflt
}

func boolToVal(b bool) flow.Val {
	if b {
		return flow.True
	}
	return flow.False
}

// aliasDeep returns e with its root identifier resolved (for inspection of what a value is
// derived from).
func (d *c02Defs) aliasDeep(e ast.Expr) ast.Expr {
	for i := 0; i < 8; i++ {
		e = d.alias(e)
		switch x := e.(type) {
		case *ast.UnaryExpr:
			e = x.X
			continue
		case *ast.StarExpr:
			e = x.X
			continue
		}
		break
	}
	return e
}

// c02Namespace: no other code switches the active namespace.
func c02Namespace(c *core.Ctx, a *c02Anchors, useNS string) {
	actF := c02ActiveNsField(c)
	if actF == nil {
		return
	}
	sites, outside := 0, 0
	writers := 0
	// the flow loop and the helpers it reaches (the call may have been extracted with Handle)
	allowed := map[string]bool{a.loopCons: true}
	for _, g := range reach(a.loopFn, 3) {
		if fd, ok := g.Node.(*ast.FuncDecl); ok {
			allowed[declName(g.Pkg, fd)] = true
		}
	}
	eachFunc(c, func(pkg *packages.Package, fd *ast.FuncDecl) {
		f := flow.NewFunc(pkg, fd)
		name := declName(pkg, fd)
		for _, call := range calls(fd.Body, true) {
			if calleeFull(f, call) == useNS {
				sites++
				if !allowed[name] {
					outside++
					c.Violate("R-C02-1", name+"|UseNamespace call", pos(c, call), "ctx.UseNamespace is called outside the flow loop: the namespace a filter runs in can differ from the one its flow node configures")
				}
			}
		}
		ast.Inspect(fd.Body, func(n ast.Node) bool {
			as, ok := n.(*ast.AssignStmt)
			if !ok {
				return true
			}
			for _, l := range as.Lhs {
				if sel, ok := ast.Unparen(l).(*ast.SelectorExpr); ok {
					if s := pkg.TypesInfo.Selections[sel]; s != nil && s.Obj() == actF {
						writers++
						// a constructor initialising the value it has just created is not a switch of namespace
						fresh := false
						if id, ok := ast.Unparen(sel.X).(*ast.Ident); ok {
							dd := c02NewDefs(f)
							if o := c02Obj(f, id); o != nil && dd.n[o] == 1 && dd.rhs[o] != nil {
								r := ast.Unparen(dd.rhs[o])
								if u, ok := r.(*ast.UnaryExpr); ok && u.Op == token.AND {
									r = ast.Unparen(u.X)
								}
								if _, ok := r.(*ast.CompositeLit); ok {
									fresh = true
								}
								if call, ok := r.(*ast.CallExpr); ok {
									if b, ok := f.Callee(call).(*types.Builtin); ok && b.Name() == "new" {
										fresh = true
									}
								}
							}
						}
						if name != "pkg/context.(Context).UseNamespace" && !fresh {
							c.Violate("R-C02-1", name+"|write of Context.activeNs", pos(c, as), "Context.activeNs is written outside UseNamespace: the active namespace can change behind the pipeline's back")
						}
					}
				}
			}
			return true
		})
	})
	c.Count("R-C02-1:UseNamespace call sites", sites) // the call is the protective construct: 0 is a violation above, not a vacuity error
	c.RequireCount("R-C02-1", "assignments to Context.activeNs", writers, 1)
	if outside == 0 {
		c.Discharge("R-C02-1", "pkg/context.(Context).UseNamespace|only the flow loop switches namespaces", "pkg/context/context.go", sprintf("%d call site(s), all in the flow loop; %d writes of activeNs, all in UseNamespace", sites, writers))
	}
}
