package rules

import (
	"strings"

	"golang.org/x/tools/go/packages"
	"golang.org/x/tools/go/types/typeutil"

	"go/ast"
	"go/constant"
	"go/token"
	"go/types"

	"verif/internal/flow"
)

// ---------------------------------------------------------------------------------------
// R-C08-6 one record per admitted call

func c08Wrap(v *c08env) {
	c := v.c
	lookupVar := func(rel, name string) types.Object {
		pkg := c.Prog.Pkg(rel)
		if pkg == nil {
			c.Errorf("anchor: package %s not loaded", rel)
			return nil
		}
		o, _ := pkg.Types.Scope().Lookup(name).(*types.Var)
		if o == nil {
			c.Errorf("anchor: variable %s.%s not found", rel, name)
			return nil
		}
		return o
	}
	subjects := 0
	// the wrapper: the function (closure, method or plain function) of pkg/resilience that asks
	// the library breaker for permission — found by that call, whatever the wrapper type, its
	// field for the breaker, or the function itself are called
	if rsPkg := c.Prog.Pkg(c08rs); rsPkg == nil {
		c.Errorf("anchor: package %s not loaded", c08rs)
	} else if sentinel := lookupVar(c08rs, "ErrShortCircuited"); sentinel != nil {
		type subject struct {
			f     *flow.Func
			outer ast.Node
			cons  string
		}
		var subs []subject
		seen := map[ast.Node]bool{}
		front := c08front(v, rsPkg)
		c.Count("R-C08-6:interface methods in front of the breaker", len(front))
		bound := c08boundParams(v, rsPkg, front)
		c.Count("R-C08-6:function parameters bound to breaker methods", len(bound))
		for o, m := range bound {
			front[o] = m
		}
		for _, file := range rsPkg.Syntax {
			for _, d := range file.Decls {
				fd, ok := d.(*ast.FuncDecl)
				if !ok || fd.Body == nil {
					continue
				}
				g := flow.NewFunc(rsPkg, fd)
				// stack of enclosing function literals that are not deferred calls
				var lits []*ast.FuncLit
				deferred := map[*ast.FuncLit]bool{}
				var stack []ast.Node
				ast.Inspect(fd.Body, func(n ast.Node) bool {
					if n == nil {
						top := stack[len(stack)-1]
						stack = stack[:len(stack)-1]
						if l, ok := top.(*ast.FuncLit); ok && len(lits) > 0 && lits[len(lits)-1] == l {
							lits = lits[:len(lits)-1]
						}
						return true
					}
					stack = append(stack, n)
					switch x := n.(type) {
					case *ast.DeferStmt:
						if l, ok := ast.Unparen(x.Call.Fun).(*ast.FuncLit); ok {
							deferred[l] = true
						}
					case *ast.FuncLit:
						if !deferred[x] {
							lits = append(lits, x)
						}
					case *ast.CallExpr:
						callee := g.Callee(x)
						if m, ok := front[callee]; ok {
							callee = m
						}
						if callee == types.Object(v.meth["AcquirePermission"]) {
							if len(lits) > 0 {
								l := lits[len(lits)-1]
								if !seen[l] {
									seen[l] = true
									subs = append(subs, subject{g.Lit(l), fd.Body, declName(rsPkg, fd) + "$closure"})
								}
							} else if !seen[fd] {
								seen[fd] = true
								subs = append(subs, subject{g, fd.Body, declName(rsPkg, fd)})
							}
						}
					}
					return true
				})
			}
		}
		if len(subs) == 0 {
			c.Errorf("R-C08-6: anchor: no function of %s calls CircuitBreaker.AcquirePermission", c08rs)
		}
		for _, sb := range subs {
			subjects++
			c.Count("functions_analysed", 1)
			sf := sb.f
			defs := c08collectDefs(sf, sb.outer)
			// the handler: a function value returning error that comes from outside (a
			// parameter, a captured variable, a struct field) — not a closure defined here
			isHandler := func(o types.Object) bool {
				vr, ok := o.(*types.Var)
				if !ok || vr.Pkg() == nil || (!vr.IsField() && vr.Parent() == vr.Pkg().Scope()) {
					return false
				}
				sig, ok := vr.Type().Underlying().(*types.Signature)
				if !ok || sig.Results().Len() != 1 || !c08isErrorT(sig.Results().At(0).Type()) {
					return false
				}
				for _, dd := range defs[vr] {
					if dd == nil {
						continue
					}
					if _, isLit := ast.Unparen(dd).(*ast.FuncLit); isLit {
						return false
					}
				}
				return true
			}
			c08oneRecord(v, sf, sb.outer, sb.cons, isHandler, sentinel, front)
		}
	}
	if f := fnOpt(c, c08cb, "CircuitBreaker", "Execute"); f != nil {
		var handler types.Object
		if f.Type.Params != nil {
			for _, fl := range f.Type.Params.List {
				for _, n := range fl.Names {
					if o := f.Info.Defs[n]; o != nil && handler == nil {
						if _, isSig := o.Type().Underlying().(*types.Signature); isSig {
							handler = o
						}
					}
				}
			}
		}
		sentinel := lookupVar(c08cb, "ErrRejected")
		if handler != nil && sentinel != nil {
			subjects++
			c08oneRecord(v, f, f.Body, fname(c08cb, "CircuitBreaker", "Execute"), func(o types.Object) bool { return o == handler }, sentinel, nil)
		}
	}
	c.RequireCount("R-C08-6", "call wrappers around the breaker", subjects, 1)
}

// c08via resolves a callee through single-assignment locals: a method value
// (record := w.RecordResult; record(..)), a function value (h := handler; h(ctx)).
func c08via(f *flow.Func, defs c08defs, o types.Object) types.Object {
	for i := 0; i < 3; i++ {
		vr, ok := o.(*types.Var)
		if !ok || vr.IsField() {
			return o
		}
		ds := defs[vr]
		if len(ds) != 1 || ds[0] == nil {
			return o
		}
		switch d := ast.Unparen(ds[0]).(type) {
		case *ast.SelectorExpr:
			if s := f.Info.Selections[d]; s != nil {
				if s.Kind() == types.MethodVal {
					return s.Obj()
				}
				return o
			}
			if u := f.Info.Uses[d.Sel]; u != nil {
				o = u
				continue
			}
		case *ast.Ident:
			if u := f.Info.Uses[d]; u != nil {
				o = u
				continue
			}
		}
		return o
	}
	return o
}

func c08oneRecord(v *c08env, f *flow.Func, outer ast.Node, cons string, isHandler func(types.Object) bool, sentinel types.Object, front map[types.Object]types.Object) {
	c := v.c
	body := f.Body
	defs := c08collectDefs(f, outer)
	via := func(o types.Object) types.Object {
		o = c08via(f, defs, o)
		if m, ok := front[o]; ok {
			return m // an interface in front of the breaker with the breaker as its only implementation
		}
		return o
	}
	var acqs, recs, hcalls []*ast.CallExpr
	for _, call := range calls(body, true) {
		switch o := via(f.Callee(call)); {
		case o == types.Object(v.meth["AcquirePermission"]):
			acqs = append(acqs, call)
		case o == types.Object(v.meth["RecordResult"]):
			recs = append(recs, call)
		case o != nil && isHandler(o):
			hcalls = append(hcalls, call)
		}
	}
	at := pos(c, body)
	if len(hcalls) == 0 {
		c.Errorf("R-C08-6: anchor: %s never invokes its handler", cons)
		return
	}
	if len(acqs) == 0 {
		for _, call := range calls(body, true) {
			if fo, ok := f.Callee(call).(*types.Func); ok {
				if recv := fo.Type().(*types.Signature).Recv(); recv != nil {
					t := recv.Type()
					if p, ok := t.(*types.Pointer); ok {
						t = p.Elem()
					}
					if types.Identical(t, v.cbT) {
						c.Undecide("R-C08-6", cons+"|handler only when admitted", at, "the wrapper delegates to CircuitBreaker."+fo.Name()+" instead of calling AcquirePermission/RecordResult itself")
						return
					}
				}
			}
		}
		c.Violate("R-C08-6", cons+"|handler only when admitted", at, "the handler is invoked without asking the breaker (no AcquirePermission): an Open breaker short-circuits nothing")
		return
	}
	if len(recs) == 0 {
		// recorded through a same-package helper? then the count/argument analysis below does
		// not apply as written: undecided, not violated
		for _, g := range reach(f, 3)[1:] {
			for _, call := range calls(g.Body, true) {
				if g.Callee(call) == types.Object(v.meth["RecordResult"]) {
					c.Undecide("R-C08-6", cons+"|admitted call records exactly once", at, "RecordResult is called from the helper "+g.Name+", not from the wrapper itself")
					return
				}
			}
		}
		c.Violate("R-C08-6", cons+"|admitted call records exactly once", at, "no result is ever recorded: the breaker can never open")
		return
	}
	// a record inside a function literal that is not deferred runs when that closure is called,
	// which the engine does not follow
	var litsND []*ast.FuncLit
	deferred := map[*ast.FuncLit]bool{}
	ast.Inspect(body, func(n ast.Node) bool {
		switch x := n.(type) {
		case *ast.DeferStmt:
			if l, ok := ast.Unparen(x.Call.Fun).(*ast.FuncLit); ok {
				deferred[l] = true
			}
		case *ast.FuncLit:
			if !deferred[x] {
				litsND = append(litsND, x)
			}
		}
		return true
	})
	heldLits := map[ast.Node]bool{} // closures held in single-assignment locals: interpreted in place
	for _, ds := range defs {
		if len(ds) == 1 && ds[0] != nil {
			if l, ok := ast.Unparen(ds[0]).(*ast.FuncLit); ok {
				heldLits[l] = true
			}
		}
	}
	for _, l := range litsND {
		if heldLits[l] {
			continue
		}
		for _, r := range recs {
			if contains(l.Body, r) {
				c.Undecide("R-C08-6", cons+"|admitted call records exactly once", pos(c, r), "RecordResult is called inside a function literal that is not a deferred call; when it runs is not followed")
				return
			}
		}
	}
	// permitted / stateID variables
	var permID, idID *ast.Ident
	ast.Inspect(body, func(n ast.Node) bool {
		if as, ok := n.(*ast.AssignStmt); ok && len(as.Rhs) == 1 && len(as.Lhs) == 2 && ast.Unparen(as.Rhs[0]) == ast.Expr(acqs[0]) {
			permID, _ = as.Lhs[0].(*ast.Ident)
			idID, _ = as.Lhs[1].(*ast.Ident)
		}
		return true
	})
	if permID == nil || idID == nil || permID.Name == "_" {
		c.Undecide("R-C08-6", cons+"|handler only when admitted", at, "the results of AcquirePermission are not assigned to two variables")
		return
	}
	permKey := f.VarKey(permID)
	idObj := c08obj(f, idID)
	// the variable receiving the handler's error
	var errID *ast.Ident
	ast.Inspect(body, func(n ast.Node) bool {
		if as, ok := n.(*ast.AssignStmt); ok && len(as.Rhs) == 1 && ast.Unparen(as.Rhs[0]) == ast.Expr(hcalls[0]) {
			for _, l := range as.Lhs {
				if id, ok := l.(*ast.Ident); ok && id.Name != "_" {
					if o := c08obj(f, id); o != nil && c08isErrorT(o.Type()) {
						errID = id
					}
				}
			}
		}
		return true
	})
	recIdx := map[*ast.CallExpr]int{}
	for i, r := range recs {
		recIdx[r] = i
	}
	res := analyze(c, f, flow.Config{
		NoHavoc:        true,
		Inline:         func(*ast.CallExpr, *types.Func) *flow.Func { return nil },
		InlineClosures: true,
		OnInline:       c08constParams(f),
		MayPanic: func(call *ast.CallExpr, callee types.Object) bool {
			o := via(callee)
			return o != nil && isHandler(o)
		},
		OnCall: func(st *flow.State, call *ast.CallExpr, callee types.Object, deferred bool) {
			switch o := via(callee); {
			case o == types.Object(v.meth["AcquirePermission"]):
				st.Set("ev:acq", flow.True)
			case o == types.Object(v.meth["RecordResult"]):
				c08bump(st, "rec")
			case o != nil && isHandler(o):
				st.Set("ev:handled", flow.True)
			}
		},
	})
	if res == nil {
		return
	}
	c08dump("wrap:"+cons, f, res)

	// A. the handler runs only for admitted calls
	vd := c08newVerdicts("h", "rej", "adm", "arg")
	for _, h := range hcalls {
		for _, st := range res.At[h] {
			vd.seen("h")
			if !st.Is("ev:acq", flow.True) || !st.Is(permKey, flow.True) {
				vd.fail("h", "the protected handler is invoked on a path on which the breaker has not admitted the call: a short-circuited call still reaches the backend", st)
			}
		}
	}
	c.Check(vd.bad["h"] == "" && vd.n["h"] > 0, "R-C08-6", cons+"|handler only when admitted", pos(c, hcalls[0]),
		sprintf("%d states at the handler call, all after AcquirePermission returned true", vd.n["h"]),
		func() string {
			if vd.bad["h"] != "" {
				return vd.bad["h"]
			}
			return "the handler call is unreachable"
		}(), vd.w["h"]...)

	// B. exits
	isSentinel := func(ex *flow.Exit) bool {
		if ex.Return == nil {
			return false
		}
		results := ex.Return.Results
		if len(results) == 0 && f.Type.Results != nil {
			for _, fl := range f.Type.Results.List {
				for _, n := range fl.Names {
					results = append(results, n)
				}
			}
		}
		for _, r := range results {
			r = ast.Unparen(r)
			if !c08isErrorT(f.Info.TypeOf(r)) {
				continue
			}
			switch x := r.(type) {
			case *ast.Ident:
				if c08obj(f, x) == sentinel {
					return true
				}
				if ex.State.Is("eq:"+f.Render(x)+"==@"+sentinel.Pkg().Path()+"."+sentinel.Name(), flow.True) {
					return true
				}
			case *ast.SelectorExpr:
				if f.Info.Uses[x.Sel] == sentinel {
					return true
				}
			}
		}
		return false
	}
	for _, ex := range res.Exits {
		st := ex.State
		if !st.Is("ev:acq", flow.True) {
			continue
		}
		n := c08count(st, "rec")
		switch st.Get(permKey) {
		case flow.False:
			vd.seen("rej")
			if n != 0 {
				vd.fail("rej", "a rejected call records a result: with a stale stateID it is dropped, with the current one short-circuited calls themselves feed the window", st)
			}
			if st.Is("ev:handled", flow.True) {
				vd.fail("rej", "the handler is invoked for a rejected call", st)
			}
			if ex.Kind == flow.ExitReturn && !isSentinel(ex) {
				vd.fail("rej", "a rejected call does not return "+sentinel.Name()+": the caller cannot tell a short circuit from a backend outcome", st)
			}
		case flow.True:
			vd.seen("adm")
			if n != 1 {
				kind := "normal return"
				if ex.Kind == flow.ExitPanic || st.Is(flow.Recovered, flow.True) {
					kind = "panic of the handler"
				}
				vd.fail("adm", sprintf("an admitted call records %d result(s) on the %s instead of exactly one: the window counts the call twice, or never sees it (half-open trials that never report keep the breaker HalfOpen)", n, kind), st)
			}
		default:
			vd.seen("adm")
			vd.fail("adm", "an exit after AcquirePermission does not depend on its answer", st)
		}
	}
	c.Check(vd.bad["rej"] == "" && vd.n["rej"] > 0, "R-C08-6", cons+"|rejected call: no record, no handler, sentinel error", at,
		sprintf("%d rejected exits return %s with zero records", vd.n["rej"], sentinel.Name()),
		func() string {
			if vd.bad["rej"] != "" {
				return vd.bad["rej"]
			}
			return "no exit handles a rejected call: AcquirePermission's answer is ignored"
		}(), vd.w["rej"]...)
	c.Check(vd.bad["adm"] == "" && vd.n["adm"] > 0, "R-C08-6", cons+"|admitted call records exactly once", at,
		sprintf("%d admitted exits (return and panic) each with exactly one RecordResult", vd.n["adm"]),
		func() string {
			if vd.bad["adm"] != "" {
				return vd.bad["adm"]
			}
			return "no admitted exit"
		}(), vd.w["adm"]...)

	// C. what is recorded
	for _, r := range recs {
		if len(r.Args) < 2 {
			continue
		}
		for _, st := range res.At[r] {
			vd.seen("arg")
			if id, ok := ast.Unparen(r.Args[0]).(*ast.Ident); !ok || c08obj(f, id) != idObj {
				vd.fail("arg", "RecordResult is not given the stateID returned by AcquirePermission: the result is discarded as stale (or attributed to the wrong state) and the breaker never opens", st)
			}
			if !st.Is(permKey, flow.True) {
				vd.fail("arg", "a result is recorded for a call that was not admitted", st)
			}
			arg := ast.Unparen(r.Args[1])
			panicking := st.Is(flow.Panicking, flow.True) || st.Is(flow.Recovered, flow.True)
			cv := c08constOf(f, arg)
			switch {
			case panicking:
				isTrue := cv != nil && cv.Kind() == constant.Bool && constant.BoolVal(cv)
				if id, isID := arg.(*ast.Ident); isID && cv == nil {
					// e.g. the parameter of a local record(failed) closure
					isTrue = st.Is(f.VarKey(id), flow.True) || st.Is("ev:pc:"+f.Render(id)+"==true", flow.True)
				}
				if !isTrue {
					vd.fail("arg", "on the panic exit of the handler the call is not recorded as a failure", st)
				}
			case cv != nil:
				vd.fail("arg", "on the normal path the recorded failure flag is the constant "+cv.ExactString()+", not (handler error != nil)", st)
			case errID == nil:
				vd.fail("arg", "the handler's error is not kept, so the recorded failure flag cannot depend on it", st)
			default:
				ok := false
				if be, isBin := arg.(*ast.BinaryExpr); isBin && be.Op == token.NEQ {
					for _, p := range [][2]ast.Expr{{be.X, be.Y}, {be.Y, be.X}} {
						if id, isID := ast.Unparen(p[0]).(*ast.Ident); isID && c08obj(f, id) == c08obj(f, errID) && f.Info.Types[p[1]].IsNil() {
							ok = true
						}
					}
				}
				if id, isID := arg.(*ast.Ident); isID && !ok {
					b, n := st.Get(f.VarKey(id)), st.Get(f.NilKey(errID))
					ok = (b == flow.True && n == flow.False) || (b == flow.False && n == flow.True)
				}
				if !ok {
					vd.fail("arg", "the recorded failure flag is not (handler error != nil)", st)
				}
			}
		}
	}
	c.Check(vd.bad["arg"] == "" && vd.n["arg"] > 0, "R-C08-6", cons+"|record carries admitted stateID and failure flag", pos(c, recs[0]),
		sprintf("%d states at RecordResult calls: admitted stateID; hasErr = (err != nil), true on the panic path", vd.n["arg"]),
		func() string {
			if vd.bad["arg"] != "" {
				return vd.bad["arg"]
			}
			return "RecordResult is unreachable"
		}(), vd.w["arg"]...)
}

func c08isErrorT(t types.Type) bool {
	return t != nil && types.Identical(t, types.Universe.Lookup("error").Type())
}

// ---------------------------------------------------------------------------------------
// R-C08-7 proxy mapping

func c08Proxy(v *c08env) {
	c := v.c
	f := fn(c, c08px, "ServerPool", "handle")
	if f == nil {
		return
	}
	cons := fname(c08px, "ServerPool", "handle")
	rsPkg, pxPkg := c.Prog.Pkg(c08rs), c.Prog.Pkg(c08px)
	if rsPkg == nil || pxPkg == nil {
		c.Errorf("R-C08-7: anchor: packages not loaded")
		return
	}
	sentinel, _ := rsPkg.Types.Scope().Lookup("ErrShortCircuited").(*types.Var)
	// the result constant: by declared name, else the string constant of the package whose value
	// is the documented result "shortCircuited"
	resConst, _ := pxPkg.Types.Scope().Lookup("resultShortCircuited").(*types.Const)
	if resConst == nil {
		for _, n := range pxPkg.Types.Scope().Names() {
			if k, ok := pxPkg.Types.Scope().Lookup(n).(*types.Const); ok && k.Val().Kind() == constant.String && constant.StringVal(k.Val()) == "shortCircuited" {
				resConst = k
			}
		}
	}
	// the breaker wrapper of the pool: the field of ServerPool that is assigned the result of
	// (*resilience.CircuitBreakerPolicy).CreateWrapper (the declared name breaks ties)
	var cbField *types.Var
	if spT := namedType(c, c08px, "ServerPool"); spT != nil {
		var cands []*types.Var
		for _, file := range pxPkg.Syntax {
			ast.Inspect(file, func(n ast.Node) bool {
				as, ok := n.(*ast.AssignStmt)
				if !ok || len(as.Lhs) != len(as.Rhs) {
					return true
				}
				for i, r := range as.Rhs {
					call, ok := ast.Unparen(r).(*ast.CallExpr)
					if !ok {
						continue
					}
					fo, ok := c08typeutilCallee(pxPkg.TypesInfo, call).(*types.Func)
					if !ok || fo.Name() != "CreateWrapper" || !strings.HasSuffix(fo.FullName(), "resilience.CircuitBreakerPolicy).CreateWrapper") {
						continue
					}
					if sel, ok := ast.Unparen(as.Lhs[i]).(*ast.SelectorExpr); ok {
						if sl := pxPkg.TypesInfo.Selections[sel]; sl != nil && sl.Kind() == types.FieldVal {
							if fv, ok := sl.Obj().(*types.Var); ok {
								cands = append(cands, fv)
							}
						}
					}
				}
				return true
			})
		}
		for _, fv := range cands {
			if cbField == nil || fv.Name() == "circuitBreakerWrapper" {
				cbField = fv
			}
		}
	}
	if sentinel == nil || resConst == nil || cbField == nil {
		c.Errorf("R-C08-7: anchor: ErrShortCircuited / result constant \"shortCircuited\" / the ServerPool field assigned from CircuitBreakerPolicy.CreateWrapper not found")
		return
	}
	isSentinel := func(e ast.Expr) bool {
		switch x := ast.Unparen(e).(type) {
		case *ast.Ident:
			return f.Info.Uses[x] == sentinel
		case *ast.SelectorExpr:
			return f.Info.Uses[x.Sel] == sentinel
		}
		return false
	}
	bodies := reach(f, 3)
	// subject: the invocation of the (wrapped) handler — a call through a local variable or
	// parameter of function type returning error, in handle itself or (after "extract function")
	// in a helper it reaches
	isHandlerVar := func(o types.Object) bool {
		vr, ok := o.(*types.Var)
		if !ok || vr.IsField() || vr.Pkg() == nil || vr.Parent() == vr.Pkg().Scope() {
			return false
		}
		sig, ok := vr.Type().Underlying().(*types.Signature)
		return ok && sig.Results().Len() == 1 && c08isErrorT(sig.Results().At(0).Type())
	}
	var invocations []*ast.CallExpr
	for _, g := range bodies {
		for _, call := range calls(g.Body, false) {
			if id, ok := ast.Unparen(call.Fun).(*ast.Ident); ok && isHandlerVar(f.Info.Uses[id]) {
				invocations = append(invocations, call)
			}
		}
		if len(invocations) > 0 {
			break // the outermost function that invokes a handler
		}
	}
	if !c.RequireCount("R-C08-7", "invocations of the wrapped handler in ServerPool.handle", len(invocations), 1) {
		return
	}
	// tests of the error against the sentinel
	var tests []ast.Expr
	var switchTests [][2]ast.Expr
	for _, g := range bodies {
		ast.Inspect(g.Body, func(n ast.Node) bool {
			switch x := n.(type) {
			case *ast.BinaryExpr:
				if (x.Op == token.EQL || x.Op == token.NEQ) && (isSentinel(x.X) || isSentinel(x.Y)) {
					tests = append(tests, x)
				}
			case *ast.CallExpr:
				if fo, ok := f.Callee(x).(*types.Func); ok && fo.FullName() == "errors.Is" && len(x.Args) == 2 && isSentinel(x.Args[1]) {
					tests = append(tests, x)
				}
			case *ast.SwitchStmt:
				// switch err { case resilience.ErrShortCircuited: .. }
				if x.Tag != nil {
					for _, cl := range x.Body.List {
						for _, ce := range cl.(*ast.CaseClause).List {
							if isSentinel(ce) {
								switchTests = append(switchTests, [2]ast.Expr{x.Tag, ce})
							}
						}
					}
				}
			}
			return true
		})
	}
	// the wrapper field, directly or through a single-assignment local (breaker := sp.circuitBreakerWrapper)
	pdefs := c08defs{}
	for _, g := range bodies {
		for o, ds := range c08collectDefs(g, g.Body) {
			pdefs[o] = append(pdefs[o], ds...)
		}
	}
	denotesCB := func(e ast.Expr) bool {
		fv, _ := c08sel(f, pdefs.resolve(f, e))
		return fv == cbField
	}
	// every rendering of `<wrapper> == nil`
	cbNil := map[string]bool{}
	for _, g := range bodies {
		ast.Inspect(g.Body, func(n ast.Node) bool {
			switch e := n.(type) {
			case *ast.SelectorExpr:
				if denotesCB(e) {
					cbNil[f.NilKey(e)] = true
				}
			case *ast.Ident:
				if _, isVar := c08obj(f, e).(*types.Var); isVar && denotesCB(e) {
					cbNil[f.NilKey(e)] = true
				}
			}
			return true
		})
	}
	// wrappers collected in a slice and applied in a loop: S = append(S, <wrapper>) ... for _, w :=
	// range S { h = w.Wrap(h) } — the loop must apply every element unconditionally
	loopOver := map[ast.Expr]string{} // range expression -> rendering of the slice variable
	loopWraps := map[*ast.CallExpr]bool{}
	for _, g := range bodies {
		ast.Inspect(g.Body, func(n ast.Node) bool {
			rs, ok := n.(*ast.RangeStmt)
			if !ok {
				return true
			}
			sid, ok1 := ast.Unparen(rs.X).(*ast.Ident)
			wid, ok2 := rs.Value.(*ast.Ident)
			if !ok1 || !ok2 || len(breaksOut(g, rs, labelOf(g.Body, rs))) > 0 {
				return true
			}
			hasContinue := false
			ast.Inspect(rs.Body, func(y ast.Node) bool {
				if b, ok := y.(*ast.BranchStmt); ok && b.Tok == token.CONTINUE {
					hasContinue = true
				}
				return true
			})
			if hasContinue {
				return true
			}
			for _, stmt := range rs.Body.List {
				as, ok := stmt.(*ast.AssignStmt)
				if !ok || len(as.Lhs) != 1 || len(as.Rhs) != 1 {
					continue
				}
				call, ok := ast.Unparen(as.Rhs[0]).(*ast.CallExpr)
				if !ok || !ifaceMethodCall(f, call, c08rs, "Wrapper", "Wrap") || len(call.Args) != 1 {
					continue
				}
				sel := ast.Unparen(call.Fun).(*ast.SelectorExpr)
				xid, ok := ast.Unparen(sel.X).(*ast.Ident)
				if !ok || c08obj(f, xid) != f.Info.Defs[wid] {
					continue
				}
				lid, ok1 := ast.Unparen(as.Lhs[0]).(*ast.Ident)
				aid, ok2 := ast.Unparen(call.Args[0]).(*ast.Ident)
				if ok1 && ok2 && c08obj(f, lid) == c08obj(f, aid) && isHandlerVar(c08obj(f, lid)) {
					loopOver[rs.X] = f.Render(sid)
					loopWraps[call] = true
				}
			}
			return true
		})
	}
	// the application of the breaker wrapper: <pool>.circuitBreakerWrapper.Wrap(h) whose result
	// is kept (assigned or returned), with h a handler variable
	isCBWrap := func(call *ast.CallExpr) bool {
		if !ifaceMethodCall(f, call, c08rs, "Wrapper", "Wrap") || len(call.Args) != 1 {
			return false
		}
		sel := ast.Unparen(call.Fun).(*ast.SelectorExpr)
		if !denotesCB(sel.X) {
			return false
		}
		id, ok := ast.Unparen(call.Args[0]).(*ast.Ident)
		return ok && isHandlerVar(f.Info.Uses[id])
	}
	// where the wrapped value goes: it must be assigned to a handler variable that is later
	// invoked or returned, or be returned directly (checked syntactically per function; the
	// engine then follows the order of events across the helpers)
	kept := map[*ast.CallExpr]bool{}
	for _, g := range bodies {
		pm := parentMap(g.Body)
		for _, call := range calls(g.Body, false) {
			if !isCBWrap(call) {
				continue
			}
			var p ast.Node = pm[call]
			for {
				if pe, ok := p.(*ast.ParenExpr); ok {
					p = pm[pe]
					continue
				}
				break
			}
			switch x := p.(type) {
			case *ast.ReturnStmt:
				kept[call] = true
			case *ast.AssignStmt:
				for i, r := range x.Rhs {
					if ast.Unparen(r) != ast.Expr(call) || i >= len(x.Lhs) {
						continue
					}
					id, ok := ast.Unparen(x.Lhs[i]).(*ast.Ident)
					if !ok {
						continue
					}
					o := c08obj(f, id)
					used := false
					ast.Inspect(g.Body, func(n ast.Node) bool {
						switch y := n.(type) {
						case *ast.ReturnStmt:
							if y.Pos() > x.Pos() {
								if len(y.Results) == 0 && g.Type.Results != nil {
									for _, fl := range g.Type.Results.List {
										for _, nm := range fl.Names {
											used = used || f.Info.Defs[nm] == o
										}
									}
								}
								for _, rr := range y.Results {
									if rid, ok := ast.Unparen(rr).(*ast.Ident); ok && c08obj(f, rid) == o {
										used = true
									}
								}
							}
						case *ast.CallExpr:
							if cid, ok := ast.Unparen(y.Fun).(*ast.Ident); ok && c08obj(f, cid) == o && y.Pos() > x.Pos() {
								used = true
							}
						}
						return true
					})
					kept[call] = used
				}
			}
		}
	}
	// a handler variable of the invoking function that is overwritten with something which does
	// not contain the previous handler loses the wrapper
	invFn := map[types.Object]bool{}
	for _, inv := range invocations {
		invFn[f.Info.Uses[ast.Unparen(inv.Fun).(*ast.Ident)]] = true
	}
	usesHandler := func(e ast.Expr) bool {
		found := false
		ast.Inspect(e, func(n ast.Node) bool {
			if id, ok := n.(*ast.Ident); ok && isHandlerVar(f.Info.Uses[id]) {
				found = true
			}
			return true
		})
		return found
	}
	// deferred calls (collectMetrics) stay opaque: interpreting them in place at the exits makes
	// the engine forget Exit.Inner, the helper's return statement that produced the result
	deferredCalls := map[*ast.CallExpr]bool{}
	for _, g := range bodies {
		ast.Inspect(g.Body, func(n ast.Node) bool {
			if d, ok := n.(*ast.DeferStmt); ok {
				deferredCalls[d.Call] = true
			}
			return true
		})
	}
	inlineAll := inlineSamePkg(f)
	res := analyze(c, f, flow.Config{
		NoHavoc: true,
		Inline: func(call *ast.CallExpr, callee *types.Func) *flow.Func {
			if deferredCalls[call] {
				return nil
			}
			return inlineAll(call, callee)
		},
		OnInline: c08constParams(f),
		OnNode: func(st *flow.State, n ast.Node) {
			if e, ok := n.(ast.Expr); ok {
				if sr, isLoop := loopOver[e]; isLoop && st.Is("ev:cbQueued:"+sr, flow.True) {
					st.Set("ev:cbWrapped", flow.True) // the loop applies every queued wrapper
				}
			}
			as, ok := n.(*ast.AssignStmt)
			if !ok || len(as.Lhs) != len(as.Rhs) {
				return
			}
			for i, l := range as.Lhs {
				// S = append(S, <wrapper>)
				if call, ok := ast.Unparen(as.Rhs[i]).(*ast.CallExpr); ok && len(call.Args) >= 2 {
					if b, ok := f.Callee(call).(*types.Builtin); ok && b.Name() == "append" {
						if lid, ok := ast.Unparen(l).(*ast.Ident); ok {
							for _, a := range call.Args[1:] {
								if denotesCB(a) {
									st.Set("ev:cbQueued:"+f.Render(lid), flow.True)
								}
							}
						}
					}
				}
				id, ok := ast.Unparen(l).(*ast.Ident)
				if !ok || !invFn[c08obj(f, id)] {
					continue
				}
				if !usesHandler(as.Rhs[i]) {
					st.Set("ev:cbWrapped", flow.False)
				}
			}
		},
		OnCall: func(st *flow.State, call *ast.CallExpr, callee types.Object, deferred bool) {
			if isCBWrap(call) && kept[call] {
				st.Set("ev:cbWrapped", flow.True)
			}
			// the failure response: (*httpprot.Response).SetStatusCode(code), wherever the helper
			// that builds it lives (it is interpreted in place; its status parameter carries the
			// constant handed in by the caller)
			if fo, ok := callee.(*types.Func); ok && fo.Name() == "SetStatusCode" && len(call.Args) == 1 &&
				strings.HasSuffix(fo.FullName(), "httpprot.Response).SetStatusCode") {
				arg := ast.Unparen(call.Args[0])
				is503 := false
				if cv := c08constOf(f, arg); cv != nil {
					is503 = cv.ExactString() == "503"
				} else if id, ok := arg.(*ast.Ident); ok {
					is503 = st.Is("eq:"+f.Render(id)+"==503", flow.True) || st.Is("ev:pc:"+f.Render(id)+"==503", flow.True)
				}
				if is503 {
					st.Set("ev:fail503", flow.True)
				} else {
					st.Set("ev:failOther", flow.True)
				}
			}
		},
	})
	if res == nil {
		return
	}
	c08dump("proxy", f, res)
	at := pos(c, invocations[0])

	// the breaker wrapper is applied whenever one is configured
	vd := c08newVerdicts("wrap", "map", "only")
	for _, inv := range invocations {
		for _, st := range res.At[inv] {
			vd.seen("wrap")
			noBreaker := false
			for k := range cbNil {
				noBreaker = noBreaker || st.Is(k, flow.True)
			}
			if noBreaker {
				continue // no breaker configured
			}
			if !st.Is("ev:cbWrapped", flow.True) {
				vd.fail("wrap", "the handler is invoked without the configured circuit-breaker wrapper around it: the pool's breaker is never consulted and never learns of failures", st)
			}
		}
	}
	if vd.bad["wrap"] != "" {
		// is the wrapper handed on in a way the check does not follow (stored, passed to a
		// function, put into a literal)? then undecided, not violated
		other := 0
		for _, g := range bodies {
			pm := parentMap(g.Body)
			ast.Inspect(g.Body, func(n ast.Node) bool {
				e, ok := n.(ast.Expr)
				if !ok {
					return true
				}
				if _, isSel := e.(*ast.SelectorExpr); !isSel {
					if _, isID := e.(*ast.Ident); !isID {
						return true
					}
				}
				if fv, _ := c08sel(f, e); fv != cbField {
					if id, isID := e.(*ast.Ident); !isID || !denotesCB(id) || f.Info.Defs[id] != nil {
						return true
					}
				}
				switch p := pm[e].(type) {
				case *ast.BinaryExpr: // nil test
				case *ast.SelectorExpr: // method call on it
					_ = p
				case *ast.AssignStmt: // alias definition
					for _, l := range p.Lhs {
						if l == e {
							other++ // the field itself is assigned here
						}
					}
				case *ast.CallExpr:
					if b, ok := f.Callee(p).(*types.Builtin); !ok || b.Name() != "append" {
						other++
					}
				default:
					other++
				}
				return true
			})
		}
		if other > 0 {
			c.Undecide("R-C08-7", cons+"|breaker wrapper applied when configured", at, "the pool's circuit-breaker wrapper is handed on in a way the check does not follow (stored, passed as an argument, put into a literal)")
			vd.bad["wrap"] = ""
			vd.n["wrap"] = -1
		}
	}
	if vd.n["wrap"] >= 0 {
		c.Check(vd.bad["wrap"] == "" && vd.n["wrap"] > 0, "R-C08-7", cons+"|breaker wrapper applied when configured", at,
			sprintf("%d states at the handler invocation: wrapper nil or applied", vd.n["wrap"]),
			func() string {
				if vd.bad["wrap"] != "" {
					return vd.bad["wrap"]
				}
				return "the handler invocation is unreachable"
			}(), vd.w["wrap"]...)
	}

	short := func(st *flow.State) flow.Val {
		for _, t := range switchTests {
			if val := st.Get(f.EqKey(t[0], t[1])); val != flow.Unknown {
				return val
			}
		}
		for _, t := range tests {
			switch x := t.(type) {
			case *ast.BinaryExpr:
				if val := st.Get(f.EqKey(x.X, x.Y)); val != flow.Unknown {
					return val
				}
			case *ast.CallExpr:
				if val := st.Get(f.CallKey(x)); val != flow.Unknown {
					return val
				}
			}
		}
		return flow.Unknown
	}
	want := resConst.Val()
	for _, ex := range res.Exits {
		if ex.Kind != flow.ExitReturn || ex.Ret() == nil || len(ex.Ret().Results) != 1 {
			continue
		}
		st := ex.State
		ret := c08constOf(f, ex.Ret().Results[0])
		isShortRes := ret != nil && constant.Compare(ret, token.EQL, want)
		if short(st) == flow.True {
			vd.seen("map")
			if !isShortRes {
				vd.fail("map", "a short-circuited call is not reported with result "+want.ExactString(), st)
			}
			if !st.Is("ev:fail503", flow.True) || st.Is("ev:failOther", flow.True) {
				vd.fail("map", "a short-circuited call is not answered with a 503 failure response", st)
			}
		} else if isShortRes {
			vd.seen("only")
			vd.fail("only", "result "+want.ExactString()+" is returned for an error that is not known to be ErrShortCircuited", st)
		}
	}
	if vd.n["map"] == 0 {
		c.Violate("R-C08-7", cons+"|ErrShortCircuited => 503 + shortCircuited", at, "ServerPool.handle has no path on which the handler's error is found equal to ErrShortCircuited: a short-circuited call is not reported as 503/shortCircuited (it falls through to the serverPoolError assertion)")
	} else {
		c.Check(vd.bad["map"] == "", "R-C08-7", cons+"|ErrShortCircuited => 503 + shortCircuited", at,
			sprintf("%d exits with err == ErrShortCircuited build a 503 response and return %s", vd.n["map"], want.ExactString()), vd.bad["map"], vd.w["map"]...)
	}
	c.Check(vd.bad["only"] == "", "R-C08-7", cons+"|shortCircuited only for ErrShortCircuited", at,
		"no other exit returns that result", vd.bad["only"], vd.w["only"]...)
}

func c08typeutilCallee(info *types.Info, call *ast.CallExpr) types.Object {
	return typeutil.Callee(info, call)
}

// c08constParams is an OnInline hook: a constant handed to a helper / local closure is remembered
// under the parameter's name as ev:pc:<param>==<value> (the engine binds constant operands that
// are identifiers or qualified identifiers — true, http.StatusServiceUnavailable — as alias
// paths and learns nothing about the parameter).
func c08constParams(f *flow.Func) func(st *flow.State, ev *flow.InlineEvent) {
	return func(st *flow.State, ev *flow.InlineEvent) {
		if !ev.Enter {
			return
		}
		for i, p := range ev.Params {
			if i >= len(ev.Args) || p == nil {
				continue
			}
			pre := "ev:pc:" + f.Render(p) + "=="
			for _, kv := range st.Facts() {
				if k := c08factKey(kv); strings.HasPrefix(k, pre) {
					st.Set(k, flow.Unknown)
				}
			}
			if cv := c08constOf(f, ev.Args[i]); cv != nil {
				st.Set(pre+cv.ExactString(), flow.True)
			}
		}
	}
}

// c08front maps the methods of an interface declared in pkg "in front of" the library breaker to
// the breaker's own methods: the interface is implemented by *CircuitBreaker and every value the
// package stores into a field / variable / literal element of that interface type is a
// *CircuitBreaker (so the interface call can only reach the breaker). Otherwise nothing is mapped.
func c08front(v *c08env, pkg *packages.Package) map[types.Object]types.Object {
	out := map[types.Object]types.Object{}
	if pkg == nil {
		return out
	}
	cbPtr := types.NewPointer(v.cbT)
	scope := pkg.Types.Scope()
	for _, name := range scope.Names() {
		tn, ok := scope.Lookup(name).(*types.TypeName)
		if !ok {
			continue
		}
		iface, ok := tn.Type().Underlying().(*types.Interface)
		if !ok || iface.NumMethods() == 0 || !types.Implements(cbPtr, iface) {
			continue
		}
		it := tn.Type()
		onlyBreaker := true
		stores := 0
		note := func(target types.Type, val ast.Expr) {
			if target == nil || !types.Identical(target, it) || val == nil {
				return
			}
			vt := pkg.TypesInfo.TypeOf(val)
			if vt == nil {
				return
			}
			if types.Identical(vt, it) {
				return // copied from another holder of the same interface
			}
			stores++
			if !types.Identical(vt, cbPtr) {
				onlyBreaker = false
			}
		}
		for _, file := range pkg.Syntax {
			ast.Inspect(file, func(n ast.Node) bool {
				switch x := n.(type) {
				case *ast.AssignStmt:
					if len(x.Lhs) == len(x.Rhs) {
						for i, l := range x.Lhs {
							note(pkg.TypesInfo.TypeOf(l), x.Rhs[i])
						}
					}
				case *ast.ValueSpec:
					for i, id := range x.Names {
						if i < len(x.Values) && id.Name != "_" {
							if o := pkg.TypesInfo.Defs[id]; o != nil {
								note(o.Type(), x.Values[i])
							}
						}
					}
				case *ast.CompositeLit:
					st, ok := pkg.TypesInfo.TypeOf(x).Underlying().(*types.Struct)
					if !ok {
						return true
					}
					for i, el := range x.Elts {
						if kv, ok := el.(*ast.KeyValueExpr); ok {
							if kid, ok := kv.Key.(*ast.Ident); ok {
								if fo, ok := pkg.TypesInfo.Uses[kid].(*types.Var); ok {
									note(fo.Type(), kv.Value)
								}
							}
						} else if i < st.NumFields() {
							note(st.Field(i).Type(), el)
						}
					}
				case *ast.CallExpr:
					// a value handed to a parameter of the interface type
					if sig, ok := pkg.TypesInfo.TypeOf(x.Fun).(*types.Signature); ok && !sig.Variadic() {
						for i, a := range x.Args {
							if i < sig.Params().Len() {
								note(sig.Params().At(i).Type(), a)
							}
						}
					}
				}
				return true
			})
		}
		if !onlyBreaker || stores == 0 {
			continue
		}
		for i := 0; i < iface.NumMethods(); i++ {
			m := iface.Method(i)
			if o, _, _ := types.LookupFieldOrMethod(cbPtr, true, v.pkg.Types, m.Name()); o != nil {
				out[m] = o
			}
		}
	}
	return out
}

// c08boundParams: dependency inversion — a function of pkg that receives the breaker's methods as
// function values (guard(w.AcquirePermission, w.RecordResult, handler)). A function parameter is
// mapped to the breaker method when EVERY call of the function in the package hands it a method
// value of that method (directly, or of an interface in front of the breaker).
func c08boundParams(v *c08env, pkg *packages.Package, front map[types.Object]types.Object) map[types.Object]types.Object {
	out := map[types.Object]types.Object{}
	info := pkg.TypesInfo
	type key struct {
		fn  *types.Func
		idx int
	}
	seen := map[key]types.Object{} // nil value = conflicting / unknown argument
	conflict := map[key]bool{}
	for _, file := range pkg.Syntax {
		ast.Inspect(file, func(n ast.Node) bool {
			call, ok := n.(*ast.CallExpr)
			if !ok {
				return true
			}
			fo, ok := typeutil.Callee(info, call).(*types.Func)
			if !ok || fo.Pkg() != pkg.Types {
				return true
			}
			for i, a := range call.Args {
				if _, isSig := info.TypeOf(a).Underlying().(*types.Signature); !isSig {
					continue
				}
				k := key{fo, i}
				var m types.Object
				if sel, ok := ast.Unparen(a).(*ast.SelectorExpr); ok {
					if sl := info.Selections[sel]; sl != nil && sl.Kind() == types.MethodVal {
						m = sl.Obj()
						if fm, ok := front[m]; ok {
							m = fm
						}
					}
				}
				isBreaker := m != nil && (m == types.Object(v.meth["AcquirePermission"]) || m == types.Object(v.meth["RecordResult"]))
				switch {
				case !isBreaker:
					if _, had := seen[k]; had {
						conflict[k] = true
					}
				case seen[k] != nil && seen[k] != m:
					conflict[k] = true
				default:
					seen[k] = m
				}
			}
			return true
		})
	}
	for k, m := range seen {
		if m == nil || conflict[k] {
			continue
		}
		fd := declOf(pkg, k.fn)
		if fd == nil || fd.Type.Params == nil {
			continue
		}
		// every call of the function must bind the parameter: count the calls
		calls, bindings := 0, 0
		for _, file := range pkg.Syntax {
			ast.Inspect(file, func(n ast.Node) bool {
				if call, ok := n.(*ast.CallExpr); ok && typeutil.Callee(info, call) == types.Object(k.fn) {
					calls++
					if k.idx < len(call.Args) {
						if sel, ok := ast.Unparen(call.Args[k.idx]).(*ast.SelectorExpr); ok {
							if sl := info.Selections[sel]; sl != nil && sl.Kind() == types.MethodVal {
								mm := sl.Obj()
								if fm, ok := front[mm]; ok {
									mm = fm
								}
								if mm == m {
									bindings++
								}
							}
						}
					}
				}
				return true
			})
		}
		if calls == 0 || calls != bindings {
			continue
		}
		idx := 0
		for _, fl := range fd.Type.Params.List {
			for _, name := range fl.Names {
				if idx == k.idx {
					if o := info.Defs[name]; o != nil {
						out[o] = m
					}
				}
				idx++
			}
		}
	}
	return out
}
