package rules

import (
	"go/ast"
	"go/types"
	"strings"

	"golang.org/x/tools/go/packages"

	"verif/internal/core"
	"verif/internal/flow"
)

// length-changing reader constructors (R-C03-6a)
var c03lengthChanging = []string{
	"pkg/util/readers.NewGZipCompressReader",
	"pkg/util/readers.NewGZipDecompressReader",
	"compress/gzip.NewReader",
	"compress/flate.NewReader",
	"compress/zlib.NewReader",
}

func c03varID(f *flow.Func, o types.Object) string {
	if o == nil {
		return "?"
	}
	return o.Name() + "@" + f.Pos(o.Pos())
}

// c03Framing decides R-C03-6.
func c03Framing(c *core.Ctx) {
	bodyField := c03stdField(c, "net/http", "Response", "Body")
	clField := c03stdField(c, "net/http", "Response", "ContentLength")
	if bodyField == nil || clField == nil {
		return
	}

	// ---- central normalisation (either style of repair satisfies the rule)
	central := ""
	if sp := fn(c, c03hp, "Response", "SetPayload"); sp != nil {
		res := analyze(c, sp, flow.Config{
			NoHavoc: true,
			OnCall: func(st *flow.State, call *ast.CallExpr, callee types.Object, deferred bool) {
				if _, ok := c03clOp(sp, call); ok {
					st.Set("ev:cl", flow.True)
				}
			},
		})
		if res != nil {
			all, n := true, 0
			for _, ex := range res.Exits {
				if ex.Kind == flow.ExitReturn {
					n++
					if !ex.State.Is("ev:cl", flow.True) {
						all = false
					}
				}
			}
			if all && n > 0 {
				central = "(*httpprot.Response).SetPayload re-establishes Content-Length on every path"
			}
		}
	}
	if central == "" && c03WriteOutNormalises(c) {
		central = "the mux write-out re-establishes Content-Length before WriteHeader on every path"
	}

	// ---- (a) Body = length-changing reader
	aSites := 0
	eachFunc(c, func(pkg *packages.Package, fd *ast.FuncDecl) {
		top := flow.NewFunc(pkg, fd)
		for _, f := range c03units(top) {
			type site struct {
				as   *ast.AssignStmt
				root types.Object
			}
			var sites []site
			ast.Inspect(f.Body, func(n ast.Node) bool {
				if _, isLit := n.(*ast.FuncLit); isLit && n != f.Node {
					return false
				}
				as, ok := n.(*ast.AssignStmt)
				if !ok || len(as.Lhs) != len(as.Rhs) {
					return true
				}
				for i, l := range as.Lhs {
					if c03fieldOf(f, l) != bodyField {
						continue
					}
					rhs, _ := c03resolveLocal(f, as.Rhs[i]) // zr := NewGZipCompressReader(..); resp.Body = zr
					call, ok := rhs.(*ast.CallExpr)
					if !ok || !calleeIs(f, call, c03lengthChanging...) {
						continue
					}
					sites = append(sites, site{as, c03rootOf(f, l)})
				}
				return true
			})
			if len(sites) == 0 {
				continue
			}
			c.Count("functions_analysed", 1)
			res := analyze(c, f, flow.Config{
				NoHavoc: true,
				OnCall: func(st *flow.State, call *ast.CallExpr, callee types.Object, deferred bool) {
					if recv, ok := c03clOp(f, call); ok {
						st.Set("ev:clhdr:"+c03varID(f, c03rootOf(f, recv)), flow.True)
					}
				},
				OnNode: func(st *flow.State, n ast.Node) {
					as, ok := n.(*ast.AssignStmt)
					if !ok {
						return
					}
					for i, s := range sites {
						if s.as == as {
							st.Set(sprintf("ev:body:%d", i), flow.True)
						}
					}
					for _, l := range as.Lhs {
						if c03fieldOf(f, l) == clField {
							st.Set("ev:clfield:"+c03varID(f, c03rootOf(f, l)), flow.True)
						}
					}
				},
			})
			if res == nil {
				continue
			}
			for i, s := range sites {
				aSites++
				cons := c03fnName(top) + sprintf("|Body = length-changing reader #%d", i+1)
				var badField, badHdr *flow.State
				for _, ex := range res.Exits {
					if ex.Kind != flow.ExitReturn || !ex.State.Is(sprintf("ev:body:%d", i), flow.True) {
						continue
					}
					if !ex.State.Is("ev:clfield:"+c03varID(f, s.root), flow.True) && badField == nil {
						badField = ex.State
					}
					if !ex.State.Is("ev:clhdr:"+c03varID(f, s.root), flow.True) && badHdr == nil {
						badHdr = ex.State
					}
				}
				// either style of repair satisfies the rule: the pairing may be completed by
				// every caller on the response it passed in
				if badField != nil || badHdr != nil {
					var swapped []*flow.Exit
					var all []*flow.Exit
					for _, ex := range res.Exits {
						if ex.Kind == flow.ExitReturn {
							all = append(all, ex)
							if ex.State.Is(sprintf("ev:body:%d", i), flow.True) {
								swapped = append(swapped, ex)
							}
						}
					}
					if f == top {
						if badField != nil && c03callersPair(c, top, s.root, all, swapped, "field", clField) {
							badField = nil
						}
						if badHdr != nil && c03callersPair(c, top, s.root, all, swapped, "hdr", clField) {
							badHdr = nil
						}
					}
				}
				c.Check(badField == nil, "R-C03-6", cons+": ContentLength field", pos(c, s.as),
					"every path that swaps the body also stores ContentLength of the same response (in the function, or in every caller after the call)",
					"the response Body is replaced by a reader that changes the number of bytes, but http.Response.ContentLength keeps the length of the original body: Response.FetchPayload then reads exactly that many bytes from the new stream (io.ErrUnexpectedEOF → 500 when the stream is shorter, a truncated body when it is longer)", witness(badField)...)
				c.Check(badHdr == nil, "R-C03-6", cons+": Content-Length header", pos(c, s.as),
					"every path that swaps the body also sets or deletes the Content-Length header of the same response (in the function, or in every caller after the call)",
					"the response Body is replaced by a reader that changes the number of bytes, but the Content-Length header of the original body is kept: the client is sent a declared length that differs from the bytes written", witness(badHdr)...)
			}
		}
	})
	c.RequireCount("R-C03-6", "stores of a length-changing reader to http.Response.Body", aSites, 1)

	// ---- (b) SetPayload sites
	bSites := 0
	bPkgs := map[string]bool{}
	eachFunc(c, func(pkg *packages.Package, fd *ast.FuncDecl) {
		if relPkg(pkg.PkgPath) == c03hp || strings.HasPrefix(relPkg(pkg.PkgPath), c03hp+"/") {
			return
		}
		importsHTTP := false
		for path := range pkg.Imports {
			if path == Mod+c03hp {
				importsHTTP = true
			}
		}
		if !importsHTTP {
			return
		}
		top := flow.NewFunc(pkg, fd)
		ord := 0
		for _, f := range c03units(top) {
			type site struct {
				call  *ast.CallExpr
				root  types.Object
				ord   int
				fresh string
			}
			var sites []site
			// the unit together with the same-package helpers it calls (a header update moved
			// into a helper is interpreted in place)
			sc := newC03scope(f, 2)
			prevScope := c03cur
			c03cur = sc
			for _, call := range calls(f.Body, false) {
				if !(calleeIs(f, call, "(*"+c03hp+".Response).SetPayload") || ifaceMethodCall(f, call, "pkg/protocols", "Response", "SetPayload")) {
					continue
				}
				sel, ok := ast.Unparen(call.Fun).(*ast.SelectorExpr)
				if !ok {
					continue
				}
				ord++
				s := site{call: call, root: c03rootOf(f, sel.X), ord: ord}
				// created in this function without an inherited length?
				s.fresh = c03freshResponse(top, s.root)
				sites = append(sites, s)
			}
			if len(sites) == 0 {
				c03cur = prevScope
				continue
			}
			c.Count("functions_analysed", 1)
			res := analyze(c, f, flow.Config{
				NoHavoc: true,
				Inline:  sc.inline(),
				OnCall: func(st *flow.State, call *ast.CallExpr, callee types.Object, deferred bool) {
					if recv, ok := c03clOp(f, call); ok {
						st.Set("ev:cl:"+c03varID(f, c03rootOf(f, recv)), flow.True)
					}
					for _, s := range sites {
						if s.call == call {
							st.Set(sprintf("ev:sp:%d", s.ord), flow.True)
						}
					}
				},
			})
			c03cur = prevScope
			if res == nil {
				continue
			}
			for _, s := range sites {
				bSites++
				bPkgs[pkg.PkgPath] = true
				cons := c03fnName(top) + sprintf("|SetPayload#%d", s.ord)
				if central != "" {
					c.Discharge("R-C03-6", cons, pos(c, s.call), "discharged centrally: "+central)
					continue
				}
				if s.fresh != "" {
					c.Discharge("R-C03-6", cons, pos(c, s.call), "the response is created in this function by "+s.fresh+": no Content-Length is inherited")
					continue
				}
				var bad *flow.State
				n := 0
				for _, ex := range res.Exits {
					if ex.Kind != flow.ExitReturn || !ex.State.Is(sprintf("ev:sp:%d", s.ord), flow.True) {
						continue
					}
					n++
					if !ex.State.Is("ev:cl:"+c03varID(f, s.root), flow.True) && bad == nil {
						bad = ex.State
					}
				}
				if bad != nil && f == top {
					// the function only replaces the payload of a response it is handed: the pairing
					// (or the creation of a fresh response) may be its callers' business
					if how := c03callersPairPayload(c, top, s.call, s.root); how != "" {
						c.Discharge("R-C03-6", cons, pos(c, s.call), how)
						continue
					}
				}
				c.Check(bad == nil, "R-C03-6", cons, pos(c, s.call),
					sprintf("%d exit(s) after this SetPayload, all with a Set/Del of Content-Length on the same response", n),
					"the payload of an existing HTTP response is replaced, but on some path its Content-Length header is neither set nor deleted: the client is sent the length of the previous body with the new body (net/http refuses bytes beyond the declared length and closes the connection when fewer are written)", witness(bad)...)
			}
		}
	})
	// vacuity: counted by role — the HTTP filter packages that replace a response payload (call
	// sites may legitimately merge into shared helpers inside a package)
	c.RequireCount("R-C03-6", "packages with (*httpprot.Response).SetPayload call sites outside httpprot", len(bPkgs), 5)
	c.RequireCount("R-C03-6", "(*httpprot.Response).SetPayload call sites outside httpprot", bSites, 5)
}

// c03callersPair reports whether every call site of the function top completes the framing
// pairing on the response it passes as the parameter `param`: after the call, on every path
// on which the call did not report "nothing swapped" (a false result, if top returns
// true exactly on its swapping exits), the ContentLength field (kind "field") or the
// Content-Length header (kind "hdr") of that response is re-established.
func c03callersPair(c *core.Ctx, top *flow.Func, param types.Object, all, swapped []*flow.Exit, kind string, clField *types.Var) bool {
	fd, ok := top.Node.(*ast.FuncDecl)
	if !ok || param == nil {
		return false
	}
	idx := -1
	n := 0
	for _, fl := range fd.Type.Params.List {
		for _, id := range fl.Names {
			if top.Info.Defs[id] == param {
				idx = n
			}
			n++
		}
	}
	callee, _ := top.Info.Defs[fd.Name].(*types.Func)
	if idx < 0 || callee == nil {
		return false
	}
	// does a false result mean "not swapped"?
	correlated := false
	if sig := callee.Type().(*types.Signature); sig.Results().Len() == 1 {
		if b, ok := sig.Results().At(0).Type().Underlying().(*types.Basic); ok && b.Kind() == types.Bool {
			correlated = true
			isSwapped := map[*flow.Exit]bool{}
			for _, ex := range swapped {
				isSwapped[ex] = true
			}
			for _, ex := range all {
				if ex.Return == nil || len(ex.Return.Results) != 1 {
					correlated = false
					continue
				}
				tv := top.Info.Types[ex.Return.Results[0]]
				if tv.Value == nil || (tv.Value.ExactString() == "true") != isSwapped[ex] {
					correlated = false
				}
			}
		}
	}
	sites, okAll := 0, true
	eachFunc(c, func(pkg *packages.Package, cfd *ast.FuncDecl) {
		ctop := flow.NewFunc(pkg, cfd)
		for _, f := range c03units(ctop) {
			for _, call := range calls(f.Body, false) {
				if f.Callee(call) != types.Object(callee) || idx >= len(call.Args) {
					continue
				}
				sites++
				root := c03rootOf(f, call.Args[idx])
				if root == nil {
					okAll = false
					continue
				}
				id := c03varID(f, root)
				res := analyze(c, f, flow.Config{
					NoHavoc: true,
					OnCall: func(st *flow.State, cl *ast.CallExpr, _ types.Object, _ bool) {
						if cl == call {
							st.Set("ev:called", flow.True)
							st.Set("ev:paired", flow.Unknown)
						}
						if recv, ok := c03clOp(f, cl); ok && kind == "hdr" && c03varID(f, c03rootOf(f, recv)) == id {
							st.Set("ev:paired", flow.True)
						}
					},
					OnNode: func(st *flow.State, n ast.Node) {
						if as, ok := n.(*ast.AssignStmt); ok && kind == "field" {
							for _, l := range as.Lhs {
								if c03fieldOf(f, l) == clField && c03varID(f, c03rootOf(f, l)) == id {
									st.Set("ev:paired", flow.True)
								}
							}
						}
					},
				})
				if res == nil {
					okAll = false
					continue
				}
				for _, ex := range res.Exits {
					st := ex.State
					if ex.Kind != flow.ExitReturn || !st.Is("ev:called", flow.True) || st.Is("ev:paired", flow.True) {
						continue
					}
					if correlated && st.Is(f.CallKey(call), flow.False) {
						continue
					}
					okAll = false
				}
			}
		}
	})
	return sites > 0 && okAll
}

// c03freshResponse: root is a local created in f by NewResponse(nil) / BuildResponse (no
// Content-Length inherited from a backend); returns the constructor's name or "".
func c03freshResponse(f *flow.Func, root types.Object) string {
	v, ok := root.(*types.Var)
	if !ok {
		return ""
	}
	defs := c03defs(f, v)
	if len(defs) != 1 || defs[0].call == nil {
		return ""
	}
	dc := defs[0].call
	switch {
	case calleeIs(f, dc, c03hp+".NewResponse") && len(dc.Args) == 1 && f.Info.Types[dc.Args[0]].IsNil():
		return "NewResponse(nil)"
	case calleeIs(f, dc, "(*"+c03hp+".Protocol).BuildResponse"):
		return "BuildResponse"
	}
	return ""
}

// c03callersPairPayload: the SetPayload call `site` inside helper `top` acts on a response the
// helper received (parameter/receiver `root`). Returns a non-empty explanation if every
// same-package caller either passes a response it created itself (no inherited length) or
// re-establishes Content-Length on that response on every exit after the call.
func c03callersPairPayload(c *core.Ctx, top *flow.Func, site *ast.CallExpr, root types.Object) string {
	fd, ok := top.Node.(*ast.FuncDecl)
	if !ok || root == nil || len(c03defs1(top, root)) != 0 {
		return ""
	}
	callee := top.Info.Defs[fd.Name]
	callers, okAll := 0, true
	for _, file := range top.Pkg.Syntax {
		for _, d := range file.Decls {
			cfd, ok := d.(*ast.FuncDecl)
			if !ok || cfd.Body == nil || cfd == fd {
				continue
			}
			ctop := flow.NewFunc(top.Pkg, cfd)
			for _, g := range c03units(ctop) {
				var mine []*ast.CallExpr
				for _, call := range calls(g.Body, false) {
					if fo, ok := g.Callee(call).(*types.Func); ok && types.Object(fo.Origin()) == callee {
						mine = append(mine, call)
					}
				}
				if len(mine) == 0 {
					continue
				}
				callers++
				sc := newC03scope(g, 2)
				c03with(sc, func() {
					bound := c03canon(g, root) // the helper's parameter → the caller's variable
					if bound == nil || bound == root {
						okAll = false
						return
					}
					if c03freshResponse(ctop, bound) != "" {
						return
					}
					id := c03varID(g, bound)
					res := analyze(c, g, flow.Config{
						NoHavoc: true,
						Inline:  sc.inline(),
						OnCall: func(st *flow.State, call *ast.CallExpr, _ types.Object, _ bool) {
							if recv, ok := c03clOp(g, call); ok && c03varID(g, c03rootOf(g, recv)) == id {
								st.Set("ev:cl", flow.True)
							}
							if call == site {
								st.Set("ev:sp", flow.True)
							}
						},
					})
					if res == nil {
						okAll = false
						return
					}
					for _, ex := range res.Exits {
						if ex.Kind == flow.ExitReturn && ex.State.Is("ev:sp", flow.True) && !ex.State.Is("ev:cl", flow.True) {
							okAll = false
						}
					}
				})
			}
		}
	}
	if callers == 0 || !okAll {
		return ""
	}
	return sprintf("the helper replaces the payload of the response it is handed; each of its %d caller(s) passes a response it created itself or re-establishes Content-Length on it on every exit after the call", callers)
}
