package rules

import (
	"go/ast"
	"go/token"
	"go/types"

	"verif/internal/core"
	"verif/internal/flow"
)

// C15 — MQTT delivery (QoS fan-out, pending/resend bookkeeping, PUBACK).
//
// Layout: c15.go (entry, helpers shared with other properties), c15_env.go (anchors resolved by
// role, value-origin resolution, call-site index), c15_fanout.go (R-C15-1/2), c15_session.go
// (R-C15-3), c15_handler.go (R-C15-4), c15_ext.go (R-C15-3 queue writers, R-C15-5, R-C15-6).
//
// Robustness (fourth follow-up): every anchor is found by what it does (types of receiver,
// parameters and fields; what it calls / stores / sends), the current name is only a tie-breaker. A
// rule looks at the anchored function together with the same-package helpers it calls (reach +
// inlining in the flow engine), values are followed through locals, parameters and results
// (c15trace), callees through method values and closures held by locals (c15callee, c15liftLit),
// and a helper inlined into its caller is recognised by the statement it consisted of (a plain send
// on the client's queue = writePacket, delete from pending = puback, a bool method of the limiter
// field = checkPublishLimit, the retransmission written out in the resend loop = doResend).
// What was tried (out/variants*.json of the robustness pass; the single-fragment ones are kept in
// selftest/mutants/C15.json):
//   preserving, all silent: if-chain ↔ switch, renamed locals, named local for an id / a
//   comparison, early continue / return, inverted nesting, tagless switch (r1); per-subscriber body
//   of the fan-out in a helper that returns instead of continue, the whole loop in a helper taking
//   the map, client passed to a publishing helper, delete / ack / loop start / table delete in a
//   helper under the same lock, bool helpers (qosAllows, needsAck, stillPending), Puback built by a
//   constructor, limiter as a combinator (r2); key-only range + map index, index loop over a
//   snapshot of the queue, single-value lookup + nil test, defer ↔ explicit unlock, method value /
//   closure for doResend and writePacket, named result + bare return, new(Session) (r3); dispatch
//   table and handlers in another file, every unexported anchor (functions, fields, table) renamed,
//   the publish entry a named function, publish split into tryWritePacket + addPending, doResend
//   split into firstPending + resendPacket, publish's signature reordered (r4); writePacket,
//   doResend, puback, checkPublishLimit, getClient inlined into their callers.
//   mutants, each reported also on the refactored forms (rule in brackets): return/break in the
//   fan-out loop, break when the helper skipped [1]; comparison inverted / strict / operands of the
//   predicate swapped, helper skipping connected clients [2]; write before the pending store,
//   store without queue append, blocking QoS0 send, unlocked puback / helper after the unlock /
//   other key, resend without the pending test, with another / constant / index id, unlocked
//   resend write, loop left after a tick, doResend never called, queue trimmed in puback, nobody
//   deletes from pending [3]; PUBACK without / with another / a shared id, wrong level acknowledged,
//   processing although the pipeline rejected, limiter bypassed / its result ignored, entry
//   wrapping another handler [4]; resend loop not started (also in helper form) [5]; client table
//   entry deleted unconditionally (also in helper form) [6].
//   Second iteration (r5..r8 and variants5/6.json), also silent: wrapper closure → struct type with a
//   process method returned as a method value; withLock(func(){..}) / locked(func(){..}) helpers around the
//   body of puback / publish / doResend / removeClient (each literal handed to a helper that calls it is
//   interpreted on its own, starting with the lock state the helper establishes and the rule's events that
//   hold at the call); embedded mutex → named field; processX functions → *Client methods used as method
//   expressions, the publish entry itself a method expression; publish / doResend / writePacket /
//   getClient / checkPublishLimit as plain functions taking the object first; a publication / delivery /
//   pendingEntry / ack struct carrying QoS, ids or the packet between functions (fields of short-lived
//   struct values are followed to the composite literal or the later assignment); predicate helpers
//   (isGone(id), needsAck); map type aliases. Their mutants (processor running fn although rejected, never
//   calling fn, helper not locking, literal deleting another id, struct carrying another id / level,
//   wrong method expression wrapped, predicate testing presence only) are reported.
//   Honest exit 2 (undecided) instead of a verdict: the acknowledged level looked up in a table, the
//   resend loop split into a search loop and a send on another reading of the queue, a wrapper storing
//   something else than its parameter in the field it calls, publish called from a function literal, a
//   helper on the way called by go/defer/nested in an expression, the fan-out ranging over
//   something else than the subscriber map (e.g. sorted keys), several callers of the
//   per-subscriber helper, a role that two functions fit and no name decides.

const mq = "pkg/object/mqttproxy"

func init() { Registry["C15"] = c15 }

// breaksOut lists the statements inside loop body that leave the loop other than by
// exhausting it: return, break (targeting this loop), goto, panic().
func breaksOut(f *flow.Func, loop ast.Stmt, label string) []ast.Node {
	var body *ast.BlockStmt
	switch l := loop.(type) {
	case *ast.RangeStmt:
		body = l.Body
	case *ast.ForStmt:
		body = l.Body
	}
	var out []ast.Node
	var walk func(n ast.Node, breakable int)
	walk = func(n ast.Node, breakable int) {
		ast.Inspect(n, func(x ast.Node) bool {
			switch s := x.(type) {
			case *ast.FuncLit:
				return false
			case *ast.ReturnStmt:
				out = append(out, s)
			case *ast.BranchStmt:
				switch s.Tok {
				case token.GOTO:
					out = append(out, s)
				case token.BREAK:
					if s.Label != nil {
						if s.Label.Name == label {
							out = append(out, s)
						}
					} else if breakable == 0 {
						out = append(out, s)
					}
				}
			case *ast.ForStmt:
				if x != n {
					walk(s.Body, breakable+1)
					return false
				}
			case *ast.RangeStmt:
				if x != n {
					walk(s.Body, breakable+1)
					return false
				}
			case *ast.SwitchStmt:
				walk(s.Body, breakable+1)
				return false
			case *ast.TypeSwitchStmt:
				walk(s.Body, breakable+1)
				return false
			case *ast.SelectStmt:
				walk(s.Body, breakable+1)
				return false
			case *ast.ExprStmt:
				if call, ok := s.X.(*ast.CallExpr); ok {
					if b, ok := f.Callee(call).(*types.Builtin); ok && b.Name() == "panic" {
						out = append(out, s)
					}
				}
			}
			return true
		})
	}
	walk(body, 0)
	return out
}

// labelOf returns the label attached to stmt inside root ("" if none).
func labelOf(root ast.Node, stmt ast.Stmt) string {
	name := ""
	ast.Inspect(root, func(n ast.Node) bool {
		if l, ok := n.(*ast.LabeledStmt); ok && l.Stmt == stmt {
			name = l.Label.Name
		}
		return true
	})
	return name
}

// lockEvents tracks "ev:locked" for calls X.Lock()/X.Unlock() (also deferred) on any mutex.
func lockEvents(f *flow.Func, st *flow.State, call *ast.CallExpr, callee types.Object, deferred bool) {
	fnObj, ok := callee.(*types.Func)
	if !ok || fnObj.Pkg() == nil || fnObj.Pkg().Path() != "sync" {
		return
	}
	switch fnObj.Name() {
	case "Lock", "RLock":
		st.Set("ev:locked", flow.True)
	case "Unlock", "RUnlock":
		st.Set("ev:locked", flow.False)
	}
}

func isParam(f *flow.Func, v *types.Var) bool {
	if f.Type == nil || f.Type.Params == nil {
		return false
	}
	for _, fld := range f.Type.Params.List {
		for _, n := range fld.Names {
			if f.Info.Defs[n] == v {
				return true
			}
		}
	}
	return false
}

func c15(c *core.Ctx) string {
	c.Rule("R-C15-1", "fan-out loop of the subscriber delivery function has no early exit: inside the range loop over the subscriber map no return/break/goto/panic leaves the loop; every iteration either publishes, or skips because subscription QoS < message QoS, or because the client is not connected")
	c.Rule("R-C15-2", "per-subscriber skip condition is exactly (subscription QoS < message QoS): publish is reached only with that atom false, and an iteration without publish has it true or a nil client")
	c.Rule("R-C15-3", "QoS1 bookkeeping in Session.publish/puback/doResend: pending[id] store and queue append precede writePacket under the session lock; QoS0 send is non-blocking; puback deletes pending[MessageID] under the lock; doResend re-sends only ids still pending, with the same id, under the lock; the resend loop runs doResend on every tick until done")
	c.Rule("R-C15-4", "PUBACK echo and handler order: processPublish's QoS1 branch writes a Puback whose MessageID is the incoming packet's; the publish entry of the packet table runs limiter, then pipeline, then processPublish; pipelineWrapper calls fn unless the pipeline failed")
	c.NotDecided = []string{"socket-level delivery", "timing of retransmission", "queue-full drops of QoS0 copies", "findSubscribers correctness (C14)"}

	c.Rule("R-C15-5", "every live session has a resend loop: each function that builds a Session starts `go s.backgroundResendPending()` on every path that returns the session (or each of its direct callers does so for the returned session)")
	c.Rule("R-C15-6", "a registered client is removed from the broker's client table only when it is known to be disconnected (or has just been closed, or no entry exists): a live connection must stay addressable for delivery")
	c.Rule("R-C15-7", "a resend loop never outlives its session's registration under the client id: a session is stored into the session table only on paths on which the entry is absent or the previous session is nil or has been closed (in the storing function or at its call sites), and a session taken out of the table is closed")
	e := c15resolve(c)
	if e == nil {
		return "anchors of the MQTT delivery path could not be resolved"
	}
	c15FanOut(e)
	c15Session(e)
	c15Puback(e)
	c15ResendLoop(e)
	c15Registry(e)
	c15QueueWriters(e)
	c15Ownership(e)
	return "Static shape rules on the MQTT delivery path (anchors resolved by role, helpers followed by reach + inlining): the fan-out loop cannot be left early and publishes iff subQoS >= qos and the client is connected (path-sensitive, all paths of the delivery loop); QoS1 pending bookkeeping precedes the write under the session lock; PUBACK carries the incoming id; handler order limiter→pipeline→process. Not decided: socket delivery, retransmission timing, queue-full drops."
}
