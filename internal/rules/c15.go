package rules

import (
	"go/ast"
	"go/token"
	"go/types"

	"golang.org/x/tools/go/cfg"

	"verif/internal/core"
	"verif/internal/flow"
)

const mq = "pkg/object/mqttproxy"

func init() { Registry["C15"] = c15 }

// breaksOut lists the statements inside loop body that leave the loop other than by
// exhausting it: return, break (targeting this loop), goto, panic().
func breaksOut(f *flow.Func, loop ast.Stmt, label string) []ast.Node {
	var body *ast.BlockStmt
	switch l := loop.(type) {
	case *ast.RangeStmt:
		body = l.Body
	case *ast.ForStmt:
		body = l.Body
	}
	var out []ast.Node
	var walk func(n ast.Node, breakable int)
	walk = func(n ast.Node, breakable int) {
		ast.Inspect(n, func(x ast.Node) bool {
			switch s := x.(type) {
			case *ast.FuncLit:
				return false
			case *ast.ReturnStmt:
				out = append(out, s)
			case *ast.BranchStmt:
				switch s.Tok {
				case token.GOTO:
					out = append(out, s)
				case token.BREAK:
					if s.Label != nil {
						if s.Label.Name == label {
							out = append(out, s)
						}
					} else if breakable == 0 {
						out = append(out, s)
					}
				}
			case *ast.ForStmt:
				if x != n {
					walk(s.Body, breakable+1)
					return false
				}
			case *ast.RangeStmt:
				if x != n {
					walk(s.Body, breakable+1)
					return false
				}
			case *ast.SwitchStmt:
				walk(s.Body, breakable+1)
				return false
			case *ast.TypeSwitchStmt:
				walk(s.Body, breakable+1)
				return false
			case *ast.SelectStmt:
				walk(s.Body, breakable+1)
				return false
			case *ast.ExprStmt:
				if call, ok := s.X.(*ast.CallExpr); ok {
					if b, ok := f.Callee(call).(*types.Builtin); ok && b.Name() == "panic" {
						out = append(out, s)
					}
				}
			}
			return true
		})
	}
	walk(body, 0)
	return out
}

// labelOf returns the label attached to stmt inside root ("" if none).
func labelOf(root ast.Node, stmt ast.Stmt) string {
	name := ""
	ast.Inspect(root, func(n ast.Node) bool {
		if l, ok := n.(*ast.LabeledStmt); ok && l.Stmt == stmt {
			name = l.Label.Name
		}
		return true
	})
	return name
}

func c15(c *core.Ctx) string {
	c.Rule("R-C15-1", "fan-out loop of the subscriber delivery function has no early exit: inside the range loop over the subscriber map no return/break/goto/panic leaves the loop; every iteration either publishes, or skips because subscription QoS < message QoS, or because the client is not connected")
	c.Rule("R-C15-2", "per-subscriber skip condition is exactly (subscription QoS < message QoS): publish is reached only with that atom false, and an iteration without publish has it true or a nil client")
	c.Rule("R-C15-3", "QoS1 bookkeeping in Session.publish/puback/doResend: pending[id] store and queue append precede writePacket under the session lock; QoS0 send is non-blocking; puback deletes pending[MessageID] under the lock; doResend re-sends only ids still pending, with the same id, under the lock; the resend loop runs doResend on every tick until done")
	c.Rule("R-C15-4", "PUBACK echo and handler order: processPublish's QoS1 branch writes a Puback whose MessageID is the incoming packet's; the publish entry of the packet table runs limiter, then pipeline, then processPublish; pipelineWrapper calls fn unless the pipeline failed")
	c.NotDecided = []string{"socket-level delivery", "timing of retransmission", "queue-full drops of QoS0 copies", "findSubscribers correctness (C14)"}

	c.Rule("R-C15-5", "every live session has a resend loop: each function that builds a Session starts `go s.backgroundResendPending()` on every path that returns the session (or each of its direct callers does so for the returned session)")
	c.Rule("R-C15-6", "a registered client is removed from the broker's client table only when it is known to be disconnected (or has just been closed, or no entry exists): a live connection must stay addressable for delivery")
	c15FanOut(c)
	c15Session(c)
	c15Puback(c)
	c15ResendLoop(c)
	c15Registry(c)
	c15QueueWriters(c)
	return "Static shape rules on the MQTT delivery path: the fan-out loop cannot be left early and publishes iff subQoS >= qos and the client is connected (path-sensitive, all paths of sendMsgToClient); QoS1 pending bookkeeping precedes the write under the session lock; PUBACK carries the incoming id; handler order limiter→pipeline→process. Not decided: socket delivery, retransmission timing, queue-full drops."
}

func c15FanOut(c *core.Ctx) {
	f := fn(c, mq, "Broker", "sendMsgToClient")
	if f == nil {
		return
	}
	cons := fname(mq, "Broker", "sendMsgToClient")
	// subject: the range loop containing the call to (*Session).publish
	pubs := callsTo(f, f.Body, false, "(*"+mq+".Session).publish")
	if !c.RequireCount("R-C15-1", "Session.publish call sites in sendMsgToClient", len(pubs), 1) {
		return
	}
	pub := pubs[0]
	loops := enclosingLoops(f.Body, pub)
	if len(loops) == 0 {
		c.Violate("R-C15-1", cons+"|fan-out loop", pos(c, pub), "Session.publish is not called from a loop over the subscribers")
		return
	}
	loop, ok := loops[len(loops)-1].(*ast.RangeStmt)
	if !ok {
		c.Undecide("R-C15-1", cons+"|fan-out loop", pos(c, pub), "innermost loop around publish is not a range statement")
		return
	}
	// the ranged value must be the result of findSubscribers
	subjOK := false
	if id, ok := ast.Unparen(loop.X).(*ast.Ident); ok {
		obj := f.Info.Uses[id]
		ast.Inspect(f.Body, func(n ast.Node) bool {
			if as, ok := n.(*ast.AssignStmt); ok && len(as.Rhs) == 1 {
				if call, ok := as.Rhs[0].(*ast.CallExpr); ok && calleeIs(f, call, "(*"+mq+".TopicManager).findSubscribers") {
					if lid, ok := as.Lhs[0].(*ast.Ident); ok && (f.Info.Defs[lid] == obj || f.Info.Uses[lid] == obj) {
						subjOK = true
					}
				}
			}
			return true
		})
	}
	if !subjOK {
		c.Undecide("R-C15-1", cons+"|fan-out loop", pos(c, loop), "loop does not range over the result of findSubscribers")
		return
	}
	exits := breaksOut(f, loop, labelOf(f.Body, loop))
	if len(exits) == 0 {
		c.Discharge("R-C15-1", cons+"|no early exit", pos(c, loop), "no return/break/goto/panic inside the subscriber loop")
	} else {
		for _, x := range exits {
			c.Violate("R-C15-1", cons+"|no early exit", pos(c, x),
				"a statement inside the loop over subscribers leaves the loop: one subscriber silently suppresses delivery to all subscribers visited after it (map order)")
		}
	}

	// R-C15-2 + coverage half of R-C15-1 (path-sensitive)
	subQ, _ := loop.Value.(*ast.Ident)
	var qosArg *ast.Ident
	if len(pub.Args) == 4 {
		qosArg, _ = ast.Unparen(pub.Args[3]).(*ast.Ident)
	}
	if subQ == nil || qosArg == nil {
		c.Undecide("R-C15-2", cons+"|qos comparison", pos(c, loop), "cannot identify subscription QoS (range value) or message QoS (publish argument)")
		return
	}
	ltKey := "lt:" + f.Render(subQ) + "<" + f.Render(qosArg)
	type bad struct {
		st  *flow.State
		why string
	}
	var bads []bad
	iterations := 0
	res := analyze(c, f, flow.Config{
		OnBlock: func(st *flow.State, b *cfg.Block) {
			if b.Stmt != loop {
				return
			}
			switch b.Kind {
			case cfg.KindRangeBody:
				st.Set("ev:inbody", flow.True)
				st.Set("ev:published", flow.False)
				st.Set("ev:clientnil", flow.False)
			case cfg.KindRangeLoop:
				if st.Is("ev:inbody", flow.True) {
					iterations++
					if !st.Is("ev:published", flow.True) && !st.Is(ltKey, flow.True) && !st.Is("ev:clientnil", flow.True) {
						bads = append(bads, bad{st, "an iteration ends without publishing although subQoS >= qos and the client is connected"})
					}
				}
				st.Set("ev:inbody", flow.Unknown)
				st.Set("ev:published", flow.Unknown)
				st.Set("ev:clientnil", flow.Unknown)
			}
		},
		OnCall: func(st *flow.State, call *ast.CallExpr, callee types.Object, deferred bool) {
			if call == pub {
				st.Set("ev:published", flow.True)
			}
		},
		AfterAssume: func(st *flow.State, cond ast.Expr, outcome bool) {
			// client == nil learned: remember it as an event (survives later calls)
			for _, k := range st.Facts() {
				if len(k) > 4 && k[:4] == "nil:" && k[len(k)-2:] == "=T" {
					// only the variable assigned from getClient
					_ = k
				}
			}
		},
		NoHavoc: true,
	})
	if res == nil {
		return
	}
	// client nil-ness: the receiver chain of publish is client.session.publish; find root ident
	var clientKey string
	if sel, ok := ast.Unparen(pub.Fun).(*ast.SelectorExpr); ok {
		x := sel.X
		for {
			if s2, ok := ast.Unparen(x).(*ast.SelectorExpr); ok {
				x = s2.X
				continue
			}
			break
		}
		if id, ok := ast.Unparen(x).(*ast.Ident); ok {
			clientKey = f.NilKey(id)
		}
	}
	// re-run with clientnil event derived from the nil fact at loop end
	bads = nil
	iterations = 0
	res = analyze(c, f, flow.Config{
		OnBlock: func(st *flow.State, b *cfg.Block) {
			if b.Stmt != loop {
				return
			}
			switch b.Kind {
			case cfg.KindRangeBody:
				st.Set("ev:inbody", flow.True)
				st.Set("ev:published", flow.False)
			case cfg.KindRangeLoop:
				if st.Is("ev:inbody", flow.True) {
					iterations++
					if !st.Is("ev:published", flow.True) && !st.Is(ltKey, flow.True) && !(clientKey != "" && st.Is(clientKey, flow.True)) {
						bads = append(bads, bad{st, "an iteration ends without publishing although subQoS >= qos and the client is connected"})
					}
				}
				st.Set("ev:inbody", flow.Unknown)
				st.Set("ev:published", flow.Unknown)
				// facts of the finished iteration are dead
				st.Set(ltKey, flow.Unknown)
				if clientKey != "" {
					st.Set(clientKey, flow.Unknown)
				}
			}
		},
		OnCall: func(st *flow.State, call *ast.CallExpr, callee types.Object, deferred bool) {
			if call == pub {
				st.Set("ev:published", flow.True)
			}
		},
		NoHavoc: true,
	})
	if res == nil {
		return
	}
	c.RequireCount("R-C15-2", "abstract loop iterations explored", iterations, 1)
	// publish only with subQoS >= qos established
	okPub := true
	n := 0
	for _, st := range res.At[pub] {
		n++
		if !st.Is(ltKey, flow.False) {
			okPub = false
			c.Violate("R-C15-2", cons+"|publish guarded by subQoS>=qos", pos(c, pub),
				"Session.publish is reachable without the test (subscription QoS < message QoS) having failed: fact "+ltKey+" is "+st.Get(ltKey).String(), witness(st)...)
			break
		}
	}
	if n == 0 {
		c.Violate("R-C15-2", cons+"|publish guarded by subQoS>=qos", pos(c, pub), "Session.publish is unreachable in the subscriber loop")
	} else if okPub {
		c.Discharge("R-C15-2", cons+"|publish guarded by subQoS>=qos", pos(c, pub), sprintf("all %d abstract states reaching publish have %s = F", n, ltKey))
	}
	if len(bads) == 0 {
		c.Discharge("R-C15-2", cons+"|skip only when subQoS<qos or client offline", pos(c, loop), sprintf("%d abstract iteration ends checked", iterations))
	} else {
		c.Violate("R-C15-2", cons+"|skip only when subQoS<qos or client offline", pos(c, loop), bads[0].why, witness(bads[0].st)...)
	}
}

// lockHeldConfig returns hooks tracking "ev:locked" for calls X.Lock()/X.Unlock() (also
// deferred) on the receiver's embedded mutex.
func lockEvents(f *flow.Func, st *flow.State, call *ast.CallExpr, callee types.Object, deferred bool) {
	fnObj, ok := callee.(*types.Func)
	if !ok || fnObj.Pkg() == nil || fnObj.Pkg().Path() != "sync" {
		return
	}
	switch fnObj.Name() {
	case "Lock", "RLock":
		st.Set("ev:locked", flow.True)
	case "Unlock", "RUnlock":
		st.Set("ev:locked", flow.False)
	}
}

func c15Session(c *core.Ctx) {
	// ---- Session.publish
	if f := fn(c, mq, "Session", "publish"); f != nil {
		cons := fname(mq, "Session", "publish")
		pendingF := structField(c, mq, "Session", "pending")
		queueF := structField(c, mq, "Session", "pendingQueue")
		writes := callsTo(f, f.Body, false, "(*"+mq+".Client).writePacket")
		c.RequireCount("R-C15-3", "writePacket call sites in Session.publish", len(writes), 1)
		isFieldSel := func(e ast.Expr, fld *types.Var) bool {
			sel, ok := ast.Unparen(e).(*ast.SelectorExpr)
			if !ok {
				return false
			}
			s := f.Info.Selections[sel]
			return s != nil && s.Obj() == fld
		}
		res := analyze(c, f, flow.Config{
			NoHavoc: true,
			OnNode: func(st *flow.State, n ast.Node) {
				as, ok := n.(*ast.AssignStmt)
				if !ok {
					return
				}
				for _, l := range as.Lhs {
					if ix, ok := ast.Unparen(l).(*ast.IndexExpr); ok && isFieldSel(ix.X, pendingF) {
						st.Set("ev:pendingStored", flow.True)
					}
					if isFieldSel(l, queueF) {
						st.Set("ev:queued", flow.True)
					}
				}
			},
			OnCall: func(st *flow.State, call *ast.CallExpr, callee types.Object, deferred bool) {
				lockEvents(f, st, call, callee, deferred)
			},
		})
		if res != nil {
			for _, w := range writes {
				ok := true
				var bad *flow.State
				why := ""
				for _, st := range res.At[w] {
					switch {
					case !st.Is("ev:pendingStored", flow.True):
						ok, bad, why = false, st, "pending[id] is not stored before the packet is written (a lost packet would never be retransmitted)"
					case !st.Is("ev:queued", flow.True):
						ok, bad, why = false, st, "the id is not appended to pendingQueue before the packet is written"
					case !st.Is("ev:locked", flow.True):
						ok, bad, why = false, st, "session lock not held at writePacket"
					}
				}
				if len(res.At[w]) == 0 {
					ok, why = false, "writePacket unreachable"
				}
				c.Check(ok, "R-C15-3", cons+"|pending+queue before write, under lock", pos(c, w),
					sprintf("%d states at writePacket all have pendingStored, queued, locked", len(res.At[w])), why, witness(bad)...)
			}
			// every store to pending / queue under lock
			// (states at the assign nodes)
			lockedStores, stores := 0, 0
			var badStore ast.Node
			for n, sts := range res.At {
				as, ok := n.(*ast.AssignStmt)
				if !ok {
					continue
				}
				touch := false
				for _, l := range as.Lhs {
					if ix, ok := ast.Unparen(l).(*ast.IndexExpr); ok && isFieldSel(ix.X, pendingF) {
						touch = true
					}
					if isFieldSel(l, queueF) {
						touch = true
					}
				}
				if !touch {
					continue
				}
				stores++
				all := true
				for _, st := range sts {
					if !st.Is("ev:locked", flow.True) {
						all = false
					}
				}
				if all {
					lockedStores++
				} else {
					badStore = n
				}
			}
			c.RequireCount("R-C15-3", "pending/pendingQueue stores in Session.publish", stores, 2)
			c.Check(lockedStores == stores, "R-C15-3", cons+"|stores under session lock", pos(c, f.Body),
				sprintf("%d stores, all with the lock held", stores), "a store to pending/pendingQueue happens without the session lock", pos(c, badStore))
		}
		// QoS0: send on writeCh inside select with default
		var sends []*ast.SendStmt
		pm := parentMap(f.Body)
		ast.Inspect(f.Body, func(n ast.Node) bool {
			if s, ok := n.(*ast.SendStmt); ok {
				sends = append(sends, s)
			}
			return true
		})
		for _, s := range sends {
			nonBlocking := false
			if cc, ok := pm[s].(*ast.CommClause); ok && cc.Comm == s {
				if blk, ok := pm[cc].(*ast.BlockStmt); ok {
					if sel, ok := pm[blk].(*ast.SelectStmt); ok {
						for _, cl := range sel.Body.List {
							if cl.(*ast.CommClause).Comm == nil {
								nonBlocking = true
							}
						}
					}
				}
			}
			c.Check(nonBlocking, "R-C15-3", cons+"|direct channel send is non-blocking", pos(c, s),
				"send is a select case with a default clause", "a direct channel send under the session lock can block forever when the client's queue is full")
		}
	}

	// ---- Session.puback
	if f := fn(c, mq, "Session", "puback"); f != nil {
		cons := fname(mq, "Session", "puback")
		pendingF := structField(c, mq, "Session", "pending")
		var del *ast.CallExpr
		for _, call := range calls(f.Body, false) {
			if b, ok := f.Callee(call).(*types.Builtin); ok && b.Name() == "delete" && len(call.Args) == 2 {
				if sel, ok := ast.Unparen(call.Args[0]).(*ast.SelectorExpr); ok {
					if s := f.Info.Selections[sel]; s != nil && s.Obj() == pendingF {
						del = call
					}
				}
			}
		}
		if del == nil {
			c.Violate("R-C15-3", cons+"|delete pending[MessageID]", pos(c, f.Body), "puback does not delete the acknowledged id from pending: the message is retransmitted forever")
		} else {
			// key must be <param>.MessageID
			keyOK := false
			if sel, ok := ast.Unparen(del.Args[1]).(*ast.SelectorExpr); ok && sel.Sel.Name == "MessageID" {
				if id, ok := ast.Unparen(sel.X).(*ast.Ident); ok {
					if v, ok := f.Info.Uses[id].(*types.Var); ok && isParam(f, v) {
						keyOK = true
					}
				}
			}
			c.Check(keyOK, "R-C15-3", cons+"|delete pending[MessageID]", pos(c, del), "delete(s.pending, p.MessageID) with p the acknowledged packet", "the deleted key is not the acknowledged packet's MessageID")
			res := analyze(c, f, flow.Config{NoHavoc: true, OnCall: func(st *flow.State, call *ast.CallExpr, callee types.Object, d bool) {
				lockEvents(f, st, call, callee, d)
			}})
			if res != nil {
				ok := len(res.At) > 0
				var bad *flow.State
				// the delete call is inside an ExprStmt node
				found := false
				for n, sts := range res.At {
					if es, ok2 := n.(*ast.ExprStmt); ok2 && es.X == del {
						found = true
						for _, st := range sts {
							// state *before* the statement
							if !st.Is("ev:locked", flow.True) {
								ok, bad = false, st
							}
						}
					}
				}
				if !found {
					c.Undecide("R-C15-3", cons+"|delete under lock", pos(c, del), "delete is not a statement of its own")
				} else {
					c.Check(ok, "R-C15-3", cons+"|delete under lock", pos(c, del), "session lock held at delete", "pending is mutated without the session lock", witness(bad)...)
				}
			}
		}
	}

	// ---- Session.doResend
	if f := fn(c, mq, "Session", "doResend"); f != nil {
		cons := fname(mq, "Session", "doResend")
		pendingF := structField(c, mq, "Session", "pending")
		queueF := structField(c, mq, "Session", "pendingQueue")
		writes := callsTo(f, f.Body, false, "(*"+mq+".Client).writePacket")
		c.RequireCount("R-C15-3", "writePacket call sites in Session.doResend", len(writes), 1)
		for _, w := range writes {
			loops := enclosingLoops(f.Body, w)
			var loop *ast.RangeStmt
			if len(loops) > 0 {
				loop, _ = loops[len(loops)-1].(*ast.RangeStmt)
			}
			if loop == nil {
				c.Undecide("R-C15-3", cons+"|resend loop", pos(c, w), "writePacket is not inside a range loop")
				continue
			}
			overQueue := false
			if sel, ok := ast.Unparen(loop.X).(*ast.SelectorExpr); ok {
				if s := f.Info.Selections[sel]; s != nil && s.Obj() == queueF {
					overQueue = true
				}
			}
			idx, _ := loop.Value.(*ast.Ident)
			if !overQueue || idx == nil {
				c.Violate("R-C15-3", cons+"|resend ranges over pendingQueue", pos(c, loop), "the resend loop does not range over the values of pendingQueue")
				continue
			}
			idxObj := f.Info.Defs[idx]
			// find `val, ok := s.pending[idx]` and its ok variable
			var okVar *ast.Ident
			ast.Inspect(loop.Body, func(n ast.Node) bool {
				if as, ok := n.(*ast.AssignStmt); ok && len(as.Lhs) == 2 && len(as.Rhs) == 1 {
					if ix, ok := ast.Unparen(as.Rhs[0]).(*ast.IndexExpr); ok {
						if sel, ok := ast.Unparen(ix.X).(*ast.SelectorExpr); ok {
							if s := f.Info.Selections[sel]; s != nil && s.Obj() == pendingF {
								if id, ok := ast.Unparen(ix.Index).(*ast.Ident); ok && f.Info.Uses[id] == idxObj {
									okVar, _ = as.Lhs[1].(*ast.Ident)
								}
							}
						}
					}
				}
				return true
			})
			if okVar == nil {
				c.Violate("R-C15-3", cons+"|resend only ids still pending", pos(c, w), "no lookup `_, ok := pending[id]` guards the resend")
				continue
			}
			okKey := f.VarKey(okVar)
			// packet variable written
			var pktObj types.Object
			if len(w.Args) == 1 {
				if id, ok := ast.Unparen(w.Args[0]).(*ast.Ident); ok {
					pktObj = f.Info.Uses[id]
				}
			}
			res := analyze(c, f, flow.Config{NoHavoc: true,
				OnCall: func(st *flow.State, call *ast.CallExpr, callee types.Object, d bool) {
					lockEvents(f, st, call, callee, d)
				},
				OnNode: func(st *flow.State, n ast.Node) {
					as, ok := n.(*ast.AssignStmt)
					if !ok || len(as.Lhs) != 1 || len(as.Rhs) != 1 {
						return
					}
					sel, ok := ast.Unparen(as.Lhs[0]).(*ast.SelectorExpr)
					if !ok || sel.Sel.Name != "MessageID" {
						return
					}
					xid, ok := ast.Unparen(sel.X).(*ast.Ident)
					if !ok || pktObj == nil || f.Info.Uses[xid] != pktObj {
						return
					}
					if rid, ok := ast.Unparen(as.Rhs[0]).(*ast.Ident); ok && f.Info.Uses[rid] == idxObj {
						st.Set("ev:sameID", flow.True)
					} else {
						st.Set("ev:sameID", flow.False)
					}
				},
				OnBlock: func(st *flow.State, b *cfg.Block) {
					if b.Stmt == loop && b.Kind == cfg.KindRangeBody {
						st.Set("ev:sameID", flow.Unknown)
					}
				},
			})
			if res == nil {
				continue
			}
			ok := len(res.At[w]) > 0
			why := "writePacket unreachable"
			var bad *flow.State
			for _, st := range res.At[w] {
				switch {
				case !st.Is(okKey, flow.True):
					ok, bad, why = false, st, "a packet is re-sent although its id is no longer in pending (retransmission after PUBACK)"
				case !st.Is("ev:sameID", flow.True):
					ok, bad, why = false, st, "the re-sent packet's MessageID is not the pending id"
				case !st.Is("ev:locked", flow.True):
					ok, bad, why = false, st, "session lock not held while resending"
				}
			}
			c.Check(ok, "R-C15-3", cons+"|resend only pending ids, same id, under lock", pos(c, w),
				sprintf("%d states at writePacket: ok-lookup true, MessageID=idx, locked", len(res.At[w])), why, witness(bad)...)
		}
	}

	// ---- backgroundResendPending
	if f := fn(c, mq, "Session", "backgroundResendPending"); f != nil {
		cons := fname(mq, "Session", "backgroundResendPending")
		rs := callsTo(f, f.Body, false, "(*"+mq+".Session).doResend")
		okShape := false
		detail := "no doResend call"
		if len(rs) == 1 {
			loops := enclosingLoops(f.Body, rs[0])
			if len(loops) == 1 {
				if fl, ok := loops[0].(*ast.ForStmt); ok && fl.Cond == nil {
					// the only exits of the loop are returns inside a select case receiving from s.done
					exits := breaksOut(f, fl, labelOf(f.Body, fl))
					pm := parentMap(f.Body)
					doneF := structField(c, mq, "Session", "done")
					allDone := len(exits) > 0
					for _, x := range exits {
						inDone := false
						for p := pm[x]; p != nil; p = pm[p] {
							if cc, ok := p.(*ast.CommClause); ok && cc.Comm != nil {
								ast.Inspect(cc.Comm, func(n ast.Node) bool {
									if sel, ok := n.(*ast.SelectorExpr); ok {
										if s := f.Info.Selections[sel]; s != nil && s.Obj() == doneF {
											inDone = true
										}
									}
									return true
								})
								break
							}
						}
						if !inDone {
							allDone = false
							detail = "the resend loop can end for a reason other than the session's done channel: " + pos(c, x)
						}
					}
					// doResend must sit in a comm clause receiving from a ticker channel
					inTick := false
					for p := pm[rs[0]]; p != nil; p = pm[p] {
						if cc, ok := p.(*ast.CommClause); ok && cc.Comm != nil {
							ast.Inspect(cc.Comm, func(n ast.Node) bool {
								if sel, ok := n.(*ast.SelectorExpr); ok && sel.Sel.Name == "C" {
									if tv, ok := f.Info.Types[sel.X]; ok && tv.Type.String() == "*time.Ticker" {
										inTick = true
									}
								}
								return true
							})
							break
						}
					}
					if !inTick {
						detail = "doResend is not driven by a ticker case"
					}
					okShape = allDone && inTick
				} else {
					detail = "resend loop is not an unconditional for loop"
				}
			} else {
				detail = "doResend is not in exactly one loop"
			}
		}
		c.Check(okShape, "R-C15-3", cons+"|periodic resend until done", pos(c, f.Body), "for { select { <-done: return; <-ticker.C: doResend() } }", detail)
	}
}

func isParam(f *flow.Func, v *types.Var) bool {
	if f.Type == nil || f.Type.Params == nil {
		return false
	}
	for _, fld := range f.Type.Params.List {
		for _, n := range fld.Names {
			if f.Info.Defs[n] == v {
				return true
			}
		}
	}
	return false
}

func c15Puback(c *core.Ctx) {
	if f := fn(c, mq, "", "processPublish"); f != nil {
		cons := fname(mq, "", "processPublish")
		writes := callsTo(f, f.Body, false, "(*"+mq+".Client).writePacket")
		// the variable holding the incoming publish packet: assigned from a type assertion of a parameter
		var inObj types.Object
		ast.Inspect(f.Body, func(n ast.Node) bool {
			if as, ok := n.(*ast.AssignStmt); ok && len(as.Lhs) == 1 && len(as.Rhs) == 1 {
				if ta, ok := ast.Unparen(as.Rhs[0]).(*ast.TypeAssertExpr); ok {
					if id, ok := ast.Unparen(ta.X).(*ast.Ident); ok {
						if v, ok := f.Info.Uses[id].(*types.Var); ok && isParam(f, v) {
							if lid, ok := as.Lhs[0].(*ast.Ident); ok {
								inObj = f.Info.Defs[lid]
							}
						}
					}
				}
			}
			return true
		})
		if inObj == nil {
			c.Undecide("R-C15-4", cons+"|incoming packet", pos(c, f.Body), "cannot identify the incoming publish packet variable")
		} else {
			qosKey := "eq:" + inObj.Name() // prefix match below
			_ = qosKey
			res := analyze(c, f, flow.Config{NoHavoc: true,
				OnNode: func(st *flow.State, n ast.Node) {
					as, ok := n.(*ast.AssignStmt)
					if !ok || len(as.Lhs) != 1 || len(as.Rhs) != 1 {
						return
					}
					l, ok1 := ast.Unparen(as.Lhs[0]).(*ast.SelectorExpr)
					r, ok2 := ast.Unparen(as.Rhs[0]).(*ast.SelectorExpr)
					if ok1 && l.Sel.Name == "MessageID" {
						same := false
						if ok2 && r.Sel.Name == "MessageID" {
							if id, ok := ast.Unparen(r.X).(*ast.Ident); ok && f.Info.Uses[id] == inObj {
								same = true
							}
						}
						if lid, ok := ast.Unparen(l.X).(*ast.Ident); ok {
							st.Set("ev:idEcho:"+f.Render(lid), flow.Val(map[bool]flow.Val{true: flow.True, false: flow.False}[same]))
						}
					}
				},
			})
			if res != nil {
				// QoS1 ⇒ a Puback is written with the echoed id: every return state with
				// publish.Qos == 1 must have passed a writePacket with idEcho=T
				n := 0
				for _, w := range writes {
					arg, _ := ast.Unparen(w.Args[0]).(*ast.Ident)
					tv := f.Info.Types[w.Args[0]]
					if arg == nil || tv.Type == nil || tv.Type.String() != "*github.com/eclipse/paho.mqtt.golang/packets.PubackPacket" {
						continue
					}
					n++
					ok := len(res.At[w]) > 0
					var bad *flow.State
					for _, st := range res.At[w] {
						if !st.Is("ev:idEcho:"+f.Render(arg), flow.True) {
							ok, bad = false, st
						}
					}
					c.Check(ok, "R-C15-4", cons+"|puback carries incoming MessageID", pos(c, w), "puback.MessageID = publish.MessageID precedes writePacket(puback)",
						"the Puback written does not carry the incoming packet's MessageID", witness(bad)...)
				}
				if n == 0 {
					c.Violate("R-C15-4", cons+"|puback carries incoming MessageID", pos(c, f.Body), "no Puback is written by processPublish")
				}
				// the puback write must happen exactly on the QoS1 case: find switch case QoS1
				qos1 := false
				ast.Inspect(f.Body, func(nd ast.Node) bool {
					if sw, ok := nd.(*ast.SwitchStmt); ok && sw.Tag != nil {
						if sel, ok := ast.Unparen(sw.Tag).(*ast.SelectorExpr); ok && sel.Sel.Name == "Qos" {
							for _, cl := range sw.Body.List {
								cc := cl.(*ast.CaseClause)
								for _, x := range cc.List {
									if v, ok := f.Info.Types[x]; ok && v.Value != nil && v.Value.ExactString() == "1" {
										for _, w := range writes {
											if contains(cc, w) {
												qos1 = true
											}
										}
									}
								}
							}
						}
					}
					return true
				})
				c.Check(qos1, "R-C15-4", cons+"|QoS1 case writes the puback", pos(c, f.Body), "case QoS1 contains the puback write", "the QoS 1 case of processPublish does not write a Puback")
			}
		}
	}

	// pipelineWrapper: fn(c,p) is called iff runPipeline returned nil
	if f := fn(c, mq, "", "pipelineWrapper"); f != nil {
		cons := fname(mq, "", "pipelineWrapper")
		var lit *ast.FuncLit
		ast.Inspect(f.Body, func(n ast.Node) bool {
			if l, ok := n.(*ast.FuncLit); ok && lit == nil {
				lit = l
				return false
			}
			return true
		})
		if lit == nil {
			c.Undecide("R-C15-4", cons+"|closure", pos(c, f.Body), "no closure returned")
		} else {
			lf := f.Lit(lit)
			// fn param of outer function
			var fnObj types.Object
			if f.Type.Params != nil && len(f.Type.Params.List) > 0 && len(f.Type.Params.List[0].Names) > 0 {
				fnObj = f.Info.Defs[f.Type.Params.List[0].Names[0]]
			}
			var fnCall, runCall *ast.CallExpr
			for _, call := range calls(lit.Body, false) {
				if id, ok := ast.Unparen(call.Fun).(*ast.Ident); ok && f.Info.Uses[id] == fnObj {
					fnCall = call
				}
				if calleeIs(f, call, "(*"+mq+".Client).runPipeline") {
					runCall = call
				}
			}
			if fnCall == nil || runCall == nil {
				c.Violate("R-C15-4", cons+"|pipeline then process", pos(c, lit), "the wrapper does not call both the pipeline and the wrapped processing function")
			} else {
				var errKey string
				ast.Inspect(lit.Body, func(n ast.Node) bool {
					if as, ok := n.(*ast.AssignStmt); ok && len(as.Rhs) == 1 && as.Rhs[0] == runCall && len(as.Lhs) == 1 {
						errKey = lf.NilKey(as.Lhs[0])
					}
					return true
				})
				res := analyze(c, lf, flow.Config{NoHavoc: true,
					OnCall: func(st *flow.State, call *ast.CallExpr, callee types.Object, d bool) {
						if call == fnCall {
							st.Set("ev:processed", flow.True)
						}
					}})
				if res != nil && errKey != "" {
					ok := true
					var bad *flow.State
					why := ""
					for _, st := range res.At[fnCall] {
						if !st.Is(errKey, flow.True) {
							ok, bad, why = false, st, "the processing function runs although the pipeline rejected the packet"
						}
					}
					for _, ex := range res.Exits {
						if ex.Kind == flow.ExitReturn && ex.State.Is(errKey, flow.True) && !ex.State.Is("ev:processed", flow.True) {
							ok, bad, why = false, ex.State, "the pipeline accepted the packet but the processing function (PUBACK) is skipped"
						}
					}
					c.Check(ok, "R-C15-4", cons+"|process iff pipeline accepted", pos(c, fnCall), "fn(c,p) reached exactly on the err==nil edge of runPipeline", why, witness(bad)...)
				} else if res != nil {
					c.Undecide("R-C15-4", cons+"|process iff pipeline accepted", pos(c, lit), "runPipeline result is not assigned to a variable")
				}
			}
		}
	}

	// packet table: the publish entry runs limiter → pipelineWrapper(processPublish, Publish)
	pkg := c.Prog.Pkg(mq)
	if pkg == nil {
		return
	}
	var entry *ast.FuncLit
	for _, file := range pkg.Syntax {
		for _, d := range file.Decls {
			gd, ok := d.(*ast.GenDecl)
			if !ok || gd.Tok != token.VAR {
				continue
			}
			for _, sp := range gd.Specs {
				vs := sp.(*ast.ValueSpec)
				for i, n := range vs.Names {
					if n.Name != "processPacketMap" || i >= len(vs.Values) {
						continue
					}
					if cl, ok := vs.Values[i].(*ast.CompositeLit); ok {
						for _, el := range cl.Elts {
							kv, ok := el.(*ast.KeyValueExpr)
							if !ok {
								continue
							}
							if bl, ok := kv.Key.(*ast.BasicLit); ok && bl.Value == `"*packets.PublishPacket"` {
								entry, _ = kv.Value.(*ast.FuncLit)
								if entry == nil {
									// direct wrapper without limiter
									c.Violate("R-C15-4", mq+".processPacketMap|publish entry order", pos(c, kv.Value), "the publish entry is not a closure running the publish limiter first")
								}
							}
						}
					}
				}
			}
		}
	}
	cons := mq + ".processPacketMap[publish]"
	if entry == nil {
		c.Errorf("R-C15-4: anchor: publish entry of processPacketMap not found")
		return
	}
	base := &flow.Func{Pkg: pkg, Info: pkg.TypesInfo, Fset: pkg.Fset, Name: cons, Node: entry, Body: entry.Body, Type: entry.Type}
	var limit, wrapInner, wrapOuter *ast.CallExpr
	for _, call := range calls(entry.Body, false) {
		if calleeIs(base, call, "(*"+mq+".Client).checkPublishLimit") {
			limit = call
		}
		if calleeIs(base, call, mq+".pipelineWrapper") {
			wrapInner = call
		}
		if inner, ok := ast.Unparen(call.Fun).(*ast.CallExpr); ok && calleeIs(base, inner, mq+".pipelineWrapper") {
			wrapOuter = call
		}
	}
	if limit == nil || wrapInner == nil || wrapOuter == nil {
		c.Violate("R-C15-4", cons+"|limiter then pipeline then process", pos(c, entry), "the publish entry does not call checkPublishLimit and pipelineWrapper(...)(c, packet)")
		return
	}
	argOK := false
	if len(wrapInner.Args) == 2 {
		if id, ok := ast.Unparen(wrapInner.Args[0]).(*ast.Ident); ok && id.Name == "processPublish" {
			if _, ok := base.Info.Uses[id].(*types.Func); ok {
				argOK = true
			}
		}
	}
	c.Check(argOK, "R-C15-4", cons+"|wrapper wraps processPublish", pos(c, wrapInner), "pipelineWrapper(processPublish, Publish)", "the publish entry does not hand the packet to processPublish")
	limKey := base.CallKey(limit)
	res := analyze(c, base, flow.Config{NoHavoc: true})
	if res != nil {
		ok := len(res.At) > 0
		var bad *flow.State
		why := ""
		reached := false
		for n, sts := range res.At {
			rs, isRet := n.(*ast.ReturnStmt)
			if !isRet || !contains(rs, wrapOuter) {
				continue
			}
			reached = true
			for _, st := range sts {
				if !st.Is(limKey, flow.True) {
					ok, bad, why = false, st, "the pipeline/process step is reachable without the publish limiter having admitted the packet"
				}
			}
		}
		for _, ex := range res.Exits {
			if ex.Return != nil && !contains(ex.Return, wrapOuter) && ex.State.Is(limKey, flow.True) {
				ok, bad, why = false, ex.State, "a packet admitted by the limiter is dropped without pipeline/process"
			}
		}
		if !reached {
			ok, why = false, "pipelineWrapper(...)(c, packet) is not returned"
		}
		c.Check(ok, "R-C15-4", cons+"|limiter then pipeline then process", pos(c, wrapOuter), "wrapper call reached exactly on checkPublishLimit = true", why, witness(bad)...)
	}
}

// c15ResendLoop: R-C15-5.
func c15ResendLoop(c *core.Ctx) {
	pkg := c.Prog.Pkg(mq)
	if pkg == nil {
		return
	}
	sessT := namedType(c, mq, "Session")
	if sessT == nil {
		return
	}
	isResendGo := func(f *flow.Func, n ast.Node, obj types.Object) bool {
		gs, ok := n.(*ast.GoStmt)
		if !ok || !calleeIs(f, gs.Call, "(*"+mq+".Session).backgroundResendPending") {
			return false
		}
		sel, ok := ast.Unparen(gs.Call.Fun).(*ast.SelectorExpr)
		if !ok {
			return false
		}
		// receiver is the variable, or a field path ending in a *Session assigned from it
		root := sel.X
		if id, ok := ast.Unparen(root).(*ast.Ident); ok {
			return f.Info.Uses[id] == obj
		}
		return false
	}
	// startsFor: does f, on every path returning variable obj non-nil, start the loop for it?
	startsFor := func(f *flow.Func, obj types.Object) (bool, *flow.State) {
		res := analyze(c, f, flow.Config{NoHavoc: true, OnNode: func(st *flow.State, n ast.Node) {
			if isResendGo(f, n, obj) {
				st.Set("ev:resend", flow.True)
			}
		}})
		if res == nil {
			return false, nil
		}
		for _, ex := range res.Exits {
			if ex.Kind != flow.ExitReturn || ex.Return == nil {
				continue
			}
			returnsIt := false
			for _, r := range ex.Return.Results {
				if id, ok := ast.Unparen(r).(*ast.Ident); ok && f.Info.Uses[id] == obj {
					returnsIt = true
				}
			}
			if returnsIt && !ex.State.Is("ev:resend", flow.True) {
				return false, ex.State
			}
		}
		return true, nil
	}
	ctors := 0
	for _, file := range pkg.Syntax {
		for _, d := range file.Decls {
			fd, ok := d.(*ast.FuncDecl)
			if !ok || fd.Body == nil {
				continue
			}
			f := flow.NewFunc(pkg, fd)
			// variable assigned &Session{}
			var obj types.Object
			ast.Inspect(fd.Body, func(n ast.Node) bool {
				as, ok := n.(*ast.AssignStmt)
				if !ok || len(as.Lhs) != 1 || len(as.Rhs) != 1 {
					return true
				}
				lit := litOf(as.Rhs[0])
				if lit == nil {
					return true
				}
				if tv, ok := f.Info.Types[lit]; ok && types.Identical(tv.Type, sessT) {
					if id, ok := as.Lhs[0].(*ast.Ident); ok {
						obj = f.Info.Defs[id]
					}
				}
				return true
			})
			if obj == nil {
				continue
			}
			ctors++
			cons := declName(pkg, fd) + "|resend loop started for the new session"
			ok, bad := startsFor(f, obj)
			if ok {
				c.Discharge("R-C15-5", cons, pos(c, fd), "go s.backgroundResendPending() on every path returning the session")
				continue
			}
			// one level of callers
			callersOK, ncallers := true, 0
			var badCaller string
			fnObj := pkg.TypesInfo.Defs[fd.Name]
			for _, file2 := range pkg.Syntax {
				for _, d2 := range file2.Decls {
					fd2, ok := d2.(*ast.FuncDecl)
					if !ok || fd2.Body == nil {
						continue
					}
					f2 := flow.NewFunc(pkg, fd2)
					for _, call := range calls(fd2.Body, false) {
						if f2.Callee(call) != fnObj {
							continue
						}
						ncallers++
						// result must be bound to a variable for which the loop is started
						var robj types.Object
						ast.Inspect(fd2.Body, func(n ast.Node) bool {
							if as, ok := n.(*ast.AssignStmt); ok && len(as.Rhs) == 1 && as.Rhs[0] == call && len(as.Lhs) == 1 {
								if id, ok := as.Lhs[0].(*ast.Ident); ok {
									robj = f2.Info.Defs[id]
									if robj == nil {
										robj = f2.Info.Uses[id]
									}
								}
							}
							return true
						})
						started := false
						if robj != nil {
							ast.Inspect(fd2.Body, func(n ast.Node) bool {
								if isResendGo(f2, n, robj) {
									started = true
								}
								return true
							})
						}
						if !started {
							callersOK = false
							badCaller = declName(pkg, fd2)
						}
					}
				}
			}
			if callersOK && ncallers > 0 {
				c.Discharge("R-C15-5", cons, pos(c, fd), "started by every direct caller")
			} else {
				c.Violate("R-C15-5", cons, pos(c, fd), "a Session is created without its resend loop: unacknowledged QoS1 messages of that session are never retransmitted (not started here"+
					map[bool]string{true: ", nor in caller " + badCaller, false: ""}[badCaller != ""]+")", witness(bad)...)
			}
		}
	}
	c.RequireCount("R-C15-5", "functions building a Session", ctors, 2)
}

// c15Registry: R-C15-6.
func c15Registry(c *core.Ctx) {
	pkg := c.Prog.Pkg(mq)
	clientsF := structField(c, mq, "Broker", "clients")
	if pkg == nil || clientsF == nil {
		return
	}
	sites := 0
	for _, file := range pkg.Syntax {
		for _, d := range file.Decls {
			fd, ok := d.(*ast.FuncDecl)
			if !ok || fd.Body == nil {
				continue
			}
			f := flow.NewFunc(pkg, fd)
			isClients := func(e ast.Expr) bool {
				sel, ok := ast.Unparen(e).(*ast.SelectorExpr)
				if !ok {
					return false
				}
				s := f.Info.Selections[sel]
				return s != nil && s.Obj() == clientsF
			}
			var dels []*ast.CallExpr
			for _, call := range calls(fd.Body, false) {
				if b, ok := f.Callee(call).(*types.Builtin); ok && b.Name() == "delete" && len(call.Args) == 2 && isClients(call.Args[0]) {
					dels = append(dels, call)
				}
			}
			if len(dels) == 0 {
				continue
			}
			// lookups `val, ok := b.clients[k]`
			type lookup struct {
				key     string
				val, ok *ast.Ident
			}
			var lookups []lookup
			ast.Inspect(fd.Body, func(n ast.Node) bool {
				if as, ok := n.(*ast.AssignStmt); ok && len(as.Lhs) == 2 && len(as.Rhs) == 1 {
					if ix, ok := ast.Unparen(as.Rhs[0]).(*ast.IndexExpr); ok && isClients(ix.X) {
						v, _ := as.Lhs[0].(*ast.Ident)
						o, _ := as.Lhs[1].(*ast.Ident)
						if v != nil && o != nil {
							lookups = append(lookups, lookup{f.Render(ix.Index), v, o})
						}
					}
				}
				return true
			})
			res := analyze(c, f, flow.Config{NoHavoc: true, OnCall: func(st *flow.State, call *ast.CallExpr, callee types.Object, deferred bool) {
				if calleeIs(f, call, "(*"+mq+".Client).close") {
					if sel, ok := ast.Unparen(call.Fun).(*ast.SelectorExpr); ok {
						st.Set("ev:closed:"+f.Render(sel.X), flow.True)
					}
				}
			}})
			if res == nil {
				continue
			}
			for _, del := range dels {
				sites++
				cons := declName(pkg, fd) + "|delete from Broker.clients"
				k := f.Render(del.Args[1])
				var lk *lookup
				for i := range lookups {
					if lookups[i].key == k {
						lk = &lookups[i]
					}
				}
				if lk == nil {
					c.Violate("R-C15-6", cons, pos(c, del), "the client table entry is deleted without looking at the registered client: after a take-over the stale connection's teardown removes the new, live connection, which then receives no messages")
					continue
				}
				discKey := "call:" + f.Render(lk.val) + ".disconnected()"
				var bad *flow.State
				for _, st := range res.At[del] {
					if st.Is(f.VarKey(lk.ok), flow.False) || st.Is(discKey, flow.True) || st.Is("ev:closed:"+f.Render(lk.val), flow.True) {
						continue
					}
					bad = st
				}
				c.Check(bad == nil, "R-C15-6", cons, pos(c, del), sprintf("%d states: entry absent, registered client disconnected, or just closed", len(res.At[del])),
					"the client table entry is deleted although the registered client may be a live connection (after a take-over the new connection is dropped from delivery)", witness(bad)...)
			}
		}
	}
	c.RequireCount("R-C15-6", "delete(Broker.clients, id) sites", sites, 2)
}
