package rules

import (
	"go/ast"
	"go/types"
	"strings"

	"verif/internal/core"
	"verif/internal/flow"
)

// The per-attempt side of C10 in the proxy (R-C10-4, R-C10-5), anchored by role:
//   attempt closure = the func(context.Context) error literal (in handle or a helper of it) from which
//                     the send is reached;
//   send            = the call of the package-level function variable func(*http.Request, *http.Client);
//   request build   = the call of net/http.NewRequestWithContext / (*http.Request).WithContext reached
//                     from the attempt closure;
//   response read   = the call, with its error kept, of a same-package function that reaches
//                     (*httpprot.Response).FetchPayload, made by a function that returns pool errors.
// Everything between those points (handleOnce, doHandle / attemptOnce, send, prepareRequest /
// newBackendRequest ...) is interpreted in place by the flow engine.

type c10attempt struct {
	ro     *c10roles
	f      *flow.Func // handle
	lit    *ast.FuncLit
	lf     *flow.Func   // the attempt closure
	fs     []*flow.Func // the closure and the same-package functions reached from it
	pm     map[ast.Node]ast.Node
	ctxP   types.Object
	sends  []*ast.CallExpr
	builds []*ast.CallExpr // context-carrying request constructions
}

func c10isBuild(f *flow.Func, call *ast.CallExpr) bool {
	switch calleeFull(f, call) {
	case "net/http.NewRequestWithContext", "(*net/http.Request).WithContext":
		return true
	}
	return false
}

var c10attemptMemo = map[*core.Ctx]*c10attempt{}

// c10Unit resolves the attempt closure and what is reached from it (once per run).
func c10Unit(c *core.Ctx) *c10attempt {
	if a, ok := c10attemptMemo[c]; ok {
		return a
	}
	var out *c10attempt
	defer func() { c10attemptMemo[c] = out }()
	ro := c10Roles(c)
	if ro == nil {
		return nil
	}
	a := &c10attempt{ro: ro, f: ro.handle, pm: map[ast.Node]ast.Node{}}
	isSend := func(h *flow.Func, n ast.Node) bool {
		call, ok := n.(*ast.CallExpr)
		return ok && ro.isSend(h, call)
	}
	n := 0
	for _, g := range reach(a.f, 2) {
		ast.Inspect(g.Body, func(x ast.Node) bool {
			l, ok := x.(*ast.FuncLit)
			if !ok {
				return true
			}
			if tv, ok := g.Info.Types[l]; !ok || !c10isHandlerSig(tv.Type) {
				return true
			}
			cand := g.Lit(l)
			if reachContains(cand, 5, isSend) {
				n++
				a.lit, a.lf = l, cand
			}
			return false
		})
	}
	if !c.RequireCount("R-C10-4", "attempt closures (func(context.Context) error literals reaching the send) in ServerPool.handle", n, 1) {
		return nil
	}
	if n != 1 {
		c10shape(c, "R-C10-4", c10funcCons(a.f)+"$attempt|response reset per attempt", pos(c, a.lit), "more than one function literal of handle reaches the send")
		return nil
	}
	a.ctxP = c10paramObj(a.f, a.lit.Type, 0)
	if a.ctxP == nil || !c10isCtxType(a.ctxP.Type()) {
		c.Errorf("R-C10-4: anchor: the attempt closure has no named context.Context parameter")
		return nil
	}
	a.fs = reach(a.lf, 5)
	for _, g := range a.fs {
		for k, v := range parentMap(g.Body) {
			a.pm[k] = v
		}
		for _, call := range calls(g.Body, false) {
			switch {
			case ro.isSend(g, call):
				a.sends = append(a.sends, call)
			case c10isBuild(g, call):
				a.builds = append(a.builds, call)
			}
		}
	}
	if !c.RequireCount("R-C10-5", "fnSendRequest call sites in doHandle", len(a.sends), 1) {
		return nil
	}
	out = a
	return out
}

// fnOf returns the function of the unit whose body contains n.
func (a *c10attempt) fnOf(n ast.Node) *flow.Func {
	var best *flow.Func
	for _, g := range a.fs {
		if contains(g.Body, n) && (best == nil || contains(best.Body, g.Body)) {
			best = g
		}
	}
	return best
}

// c10Attempt decides R-C10-4 on the attempt closure: path-sensitively, with the helpers between the
// closure and the request construction interpreted in place.
func c10Attempt(c *core.Ctx) {
	a := c10Unit(c)
	if a == nil {
		return
	}
	ro, f, lf := a.ro, a.f, a.lf
	cons := c10funcCons(f) + "$attempt"
	respF, timeoutF := ro.respF, ro.timeoutF

	var tests []c10sign
	for _, h := range a.fs {
		tests = append(tests, c10signTests(f, h.Body, timeoutF)...)
	}
	bodyOf := func(n ast.Node) ast.Node {
		if g := a.fnOf(n); g != nil {
			return g.Body
		}
		return a.lit.Body
	}
	target := func(h *flow.Func, n ast.Node) bool {
		call, ok := n.(*ast.CallExpr)
		return ok && (ro.isSend(h, call) || c10isBuild(h, call))
	}
	good := func(st *flow.State, id *ast.Ident) bool {
		if id == nil {
			return false
		}
		if c10obj(f, id) == a.ctxP {
			return !st.Is("ev:ctxbad:"+lf.Render(id), flow.True)
		}
		return st.Is("ev:ctxgood:"+lf.Render(id), flow.True)
	}
	setCtx := func(st *flow.State, l *ast.Ident, derived bool, deadline flow.Val) {
		key := lf.Render(l)
		if c10obj(f, l) == a.ctxP {
			st.Set("ev:ctxbad:"+key, map[bool]flow.Val{true: flow.False, false: flow.True}[derived])
		} else {
			st.Set("ev:ctxgood:"+key, map[bool]flow.Val{true: flow.True, false: flow.False}[derived])
		}
		st.Set("ev:deadline:"+key, deadline)
	}
	// ctxOfCall: the status of the context a call derives from its context-typed argument
	ctxOfCall := func(st *flow.State, call *ast.CallExpr) (derived bool, deadline flow.Val) {
		var src *ast.Ident
		for _, arg := range call.Args {
			if tv, ok := f.Info.Types[arg]; ok && c10isCtxType(tv.Type) {
				src = c10ident(arg)
				break
			}
		}
		if !good(st, src) {
			return false, flow.Unknown
		}
		deadline = st.Get("ev:deadline:" + lf.Render(src))
		switch calleeFull(f, call) {
		case "context.WithTimeout", "context.WithDeadline":
			if len(call.Args) == 2 && c10mentions(f, c10alias(f, bodyOf(call), call.Args[1]), timeoutF) {
				deadline = flow.True
			}
		}
		return true, deadline
	}
	res := analyze(c, lf, flow.Config{
		NoHavoc: true,
		Inline: inlineIf(lf, func(callee *types.Func, g *flow.Func) bool {
			// helpers on the way to the send / the request construction, and helpers that derive the
			// attempt's context (sp.attemptContext(parent))
			return reachContains(g, 5, target) || reachContains(g, 2, func(h *flow.Func, n ast.Node) bool {
				call, ok := n.(*ast.CallExpr)
				if !ok {
					return false
				}
				switch calleeFull(h, call) {
				case "context.WithTimeout", "context.WithDeadline":
					return true
				}
				return false
			})
		}),
		OnInline: func(st *flow.State, ev *flow.InlineEvent) {
			if ev.Enter {
				// a context handed to a helper keeps its status under the parameter's name
				for i, p := range ev.Params {
					if i >= len(ev.Args) || p == nil {
						continue
					}
					if o := c10obj(f, p); o == nil || !c10isCtxType(o.Type()) {
						continue
					}
					arg := c10ident(ev.Args[i])
					dl := flow.Unknown
					if arg != nil {
						dl = st.Get("ev:deadline:" + lf.Render(arg))
					}
					setCtx(st, p, good(st, arg), dl)
				}
				return
			}
			// a context returned by a helper (ctx, cancel := sp.withTimeout(stdctx)) keeps its status
			// under the name it is assigned to
			as, ok := a.pm[ev.Call].(*ast.AssignStmt)
			if !ok || len(as.Rhs) != 1 {
				return
			}
			// `return context.WithTimeout(parent, sp.timeout)`: the helper hands the derived context (and
			// its cancel function) straight on
			if ev.Return != nil && len(ev.Return.Results) == 1 && len(as.Lhs) == 2 {
				if call, ok := ast.Unparen(ev.Return.Results[0]).(*ast.CallExpr); ok {
					if lid := c10ident(as.Lhs[0]); lid != nil && lid.Name != "_" {
						if o := c10obj(f, lid); o != nil && c10isCtxType(o.Type()) {
							derived, dl := ctxOfCall(st, call)
							setCtx(st, lid, derived, dl)
						}
					}
				}
				return
			}
			if len(as.Lhs) != len(ev.Results) {
				return
			}
			for i, l := range as.Lhs {
				lid, rid := c10ident(l), c10ident(ev.Results[i])
				if lid == nil || lid.Name == "_" {
					continue
				}
				if o := c10obj(f, lid); o == nil || !c10isCtxType(o.Type()) {
					continue
				}
				dl := flow.Unknown
				if rid != nil {
					dl = st.Get("ev:deadline:" + lf.Render(rid))
				}
				setCtx(st, lid, good(st, rid), dl)
			}
		},
		OnNode: func(st *flow.State, n ast.Node) {
			as, ok := n.(*ast.AssignStmt)
			if !ok {
				return
			}
			// stores to the response field of the per-request context
			for i, l := range as.Lhs {
				// ... or to the embedded per-attempt struct that holds it: spCtx.attemptState = attemptState{}
				if h := ro.holder[respF]; h != nil && c10fieldSel(f, l, h) && len(as.Rhs) == len(as.Lhs) {
					reset := false
					if cl, ok := ast.Unparen(as.Rhs[i]).(*ast.CompositeLit); ok {
						reset = true
						for _, el := range cl.Elts {
							kv, ok := el.(*ast.KeyValueExpr)
							if !ok {
								reset = false // positional literal: not followed
							} else if id := c10ident(kv.Key); id != nil && f.Info.Uses[id] == types.Object(respF) && !f.Info.Types[kv.Value].IsNil() {
								reset = false
							}
						}
					}
					st.Set("ev:respReset", map[bool]flow.Val{true: flow.True, false: flow.False}[reset])
				}
				if c10fieldSel(f, l, respF) {
					if len(as.Rhs) == len(as.Lhs) && f.Info.Types[as.Rhs[i]].IsNil() {
						st.Set("ev:respReset", flow.True)
					} else {
						st.Set("ev:respReset", flow.False)
					}
				}
			}
			// writes to context-typed variables
			if len(as.Lhs) == 0 {
				return
			}
			l := c10ident(as.Lhs[0])
			if l == nil {
				return
			}
			v, ok := c10obj(f, l).(*types.Var)
			if !ok || !c10isCtxType(v.Type()) {
				return
			}
			derived, deadline := false, flow.Unknown
			if len(as.Rhs) == 1 {
				if call, ok := ast.Unparen(as.Rhs[0]).(*ast.CallExpr); ok && len(call.Args) >= 1 {
					derived, deadline = ctxOfCall(st, call)
				} else if src := c10ident(as.Rhs[0]); src != nil && good(st, src) {
					derived = true
					deadline = st.Get("ev:deadline:" + lf.Render(src))
				}
			}
			setCtx(st, l, derived, deadline)
		},
	})
	if res == nil {
		return
	}
	inl := sprintf(" (interpreted in place: %v)", res.Inlined)

	// ---- the response of an earlier attempt is cleared before this attempt sends
	var badReset *flow.State
	n := 0
	for _, sd := range a.sends {
		for _, st := range res.At[sd] {
			n++
			if !st.Is("ev:respReset", flow.True) && badReset == nil {
				badReset = st
			}
		}
	}
	if n == 0 {
		c.Violate("R-C10-4", cons+"|response reset per attempt", pos(c, a.sends[0]), "the send is unreachable from the attempt closure")
		return
	}
	c.Check(badReset == nil, "R-C10-4", cons+"|response reset per attempt", pos(c, a.sends[0]),
		sprintf("%d state(s) reach the send, all after spCtx.resp = nil%s", n, inl),
		"the send is reachable without spCtx.resp having been cleared in this attempt: when an earlier attempt left a response (failure code) and the last attempt fails without one, handle sees resp != nil and the client is served the earlier attempt's response with the last attempt's result", witness(badReset)...)

	// ---- the request is built under a context derived from the closure's, with the pool timeout iff configured
	if len(a.builds) == 0 {
		return // reported by c10Prepare: no context-carrying request construction at all
	}
	var badCtx, badDL *flow.State
	whyDL := ""
	nb := 0
	for _, b := range a.builds {
		if len(b.Args) == 0 {
			continue
		}
		arg := c10ident(b.Args[0])
		for _, st := range res.At[b] {
			nb++
			if !good(st, arg) {
				if badCtx == nil {
					badCtx = st
				}
				continue
			}
			has := st.Is("ev:deadline:"+lf.Render(arg), flow.True)
			p := c10positive(st, tests)
			switch {
			case badDL != nil:
			case has && p != flow.True:
				badDL, whyDL = st, "the backend request is built under WithTimeout(ctx, sp.timeout) on a path where sp.timeout > 0 is not established: a pool without a timeout gets an already expired deadline and every request ends as 408/timeout"
			case !has && p != flow.False:
				badDL, whyDL = st, "the backend request is built without a WithTimeout(ctx, sp.timeout) context although sp.timeout <= 0 is not established: a backend that does not answer hangs the request instead of yielding timeout (408)"
			}
		}
	}
	if nb == 0 {
		c.Violate("R-C10-4", cons+"|attempt context derived from wrapper ctx", pos(c, a.builds[0]), "the request construction is unreachable from the attempt closure")
		return
	}
	c.Check(badCtx == nil, "R-C10-4", cons+"|attempt context derived from wrapper ctx", pos(c, a.builds[0]),
		sprintf("%d state(s) reach the request construction, all with the closure's ctx parameter or a context derived from it", nb),
		"the backend request is built with a context that is not derived from the attempt closure's ctx parameter: the client's cancellation and the pool timeout do not reach the backend call", witness(badCtx)...)
	c.Check(badDL == nil, "R-C10-4", cons+"|deadline iff timeout configured", pos(c, a.builds[0]),
		sprintf("%d state(s): WithTimeout(ctx, sp.timeout) applied exactly when sp.timeout > 0%s", nb, inl), whyDL, witness(badDL)...)
}

// c10Prepare: the request that is sent is one built with a context (value flow from the send's
// argument back to NewRequestWithContext / WithContext, through fields, locals and helper results).
func c10Prepare(c *core.Ctx) {
	a := c10Unit(c)
	if a == nil {
		return
	}
	f := a.f
	type origin struct {
		e    ast.Expr
		kind string // "build", "plain" (http.NewRequest), "?"
	}
	var origins []origin
	seen := map[ast.Node]bool{}
	var trace func(e ast.Expr, idx, depth int)
	trace = func(e ast.Expr, idx, depth int) {
		e = ast.Unparen(e)
		if e == nil || seen[e] || depth > 8 {
			return
		}
		seen[e] = true
		if f.Info.Types[e].IsNil() {
			return
		}
		switch x := e.(type) {
		case *ast.Ident:
			g := a.fnOf(x)
			o := c10obj(f, x)
			if g == nil || o == nil {
				origins = append(origins, origin{e, "?"})
				return
			}
			ws := c10writes(f, g.Body, o)
			if len(ws) == 0 {
				origins = append(origins, origin{e, "?"}) // a parameter: not followed
				return
			}
			for _, w := range ws {
				switch {
				case w.rhs != nil:
					trace(w.rhs, 0, depth+1)
				case w.src != nil:
					trace(w.src, w.idx, depth+1)
				case w.tok.String() == "var":
				default:
					origins = append(origins, origin{e, "?"})
				}
			}
		case *ast.SelectorExpr:
			s := f.Info.Selections[x]
			fld, _ := func() (*types.Var, bool) {
				if s == nil {
					return nil, false
				}
				v, ok := s.Obj().(*types.Var)
				return v, ok
			}()
			if fld == nil || !fld.IsField() {
				origins = append(origins, origin{e, "?"})
				return
			}
			stores := 0
			for _, g := range a.fs {
				ast.Inspect(g.Body, func(n ast.Node) bool {
					as, ok := n.(*ast.AssignStmt)
					if !ok {
						return true
					}
					for i, l := range as.Lhs {
						if !c10fieldSel(f, l, fld) {
							continue
						}
						stores++
						if len(as.Rhs) == len(as.Lhs) {
							trace(as.Rhs[i], 0, depth+1)
						} else if len(as.Rhs) == 1 {
							trace(as.Rhs[0], i, depth+1)
						}
					}
					return true
				})
			}
			if stores == 0 {
				origins = append(origins, origin{e, "?"})
			}
		case *ast.CallExpr:
			switch {
			case c10isBuild(f, x):
				origins = append(origins, origin{e, "build"})
			case calleeFull(f, x) == "net/http.NewRequest":
				origins = append(origins, origin{e, "plain"})
			default:
				fo, ok := f.Callee(x).(*types.Func)
				var fd *ast.FuncDecl
				if ok && fo.Pkg() == f.Pkg.Types {
					fd = declOf(f.Pkg, fo)
				}
				if fd == nil {
					origins = append(origins, origin{e, "?"})
					return
				}
				ast.Inspect(fd.Body, func(n ast.Node) bool {
					switch r := n.(type) {
					case *ast.FuncLit:
						return false
					case *ast.ReturnStmt:
						switch {
						case idx < len(r.Results):
							trace(r.Results[idx], 0, depth+1)
						case len(r.Results) == 0 && fd.Type.Results != nil:
							k := 0
							for _, fl := range fd.Type.Results.List {
								for _, name := range fl.Names {
									if k == idx {
										trace(name, 0, depth+1)
									}
									k++
								}
							}
						}
					}
					return true
				})
			}
		default:
			origins = append(origins, origin{e, "?"})
		}
	}
	for _, sd := range a.sends {
		if len(sd.Args) >= 1 {
			trace(sd.Args[0], 0, 0)
		}
	}
	var anchor ast.Node = a.sends[0]
	if len(a.builds) > 0 {
		anchor = a.builds[0]
	}
	consFn := a.fnOf(anchor)
	cons := c10funcCons(a.f)
	if consFn != nil {
		cons = c10funcCons(consFn)
	}
	nBuild := 0
	var plain, unknown ast.Node
	for _, o := range origins {
		switch o.kind {
		case "build":
			nBuild++
		case "plain":
			plain = o.e
		default:
			unknown = o.e
		}
	}
	switch {
	case plain != nil || (nBuild == 0 && unknown == nil):
		at := anchor
		if plain != nil {
			at = plain
		}
		c.Violate("R-C10-4", cons+"|deadline reaches the backend request", pos(c, at),
			"the request handed to the send is not built with a context (NewRequestWithContext / WithContext): the pool timeout and the client's cancellation do not bound the backend call, which may hang")
	case unknown != nil:
		c10shape(c, "R-C10-4", cons+"|deadline reaches the backend request", pos(c, unknown), "cannot trace the request handed to the send back to its construction: "+types.ExprString(unknown.(ast.Expr)))
	default:
		c.Discharge("R-C10-4", cons+"|deadline reaches the backend request", pos(c, anchor),
			sprintf("the request handed to the send originates from %d context-carrying construction(s) (NewRequestWithContext / WithContext); the context used there is decided path-sensitively by the attempt obligations", nBuild))
	}
}

// c10DoHandle decides R-C10-5 on the attempt: the classification of a failed send and of a failed
// response read by the error of the outgoing request's context.
func c10DoHandle(c *core.Ctx) {
	a := c10Unit(c)
	if a == nil {
		return
	}
	ro, f := a.ro, a.f
	speT, stdReqF := ro.spe, ro.stdReqF
	if len(a.sends) != 1 {
		c10shape(c, "R-C10-5", c10funcCons(a.fnOf(a.sends[0]))+"|send-failure table", pos(c, a.sends[1]), "more than one send is reached from the attempt closure")
		return
	}
	send := a.sends[0]
	sendFn := a.fnOf(send)
	cons := c10funcCons(sendFn)
	pm := a.pm
	// the property's table: the result strings are what pipelines jump on (part of the filter's contract)
	want := map[string][2]string{"nil": {"503", "serverError"}, "deadline": {"408", "timeout"}, "other": {"499", "clientError"}}

	var sendErr *ast.Ident
	if as, ok := pm[send].(*ast.AssignStmt); ok && len(as.Lhs) == 2 && len(as.Rhs) == 1 {
		sendErr = c10ident(as.Lhs[1])
	}
	if sendErr == nil || sendErr.Name == "_" {
		c.Violate("R-C10-5", cons+"|send-failure table", pos(c, send), "the error of the send is not kept: a failed send is not classified at all")
		return
	}
	sendErrObj := c10obj(f, sendErr)
	sendErrKey := f.NilKey(sendErr)

	// the response read
	isFetch := func(h *flow.Func, n ast.Node) bool {
		call, ok := n.(*ast.CallExpr)
		return ok && calleeIs(h, call, "(*"+c10hp+".Response).FetchPayload")
	}
	hasSpeLit := func(g *flow.Func) bool {
		found := false
		ast.Inspect(g.Body, func(n ast.Node) bool {
			if cl, ok := n.(*ast.CompositeLit); ok {
				if tv, ok := f.Info.Types[cl]; ok && types.Identical(tv.Type, speT) {
					found = true
				}
			}
			return !found
		})
		return found
	}
	var reads []*ast.CallExpr
	readErrKey := map[*ast.CallExpr]string{}
	readFailWhen := map[string]flow.Val{} // the value of the outcome fact that means "the read failed"
	var undecidedRead ast.Node
	unkept := false
	for _, g := range a.fs {
		if !hasSpeLit(g) {
			continue
		}
		for _, call := range calls(g.Body, false) {
			fo, ok := f.Callee(call).(*types.Func)
			if !ok || fo.Pkg() != f.Pkg.Types {
				continue
			}
			fd := declOf(f.Pkg, fo)
			if fd == nil || !reachContains(funcOf(f.Pkg, fd), 3, isFetch) {
				continue
			}
			if _, isRet := pm[call].(*ast.ReturnStmt); isRet {
				continue // handed up unchanged: the classification is made further down
			}
			reads = append(reads, call)
			if as, ok := pm[call].(*ast.AssignStmt); ok && len(as.Lhs) == 1 && len(as.Rhs) == 1 {
				if id := c10ident(as.Lhs[0]); id != nil && id.Name != "_" {
					if o := c10obj(f, id); o != nil {
						if bt, isBasic := o.Type().Underlying().(*types.Basic); isBasic && bt.Info()&types.IsBoolean != 0 {
							// a bool outcome (`built := sp.buildResponse(spCtx)`): which value means failure is
							// read from the callee: the constant it returns under an `err != nil` test
							if failVal, ok := c10boolFailure(f, fd); ok {
								readErrKey[call] = f.VarKey(id)
								readFailWhen[f.VarKey(id)] = failVal
								continue
							}
							undecidedRead = call
							continue
						}
					}
					readErrKey[call] = f.NilKey(id)
					readFailWhen[f.NilKey(id)] = flow.False // err == nil is false
					continue
				}
			}
			unkept = true
		}
	}

	// the functions analysed: the one that sends and the one(s) that read the response
	roots := []*flow.Func{sendFn}
	for _, rd := range reads {
		g := a.fnOf(rd)
		dup := false
		for _, r := range roots {
			if r == g {
				dup = true
			}
		}
		if !dup && g != nil {
			roots = append(roots, g)
		}
	}
	var fs []*flow.Func
	seenFn := map[*ast.BlockStmt]bool{}
	for _, r := range roots {
		for _, g := range reach(r, 3) {
			if !seenFn[g.Body] {
				seenFn[g.Body] = true
				fs = append(fs, g)
			}
		}
	}

	// ---- the context-error expressions consulted
	type ctxErr struct {
		xs     []string // renderings of the call and of every variable / parameter the value is bound to
		call   *ast.CallExpr
		recvOK bool
		why    string
	}
	paramFor := func(outer *ast.CallExpr, arg ast.Expr) *ast.Ident {
		fo, ok := f.Callee(outer).(*types.Func)
		if !ok || fo.Pkg() != f.Pkg.Types {
			return nil
		}
		fd := declOf(f.Pkg, fo)
		if fd == nil || fd.Type.Params == nil {
			return nil
		}
		k := 0
		for _, fld := range fd.Type.Params.List {
			if len(fld.Names) == 0 {
				k++
				continue
			}
			for _, name := range fld.Names {
				if k < len(outer.Args) && ast.Unparen(outer.Args[k]) == ast.Unparen(arg) {
					return name
				}
				k++
			}
		}
		return nil
	}
	var bound func(o types.Object, depth int) []string
	bound = func(o types.Object, depth int) []string {
		var out []string
		if o == nil || depth > 3 {
			return nil
		}
		for _, g := range fs {
			for _, outer := range calls(g.Body, true) {
				for _, arg := range outer.Args {
					if id := c10ident(arg); id != nil && c10obj(f, id) == o {
						if p := paramFor(outer, arg); p != nil {
							out = append(out, f.Render(p))
							out = append(out, bound(f.Info.Defs[p], depth+1)...)
						}
					}
				}
			}
		}
		return out
	}
	// classifyCtx tells whose context an expression denotes: the outgoing request's / the attempt's
	// (ok), the client's request context (why says so), or unknown ("?"). A parameter of a helper is
	// resolved through the helper's call sites.
	var classifyCtx func(e ast.Expr, g *flow.Func, depth int) (bool, string)
	classifyCtx = func(e ast.Expr, g *flow.Func, depth int) (bool, string) {
		if e == nil || depth > 3 {
			return false, "?"
		}
		// a context variable of the sending function derived from its own context parameter (the
		// context the request is created with), before any alias resolution
		if id := c10ident(e); id != nil && g == sendFn {
			for i := 0; i < 4; i++ {
				if p := c10paramObj(f, sendFn.Type, i); p != nil && c10isCtxType(p.Type()) && c10ctxDerived(f, sendFn.Body, id, p) {
					return true, ""
				}
			}
		}
		recv := c10alias(f, g.Body, e)
		switch r := ast.Unparen(recv).(type) {
		case *ast.CallExpr:
			switch {
			case calleeFull(f, r) == "(*net/http.Request).Context":
				// the outgoing request: the field it is stored in, or a local that holds what is stored / sent
				rr := c10alias(f, g.Body, c10recv(r))
				if c10fieldSel(f, rr, stdReqF) {
					return true, ""
				}
				if id := c10ident(rr); id != nil {
					o := c10obj(f, id)
					for _, h := range fs {
						okStore := false
						ast.Inspect(h.Body, func(n ast.Node) bool {
							if as, ok := n.(*ast.AssignStmt); ok && len(as.Lhs) == len(as.Rhs) {
								for i, l := range as.Lhs {
									if rid := c10ident(as.Rhs[i]); rid != nil && c10obj(f, rid) == o && c10fieldSel(f, l, stdReqF) {
										okStore = true
									}
								}
							}
							return true
						})
						if okStore {
							return true, ""
						}
					}
					if len(send.Args) > 0 && c10ident(send.Args[0]) != nil && c10obj(f, c10ident(send.Args[0])) == o {
						return true, ""
					}
				}
				return false, "?"
			case calleeIs(f, r, "(*"+c10hp+".Request).Context"):
				return false, "the client's request context (it carries no pool timeout: an expired pool timeout is classified as 503/serverError instead of 408/timeout)"
			}
			return false, "?"
		case *ast.Ident:
			o := c10obj(f, r)
			// a context variable of the sending function derived from its context parameter
			if g == sendFn {
				for i := 0; i < 4; i++ {
					if p := c10paramObj(f, sendFn.Type, i); p != nil && c10isCtxType(p.Type()) && c10ctxDerived(f, sendFn.Body, r, p) {
						return true, ""
					}
				}
			}
			// a parameter of a helper: what its callers pass
			if fd, ok := g.Node.(*ast.FuncDecl); ok && fd.Type.Params != nil && len(c10writes(f, g.Body, o)) == 0 {
				k, idx := 0, -1
				for _, fld := range fd.Type.Params.List {
					if len(fld.Names) == 0 {
						k++
						continue
					}
					for _, name := range fld.Names {
						if f.Info.Defs[name] == o {
							idx = k
						}
						k++
					}
				}
				if idx >= 0 {
					sites, allOK, why := 0, true, ""
					for _, h := range fs {
						for _, outer := range calls(h.Body, true) {
							fo, ok := f.Callee(outer).(*types.Func)
							if !ok || declOf(f.Pkg, fo) != fd || idx >= len(outer.Args) {
								continue
							}
							sites++
							if ok2, w := classifyCtx(outer.Args[idx], h, depth+1); !ok2 {
								allOK = false
								if why == "" || why == "?" {
									why = w
								}
							}
						}
					}
					if sites > 0 && allOK {
						return true, ""
					}
					if sites > 0 {
						return false, why
					}
				}
			}
			return false, "?"
		}
		return false, "?"
	}
	var errs []ctxErr
	carriers := map[*ast.BlockStmt]bool{}
	for _, g := range fs {
		ast.Inspect(g.Body, func(n ast.Node) bool {
			switch x := n.(type) {
			case *ast.CompositeLit:
				if tv, ok := f.Info.Types[x]; ok && types.Identical(tv.Type, speT) {
					carriers[g.Body] = true
				}
			case *ast.SelectorExpr:
				if v, ok := f.Info.Uses[x.Sel].(*types.Var); ok && v.Pkg() != nil && v.Pkg().Path() == "context" && v.Name() == "DeadlineExceeded" {
					carriers[g.Body] = true
				}
			}
			return true
		})
		for _, call := range calls(g.Body, false) {
			if calleeFull(f, call) != "(context.Context).Err" {
				continue
			}
			carriers[g.Body] = true
			ce := ctxErr{call: call, xs: []string{f.Render(call)}}
			switch par := pm[call].(type) {
			case *ast.AssignStmt:
				if len(par.Lhs) == 1 && len(par.Rhs) == 1 {
					if id := c10ident(par.Lhs[0]); id != nil {
						ce.xs = append(ce.xs, f.Render(id))
						ce.xs = append(ce.xs, bound(c10obj(f, id), 0)...)
					}
				}
			case *ast.CallExpr:
				if p := paramFor(par, call); p != nil {
					ce.xs = append(ce.xs, f.Render(p))
					ce.xs = append(ce.xs, bound(f.Info.Defs[p], 0)...)
				}
			}
			ce.recvOK, ce.why = classifyCtx(c10recv(call), g, 0)
			errs = append(errs, ce)
		}
	}
	dlKeys := func(x string) []string {
		ks := []string{"eq:" + x + "==@context.DeadlineExceeded"}
		for _, g := range fs {
			for _, call := range calls(g.Body, false) {
				if calleeFull(f, call) == "errors.Is" && len(call.Args) == 2 && f.Render(call.Args[0]) == x {
					if sel, ok := ast.Unparen(call.Args[1]).(*ast.SelectorExpr); ok {
						if v, ok := f.Info.Uses[sel.Sel].(*types.Var); ok && v.Pkg() != nil && v.Pkg().Path() == "context" && v.Name() == "DeadlineExceeded" {
							ks = append(ks, f.CallKey(call))
						}
					}
				}
			}
		}
		return ks
	}
	errIdx := map[*ast.CallExpr]int{}
	nilKeys := make([][]string, len(errs))
	dlKeysOf := make([][]string, len(errs))
	for i, ce := range errs {
		errIdx[ce.call] = i
		for _, x := range ce.xs {
			nilKeys[i] = append(nilKeys[i], "nil:"+x)
			dlKeysOf[i] = append(dlKeysOf[i], dlKeys(x)...)
		}
	}
	known := func(st *flow.State, ev string, keys []string) flow.Val {
		if v := st.Get(ev); v != flow.Unknown {
			return v
		}
		for _, k := range keys {
			if v := st.Get(k); v != flow.Unknown {
				return v
			}
		}
		return flow.Unknown
	}

	// parseLit reads a constant pool error literal {code, result} (positional or keyed)
	parseLit := func(e ast.Expr) (code, result string, ok bool) {
		cl, isLit := ast.Unparen(e).(*ast.CompositeLit)
		if !isLit {
			return
		}
		if tv, has := f.Info.Types[cl]; !has || !types.Identical(tv.Type, speT) || len(cl.Elts) != 2 {
			return
		}
		st := speT.Underlying().(*types.Struct)
		var ce, re ast.Expr
		for i, el := range cl.Elts {
			var fld *types.Var
			val := el
			if kv, isKV := el.(*ast.KeyValueExpr); isKV {
				fld, _ = f.Info.Uses[c10ident(kv.Key)].(*types.Var)
				val = kv.Value
			} else {
				fld = st.Field(i)
			}
			switch fld {
			case ro.codeF:
				ce = val
			case ro.resultF:
				re = val
			}
		}
		if ce != nil && re != nil {
			if v, isInt := c10constInt(f, ce); isInt {
				if str, isStr := c10constString(f, re); isStr {
					return sprintf("%d", v), str, true
				}
			}
		}
		return
	}
	// litEvent: a local that was last assigned a constant pool error on this path
	// (failure := serverPoolError{500, ..}; if timedOut { failure = serverPoolError{408, ..} }; return failure)
	noteLit := func(st *flow.State, l ast.Expr, r ast.Expr) {
		id := c10ident(l)
		if id == nil || id.Name == "_" {
			return
		}
		o := c10obj(f, id)
		if o == nil || !types.Identical(o.Type(), speT) {
			return
		}
		pre := "ev:lit:" + f.Render(id) + "|"
		for _, kv := range st.Facts() {
			if strings.HasPrefix(kv, pre) {
				st.Set(strings.TrimSuffix(kv, "=T"), flow.Unknown)
			}
		}
		if code, result, ok := parseLit(r); ok {
			st.Set(pre+code+"|"+result, flow.True)
		}
	}
	litOfVar := func(st *flow.State, e ast.Expr) (code, result string, ok bool) {
		id := c10ident(e)
		if id == nil {
			return
		}
		pre := "ev:lit:" + f.Render(id) + "|"
		for _, kv := range st.Facts() {
			if strings.HasPrefix(kv, pre) && strings.HasSuffix(kv, "=T") {
				parts := strings.SplitN(strings.TrimSuffix(strings.TrimPrefix(kv, pre), "=T"), "|", 2)
				if len(parts) == 2 {
					return parts[0], parts[1], true
				}
			}
		}
		return
	}
	run := func(root *flow.Func) *flow.Result {
		return analyze(c, root, flow.Config{
			NoHavoc: true,
			Inline:  c10relevantInline(root, carriers),
			OnCall: func(st *flow.State, call *ast.CallExpr, callee types.Object, deferred bool) {
				if i, ok := errIdx[call]; ok {
					st.Set(sprintf("ev:ctxnil:%d", i), flow.Unknown)
					st.Set(sprintf("ev:ctxdl:%d", i), flow.Unknown)
				}
				if call == send {
					st.Set("ev:sent", flow.True)
					st.Set("ev:sendfailed", flow.Unknown)
				}
				if readErrKey[call] != "" {
					st.Set("ev:read", flow.True)
					st.Set("ev:readfailed", flow.Unknown)
					st.Set("ev:readkey:"+readErrKey[call], flow.True)
				}
			},
			OnNode: func(st *flow.State, n ast.Node) {
				switch x := n.(type) {
				case *ast.AssignStmt:
					if len(x.Lhs) == len(x.Rhs) {
						for i := range x.Lhs {
							noteLit(st, x.Lhs[i], x.Rhs[i])
						}
					}
				case *ast.ValueSpec:
					if len(x.Names) == len(x.Values) {
						for i := range x.Names {
							noteLit(st, x.Names[i], x.Values[i])
						}
					}
				}
				// the send error variable is re-used for something else before having been tested
				if as, ok := n.(*ast.AssignStmt); ok && st.Is("ev:sent", flow.True) && st.Get("ev:sendfailed") == flow.Unknown {
					for _, l := range as.Lhs {
						if id := c10ident(l); id != nil && c10obj(f, id) == sendErrObj && pm[send] != ast.Node(as) {
							st.Set("ev:sendlost", flow.True)
						}
					}
				}
			},
			AfterAssume: func(st *flow.State, cond ast.Expr, outcome bool) {
				for i := range errs {
					if v := known(st, sprintf("ev:ctxnil:%d", i), nilKeys[i]); v != flow.Unknown {
						st.Set(sprintf("ev:ctxnil:%d", i), v)
					}
					if v := known(st, sprintf("ev:ctxdl:%d", i), dlKeysOf[i]); v != flow.Unknown {
						st.Set(sprintf("ev:ctxdl:%d", i), v)
					}
				}
				if st.Is("ev:sent", flow.True) && st.Get("ev:sendfailed") == flow.Unknown && !st.Is("ev:sendlost", flow.True) {
					switch st.Get(sendErrKey) {
					case flow.True:
						st.Set("ev:sendfailed", flow.False)
					case flow.False:
						st.Set("ev:sendfailed", flow.True)
					}
				}
				if st.Is("ev:read", flow.True) && st.Get("ev:readfailed") == flow.Unknown {
					for _, k := range readErrKey {
						if !st.Is("ev:readkey:"+k, flow.True) {
							continue
						}
						if v := st.Get(k); v != flow.Unknown {
							st.Set("ev:readfailed", map[bool]flow.Val{true: flow.True, false: flow.False}[v == readFailWhen[k]])
						}
					}
				}
			},
		})
	}
	// retLit reads a returned constant pool error {code, result} among the returned expressions
	retLit := func(ex *flow.Exit) (code, result string, okLit bool, errExpr ast.Expr) {
		ret := ex.Ret()
		if ret == nil {
			return
		}
		if len(ret.Results) > 0 {
			errExpr = ret.Results[len(ret.Results)-1]
		}
		for _, r := range ret.Results {
			if c, rs, ok := parseLit(r); ok {
				return c, rs, true, r
			}
			if c, rs, ok := litOfVar(ex.State, r); ok {
				return c, rs, true, r
			}
			if _, isLit := ast.Unparen(r).(*ast.CompositeLit); isLit {
				errExpr = r
			}
		}
		return
	}
	ctxRow := func(st *flow.State) string {
		for i := range errs {
			nilV := known(st, sprintf("ev:ctxnil:%d", i), nilKeys[i])
			dl := known(st, sprintf("ev:ctxdl:%d", i), dlKeysOf[i])
			switch {
			case nilV == flow.True:
				return "nil"
			case dl == flow.True:
				return "deadline"
			case nilV == flow.False && dl == flow.False:
				return "other"
			case dl == flow.False:
				return "notdeadline"
			}
		}
		return ""
	}

	results := map[*flow.Func]*flow.Result{}
	for _, r := range roots {
		if res := run(r); res != nil {
			results[r] = res
		} else {
			return
		}
	}

	// ---- the send-failure table
	type row struct {
		ex   *flow.Exit
		why  string
		kind string
	}
	var bad *row
	rows := map[string]int{}
	nFail := 0
	lost := false
	for _, ex := range results[sendFn].Exits {
		if ex.Kind != flow.ExitReturn || ex.Return == nil {
			continue
		}
		st := ex.State
		if st.Is("ev:sendlost", flow.True) {
			lost = true
		}
		if !st.Is("ev:sendfailed", flow.True) {
			continue
		}
		nFail++
		code, result, okLit, errExpr := retLit(ex)
		if !okLit {
			if bad == nil {
				k := "violate"
				if errExpr != nil && !f.Info.Types[errExpr].IsNil() {
					k = "shape"
				}
				bad = &row{ex, "after a failed send " + sendFn.Name + " returns " + c10retString(ex.Ret()) + " instead of a constant pool error {code, result}", k}
			}
			continue
		}
		which := ctxRow(st)
		if which == "notdeadline" {
			which = ""
		}
		if which == "" {
			if bad == nil {
				bad = &row{ex, sprintf("after a failed send the attempt returns (%s, %s) on a path that has not distinguished context error nil / DeadlineExceeded / other: timeouts, backend failures and client disconnects are not told apart", code, result), "violate"}
			}
			continue
		}
		rows[which]++
		if w := want[which]; (w[0] != code || w[1] != result) && bad == nil {
			bad = &row{ex, sprintf("send failed with request-context error %s: the attempt returns (%s, %s), the property demands (%s, %s)",
				map[string]string{"nil": "nil (backend failure)", "deadline": "DeadlineExceeded (pool timeout expired)", "other": "non-nil, not DeadlineExceeded (client gone)"}[which], code, result, w[0], w[1]), "violate"}
		}
	}
	switch {
	case lost:
		c10shape(c, "R-C10-5", cons+"|send-failure table", pos(c, send), "the send's error variable is overwritten before it is tested")
		return
	case nFail == 0:
		c.Violate("R-C10-5", cons+"|send-failure table", pos(c, send), "no exit is taken with the send's error known non-nil: a failed send is not turned into a failure result")
		return
	case bad != nil && bad.kind == "shape":
		c10shape(c, "R-C10-5", cons+"|send-failure table", pos(c, bad.ex.Ret()), bad.why)
	case bad != nil:
		c.Violate("R-C10-5", cons+"|send-failure table", pos(c, bad.ex.Ret()), bad.why, witness(bad.ex.State)...)
	case rows["nil"] == 0 || rows["deadline"] == 0 || rows["other"] == 0:
		c.Violate("R-C10-5", cons+"|send-failure table", pos(c, send), sprintf("the send-failure exits do not cover all three rows (nil: %d, DeadlineExceeded: %d, other: %d)", rows["nil"], rows["deadline"], rows["other"]))
	default:
		c.Discharge("R-C10-5", cons+"|send-failure table", pos(c, send),
			sprintf("%d send-failure exits: ctx error nil => (503, %s); DeadlineExceeded => (408, %s); other => (499, %s)", nFail, want["nil"][1], want["deadline"][1], want["other"][1]))
	}
	// whose context error is consulted
	okRecv, shape := true, false
	why := ""
	var at ast.Node = send
	for _, ce := range errs {
		if !ce.recvOK {
			okRecv, at = false, ce.call
			if ce.why == "?" {
				shape = true
			} else {
				why = ce.why
			}
		}
	}
	switch {
	case len(errs) == 0:
		// reported by the table above
	case shape && why == "":
		c10shape(c, "R-C10-5", cons+"|classified by the outgoing request's context", pos(c, at), "cannot tell which context's Err() is consulted")
	default:
		c.Check(okRecv, "R-C10-5", cons+"|classified by the outgoing request's context", pos(c, at),
			"Err() is read from the context of the request that is sent", "the send failure is classified by "+why)
	}

	// ---- a response read that fails because the pool timeout expired is a timeout too
	if !c.RequireCount("R-C10-5", "buildResponse call sites in doHandle", len(reads), 1) {
		return
	}
	readFn := a.fnOf(reads[0])
	rcons := c10funcCons(readFn)
	if undecidedRead != nil {
		c10shape(c, "R-C10-5", rcons+"|response-read failure under the deadline", pos(c, undecidedRead), "the response read reports its outcome as a bool whose meaning cannot be read from the callee")
		return
	}
	if unkept {
		c.Violate("R-C10-5", rcons+"|response-read failure under the deadline", pos(c, reads[0]), "the error of the response read is not kept: a response whose body could not be read in time is passed on as success")
		return
	}
	var badRead *flow.Exit
	whyRead := ""
	nRead := 0
	for _, rd := range reads {
		res := results[a.fnOf(rd)]
		if res == nil {
			continue
		}
		for _, ex := range res.Exits {
			if ex.Kind != flow.ExitReturn || ex.Return == nil || !ex.State.Is("ev:readfailed", flow.True) {
				continue
			}
			nRead++
			code, result, okLit, _ := retLit(ex)
			switch which := ctxRow(ex.State); {
			case badRead != nil:
			case which == "":
				badRead, whyRead = ex, sprintf("reading the backend's response failed and the attempt returns (%s, %s) without consulting the attempt context's error: when the pool timeout expires while the body is still being received (header in time, body stalled) the result is %s instead of timeout (408)", code, result, result)
			case which == "deadline" && (!okLit || code != want["deadline"][0] || result != want["deadline"][1]):
				badRead, whyRead = ex, sprintf("reading the backend's response failed with the context's DeadlineExceeded: the attempt returns (%s, %s), the property demands (%s, %s)", code, result, want["deadline"][0], want["deadline"][1])
			}
		}
	}
	if nRead == 0 {
		c.Violate("R-C10-5", rcons+"|response-read failure under the deadline", pos(c, reads[0]), "no exit is taken with the response read's error known non-nil")
		return
	}
	c.Check(badRead == nil, "R-C10-5", rcons+"|response-read failure under the deadline", pos(c, reads[0]),
		sprintf("%d exit(s) after a failed response read: DeadlineExceeded => (408, %s)", nRead, want["deadline"][1]), whyRead,
		func() []string {
			if badRead == nil {
				return nil
			}
			return append([]string{"return at " + pos(c, badRead.Ret())}, witness(badRead.State)...)
		}()...)
}

// c10boolFailure tells which constant a bool-returning function returns when an error test
// (`err != nil`) succeeded: the value that means failure. ok is false when the returns under error
// tests do not agree or none is found.
func c10boolFailure(f *flow.Func, fd *ast.FuncDecl) (flow.Val, bool) {
	val, found, conflict := flow.Unknown, false, false
	ast.Inspect(fd.Body, func(n ast.Node) bool {
		ifs, ok := n.(*ast.IfStmt)
		if !ok {
			return true
		}
		be, ok := ast.Unparen(ifs.Cond).(*ast.BinaryExpr)
		if !ok || be.Op.String() != "!=" {
			return true
		}
		isErrNil := func(a, b ast.Expr) bool {
			tv, ok := f.Info.Types[a]
			return ok && tv.Type != nil && types.Identical(tv.Type, types.Universe.Lookup("error").Type()) && f.Info.Types[b].IsNil()
		}
		if !isErrNil(be.X, be.Y) && !isErrNil(be.Y, be.X) {
			return true
		}
		ast.Inspect(ifs.Body, func(m ast.Node) bool {
			if _, isLit := m.(*ast.FuncLit); isLit {
				return false
			}
			if r, ok := m.(*ast.ReturnStmt); ok && len(r.Results) == 1 {
				if tv, ok := f.Info.Types[r.Results[0]]; ok && tv.Value != nil {
					v := flow.False
					if tv.Value.ExactString() == "true" {
						v = flow.True
					}
					if found && v != val {
						conflict = true
					}
					val, found = v, true
				}
			}
			return true
		})
		return true
	})
	return val, found && !conflict
}
