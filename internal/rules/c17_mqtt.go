package rules

import (
	"go/ast"
	"go/constant"
	"go/token"
	"go/types"

	"golang.org/x/tools/go/packages"

	"verif/internal/core"
	"verif/internal/flow"
)

// R-C17-5: every insertion into Broker.clients is under the broker's write lock and capped.

const c17Packets = "github.com/eclipse/paho.mqtt.golang/packets"

// c17Truth evaluates an atomic condition in a state (Unknown if the engine has no fact).
func c17Truth(f *flow.Func, st *flow.State, e ast.Expr) flow.Val {
	key, neg := f.Atom(e)
	v := st.Get(key)
	if v == flow.Unknown {
		return flow.Unknown
	}
	if (v == flow.True) != neg {
		return flow.True
	}
	return flow.False
}

func c17Flip(op token.Token) token.Token {
	switch op {
	case token.LSS:
		return token.GTR
	case token.GTR:
		return token.LSS
	case token.LEQ:
		return token.GEQ
	case token.GEQ:
		return token.LEQ
	}
	return op
}

type c17Atom struct {
	param types.Object // non-nil: the length side is this callee parameter (valid while its argument was len(clients))
	e     *ast.BinaryExpr
	op    token.Token // normalised: len OP cap   /   cap OP k
	k     int64       // constant of an enabled-atom
}

func c17MQTT(c *core.Ctx) {
	pkg := c.Prog.Pkg(mq)
	if pkg == nil {
		c.Errorf("R-C17-5: anchor: package %s not loaded", mq)
		return
	}
	clientsF := structField(c, mq, "Broker", "clients")
	capF := structField(c, mq, "Spec", "MaxAllowedConnection")
	brokerT := namedType(c, mq, "Broker")
	if clientsF == nil || capF == nil || brokerT == nil {
		return
	}
	var refused constant.Value
	if pp := c.Prog.All[c17Packets]; pp != nil {
		if k, ok := pp.Types.Scope().Lookup("ErrRefusedServerUnavailable").(*types.Const); ok {
			refused = k.Val()
		}
	}
	if refused == nil {
		c.Errorf("R-C17-5: anchor: constant %s.ErrRefusedServerUnavailable not found", c17Packets)
		return
	}

	// subjects: insertion sites
	type site struct {
		pkg  *packages.Package
		fd   *ast.FuncDecl
		stmt *ast.AssignStmt
		key  ast.Expr
	}
	var sites []site
	for _, file := range pkg.Syntax {
		for _, d := range file.Decls {
			fd, ok := d.(*ast.FuncDecl)
			if !ok || fd.Body == nil {
				continue
			}
			f := flow.NewFunc(pkg, fd)
			ast.Inspect(fd.Body, func(n ast.Node) bool {
				as, ok := n.(*ast.AssignStmt)
				if !ok {
					return true
				}
				for _, l := range as.Lhs {
					if ix, ok := ast.Unparen(l).(*ast.IndexExpr); ok && c17Field(f, ix.X) == clientsF {
						sites = append(sites, site{pkg, fd, as, ix.Index})
					}
				}
				return true
			})
		}
	}
	if !c.RequireCount("R-C17-5", "insertion sites into Broker.clients", len(sites), 1) {
		return
	}
	for _, s := range sites {
		c17MQTTSite(c, s.pkg, s.fd, s.stmt, s.key, clientsF, capF, brokerT, refused)
	}
	c17MQTTTeardown(c, clientsF, brokerT)
}

// c17MQRoles resolves by role the functions the MQTT rules talk about: removers are the functions
// that delete from Broker.clients themselves or through a direct same-package callee (removeClient,
// deleteSession, ... whatever they are called); read loops are the methods of Client that call
// packets.ReadPacket (the per-connection loop whose exit tears the client down).
type c17MQRoles struct {
	removers  map[*types.Func]bool
	readLoops map[*types.Func]*flow.Func
}

var c17mqRoles *c17MQRoles

func c17ResolveMQ(c *core.Ctx, clientsF *types.Var) *c17MQRoles {
	if c17mqRoles != nil {
		return c17mqRoles
	}
	r := &c17MQRoles{removers: map[*types.Func]bool{}, readLoops: map[*types.Func]*flow.Func{}}
	isDel := func(h *flow.Func, n ast.Node) bool {
		call, ok := n.(*ast.CallExpr)
		if !ok || len(call.Args) != 2 {
			return false
		}
		b, ok := h.Callee(call).(*types.Builtin)
		return ok && b.Name() == "delete" && c17Field(h, call.Args[0]) == clientsF
	}
	for _, g := range funcsByRole(c, mq, func(g *flow.Func, fd *ast.FuncDecl) bool { return true }) {
		fo := c17FuncObj(g)
		if fo == nil {
			continue
		}
		// own body deletes, or it takes the broker lock and a direct callee deletes (delete moved into a
		// "...Locked" helper); a function that merely calls a remover on some path is not one
		own := false
		ast.Inspect(g.Body, func(n ast.Node) bool {
			if n != nil && isDel(g, n) {
				own = true
			}
			return !own
		})
		locks := false
		for _, call := range calls(g.Body, false) {
			if op, _ := c17Mutex(g, call); op == "Lock" {
				locks = true
			}
		}
		if own || (locks && reachContains(g, 1, isDel)) {
			r.removers[fo] = true
		}
		fd, _ := g.Node.(*ast.FuncDecl)
		if fd != nil && fd.Recv != nil && len(fd.Recv.List) == 1 {
			if tv := g.Info.Types[fd.Recv.List[0].Type]; tv.Type != nil && tv.Type.String() == "*"+Mod+mq+".Client" {
				for _, call := range calls(fd.Body, false) {
					if co := c17CalleeFunc(g, call); co != nil && co.FullName() == c17Packets+".ReadPacket" {
						r.readLoops[fo] = g
					}
				}
			}
		}
	}
	c17mqRoles = r
	return r
}

func (r *c17MQRoles) isRemover(f *flow.Func, call *ast.CallExpr) bool {
	fo := c17CalleeFunc(f, call)
	return fo != nil && r.removers[fo.Origin()] && r.readLoops[fo.Origin()] == nil
}

func (r *c17MQRoles) isReadLoop(f *flow.Func, call *ast.CallExpr) bool {
	fo := c17CalleeFunc(f, call)
	return fo != nil && r.readLoops[fo.Origin()] != nil
}

// c17MQTTTeardown: the read loop removes the client's entry on every exit, and removeClient
// deletes the entry under the broker's write lock.
func c17MQTTTeardown(c *core.Ctx, clientsF *types.Var, brokerT *types.Named) {
	mqr := c17ResolveMQ(c, clientsF)
	if len(mqr.readLoops) == 0 {
		c.Errorf("R-C17-5: anchor: no method of %s.Client calls packets.ReadPacket (the per-connection read loop)", mq)
	}
	for _, f := range mqr.readLoops {
		f := f
		fd, _ := f.Node.(*ast.FuncDecl)
		cons := fname(mq, "Client", fd.Name.Name) + "|every exit removes the client's entry"
		res := analyze(c, f, flow.Config{NoHavoc: true,
			MayPanic: func(call *ast.CallExpr, callee types.Object) bool {
				// packet processing runs user pipelines
				return calleeIs(f, call, "(*"+mq+".Client).processPacket")
			},
			OnCall: func(st *flow.State, call *ast.CallExpr, callee types.Object, deferred bool) {
				switch {
				case calleeIs(f, call, "(*"+mq+".Client).closeAndDelSession"), calleeIs(f, call, "(*"+mq+".Client).close"):
					st.Set("ev:c17:closed", flow.True)
				case mqr.isRemover(f, call):
					if st.Is("ev:c17:closed", flow.True) {
						st.Set("ev:c17:removed", flow.True)
					}
				}
			}})
		if res != nil {
			ok := len(res.Exits) > 0
			var badSt *flow.State
			var at ast.Node = f.Body
			for _, ex := range res.Exits {
				if !ex.State.Is("ev:c17:removed", flow.True) {
					ok, badSt, at = false, ex.State, ex.At
				}
			}
			c.Check(ok, "R-C17-5", cons, pos(c, at),
				sprintf("all %d exits (returns and the panic exit of packet processing) have closed the client and then called the broker function that deletes its entry", len(res.Exits)),
				"an exit of the read loop does not close the client and then call the broker function that deletes its entry from Broker.clients (it deletes only disconnected clients): the entry of a finished connection keeps occupying a maxAllowedConnection slot", witness(badSt)...)
		}
	}
	pkg := c.Prog.Pkg(mq)
	nSites := 0
	var allFuncs []*flow.Func
	for _, file := range pkg.Syntax {
		for _, d := range file.Decls {
			if x, ok := d.(*ast.FuncDecl); ok && x.Body != nil {
				allFuncs = append(allFuncs, flow.NewFunc(pkg, x))
			}
		}
	}
	takesLock := func(h *flow.Func) bool {
		for _, call := range calls(h.Body, false) {
			if op, recv := c17Mutex(h, call); op == "Lock" && c17IsBrokerExpr(h, recv, brokerT) {
				return true
			}
		}
		return false
	}
	for _, file := range pkg.Syntax {
		for _, d := range file.Decls {
			fd, ok := d.(*ast.FuncDecl)
			if !ok || fd.Body == nil {
				continue
			}
			f := flow.NewFunc(pkg, fd)
			for _, call := range calls(fd.Body, false) {
				if b, ok := f.Callee(call).(*types.Builtin); ok && b.Name() == "delete" && len(call.Args) == 2 && c17Field(f, call.Args[0]) == clientsF {
					// analysed from where the protecting lock is taken (delete moved into a helper
					// called under the lock → its callers)
					for _, root := range c17LockRoots(f, allFuncs, takesLock) {
						nSites++
						rfd, _ := root.Node.(*ast.FuncDecl)
						c17MQTTDelete(c, root, declName(pkg, rfd), call, clientsF, brokerT)
					}
				}
			}
		}
	}
	c.RequireCount("R-C17-5", "delete sites on Broker.clients", nSites, 2)
}

// c17MQTTDelete: a delete(clients, k) runs under the broker's write lock and, in the same critical
// section, only after establishing about the value REGISTERED under k (looked up from clients):
// no entry, or the registered client is disconnected / has just been closed, or it is identical to
// a given client. Deleting on the strength of anything else (e.g. the caller's own state) can remove
// the entry of a live successor connection after a takeover: clients then under-counts and both cap
// tests admit more than maxAllowedConnection clients.
func c17MQTTDelete(c *core.Ctx, f *flow.Func, decl string, del *ast.CallExpr, clientsF *types.Var, brokerT *types.Named) {
	c.Count("functions_analysed", 1)
	consLock := decl + "|deletes the entry under the write lock"
	consDead := decl + "|delete removes only a dead or own entry"
	bind := c17NewBind(f, 3)
	assignCount := map[types.Object]int{}
	for o, rhs := range bind.asg {
		assignCount[o] = len(rhs)
		if bind.dirty[o] {
			assignCount[o] += 2
		}
	}
	canon := func(e ast.Expr, _ int) string { return bind.canon(e) }
	delKey := canon(del.Args[1], 0)

	type lookup struct {
		stmt   *ast.AssignStmt
		val    types.Object
		valID  *ast.Ident
		okKey  string // "" for the single-value form
		ev     string
		dead   []string   // keys of val.disconnected() calls
		same   []ast.Expr // val == x comparisons
		closed string
	}
	var lookups []*lookup
	eachNode := func(visit func(n ast.Node) bool) {
		for _, h := range bind.funcs {
			ast.Inspect(h.Body, func(n ast.Node) bool {
				if n == nil {
					return true
				}
				return visit(n)
			})
		}
	}
	eachNode(func(n ast.Node) bool {
		as, ok := n.(*ast.AssignStmt)
		if !ok || len(as.Rhs) != 1 {
			return true
		}
		ix, ok := ast.Unparen(as.Rhs[0]).(*ast.IndexExpr)
		if !ok || c17Field(f, ix.X) != clientsF || canon(ix.Index, 0) != delKey {
			return true
		}
		id, _ := as.Lhs[0].(*ast.Ident)
		l := &lookup{stmt: as, ev: "ev:c17:del-lookup-locked@" + f.Pos(as.Pos())}
		if id != nil && id.Name != "_" {
			if o := c17Obj(f, id); o != nil && assignCount[o] == 1 {
				l.val, l.valID = o, id
				l.closed = "ev:c17:registered-closed@" + f.Pos(as.Pos())
			}
		}
		if len(as.Lhs) == 2 {
			if okID, ok := as.Lhs[1].(*ast.Ident); ok && okID.Name != "_" {
				if o := c17Obj(f, okID); o != nil && assignCount[o] == 1 {
					l.okKey = f.VarKey(okID)
				}
			}
		}
		lookups = append(lookups, l)
		return true
	})
	// lookups made through an accessor helper (`c, ok := b.lookupClientLocked(id)`)
	for _, d := range bind.derivedLookups(clientsF, delKey) {
		l := &lookup{stmt: d.stmt, ev: "ev:c17:del-lookup-locked@" + f.Pos(d.stmt.Pos())}
		if d.valID != nil {
			if o := c17Obj(f, d.valID); o != nil && assignCount[o] == 1 {
				l.val, l.valID = o, d.valID
				l.closed = "ev:c17:registered-closed@" + f.Pos(d.stmt.Pos())
			}
		}
		if d.okID != nil {
			if o := c17Obj(f, d.okID); o != nil && assignCount[o] == 1 {
				l.okKey = f.VarKey(d.okID)
			}
		}
		lookups = append(lookups, l)
	}
	for _, l := range lookups {
		if l.val == nil {
			continue
		}
		eachNode(func(n ast.Node) bool {
			switch x := n.(type) {
			case *ast.CallExpr:
				if calleeIs(f, x, "(*"+mq+".Client).disconnected") {
					if sel, ok := ast.Unparen(x.Fun).(*ast.SelectorExpr); ok && c17Obj(f, sel.X) == l.val {
						l.dead = append(l.dead, f.CallKey(x))
					}
				}
			case *ast.BinaryExpr:
				if x.Op == token.EQL || x.Op == token.NEQ {
					if (c17Obj(f, x.X) == l.val && !f.Info.Types[x.Y].IsNil()) || (c17Obj(f, x.Y) == l.val && !f.Info.Types[x.X].IsNil()) {
						l.same = append(l.same, x)
					}
				}
			}
			return true
		})
	}
	const evLocked = "ev:c17:broker-write-locked"
	isBroker := func(recv ast.Expr) bool {
		if tv := f.Info.Types[recv]; tv.Type != nil {
			t := tv.Type
			if p, ok := t.(*types.Pointer); ok {
				t = p.Elem()
			}
			return types.Identical(t, brokerT)
		}
		return false
	}
	justified := func(st *flow.State) bool {
		for _, l := range lookups {
			if !st.Is(l.ev, flow.True) {
				continue
			}
			if l.okKey != "" && st.Is(l.okKey, flow.False) {
				return true // nothing registered: the delete is a no-op
			}
			if l.val == nil {
				continue
			}
			if st.Is(f.NilKey(l.valID), flow.True) || st.Is(l.closed, flow.True) {
				return true
			}
			for _, k := range l.dead {
				if st.Is(k, flow.True) {
					return true
				}
			}
			for _, e := range l.same {
				if c17Truth(f, st, e) == flow.True && e.(*ast.BinaryExpr).Op == token.EQL {
					return true
				}
				if c17Truth(f, st, e) == flow.False && e.(*ast.BinaryExpr).Op == token.NEQ {
					return true
				}
			}
		}
		return false
	}
	var badLock, badDead *flow.State
	nStates := 0
	inl := bind.inline(func(h *flow.Func, n ast.Node) bool {
		switch x := n.(type) {
		case *ast.AssignStmt:
			for _, l := range lookups {
				if l.stmt == x {
					return true
				}
			}
		case *ast.CallExpr:
			if x == del {
				return true
			}
			if op, recv := c17Mutex(h, x); op != "" && isBroker(recv) {
				return true
			}
		}
		return false
	})
	res := analyze(c, f, flow.Config{NoHavoc: true,
		Inline: func(call *ast.CallExpr, callee *types.Func) *flow.Func {
			if calleeIs(f, call, "(*"+mq+".Client).close", "(*"+mq+".Client).closeAndDelSession") {
				return nil // modelled by an event
			}
			return inl(call, callee)
		},
		OnNode: func(st *flow.State, n ast.Node) {
			for _, l := range lookups {
				if n == ast.Node(l.stmt) {
					st.Set(l.ev, st.Get(evLocked))
					if l.closed != "" {
						st.Set(l.closed, flow.Unknown)
					}
				}
			}
		},
		OnCall: func(st *flow.State, call *ast.CallExpr, callee types.Object, deferred bool) {
			if op, recv := c17Mutex(f, call); op != "" && isBroker(recv) {
				for _, l := range lookups {
					st.Set(l.ev, flow.Unknown)
				}
				st.Set(evLocked, flow.Val(map[bool]flow.Val{true: flow.True, false: flow.False}[op == "Lock"]))
				return
			}
			if calleeIs(f, call, "(*"+mq+".Client).close", "(*"+mq+".Client).closeAndDelSession") {
				if sel, ok := ast.Unparen(call.Fun).(*ast.SelectorExpr); ok {
					for _, l := range lookups {
						if l.val != nil && c17Obj(f, sel.X) == l.val {
							st.Set(l.closed, flow.True)
						}
					}
				}
			}
			if call == del {
				nStates++
				if !st.Is(evLocked, flow.True) && badLock == nil {
					badLock = st
				}
				if !justified(st) {
					// the registered client is known (looked up under this lock) but live: acceptable only
					// if every path from here closes it (unregister first, close after unlocking)
					pend := false
					for _, l := range lookups {
						if st.Is(l.ev, flow.True) && l.val != nil {
							st.Set("ev:c17:deleted-live@"+l.ev, flow.True)
							pend = true
						}
					}
					if !pend && badDead == nil {
						badDead = st
					}
				}
			}
		}})
	if res == nil {
		return
	}
	whyDead := "the entry is deleted without having established, in the same critical section, that the client currently REGISTERED under this id (looked up from Broker.clients) is absent, disconnected, just closed or the caller's own: after a client-id takeover the teardown of the superseded connection removes its live successor's entry, Broker.clients under-counts, and both cap tests admit more than maxAllowedConnection clients"
	for _, ex := range res.Exits {
		st := ex.State
		for _, l := range lookups {
			if !st.Is("ev:c17:deleted-live@"+l.ev, flow.True) || badDead != nil {
				continue
			}
			settled := st.Is(l.closed, flow.True) || (l.okKey != "" && st.Is(l.okKey, flow.False)) || st.Is(f.NilKey(l.valID), flow.True)
			for _, k := range l.dead {
				if st.Is(k, flow.True) {
					settled = true
				}
			}
			if !settled {
				badDead = st
				whyDead = "the entry of a client that may still be connected is deleted and, on this path, the client is not closed afterwards: the connection stays open and served while Broker.clients no longer counts it, so both cap tests admit more than maxAllowedConnection clients"
			}
		}
	}
	why := "clients is mutated without the broker's write lock"
	if nStates == 0 {
		why = "the delete is unreachable: entries of closed connections are never released"
	}
	var lockLeak *flow.State
	for _, ex := range res.Exits {
		if ex.State.Is(evLocked, flow.True) {
			lockLeak = ex.State
		}
	}
	if badLock == nil && lockLeak != nil {
		badLock, why = lockLeak, "the function returns with the broker lock held"
	}
	c.Check(nStates > 0 && badLock == nil, "R-C17-5", consLock, pos(c, del),
		sprintf("delete(clients, id) is reachable (%d states), write-locked, and the lock is released on every exit", nStates), why, witness(badLock)...)
	c.Check(badDead == nil, "R-C17-5", consDead, pos(c, del),
		"every state at the delete has established, in the same critical section, that the client REGISTERED under the key is absent, disconnected, just closed, or identical to a given client (or it is closed on every path after the delete)",
		whyDead, witness(badDead)...)

}

func c17MQTTSite(c *core.Ctx, pkg *packages.Package, fd *ast.FuncDecl, ins *ast.AssignStmt, insKey ast.Expr,
	clientsF, capF *types.Var, brokerT *types.Named, refused constant.Value) {
	g := flow.NewFunc(pkg, fd)
	// an insertion inside a function literal is analysed in the literal
	var lit *ast.FuncLit
	ast.Inspect(fd.Body, func(n ast.Node) bool {
		if l, ok := n.(*ast.FuncLit); ok && contains(l, ins) {
			lit = l
		}
		return true
	})
	if lit != nil {
		c17MQTTSiteIn(c, pkg, g.Lit(lit), declName(pkg, fd)+"$closure", ins, insKey, clientsF, capF, brokerT, refused)
		return
	}
	// the function to analyse is the one in which the protecting lock is visible: the function
	// holding the insertion, or (insertion moved into a helper called under the lock) its callers
	var all []*flow.Func
	for _, file := range pkg.Syntax {
		for _, d := range file.Decls {
			if x, ok := d.(*ast.FuncDecl); ok && x.Body != nil {
				all = append(all, flow.NewFunc(pkg, x))
			}
		}
	}
	takes := func(h *flow.Func) bool {
		found := false
		for _, call := range calls(h.Body, false) {
			if op, recv := c17Mutex(h, call); op == "Lock" && c17IsBrokerExpr(h, recv, brokerT) {
				found = true
			}
		}
		return found
	}
	for _, root := range c17LockRoots(g, all, takes) {
		// a helper with a single synchronous call site is analysed from its caller (interpreted in
		// place): the relation between its parameters (cid / client) and what happens to the
		// registered client after it returns are visible only there
		root = c17Ascend(root, all, 2)
		rfd, _ := root.Node.(*ast.FuncDecl)
		c17MQTTSiteIn(c, pkg, root, declName(pkg, rfd), ins, insKey, clientsF, capF, brokerT, refused)
	}
}

// c17IsBrokerExpr: recv is the broker (its embedded mutex is locked through it) or a mutex field of it.
func c17IsBrokerExpr(f *flow.Func, recv ast.Expr, brokerT *types.Named) bool {
	if tv := f.Info.Types[recv]; tv.Type != nil {
		t := tv.Type
		if p, ok := t.(*types.Pointer); ok {
			t = p.Elem()
		}
		if types.Identical(t, brokerT) {
			return true
		}
	}
	if fld := c17Field(f, recv); fld != nil {
		for _, m := range append(c17FieldsByType(brokerT, "sync.Mutex"), c17FieldsByType(brokerT, "sync.RWMutex")...) {
			if m == fld {
				return true
			}
		}
	}
	return false
}

func c17MQTTSiteIn(c *core.Ctx, pkg *packages.Package, f *flow.Func, cons string, ins *ast.AssignStmt, insKey ast.Expr,
	clientsF, capF *types.Var, brokerT *types.Named, refused constant.Value) {
	c.Count("functions_analysed", 1)
	mqr := c17ResolveMQ(c, clientsF)
	bind := c17NewBind(f, 3)
	eachNode := func(visit func(n ast.Node) bool) {
		for _, h := range bind.funcs {
			ast.Inspect(h.Body, func(n ast.Node) bool {
				if n == nil {
					return true
				}
				return visit(n)
			})
		}
	}
	single := func(o types.Object) bool { return o != nil && len(bind.asg[o]) == 1 && !bind.dirty[o] }
	insCanon := bind.canon(insKey)

	// ---- atoms
	isLenClients := func(e ast.Expr) bool {
		call, ok := c17StripConv(f, e).(*ast.CallExpr)
		if !ok || len(call.Args) != 1 {
			return false
		}
		if b, ok := f.Callee(call).(*types.Builtin); !ok || b.Name() != "len" {
			return false
		}
		return c17Field(f, call.Args[0]) == clientsF
	}
	// the cap: Spec.MaxAllowedConnection, possibly through a single-assignment local or a parameter
	// (the spec is immutable for the lifetime of a broker, so a snapshot is as good as the field)
	isCap := func(e ast.Expr) bool { return bind.fieldOf(e) == capF }
	constInt := func(e ast.Expr) (int64, bool) {
		if tv := f.Info.Types[e]; tv.Value != nil && tv.Value.Kind() == constant.Int {
			return constant.Int64Val(tv.Value)
		}
		return 0, false
	}
	// a predicate helper `atCap(n int) bool { return n >= cap }`: the length arrives as an int parameter
	// of a reach function other than the root; whether it IS len(clients) is decided per call (OnInline)
	lenParam := func(e ast.Expr) types.Object {
		o := c17Obj(f, c17StripConv(f, e))
		if o == nil {
			return nil
		}
		if _, isP := bind.owner[o]; !isP || bind.isRootParam(o) || bind.pidx[o] < 0 || len(bind.asg[o]) > 0 || bind.dirty[o] {
			return nil
		}
		if b, ok := o.Type().Underlying().(*types.Basic); !ok || b.Info()&types.IsInteger == 0 {
			return nil
		}
		return o
	}
	paramEv := func(o types.Object) string { return "ev:c17:param-is-len:" + o.Name() + "@" + f.Pos(o.Pos()) }
	var roomAtoms, enabledAtoms []c17Atom
	eachNode(func(n ast.Node) bool {
		be, ok := n.(*ast.BinaryExpr)
		if !ok {
			return true
		}
		switch be.Op {
		case token.LSS, token.GTR, token.LEQ, token.GEQ, token.EQL, token.NEQ:
		default:
			return true
		}
		switch {
		case isLenClients(be.X) && isCap(be.Y):
			roomAtoms = append(roomAtoms, c17Atom{e: be, op: be.Op})
		case isCap(be.X) && isLenClients(be.Y):
			roomAtoms = append(roomAtoms, c17Atom{e: be, op: c17Flip(be.Op)})
		case lenParam(be.X) != nil && isCap(be.Y):
			roomAtoms = append(roomAtoms, c17Atom{e: be, op: be.Op, param: lenParam(be.X)})
		case isCap(be.X) && lenParam(be.Y) != nil:
			roomAtoms = append(roomAtoms, c17Atom{e: be, op: c17Flip(be.Op), param: lenParam(be.Y)})
		case isCap(be.X):
			if k, ok := constInt(be.Y); ok {
				enabledAtoms = append(enabledAtoms, c17Atom{e: be, op: be.Op, k: k})
			}
		case isCap(be.Y):
			if k, ok := constInt(be.X); ok {
				enabledAtoms = append(enabledAtoms, c17Atom{e: be, op: c17Flip(be.Op), k: k})
			}
		}
		return true
	})
	// lookups of the insertion key in the client table
	type lookup struct {
		stmt    ast.Node
		key     string // fact key
		presVal flow.Val
		ev      string
	}
	var lookups []lookup
	eachNode(func(n ast.Node) bool {
		as, ok := n.(*ast.AssignStmt)
		if !ok || len(as.Rhs) != 1 {
			return true
		}
		ix, ok := ast.Unparen(as.Rhs[0]).(*ast.IndexExpr)
		if !ok || c17Field(f, ix.X) != clientsF || bind.canon(ix.Index) != insCanon {
			return true
		}
		ev := "ev:c17:lookup-locked@" + f.Pos(as.Pos())
		switch len(as.Lhs) {
		case 2:
			if id, ok := as.Lhs[1].(*ast.Ident); ok && id.Name != "_" {
				if o := c17Obj(f, id); single(o) {
					lookups = append(lookups, lookup{as, f.VarKey(id), flow.True, ev})
				}
			}
		case 1:
			if id, ok := as.Lhs[0].(*ast.Ident); ok && id.Name != "_" {
				if o := c17Obj(f, id); single(o) {
					lookups = append(lookups, lookup{as, f.NilKey(id), flow.False, ev})
				}
			}
		}
		return true
	})
	for _, d := range bind.derivedLookups(clientsF, insCanon) {
		ev := "ev:c17:lookup-locked@" + f.Pos(d.stmt.Pos())
		switch {
		case d.okID != nil && single(c17Obj(f, d.okID)):
			lookups = append(lookups, lookup{d.stmt, f.VarKey(d.okID), flow.True, ev})
		case d.valID != nil && single(c17Obj(f, d.valID)):
			lookups = append(lookups, lookup{d.stmt, f.NilKey(d.valID), flow.False, ev})
		}
	}

	const (
		evLocked   = "ev:c17:broker-write-locked"
		evRoom     = "ev:c17:room"
		evDisabled = "ev:c17:cap-disabled"
		evPresent  = "ev:c17:key-present"
		evFull     = "ev:c17:found-full"
		evInserted = "ev:c17:inserted"
		evCode     = "ev:c17:connack-code-unavailable"
		evRefused  = "ev:c17:refusal-written"
		evRan      = "ev:c17:read-loop-entered"
		evRemoved  = "ev:c17:entry-removed"
	)
	// the inserted value (the client) and the calls that take responsibility for the entry
	valCanon := ""
	for i, l := range ins.Lhs {
		if ix, ok := ast.Unparen(l).(*ast.IndexExpr); ok && c17Field(f, ix.X) == clientsF && len(ins.Lhs) == len(ins.Rhs) {
			valCanon = bind.canon(ins.Rhs[i])
		}
	}
	room3 := func(st *flow.State) flow.Val {
		if v := st.Get(evRoom); v != flow.Unknown {
			return v
		}
		for _, a := range roomAtoms {
			if a.param != nil && !st.Is(paramEv(a.param), flow.True) {
				continue
			}
			t := c17Truth(f, st, a.e)
			if t == flow.Unknown {
				continue
			}
			yes := t == flow.True
			switch a.op {
			case token.LSS:
				if yes {
					return flow.True
				}
				return flow.False
			case token.GEQ:
				if yes {
					return flow.False
				}
				return flow.True
			case token.GTR, token.EQL:
				if yes {
					return flow.False
				}
			case token.LEQ, token.NEQ:
				if !yes {
					return flow.False
				}
			}
		}
		return flow.Unknown
	}
	disabled3 := func(st *flow.State) flow.Val {
		if v := st.Get(evDisabled); v != flow.Unknown {
			return v
		}
		for _, a := range enabledAtoms {
			t := c17Truth(f, st, a.e)
			if t == flow.Unknown {
				continue
			}
			yes := t == flow.True
			switch {
			case (a.op == token.GTR && a.k == 0) || (a.op == token.GEQ && a.k == 1):
				if yes {
					return flow.False
				}
				return flow.True
			case (a.op == token.LEQ && a.k == 0) || (a.op == token.LSS && a.k == 1):
				if yes {
					return flow.True
				}
				return flow.False
			case a.op == token.EQL && a.k == 0:
				if yes {
					return flow.True
				}
			case a.op == token.NEQ && a.k == 0:
				if !yes {
					return flow.True
				}
			}
		}
		return flow.Unknown
	}
	present3 := func(st *flow.State) flow.Val {
		if v := st.Get(evPresent); v != flow.Unknown {
			return v
		}
		for _, l := range lookups {
			if !st.Is(l.ev, flow.True) {
				continue
			}
			v := st.Get(l.key)
			if v == flow.Unknown {
				continue
			}
			if v == l.presVal {
				return flow.True
			}
			return flow.False
		}
		return flow.Unknown
	}
	resetSection := func(st *flow.State) {
		st.Set(evRoom, flow.Unknown)
		st.Set(evDisabled, flow.Unknown)
		st.Set(evPresent, flow.Unknown)
		for _, a := range roomAtoms {
			k, _ := f.Atom(a.e)
			st.Set(k, flow.Unknown)
		}
		for _, a := range enabledAtoms {
			k, _ := f.Atom(a.e)
			st.Set(k, flow.Unknown)
		}
		for _, l := range lookups {
			st.Set(l.key, flow.Unknown)
			st.Set(l.ev, flow.Unknown)
		}
	}
	latch := func(st *flow.State) {
		if !st.Is(evLocked, flow.True) {
			return
		}
		r, d, p := room3(st), disabled3(st), present3(st)
		if r != flow.Unknown {
			st.Set(evRoom, r)
		}
		if d != flow.Unknown {
			st.Set(evDisabled, d)
		}
		if p != flow.Unknown {
			st.Set(evPresent, p)
		}
		if r == flow.False && d != flow.True && p != flow.True && !st.Is(evInserted, flow.True) {
			st.Set(evFull, flow.True)
		}
	}
	isBrokerLock := func(recv ast.Expr) bool {
		if tv := f.Info.Types[recv]; tv.Type != nil {
			t := tv.Type
			if p, ok := t.(*types.Pointer); ok {
				t = p.Elem()
			}
			if types.Identical(t, brokerT) {
				return true
			}
		}
		if fld := c17Field(f, recv); fld != nil {
			for _, m := range append(c17FieldsByType(brokerT, "sync.Mutex"), c17FieldsByType(brokerT, "sync.RWMutex")...) {
				if m == fld {
					return true
				}
			}
		}
		return false
	}

	type bad struct {
		st  *flow.State
		why string
	}
	var badIns []bad
	insStates := 0
	// interpret in place the helpers that contain the cap test, the lookup, the insertion or a
	// broker lock operation ("extract function" under the lock)
	isLookup := func(n ast.Node) bool {
		for _, l := range lookups {
			if n == l.stmt {
				return true
			}
		}
		return false
	}
	inl := bind.inline(func(h *flow.Func, n ast.Node) bool {
		switch x := n.(type) {
		case *ast.AssignStmt:
			return x == ins || isLookup(x)
		case *ast.BinaryExpr:
			for _, a := range roomAtoms {
				if a.e == x {
					return true
				}
			}
			for _, a := range enabledAtoms {
				if a.e == x {
					return true
				}
			}
		case *ast.CallExpr:
			if op, recv := c17Mutex(h, x); op != "" && isBrokerLock(recv) {
				return true
			}
			// the refusal (CONNACK code + write) may live in a helper
			if fo := c17CalleeFunc(h, x); fo != nil && fo.FullName() == "(*"+c17Packets+".ConnackPacket).Write" {
				return true
			}
			// who takes responsibility for the registered client
			if mqr.isReadLoop(h, x) || mqr.isRemover(h, x) {
				return true
			}
		}
		return false
	})
	res := analyze(c, f, flow.Config{
		InlineClosures: true,
		Inline: func(call *ast.CallExpr, callee *types.Func) *flow.Func {
			if mqr.isReadLoop(f, call) || mqr.isRemover(f, call) ||
				calleeIs(f, call, "(*"+mq+".Client).closeAndDelSession", "(*"+mq+".Client).close") {
				return nil // modelled by events
			}
			return inl(call, callee)
		},
		OnNode: func(st *flow.State, n ast.Node) {
			latch(st)
			for _, l := range lookups {
				if n == l.stmt {
					st.Set(l.ev, st.Get(evLocked))
					st.Set(evPresent, flow.Unknown)
				}
			}
			as, ok := n.(*ast.AssignStmt)
			if !ok {
				return
			}
			if as == ins {
				insStates++
				r, d, p := room3(st), disabled3(st), present3(st)
				switch {
				case !st.Is(evLocked, flow.True):
					badIns = append(badIns, bad{st, "a client is inserted into Broker.clients without the broker's write lock held: concurrent CONNECTs can both pass the cap test and both insert, exceeding maxAllowedConnection (and the map is written concurrently)"})
				case p == flow.True || d == flow.True || r == flow.True:
				default:
					badIns = append(badIns, bad{st, sprintf("a client is inserted although, in this critical section, none of {client id already present (takeover): %s, cap disabled (MaxAllowedConnection<=0): %s, len(clients) < MaxAllowedConnection: %s} is established: the number of connected clients can exceed maxAllowedConnection", p, d, r)})
				}
				st.Set(evInserted, flow.True)
				st.Set(evRoom, flow.Unknown)
				for _, a := range roomAtoms {
					k, _ := f.Atom(a.e)
					st.Set(k, flow.Unknown)
				}
				return
			}
			// connack.ReturnCode = <code>
			if len(as.Lhs) == len(as.Rhs) {
				for i, l := range as.Lhs {
					fld := c17Field(f, l)
					if fld == nil || fld.Name() != "ReturnCode" || fld.Pkg() == nil || fld.Pkg().Path() != c17Packets {
						continue
					}
					tv := f.Info.Types[as.Rhs[i]]
					switch {
					case tv.Value != nil && constant.Compare(tv.Value, token.EQL, refused):
						st.Set(evCode, flow.True)
					case tv.Value == nil && (st.Is("eq:"+f.Render(ast.Unparen(as.Rhs[i]))+"=="+refused.ExactString(), flow.True) ||
						st.Is("ev:c17:param-is-refused-code:"+f.Render(ast.Unparen(as.Rhs[i])), flow.True)):
						// the code arrives through a parameter / local whose value is known on this path
						st.Set(evCode, flow.True)
					default:
						st.Set(evCode, flow.False)
					}
				}
			}
		},
		AfterAssume: func(st *flow.State, cond ast.Expr, outcome bool) { latch(st) },
		OnInline: func(st *flow.State, ev *flow.InlineEvent) {
			if !ev.Enter {
				latch(st)
				return
			}
			for i, pid := range ev.Params {
				o := c17Obj(f, pid)
				// a constant argument (the CONNACK code handed to a refuse(code) helper)
				if o != nil && i < len(ev.Args) {
					if tv := f.Info.Types[ev.Args[i]]; tv.Value != nil && tv.Value.Kind() == constant.Int {
						if constant.Compare(tv.Value, token.EQL, refused) {
							st.Set("ev:c17:param-is-refused-code:"+f.Render(pid), flow.True)
						} else {
							st.Set("ev:c17:param-is-refused-code:"+f.Render(pid), flow.False)
						}
					}
				}
				isLenP := false
				for _, a := range roomAtoms {
					if a.param != nil && a.param == o {
						isLenP = true
					}
				}
				if !isLenP || i >= len(ev.Args) {
					continue
				}
				if isLenClients(ev.Args[i]) {
					st.Set(paramEv(o), flow.True)
				} else {
					st.Set(paramEv(o), flow.False)
				}
			}
		},
		OnCall: func(st *flow.State, call *ast.CallExpr, callee types.Object, deferred bool) {
			latch(st)
			if op, recv := c17Mutex(f, call); op != "" && isBrokerLock(recv) {
				switch op {
				case "Lock":
					resetSection(st)
					st.Set(evLocked, flow.True)
				case "Unlock":
					resetSection(st)
					st.Set(evLocked, flow.False)
				case "RLock", "RUnlock":
					resetSection(st)
					st.Set(evLocked, flow.False)
				}
				return
			}
			if fo, ok := callee.(*types.Func); ok && fo.FullName() == "(*"+c17Packets+".ConnackPacket).Write" {
				if st.Is(evCode, flow.True) {
					st.Set(evRefused, flow.True)
				}
			}
			if mqr.isReadLoop(f, call) {
				st.Set("ev:c17:served", flow.True)
			}
			if !st.Is(evInserted, flow.True) {
				return
			}
			switch {
			case mqr.isReadLoop(f, call):
				if sel := c17CallSel(f, call); sel != nil && (valCanon == "" || bind.canon(sel.X) == valCanon) {
					st.Set(evRan, flow.True)
				}
			case mqr.isRemover(f, call):
				st.Set(evRemoved, flow.True)
			default:
				if b, ok := callee.(*types.Builtin); ok && b.Name() == "delete" && len(call.Args) == 2 && c17Field(f, call.Args[0]) == clientsF {
					st.Set(evRemoved, flow.True)
				}
			}
		},
	})
	if res == nil {
		return
	}
	c.RequireCount("R-C17-5", "abstract states at the insertion in "+cons, insStates, 1)
	if len(badIns) > 0 {
		c.Violate("R-C17-5", cons+"|insert only with room", pos(c, ins), badIns[0].why, witness(badIns[0].st)...)
	} else {
		c.Discharge("R-C17-5", cons+"|insert only with room", pos(c, ins),
			sprintf("%d abstract states reach the insertion, all write-locked with takeover / cap disabled / len<cap established in the same critical section", insStates))
	}

	nFull := 0
	var badRef, badLock *bad
	var badRefAt, badLockAt ast.Node
	for _, ex := range res.Exits {
		st := ex.State
		if st.Is(evLocked, flow.True) && badLock == nil {
			badLock, badLockAt = &bad{st, "an exit keeps the broker's write lock: every later CONNECT (and every other broker operation) blocks forever instead of being served or refused"}, ex.At
		}
		if st.Is(evFull, flow.True) && !st.Is(evInserted, flow.True) {
			nFull++
			if st.Is("ev:c17:served", flow.True) && badRef == nil {
				badRef, badRefAt = &bad{st, "the client that found the table full (and was not registered) is nevertheless handed to its read loop: it is served beyond maxAllowedConnection instead of being refused"}, ex.At
			}
			if !st.Is(evRefused, flow.True) && badRef == nil {
				badRef, badRefAt = &bad{st, "the edge that found the client table full ends without writing a CONNACK whose return code is ErrRefusedServerUnavailable: the client beyond the cap is not refused with server-unavailable"}, ex.At
			}
		}
	}
	switch {
	case badRef != nil:
		c.Violate("R-C17-5", cons+"|refusal is server-unavailable", pos(c, badRefAt), badRef.why, witness(badRef.st)...)
	case nFull == 0:
		c.Violate("R-C17-5", cons+"|refusal is server-unavailable", pos(c, ins),
			"no exit refuses a client after finding len(clients) >= MaxAllowedConnection under the lock")
	default:
		c.Discharge("R-C17-5", cons+"|refusal is server-unavailable", pos(c, ins),
			sprintf("%d exits after finding the table full: none inserted, all wrote CONNACK ErrRefusedServerUnavailable", nFull))
	}
	// every exit after the insertion has handed the client to its read loop (whose exit
	// removes the entry, see c17MQTTTeardown) or has removed the entry itself
	var badOwn *bad
	var badOwnAt ast.Node
	nIns := 0
	for _, ex := range res.Exits {
		st := ex.State
		if !st.Is(evInserted, flow.True) {
			continue
		}
		nIns++
		if !st.Is(evRan, flow.True) && !st.Is(evRemoved, flow.True) && badOwn == nil {
			badOwn, badOwnAt = &bad{st, "an exit after the insertion neither runs the client's read loop (the only code whose termination removes the entry) nor removes the entry: the dead client occupies one of the maxAllowedConnection slots forever, so capacity released by a closed connection never becomes usable again and the broker ends up refusing every client with server-unavailable while nobody is connected"}, ex.At
		}
	}
	switch {
	case badOwn != nil:
		c.Violate("R-C17-5", cons+"|inserted client is run or removed", pos(c, badOwnAt), badOwn.why, witness(badOwn.st)...)
	case nIns == 0:
		c.Violate("R-C17-5", cons+"|inserted client is run or removed", pos(c, ins), "no exit is reachable after the insertion")
	default:
		c.Discharge("R-C17-5", cons+"|inserted client is run or removed", pos(c, ins), sprintf("%d exits after the insertion: all entered readLoop or removed the entry", nIns))
	}
	if badLock != nil {
		c.Violate("R-C17-5", cons+"|lock released on every exit", pos(c, badLockAt), badLock.why, witness(badLock.st)...)
	} else {
		c.Discharge("R-C17-5", cons+"|lock released on every exit", pos(c, ins), sprintf("%d exits, none holds the broker lock", len(res.Exits)))
	}
}
